"""Expression generators and the y0-expression -> Gallina serialiser (names: A..Z without P,Q -> 0..23; Z10 -> 24, Z2 -> 25;
V<d> -> 100+d; pi<d> -> 200+d)."""
from __future__ import annotations

import random

ALPHA = list("ABCDEFGHIJKLMNORSTUVWXYZ") + ["Z10", "Z2"]   # the last two: names of different lengths (string order = index order)
EXC = {"ZeroDivisionError": 1, "ValueError": 2, "TypeError": 3, "KeyError": 4}


def name_id(name: str) -> int:
    if name in ALPHA:
        return ALPHA.index(name)
    if len(name) == 2 and name[0] == "V" and name[1].isdigit():
        return 100 + int(name[1])
    if len(name) == 4 and name.startswith("T_V") and name[3].isdigit():
        return 50 + int(name[3])
    if name.startswith("pi") and name[2:].isdigit() and len(name) == 3:
        return 200 + int(name[2])
    if name == "pi*":
        return 200
    if name.startswith("π") and name[1:].isdigit():
        return 200 + int(name[1:])
    raise ValueError(f"unsupported name {name!r}")


def id_name(i: int) -> str:
    if i < 100:
        return ALPHA[i]
    if i < 200:
        return f"V{i - 100}"
    return "pi*" if i == 200 else f"pi{i - 200}"


def c_star(s) -> str:
    return "None" if s is None else ("(Some true)" if s else "(Some false)")


def c_iv(i) -> str:
    return f"({name_id(i.name)}, {'true' if i.star else 'false'})"


def c_var(v) -> str:
    from y0.dsl import CounterfactualVariable, Intervention
    if isinstance(v, CounterfactualVariable):
        ivs = sorted(v.interventions, key=lambda i: (name_id(i.name), bool(i.star)))
        return f"(mkVar KCf {name_id(v.name)} {c_star(v.star)} [{'; '.join(c_iv(i) for i in ivs)}])"
    if isinstance(v, Intervention):
        return f"(mkVar KIv {name_id(v.name)} {c_star(v.star)} [])"
    if v.star is None:
        return f"(V {name_id(v.name)})"
    return f"(mkVar KVar {name_id(v.name)} {c_star(v.star)} [])"


def var_key(v):
    from y0.dsl import CounterfactualVariable
    ivs = ()
    if isinstance(v, CounterfactualVariable):
        # order of the strings "+X" < "-X", then name
        ivs = tuple((0 if i.star else 1, name_id(i.name)) for i in sorted(v.interventions, key=lambda i: (name_id(i.name), bool(i.star))))
    return (name_id(v.name), ivs)


def c_vars(vs, sort=False) -> str:
    vs = list(vs)
    if sort:
        vs = sorted(vs, key=var_key)
    return "[" + "; ".join(c_var(v) for v in vs) + "]"


def c_expr(e) -> str:
    from y0.dsl import Fraction, One, PopulationProbability, Probability, Product, QFactor, Sum, Zero
    if isinstance(e, PopulationProbability):
        return f"(EProb (Some {c_var(e.population)}) {c_vars(e.children)} {c_vars(e.parents)})"
    if isinstance(e, Probability):
        return f"(EProb None {c_vars(e.children)} {c_vars(e.parents)})"
    if isinstance(e, Product):
        return "(EProd [" + "; ".join(c_expr(x) for x in e.expressions) + "])"
    if isinstance(e, Sum):
        return f"(ESum {c_expr(e.expression)} {c_vars(e.ranges, sort=True)})"
    if isinstance(e, Fraction):
        return f"(EFrac {c_expr(e.numerator)} {c_expr(e.denominator)})"
    if isinstance(e, One):
        return "EOne"
    if isinstance(e, Zero):
        return "EZero"
    if isinstance(e, QFactor):
        return f"(EQ {c_vars(e.domain, sort=True)} {c_vars(e.codomain, sort=True)})"
    raise TypeError(type(e))


def c_result(f) -> str:
    """Run f(); serialise its expression result or its exception as EErr."""
    try:
        return c_expr(f())
    except Exception as ex:  # noqa: BLE001
        return f"(EErr {EXC.get(type(ex).__name__, 9)})"


# ---------------------------------------------------------------- generators


class ExprGen:
    """Grammar-directed random expressions. `rich` adds value marks, interventions, populations and Q factors."""

    def __init__(self, rng: random.Random, names=None, rich=True, wellscoped=False, public=False):
        self.rng = rng
        self.public = public
        self.names = names or ALPHA[:6]
        self.rich = rich
        self.wellscoped = wellscoped

    def var(self, name, allow_mark=True):
        from y0.dsl import Variable
        r = self.rng.random()
        if self.rich and allow_mark and r < 0.12:
            if self.public:
                return -Variable(name) if self.rng.random() < 0.5 else +Variable(name)
            return Variable(name, star=self.rng.random() < 0.5)
        if self.rich and allow_mark and r < 0.2:
            # a counterfactual variable of its own (long-form terms mix worlds), with or without a value mark, 1..3 interventions
            others = [n for n in self.names if n != name]
            if self.rng.random() < 0.15:
                others = list(self.names)      # X @ X: a variable intervened on itself
            if others:
                base = Variable(name) if self.rng.random() < 0.5 else (+Variable(name) if self.rng.random() < 0.5 else -Variable(name))
                ivs = [(+Variable(n) if self.rng.random() < 0.3 else Variable(n)) for n in self.rng.sample(others, min(len(others), self.rng.randint(1, 3)))]
                return base @ ivs
        return Variable(name)

    def atom(self, avail=None):
        """A random term; combining a counterfactual child with the P[...] builder can be contradictory (ValueError): retry."""
        from y0.dsl import P, Variable
        for _ in range(30):
            try:
                return self._atom(avail)
            except (ValueError, TypeError):
                continue
        return P(Variable(list(avail or self.names)[0]))

    def _atom(self, avail=None):
        from y0.dsl import PP, P, Q, Variable
        rng = self.rng
        names = list(avail or self.names)
        k = rng.randint(1, min(3, len(names)))
        chosen = rng.sample(names, min(len(names), k + rng.randint(0, 2)))
        ch, pa = chosen[:k], chosen[k:]
        r = rng.random()
        if self.rich and r < 0.08 and len(chosen) >= 2:
            return Q[[Variable(n) for n in ch]](*[Variable(n) for n in (pa or ch[:1])])
        children = [self.var(n) for n in ch]
        parents = [self.var(n) for n in pa]
        rng.shuffle(children)
        head = children[:-1] + [children[-1] | parents if parents else children[-1]]
        builder = P
        if self.rich and rng.random() < 0.12:
            builder = PP[Variable(rng.choice(["S", "T"]))]
        if self.rich and rng.random() < 0.15:
            others = [n for n in self.names if n not in chosen]
            if rng.random() < 0.3:
                others = list(self.names)      # an intervention on a variable of the distribution itself: P[X](X, Y) is P(X @ X, Y @ X)
            if others:
                ivs = rng.sample(others, min(len(others), rng.randint(1, 2)))
                ivars = [(+Variable(n) if rng.random() < 0.3 else Variable(n)) for n in ivs]
                return self._pp_iv(builder, ivars, head)
        return builder(*head)

    def _pp_iv(self, builder, ivars, head):
        from y0.dsl import P, PopulationProbability
        p = P[ivars](*head)
        if builder is P:
            return p
        return PopulationProbability(population=builder.population, distribution=p.distribution)

    def twin(self, e):
        """The term e with the value mark of one of its variables (child, parent or subscript) changed; None if e is no term."""
        from y0.dsl import Probability
        if not isinstance(e, Probability):
            return None
        t = to_tree(e)
        slots = [v for v in t[2] + t[3]]
        slots += [iv for v in t[2] + t[3] if v["k"] == "C" for iv in v["i"]]
        slot = self.rng.choice(slots)
        if isinstance(slot, dict):
            slot["s"] = self.rng.choice([x for x in (None, False, True) if x != slot["s"]])
            if slot["k"] in ("V", "I"):      # what the public operators build: +X / -X is an Intervention, X a Variable
                slot["k"] = "V" if slot["s"] is None else "I"
        else:
            slot[1] = not slot[1]
        for v in t[2] + t[3]:
            if v["k"] == "C":
                v["i"] = sorted(v["i"])
        try:
            return from_tree(t)
        except Exception:  # noqa: BLE001
            return None

    def expr(self, depth: int, bound=frozenset()):
        """A random expression; building may hit ZeroDivisionError (a Zero reaching a denominator): retry."""
        for _ in range(50):
            try:
                return self._expr(depth, bound)
            except (ZeroDivisionError, ValueError, TypeError):
                continue
        return self.atom()

    def _expr(self, depth: int, bound=frozenset()):
        from y0.dsl import Fraction, One, Product, Sum, Variable, Zero
        rng = self.rng
        if depth <= 0 or rng.random() < 0.25:
            r = rng.random()
            if r < 0.05:
                return One()
            if r < 0.08 and not self.wellscoped:
                return Zero()
            return self.atom()
        r = rng.random()
        if r < 0.35:
            k = rng.randint(2, 3)
            parts = [self.expr(depth - 1, bound) for _ in range(k)]
            if self.rich and rng.random() < 0.2:     # a near-twin of one factor: the same term with one value mark changed (ties in every sort key but the last)
                tw = self.twin(rng.choice(parts))
                if tw is not None:
                    parts.insert(rng.randrange(len(parts) + 1), tw)
            if rng.random() < 0.5 and not self.public:
                try:
                    return Product(tuple(parts))
                except Exception:
                    pass
            out = parts[0]
            for p in parts[1:]:
                out = out * p
            return out
        if r < 0.65:
            inner = self.expr(depth - 1, bound)
            avail = [n for n in self.names if n not in bound] if self.wellscoped else self.names
            if not avail:
                return inner
            rs = rng.sample(avail, rng.randint(1, min(3, len(avail))))
            if rng.random() < 0.5 and not self.public:
                try:
                    return Sum(inner, frozenset(Variable(n) for n in rs))
                except Exception:
                    pass
            return Sum.safe(inner, [Variable(n) for n in rs], simplify=(rng.random() < 0.3 and not self.public))
        n, d = self.expr(depth - 1, bound), self.expr(depth - 1, bound)
        if rng.random() < 0.5 and not self.public:
            try:
                return Fraction(n, d)
            except ZeroDivisionError:
                return n
        try:
            return n / d
        except ZeroDivisionError:
            return n


# ---------------------------------------------------------------- JSON trees (exact rebuild by raw constructors)


def var_tree(v):
    from y0.dsl import CounterfactualVariable, Intervention
    if isinstance(v, CounterfactualVariable):
        return {"k": "C", "n": v.name, "s": v.star, "i": sorted([i.name, bool(i.star)] for i in v.interventions)}
    if isinstance(v, Intervention):
        return {"k": "I", "n": v.name, "s": v.star}
    return {"k": "V", "n": v.name, "s": v.star}


def tree_var(t):
    from y0.dsl import CounterfactualVariable, Intervention, Variable
    if t["k"] == "C":
        return CounterfactualVariable(name=t["n"], star=t["s"], interventions=frozenset(Intervention(name=n, star=s) for n, s in t["i"]))
    if t["k"] == "I":
        return Intervention(name=t["n"], star=t["s"])
    return Variable(t["n"], star=t["s"])


def to_tree(e):
    from y0.dsl import Fraction, One, PopulationProbability, Probability, Product, QFactor, Sum, Zero
    if isinstance(e, Probability):
        pop = var_tree(e.population) if isinstance(e, PopulationProbability) else None
        return ["P", pop, [var_tree(v) for v in e.children], [var_tree(v) for v in e.parents]]
    if isinstance(e, Product):
        return ["*", [to_tree(x) for x in e.expressions]]
    if isinstance(e, Sum):
        return ["S", to_tree(e.expression), [var_tree(v) for v in sorted(e.ranges, key=var_key)]]
    if isinstance(e, Fraction):
        return ["/", to_tree(e.numerator), to_tree(e.denominator)]
    if isinstance(e, One):
        return ["1"]
    if isinstance(e, Zero):
        return ["0"]
    if isinstance(e, QFactor):
        return ["Q", [var_tree(v) for v in sorted(e.domain, key=var_key)], [var_tree(v) for v in sorted(e.codomain, key=var_key)]]
    raise TypeError(type(e))


def from_tree(t):
    from y0.dsl import Distribution, Fraction, One, PopulationProbability, Probability, Product, QFactor, Sum, Zero
    tag = t[0]
    if tag == "P":
        d = Distribution(children=tuple(tree_var(v) for v in t[2]), parents=tuple(tree_var(v) for v in t[3]))
        return Probability(d) if t[1] is None else PopulationProbability(population=tree_var(t[1]), distribution=d)
    if tag == "*":
        return Product(tuple(from_tree(x) for x in t[1]))
    if tag == "S":
        return Sum(from_tree(t[1]), frozenset(tree_var(v) for v in t[2]))
    if tag == "/":
        return Fraction(from_tree(t[1]), from_tree(t[2]))
    if tag == "1":
        return One()
    if tag == "0":
        return Zero()
    if tag == "Q":
        return QFactor(domain=frozenset(tree_var(v) for v in t[1]), codomain=frozenset(tree_var(v) for v in t[2]))
    raise ValueError(tag)


def tree_size(t) -> int:
    if isinstance(t, list):
        return 1 + sum(tree_size(x) for x in t)
    return 1
