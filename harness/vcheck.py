"""./vcheck <Cxx> quick|thorough | replay <file> | setup   (see DESIGN.md section 2)"""
from __future__ import annotations

import collections
import hashlib
import importlib
import json
import os
import random
import re
import subprocess
import sys
import time
from pathlib import Path

sys.path.insert(0, str(Path(__file__).resolve().parent))
import common as C  # noqa: E402


def load_prop(pid: str):
    mod = importlib.import_module(f"props.{pid.lower()}")
    return mod.PROP


# ------------------------------------------------------------------ worker (one shard)


def install_graph_monitors():
    """Runtime monitors on the query methods of NxMixedGraph, for every property: each answer is compared with the definition evaluated directly on
    the object's current networkx data (graph.directed / graph.undirected). Whatever an algorithm computes from a wrong answer of these methods is
    wrong for THIS graph, so a difference is reported as a violation of the property under check, with the case as the failing input.
    Returns the list the monitors append their complaints to."""
    import networkx as nx
    from y0.graph import NxMixedGraph

    broken = []

    def name(g):
        return f"nodes {sorted(map(str, g.nodes()))}"

    orig_topo = NxMixedGraph.topological_sort

    def topological_sort(self):
        o = list(orig_topo(self))
        pos = {v: i for i, v in enumerate(o)}
        if set(o) != set(self.directed.nodes()) or len(o) != len(pos) or any(pos[a] >= pos[b] for a, b in self.directed.edges()):
            broken.append(f"topological_sort() = {[str(v) for v in o]} is not a topological order of the graph ({name(self)}, edges "
                          f"{[(str(a), str(b)) for a, b in self.directed.edges()]})")
        return o

    orig_districts = NxMixedGraph.districts

    def districts(self):
        d = orig_districts(self)
        want = {frozenset(c) for c in nx.connected_components(self.undirected)}
        want |= {frozenset([v]) for v in self.directed.nodes() if v not in self.undirected}
        if {frozenset(c) for c in d} != want:
            broken.append(f"districts() = {sorted(sorted(map(str, c)) for c in d)} but the bidirected components of the graph are "
                          f"{sorted(sorted(map(str, c)) for c in want)}")
        return d

    def closure(method, nxfun):
        orig = getattr(NxMixedGraph, method)

        def wrapped(self, sources):
            srcs = list(sources) if not hasattr(sources, "name") else [sources]
            out = orig(self, srcs)
            try:
                want = set(srcs)
                for s_ in srcs:
                    want |= nxfun(self.directed, s_)
            except Exception:  # noqa: BLE001  -- a source that is not a node: the method's own business
                return out
            if set(out) != want:
                broken.append(f"{method}({sorted(map(str, srcs))}) = {sorted(map(str, out))} but the closure over the directed edges is {sorted(map(str, want))}")
            return out
        setattr(NxMixedGraph, method, wrapped)

    orig_dis = NxMixedGraph.disorient

    def disorient(self):
        d = orig_dis(self)
        want_n = set(self.directed.nodes()) | set(self.undirected.nodes())
        want_e = {frozenset(e) for e in self.directed.edges()} | {frozenset(e) for e in self.undirected.edges()}
        if set(d.nodes()) != want_n or {frozenset(e) for e in d.edges()} != want_e:
            broken.append(f"disorient() does not have the nodes and edges of the graph ({name(self)})")
        return d

    orig_sub = NxMixedGraph.subgraph

    def subgraph(self, vertices):
        vs = set(vertices) if not hasattr(vertices, "name") else {vertices}
        out = orig_sub(self, vs)
        keep = vs & set(self.directed.nodes())
        want_d = {(a, b) for a, b in self.directed.edges() if a in keep and b in keep}
        want_u = {frozenset((a, b)) for a, b in self.undirected.edges() if a in keep and b in keep}
        if set(out.directed.edges()) != want_d or {frozenset(e) for e in out.undirected.edges()} != want_u or not keep <= set(out.nodes()):
            broken.append(f"subgraph({sorted(map(str, vs))}) is not the induced subgraph of the graph as it is now ({name(self)})")
        return out

    try:
        NxMixedGraph.topological_sort = topological_sort
        NxMixedGraph.districts = districts
        closure("ancestors_inclusive", nx.ancestors)
        closure("descendants_inclusive", nx.descendants)
        NxMixedGraph.disorient = disorient
        NxMixedGraph.subgraph = subgraph
    except Exception:  # noqa: BLE001
        pass
    return broken


def corpus_note(pid):
    try:
        n = len(json.load(open(os.path.join(os.path.dirname(os.path.abspath(__file__)), "corpus", f"{pid}.json"))))
    except (OSError, ValueError):
        return ""
    return (f"; run first: {n} cases of this generator selected by (control-flow edge of y0, hit-count) coverage (harness/corpus/{pid}.json, "
            "tools/mkcovcorpus.py)")


def worker_main(argv):
    pid, tier, seed, shard, nshards, n, outfile = argv[0], argv[1], int(argv[2]), int(argv[3]), int(argv[4]), int(argv[5]), argv[6]
    import warnings

    warnings.simplefilter("ignore")
    import logging

    logging.disable(logging.CRITICAL)
    prop = load_prop(pid)
    rng = random.Random(f"{seed}/{shard}")
    cases = prop.gen(rng, tier, n, shard, nshards)
    if shard == 0:
        # the coverage corpus runs first: one generated case per (control-flow edge, hit-count) of y0 that the generator has been seen to reach
        # (tools/mkcovcorpus.py); ordinary cases, decided like every other
        try:
            corpus = json.load(open(os.path.join(os.path.dirname(os.path.abspath(__file__)), "corpus", f"{pid}.json")))
        except (OSError, ValueError):
            corpus = []
        have = {json.dumps(c, sort_keys=True) for c in cases}
        cases = [c for c in corpus if json.dumps(c, sort_keys=True) not in have] + cases
    broken = install_graph_monitors()
    with open(outfile, "w") as fh:
        for case in cases:
            t0 = time.time()
            del broken[:]
            try:
                res = prop.run(case)
                term = prop.coq(case, res)
                err = None
                if broken and not res.get("violation"):
                    # a query method of NxMixedGraph answered something else than its definition on the graph AS IT IS NOW (e.g. from a stale cache)
                    res["violation"], res["key"] = broken[0], f"{pid}/graph-query-inconsistent"
            except Exception as e:  # harness failure on this case (not an implementation verdict)
                import traceback

                res, term, err = {"out": None}, None, "".join(traceback.format_exception(e))[-1500:]
            fh.write(json.dumps({"case": case, "res": res, "term": term, "harness_error": err,
                                 "hashseed": os.environ.get("PYTHONHASHSEED"), "t": round(time.time() - t0, 4)}) + "\n")


def run_workers(pid, tier, seed, total, nshards):
    C.RUN.mkdir(exist_ok=True)
    per = (total + nshards - 1) // nshards
    procs = []
    for k in range(nshards):
        out = C.RUN / f"impl_{pid}_{k}.jsonl"
        env = dict(os.environ, PYTHONPATH=f"{C.REPO}/src:{C.VERIF}/harness", PYTHONHASHSEED=str((seed * 31 + k * 7 + 1) % 4294967295),
                   PYTHONDONTWRITEBYTECODE="1", Y0_VERIF="1")
        cmd = [C.PY, "-u"]
        if os.environ.get("VERIF_COVERAGE"):   # development aid (tools/covreport.sh): which lines of y0 do the generated cases reach?
            cmd = [C.PY, "-u", "-m", "coverage", "run", "-p", f"--data-file={os.environ['VERIF_COVERAGE']}/.coverage", f"--source={C.REPO}/src/y0"]
        p = subprocess.Popen(cmd + [str(C.VERIF / "harness" / "vcheck.py"), "--worker", pid, tier, str(seed), str(k),
                                    str(nshards), str(per), str(out)], env=env, stdout=subprocess.PIPE, stderr=subprocess.PIPE, text=True)
        procs.append((k, p, out))
    rows, worker_errors = [], []
    for k, p, out in procs:
        so, se = p.communicate()
        if p.returncode != 0:
            worker_errors.append(f"shard {k}: rc={p.returncode}\n{se[-2000:]}")
        if out.exists():
            for line in out.read_text().splitlines():
                rows.append(json.loads(line))
            out.unlink()
    return rows, worker_errors


def run_replica(pid, tier, seed, total, nshards, salt):
    """Re-run the same shards under other PYTHONHASHSEEDs; returns {case-json: out} for comparison."""
    per = (total + nshards - 1) // nshards
    procs = []
    for k in range(nshards):
        out = C.RUN / f"impl_{pid}_{k}_r{salt}.jsonl"
        env = dict(os.environ, PYTHONPATH=f"{C.REPO}/src:{C.VERIF}/harness", PYTHONHASHSEED=str((seed * 17 + k * 13 + salt * 101 + 5) % 4294967295),
                   PYTHONDONTWRITEBYTECODE="1", Y0_VERIF="1")
        p = subprocess.Popen([C.PY, "-u", str(C.VERIF / "harness" / "vcheck.py"), "--worker", pid, tier, str(seed), str(k),
                              str(nshards), str(per), str(out)], env=env, stdout=subprocess.PIPE, stderr=subprocess.PIPE, text=True)
        procs.append((k, p, out))
    res = {}
    for k, p, out in procs:
        p.communicate()
        if out.exists():
            for line in out.read_text().splitlines():
                r = json.loads(line)
                res[json.dumps(r["case"], sort_keys=True)] = (r["res"].get("out"), r["hashseed"])
            out.unlink()
    return res


# ------------------------------------------------------------------ main check


def write_replay(pid, seed, n, payload) -> Path:
    d = C.REPLAYS / pid
    d.mkdir(parents=True, exist_ok=True)
    path = d / f"{seed}-{n}.json"
    path.write_text(json.dumps(payload, indent=1, default=str))
    return path


def main_check(pid: str, tier: str) -> int:
    t0 = time.time()
    seed = int(os.environ.get("VERIF_SEED", "20260930"))
    tier = os.environ.get("VERIF_TIER", tier) if tier not in ("quick", "thorough") else tier
    prop = load_prop(pid)
    findings = [f for f in C.load_findings() if f["property"] == pid]
    known = {f["key"]: f for f in findings if f["status"] == "known"}
    violations = []  # (key, description, replay payload)
    known_hits = collections.Counter()

    # 1. proof stage
    ok, log = C.make_build()
    proof = C.check_properties_file(pid) if ok else {"ok": False, "theorems": [], "closed": 0, "axiom_blocks": 0,
                                                      "axiom_names": [], "forbidden": [], "log": log, "rc": 2}
    obligations = len(proof["theorems"])
    discharged = min(obligations, proof["closed"] + proof["axiom_blocks"]) if proof["ok"] else 0
    allowed_axioms = set(getattr(prop, "allowed_axioms", []))
    bad_axioms = [a for a in proof["axiom_names"] if a not in allowed_axioms]
    proof_broken = (not proof["ok"]) or bool(bad_axioms)

    # 2. correspondence stage
    # when the code the model covers differs from the tree the model was reconciled with, the quick check explores as much as the thorough one
    changed = C.changed_sources(pid)
    label_tier = tier
    if changed and tier == "quick":
        tier = "thorough"
    total = prop.budgets[tier]
    nshards = min(C.NPROC, max(1, total // 20))
    rows, worker_errors = run_workers(pid, tier, seed, total, nshards)
    replica_diffs = []
    for salt in range(1, getattr(prop, "hashseed_replicas", {}).get(tier, 0) + 1):
        other = run_replica(pid, tier, seed, total, nshards, salt)
        for r in rows:
            k = json.dumps(r["case"], sort_keys=True)
            if k in other and other[k][0] != r["res"].get("out") and not r["harness_error"]:
                replica_diffs.append((r, other[k]))
    harness_errors = [r for r in rows if r["harness_error"]]
    good = [r for r in rows if not r["harness_error"]]
    flat_terms, owner = [], []
    for gi, r in enumerate(good):
        ts = r["term"] if isinstance(r["term"], list) else [r["term"]]
        for t in ts:
            flat_terms.append(t)
            owner.append(gi)
    bad_flat, coq_errors = C.run_case_files(pid, prop.coq_imports, prop.case_type, prop.check_fn, flat_terms,
                                            per_file=getattr(prop, "per_file", 250), extra_defs=getattr(prop, "extra_defs", ""))
    bad_idx = sorted({owner[i] for i in bad_flat})

    # 3. decision
    def report(key, what, payload):
        if key in known:
            known_hits[key] += 1
        else:
            violations.append((key, what, payload))

    bad_set = set(bad_idx)
    for gi, r in enumerate(good):  # property-level failures seen directly on the implementation
        if r["res"].get("violation"):
            key = r["res"].get("key") or prop.finding_key(r["case"], r["res"])
            if gi in bad_set and key in known:
                # a catalogued finding only covers the behaviour of the code as modelled: here the implementation also
                # departs from the model, so this is a different violation and is reported with this input
                key = key + "+departs-from-model"
            report(key, r["res"]["violation"],
                   {"kind": "property-oracle", "case": r["case"], "impl": r["res"], "hashseed": r["hashseed"]})
    search_cache = {}
    for r, (out2, hs2) in replica_diffs:
        report(f"{pid}/hashseed", f"result depends on PYTHONHASHSEED: {r['res'].get('out')} (seed {r['hashseed']}) vs {out2} (seed {hs2})",
               {"kind": "hash-seed-dependence", "case": r["case"], "impl": r["res"], "hashseed": r["hashseed"], "other_hashseed": hs2, "other_out": out2})
    for i in bad_idx:
        r = good[i]
        verdict = prop.classify_mismatch(r["case"], r["res"])  # (is_concrete_failure, description, key)
        payload = {"kind": "model-implementation-mismatch", "case": r["case"], "impl": r["res"], "hashseed": r["hashseed"],
                   "coq_term": r["term"], "obligation": f"correspondence Corr/{pid}.v:{prop.check_fn}"}
        if verdict[0]:
            report(verdict[2], verdict[1], payload)
        elif r["res"].get("violation"):
            continue  # already reported above with this very input as the concrete failing input
        else:
            if verdict[2] not in search_cache:
                try:
                    search_cache[verdict[2]] = prop.search(random.Random(f"{seed}/search/{i}"), r["case"])
                except Exception as ex:  # noqa: BLE001  -- the implementation raised inside the search: no input is reported, the violation stands
                    search_cache[verdict[2]] = None
                    payload["search_raised"] = f"{type(ex).__name__}: {ex}"[:300]
            found = search_cache[verdict[2]]
            if found is not None and found.get("key", verdict[2]) in known:
                # the search stumbled on a catalogued finding: that does not explain why the implementation departs from the model HERE
                found = None
            if found is not None:
                payload.update({"failing_input": found})
                report(found.get("key", verdict[2]), found.get("what", verdict[1]), payload)
            else:
                payload["no_failing_input_found"] = True
                report(verdict[2], verdict[1] + " (no property-level failing input found)", payload)
    if proof_broken:
        try:
            found = prop.search(random.Random(f"{seed}/search/proof"), None)
        except Exception:  # noqa: BLE001
            found = None
        if found is not None and found.get("key") in known:
            found = None
        payload = {"kind": "proof-obligation", "obligation": f"coq/theories/Properties/{pid}.v", "log": proof.get("log", ""),
                   "unexpected_axioms": bad_axioms, "forbidden_tokens": proof.get("forbidden")}
        if found is not None:
            payload["failing_input"] = found
        else:
            payload["no_failing_input_found"] = True
        violations.append(("proof", "proof obligation no longer checks", payload))
    for e in coq_errors + worker_errors:
        violations.append(("harness", "correspondence could not be evaluated", {"kind": "harness", "log": e, "no_failing_input_found": True}))
    if harness_errors:
        r = harness_errors[0]
        violations.append(("harness", f"{len(harness_errors)} cases failed inside the harness",
                           {"kind": "harness", "case": r["case"], "log": r["harness_error"], "no_failing_input_found": True}))

    # 4. evidence
    distinct = {}
    feats = collections.Counter()
    for r in good:
        for f in r["res"].get("features", []):
            feats[f] += 1
        if r["res"].get("nontrivial"):
            distinct[hashlib.sha1(json.dumps(r["case"], sort_keys=True).encode()).hexdigest()] = 1
    samples = [{"case": r["case"], "impl_out": r["res"].get("out")} for r in good[:: max(1, len(good) // 5)][:5]]
    ev = {
        "property_id": pid, "tier": label_tier, "seed": seed, "level": "proof",
        "coverage": {
            "obligations": max(obligations, 1), "discharged": discharged,
            "checker_cmd": f"cd /verif/coq && make && coqc -Q theories Y0 theories/Properties/{pid}.v",
            "theorems": proof["theorems"],
            "print_assumptions": {"closed_under_global_context": proof["closed"], "with_axioms": proof["axiom_blocks"],
                                  "axioms": proof["axiom_names"]},
            "trusted_base": prop.trusted_base + COMMON_TB,
            "evaluations": len(rows), "distinct_nontrivial": len(distinct), "rule": prop.rule + corpus_note(pid),
            "traces_validated_against_impl": len(good) - len(bad_idx),
            "model_impl_mismatches": len(bad_idx), "input_distribution": dict(feats.most_common()),
            "known_findings_hit": dict(known_hits), "samples": samples,
            "hashseed_replicas": getattr(prop, "hashseed_replicas", {}).get(tier, 0), "hashseed_differences": len(replica_diffs),
            "exhaustive": bool(getattr(prop, "exhaustive", {}).get(tier)),
            "source_changed_since_model_reconciled": changed, "budget_tier_used": tier,
            "modelled_not_verified": prop.modelled,
            "explanation": prop.explanation,
        },
        "assumptions": prop.assumptions,
        "wall_s": round(time.time() - t0, 2), "violations": len(violations),
    }
    errs = C.validate_evidence(ev)
    C.EVID.mkdir(exist_ok=True)
    (C.EVID / f"{pid}.json").write_text(json.dumps(ev, indent=1, default=str))
    if errs:
        print("evidence invalid:", errs)

    for key, n in known_hits.items():
        print(f"KNOWN-FINDING: property={pid} {known[key]['what_fails']} [{key}] (seen {n}x this run)")
    print(f"{pid} {label_tier}{' (thorough budget: modelled source changed)' if label_tier != tier else ''}: obligations={obligations} discharged={discharged} cases={len(rows)} nontrivial={len(distinct)} "
          f"mismatches={len(bad_idx)} violations={len(violations)} wall={ev['wall_s']}s")
    if violations:
        seen = set()
        n = 0
        violations.sort(key=lambda v: (v[0], len(json.dumps(v[2].get("case", ""), default=str))))  # smallest input per key
        for key, what, payload in violations:
            if key in seen:
                continue
            seen.add(key)
            payload.update({"property": pid, "seed": seed, "tier": tier, "what": what, "key": key,
                            "replay_cmd": f"./vcheck replay replays/{pid}/{seed}-{n}.json"})
            path = write_replay(pid, seed, n, payload)
            n += 1
            tail = " no-failing-input-found" if payload.get("no_failing_input_found") else ""
            print(f"  {what}")
            print(f"VIOLATION property={pid} replay={path}{tail}")
        return 1
    return 0


COMMON_TB = [
    "Coq 8.16.1 kernel (coqc); vm_compute used for refuted-witness theorems, Examples and the correspondence evaluation; no native_compute",
    "no Axiom/Parameter/Admitted in the development (hygiene grep in ./vcheck setup); Print Assumptions output recorded above",
    "harness/common.py serialiser of inputs and implementation outputs into Gallina terms; comparator functions in coq/theories/Corr/",
    "the statement 'Gallina function f models Python function f' is checked by differential execution on generated inputs, not proved",
    "input generators (harness/gen_*.py) bound what the correspondence explores",
]


# ------------------------------------------------------------------ replay / setup


def main_replay(path: str) -> int:
    payload = json.loads(Path(path).read_text())
    pid = payload["property"]
    prop = load_prop(pid)
    if "case" not in payload:
        print(json.dumps(payload, indent=1)[:3000])
        return 1
    env = dict(os.environ, PYTHONHASHSEED=str(payload.get("hashseed") or 0))
    if os.environ.get("_VCHECK_REPLAY_CHILD") != "1":
        env["_VCHECK_REPLAY_CHILD"] = "1"
        return subprocess.call([C.PY, "-u", __file__, "replay", path], env=env)
    import warnings

    warnings.simplefilter("ignore")
    res = prop.run(payload["case"])
    term = prop.coq(payload["case"], res)
    print("case:", json.dumps(payload["case"]))
    print("implementation now:", json.dumps(res, default=str)[:2000])
    bad, errs = C.run_case_files(pid + "_replay", prop.coq_imports, prop.case_type, prop.check_fn, [term],
                                 extra_defs=getattr(prop, "extra_defs", ""))
    print("model agrees with implementation:", not bad and not errs, errs[:1])
    if hasattr(prop, "model_out"):
        print("model output:", C.eval_terms(prop.coq_imports, [prop.model_out(payload["case"])], getattr(prop, "extra_defs", "")))
    failed = bool(res.get("violation")) or bool(bad) or bool(errs)
    print("REPRODUCED" if failed else "NOT REPRODUCED")
    return 1 if failed else 0


def main_setup() -> int:
    t0 = time.time()
    ok, log = C.make_build()
    if not ok:
        print(log)
        print("setup: Coq build FAILED")
        return 1
    # hygiene
    pat = re.compile(r"\b(Admitted|admit|Axiom|Parameter|Conjecture|Unset Guard|bypass_check|type-in-type|impredicative-set)\b")
    hits = []
    for p in (C.COQ / "theories").rglob("*.v"):
        txt = re.sub(r"\(\*.*?\*\)", "", p.read_text(), flags=re.S)
        for m in pat.finditer(txt):
            hits.append(f"{p.relative_to(C.COQ)}: {m.group(0)}")
        # Variable / Hypothesis / Context are allowed only inside a Section (they become premises of the closed theorems)
        depth = 0
        for line in txt.splitlines():
            t = line.strip()
            if re.match(r"Section\s+\w+\s*\.", t):
                depth += 1
            elif re.match(r"End\s+\w+\s*\.", t) and depth > 0:
                depth -= 1
            elif depth == 0 and re.match(r"(Variables?|Hypothes[ie]s|Context)\b", t):
                hits.append(f"{p.relative_to(C.COQ)}: {t[:40]} outside a section")
    if hits:
        print("setup: forbidden tokens:", hits)
        return 1
    print(f"setup: Coq build ok, hygiene ok ({round(time.time() - t0, 1)}s)")
    if os.environ.get("VERIF_COQCHK") == "1":
        mods = [("Y0." + ".".join(p.relative_to(C.COQ / "theories").with_suffix("").parts)) for p in (C.COQ / "theories" / "Properties").glob("*.v")]
        r = subprocess.run(["timeout", "1800", "coqchk", "-silent", "-o", "-Q", "theories", "Y0", *mods], cwd=C.COQ, capture_output=True, text=True)
        C.EVID.mkdir(exist_ok=True)
        (C.EVID / "_coqchk.txt").write_text(r.stdout[-20000:] + r.stderr[-5000:])
        print("setup: coqchk rc", r.returncode)
        return 0 if r.returncode == 0 else 1
    return 0


if __name__ == "__main__":
    args = sys.argv[1:]
    if not args:
        print(__doc__)
        sys.exit(2)
    if args[0] == "--worker":
        worker_main(args[1:])
        sys.exit(0)
    if args[0] == "setup":
        sys.exit(main_setup())
    if args[0] == "replay":
        sys.exit(main_replay(args[1]))
    sys.exit(main_check(args[0], args[1] if len(args) > 1 else "quick"))
