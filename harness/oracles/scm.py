"""Positive discrete SCMs over an ADMG with exact rational arithmetic: one binary latent per bidirected edge,
binary observed variables, random positive CPTs. Observational joint and P(v | do(x)). Oracle only."""
import itertools as itt
import random
from fractions import Fraction as Fr

from oracles.expr_sem import Model


def topo_order(g):
    indeg = {v: 0 for v in g["nodes"]}
    for _, v in g["dir"]:
        indeg[v] += 1
    order, todo = [], sorted(v for v in indeg if indeg[v] == 0)
    while todo:
        u = todo.pop(0)
        order.append(u)
        for a, b in g["dir"]:
            if a == u:
                indeg[b] -= 1
                if indeg[b] == 0:
                    todo.append(b)
    return order


class SCM:
    def __init__(self, g, seed):
        rng = random.Random(f"scm/{seed}")
        self.g = g
        self.V = sorted(g["nodes"])
        self.order = topo_order(g)
        self.U = [tuple(sorted(e)) for e in g["bid"]]
        self.pu = [self._rd(rng) for _ in self.U]
        self.pa = {v: sorted(a for a, b in g["dir"] if b == v) for v in self.V}
        self.us = {v: [i for i, u in enumerate(self.U) if v in u] for v in self.V}
        self.cpt = {}
        for v in self.V:
            for pav in itt.product((0, 1), repeat=len(self.pa[v])):
                for uv in itt.product((0, 1), repeat=len(self.us[v])):
                    self.cpt[(v, pav, uv)] = self._rd(rng)
        self._joint = {}

    @staticmethod
    def _rd(rng):
        w = [rng.randint(1, 5), rng.randint(1, 5)]
        return [Fr(w[0], sum(w)), Fr(w[1], sum(w))]

    def joint(self, do=None):
        """dict: tuple of values (ordered by self.V) -> probability, under do (dict node -> value)."""
        do = do or {}
        key = tuple(sorted(do.items()))
        if key in self._joint:
            return self._joint[key]
        tab = {}
        idx = {v: i for i, v in enumerate(self.V)}
        for vals in itt.product((0, 1), repeat=len(self.V)):
            if any(vals[idx[x]] != xv for x, xv in do.items()):
                tab[vals] = Fr(0)
                continue
            tot = Fr(0)
            for uvals in itt.product((0, 1), repeat=len(self.U)):
                p = Fr(1)
                for i, uv in enumerate(uvals):
                    p *= self.pu[i][uv]
                for v in self.V:
                    if v in do:
                        continue
                    p *= self.cpt[(v, tuple(vals[idx[q]] for q in self.pa[v]), tuple(uvals[i] for i in self.us[v]))][vals[idx[v]]]
                tot += p
            tab[vals] = tot
        self._joint[key] = tab
        return tab

    def prob(self, assign, do=None):
        tab = self.joint(do)
        idx = [(self.V.index(k), v) for k, v in assign.items()]
        return sum((p for vals, p in tab.items() if all(vals[i] == v for i, v in idx)), Fr(0))


class ScmModel(Model):
    """expr_sem model whose worlds are distributions of one SCM: (pop, interventions) with pop None = observational."""

    def __init__(self, scm, name_of=lambda v: f"V{v}"):
        super().__init__("scm", [name_of(v) for v in scm.V])
        self.scm = scm
        self.name_of = name_of
        self.node_of = {name_of(v): v for v in scm.V}

    def table(self, world):
        if world not in self.tables:
            pop, ivs = world
            do = {self.node_of[n]: x for n, x in ivs}
            tab = self.scm.joint(do)
            # expr_sem tables are keyed by values ordered by sorted names; rescale to integers
            names_sorted = self.names
            order = [self.scm.V.index(self.node_of[n]) for n in names_sorted]
            den = 1
            for p in tab.values():
                den = den * p.denominator // __import__("math").gcd(den, p.denominator)
            w = {tuple(vals[i] for i in order): int(p * den) for vals, p in tab.items()}
            self.tables[world] = (w, den)
        return self.tables[world]
