"""Multi-domain SCM families for the transport oracle: the target SCM and, per source domain, an SCM that agrees
with the target except at the variables the selection diagram marks (their mechanisms are redrawn). Oracle only."""
import copy
import itertools as itt
import random

from oracles import scm as SCM
from oracles.expr_sem import Model


class Family(Model):
    """expr_sem model: world (population name, interventions) -> distribution of that domain's SCM."""

    def __init__(self, g, differing: dict, seed=0):
        names = [f"V{v}" for v in sorted(g["nodes"])]
        super().__init__("family", names)
        self.target = SCM.SCM(g, seed)
        self.scms = {"pi*": self.target}
        for pop, nodes in differing.items():
            m = copy.deepcopy(self.target)
            rng = random.Random(f"dom/{seed}/{pop}")
            for key in list(m.cpt):
                if key[0] in nodes:
                    m.cpt[key] = SCM.SCM._rd(rng)
            m._joint = {}
            self.scms[pop] = m
        self.node_of = {f"V{v}": v for v in g["nodes"]}

    def table(self, world):
        if world not in self.tables:
            pop, ivs = world
            scm = self.scms[pop if pop is not None else "pi*"]
            tab = scm.joint({self.node_of[n]: x for n, x in ivs})
            order = [scm.V.index(self.node_of[n]) for n in self.names]
            import math
            den = 1
            for p in tab.values():
                den = den * p.denominator // math.gcd(den, p.denominator)
            self.tables[world] = ({tuple(vals[i] for i in order): int(p * den) for vals, p in tab.items()}, den)
        return self.tables[world]
