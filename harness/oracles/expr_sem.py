"""Exact evaluation of y0 expressions on random positive joint tables (binary variables).
One table per (population, intervention assignment) world; Q factors are random positive functions.
Value marks: star None/False -> env[name]; star True -> the other value. Used only as a failing-input
search / direct property check, never as proof."""
import itertools as itt
import random
from fractions import Fraction as Fr


class Undefined(Exception):
    pass


class Unsupported(Exception):
    pass


class Model:
    def __init__(self, seed, names):
        self.seed = seed
        self.names = sorted(names)
        self.tables = {}
        self.q = {}
        self.cache = {}

    def table(self, world):
        if world not in self.tables:
            rng = random.Random(f"{self.seed}/{world}")
            w = {vals: rng.randint(1, 9) for vals in itt.product((0, 1), repeat=len(self.names))}
            self.tables[world] = (w, sum(w.values()))
        return self.tables[world]

    def marg(self, world, assign):
        key = (world, tuple(sorted(assign.items())))
        r = self.cache.get(key)
        if r is None:
            w, tot = self.table(world)
            idx = [(self.names.index(k), v) for k, v in assign.items()]
            r = Fr(sum(p for vals, p in w.items() if all(vals[i] == v for i, v in idx)), tot)
            self.cache[key] = r
        return r

    def qval(self, key, vals):
        k = (key, vals)
        if k not in self.q:
            self.q[k] = Fr(random.Random(f"{self.seed}/q/{k}").randint(1, 9), 10)
        return self.q[k]


def val(v, env):
    x = env[v.name]
    return 1 - x if v.star else x


def ev(e, env, m: Model):
    from y0.dsl import (CounterfactualVariable, Fraction, One, PopulationProbability, Probability, Product, QFactor, Sum, Zero)
    if isinstance(e, Probability):
        pop = e.population.name if isinstance(e, PopulationProbability) else None
        ivsets = {frozenset(x.interventions) if isinstance(x, CounterfactualVariable) else frozenset() for x in (*e.children, *e.parents)}
        if len(ivsets) != 1:
            raise Unsupported("mixed worlds")
        ivs = next(iter(ivsets))
        world = (pop, tuple(sorted((i.name, val(i, env)) for i in ivs)))
        ch, pa = {}, {}
        for c in e.parents:
            x = val(c, env)
            if pa.get(c.name, x) != x:
                raise Undefined
            pa[c.name] = x
        both = dict(pa)
        zero = False
        for c in e.children:
            x = val(c, env)
            if both.get(c.name, x) != x:
                zero = True
            both[c.name] = x
        den = m.marg(world, pa) if pa else Fr(1)
        if den == 0:
            raise Undefined
        return Fr(0) if zero else m.marg(world, both) / den
    if isinstance(e, Sum):
        rs = sorted(r.name for r in e.ranges)
        tot = Fr(0)
        for vals in itt.product((0, 1), repeat=len(rs)):
            e2 = dict(env)
            e2.update(zip(rs, vals))
            tot += ev(e.expression, e2, m)
        return tot
    if isinstance(e, Product):
        p = Fr(1)
        for x in e.expressions:
            p *= ev(x, env, m)
        return p
    if isinstance(e, Fraction):
        d = ev(e.denominator, env, m)
        if d == 0:
            raise Undefined
        return ev(e.numerator, env, m) / d
    if isinstance(e, One):
        return Fr(1)
    if isinstance(e, Zero):
        return Fr(0)
    if isinstance(e, QFactor):
        key = (tuple(sorted(v.name for v in e.codomain)), tuple(sorted(v.name for v in e.domain)))
        vals = tuple(env[n] for n in key[0]) + tuple(env[n] for n in key[1])
        return m.qval(key, vals)
    raise TypeError(type(e))


def names_of(*exprs):
    out = set()
    for e in exprs:
        for v in e.get_variables():
            out.add(v.name)
    return out


def same_function(a, b, seed=0, extra_names=()):
    """Compare two expressions on every assignment of their variables, on 2 random models.
    Returns None if equal everywhere (or unsupported), else a witness dict."""
    names = sorted(names_of(a, b) | set(extra_names))
    if len(names) > 7:
        raise Unsupported("too many names")
    for k in range(1):
        m = Model(f"{seed}/{k}", names)
        envs = list(itt.product((0, 1), repeat=len(names)))
        if len(envs) > 24:
            envs = random.Random(f"{seed}/envs").sample(envs, 24)
        for vals in envs:
            env = dict(zip(names, vals))
            try:
                x = ev(a, env, m)
            except Undefined:
                continue
            try:
                y = ev(b, env, m)
            except Undefined:
                return {"env": env, "left": str(x), "right": "undefined", "model_seed": f"{seed}/{k}"}
            if x != y:
                return {"env": env, "left": str(x), "right": str(y), "model_seed": f"{seed}/{k}"}
    return None
