"""Independent graph oracles (pure Python over int-labelled graphs); used for the failing-input
search and as direct property checks on implementation outputs. Never a substitute for a theorem."""
import itertools as itt


def latent_dag(g):
    """(nodes, parents: dict node -> set) of the DAG with one latent parent per bidirected edge."""
    pa = {v: set() for v in g["nodes"]}
    for u, v in g["dir"]:
        pa[v].add(u)
    for k, (u, v) in enumerate(g["bid"]):
        lat = ("U", k)
        pa[lat] = set()
        pa[u].add(lat)
        pa[v].add(lat)
    return list(pa), pa


def ancestors(pa, S):
    out, todo = set(S), list(S)
    while todo:
        v = todo.pop()
        for p in pa.get(v, ()):
            if p not in out:
                out.add(p)
                todo.append(p)
    return out


def d_connected(g, a, b, C):
    """Textbook definition: some path between a and b in the latent DAG whose every non-collider
    is outside C and every collider is an ancestor of (or in) C."""
    nodes, pa = latent_dag(g)
    C = set(C)
    anC = ancestors(pa, C)
    adj = {v: set() for v in nodes}
    for v in nodes:
        for p in pa[v]:
            adj[v].add(p)
            adj[p].add(v)

    def active(x, y, z):
        collider = x in pa[y] and z in pa[y]
        return (y in anC) if collider else (y not in C)

    def dfs(path):
        cur = path[-1]
        if cur == b:
            return True
        for n in adj[cur]:
            if n in path:
                continue
            if len(path) >= 2 and not active(path[-2], cur, n):
                continue
            if dfs(path + [n]):
                return True
        return False

    return dfs([a])


def d_separated(g, a, b, C):
    return not d_connected(g, a, b, C)
