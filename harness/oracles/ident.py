"""Independent identifiability verdict for P(y | do(x)) in an ADMG by Tian & Pearl's c-component criterion
(complete by Huang & Valtorta 2006 / Shpitser & Pearl 2006). Oracle only."""


def _anc(g, S, within):
    out, todo = set(S), list(S)
    while todo:
        v = todo.pop()
        for a, b in g["dir"]:
            if b == v and a in within and a not in out:
                out.add(a)
                todo.append(a)
    return out


def _ccomps(g, within):
    within = set(within)
    comps, seen = [], set()
    for v in sorted(within):
        if v in seen:
            continue
        comp, todo = {v}, [v]
        while todo:
            x = todo.pop()
            for a, b in g["bid"]:
                for p, q in ((a, b), (b, a)):
                    if p == x and q in within and q not in comp:
                        comp.add(q)
                        todo.append(q)
        seen |= comp
        comps.append(comp)
    return comps


def _identify(g, C, T):
    """Can Q[C] be computed from Q[T] (C subset of T, both c-components in their graphs)?"""
    A = _anc(g, C, T)
    if A == set(C):
        return True
    if A == set(T):
        return False
    T2 = next(c for c in _ccomps(g, A) if set(C) <= c)
    return _identify(g, C, T2)


def identifiable(g, X, Y):
    V = set(g["nodes"])
    X, Y = set(X), set(Y)
    rest = V - X
    D = _anc(g, Y, rest)
    top = _ccomps(g, V)
    for Dj in _ccomps(g, D):
        Tj = next(c for c in top if Dj <= c)
        if not _identify(g, Dj, Tj):
            return False
    return True
