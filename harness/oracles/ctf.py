"""Functional SCMs with explicit exogenous noise shared across worlds; exact probability of a conjunction of
counterfactual events. Binary observed variables, one binary latent per bidirected edge, a 3-valued private noise
per variable, random response functions. Oracle only."""
import itertools as itt
import random
from fractions import Fraction as Fr


class FSCM:
    def __init__(self, g, seed):
        rng = random.Random(f"fscm/{seed}")
        from oracles.scm import topo_order
        self.V = topo_order(g)
        self.U = [tuple(sorted(e)) for e in g["bid"]]
        self.pu = [self._rd(rng, 2) for _ in self.U]
        self.pn = {v: self._rd(rng, 3) for v in self.V}
        self.f = {}
        for v in self.V:
            pa = sorted(a for a, b in g["dir"] if b == v)
            us = [i for i, u in enumerate(self.U) if v in u]
            tab = {k: rng.randint(0, 1) for k in itt.product(*([range(2)] * (len(pa) + len(us)) + [range(3)]))}
            self.f[v] = (pa, us, tab)
        self.noise = []
        for uvals in itt.product(range(2), repeat=len(self.U)):
            for nvals in itt.product(range(3), repeat=len(self.V)):
                p = Fr(1)
                for i, x in enumerate(uvals):
                    p *= self.pu[i][x]
                for v, x in zip(self.V, nvals):
                    p *= self.pn[v][x]
                self.noise.append((uvals, dict(zip(self.V, nvals)), p))

    @staticmethod
    def _rd(rng, k):
        w = [rng.randint(1, 4) for _ in range(k)]
        return [Fr(x, sum(w)) for x in w]

    def solve(self, ua, na, do):
        a = {}
        for v in self.V:
            if v in do:
                a[v] = do[v]
                continue
            pa, us, tab = self.f[v]
            a[v] = tab[tuple(a[q] for q in pa) + tuple(ua[i] for i in us) + (na[v],)]
        return a

    def prob(self, events):
        """events: list of (do: dict node -> value, node, value)."""
        tot = Fr(0)
        for ua, na, p in self.noise:
            cache, ok = {}, True
            for do, var, val in events:
                key = tuple(sorted(do.items()))
                if key not in cache:
                    cache[key] = self.solve(ua, na, do)
                if cache[key][var] != val:
                    ok = False
                    break
            if ok:
                tot += p
        return tot


def val_of(star, name, env):
    return 1 - env[name] if star else env[name]


def event_truth(m, event, rho, node_of):
    """Probability of the conjunction {var: value}; symbolic values read in rho (base assignment by name)."""
    from y0.dsl import CounterfactualVariable
    evs = []
    for var, val in event.items():
        do = {}
        if isinstance(var, CounterfactualVariable):
            for iv in var.interventions:
                do[node_of[iv.name]] = val_of(iv.star, iv.name, rho)
        evs.append((do, node_of[var.name], val_of(val.star, val.name, rho)))
    return m.prob(evs)


class Unsupported(Exception):
    pass


def ev_ctf(expr, env, rho, m, node_of, env_subscripts=frozenset()):
    """Value of an ID*/IDC* expression: unmarked children read the outcome environment env, value marks and
    intervention subscripts read the literal environment rho; a Sum binds its variable in both."""
    from y0.dsl import CounterfactualVariable, Fraction, One, Probability, Product, Sum, Zero
    if isinstance(expr, Probability):
        if expr.parents:
            raise Unsupported("conditional atom")
        evs = []
        for c in expr.children:
            do = {}
            if isinstance(c, CounterfactualVariable):
                for iv in c.interventions:
                    # factorisation reading: an unmarked subscript naming an outcome or summed variable takes that variable's value
                    if not iv.star and iv.name in env_subscripts:
                        do[node_of[iv.name]] = env[iv.name]
                    else:
                        do[node_of[iv.name]] = val_of(iv.star, iv.name, rho)
            v = env[c.name] if c.star is None else val_of(c.star, c.name, rho)
            evs.append((do, node_of[c.name], v))
        return m.prob(evs)
    if isinstance(expr, Sum):
        rs = sorted(r.name for r in expr.ranges)
        tot = Fr(0)
        for vals in itt.product(range(2), repeat=len(rs)):
            upd = dict(zip(rs, vals))
            tot += ev_ctf(expr.expression, {**env, **upd}, {**rho, **upd}, m, node_of, env_subscripts | set(rs))
        return tot
    if isinstance(expr, Product):
        p = Fr(1)
        for e in expr.expressions:
            p *= ev_ctf(e, env, rho, m, node_of, env_subscripts)
        return p
    if isinstance(expr, Fraction):
        d = ev_ctf(expr.denominator, env, rho, m, node_of, env_subscripts)
        if d == 0:
            raise ZeroDivisionError
        return ev_ctf(expr.numerator, env, rho, m, node_of, env_subscripts) / d
    if isinstance(expr, One):
        return Fr(1)
    if isinstance(expr, Zero):
        return Fr(0)
    raise Unsupported(type(expr).__name__)
