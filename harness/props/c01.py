"""C01 - ID estimands equal the true interventional distribution."""
from props.id_common import IdProp


class C01(IdProp):
    pid = "C01"
    budgets = {"quick": 500, "thorough": 5000}
    rule = ("random ADMGs with 2..6 nodes (7 thorough; forced isolated nodes, bows, bidirected-only nodes) x random disjoint X, Y; corpus of textbook graphs; one query per shape of run of the recursion (harness/corpus/id_traces.json: sample of 150 in quick, all on <= 7 nodes in thorough, fresh node names); "
            "thorough adds every labelled ADMG on <= 3 nodes with every query. Non-trivial: the run reached line 6 or 7 (a topological order was used) or "
            "refused; distinct by (graph, X, Y)")
    explanation = ("identify_outcomes compared verbatim with the Gallina model (recorded topological orders replayed); every returned estimand is evaluated "
                   "exactly on the observational joint of a random positive SCM against P(y | do(x)) for every assignment, including the free variables")
    assumptions = ["semantic soundness is not yet a Coq theorem (needs Sem/Scm.v and the c-factor lemmas); see DESIGN.md section 5 C01"]


PROP = C01()
