"""C14 - graph surgery operations (graph.py)."""
import random

import gen_graph as GG
from common import c_graph, c_list, c_opt, c_pairs
from props.base import PropBase

OPS = ["subgraph", "remove_in_edges", "remove_out_edges", "remove_nodes_from", "ancestors_inclusive",
       "descendants_inclusive", "districts", "get_markov_pillow", "get_markov_blanket", "moralize",
       "disorient", "pre", "topological_sort", "get_nodes_in_directed_paths"]


def reorder(g, rng):
    h = {"nodes": list(g["nodes"]), "dir": [list(e) for e in g["dir"]], "bid": [list(e) for e in g["bid"]]}
    rng.shuffle(h["nodes"]); rng.shuffle(h["dir"]); rng.shuffle(h["bid"])
    h["bid"] = [e if rng.random() < 0.5 else e[::-1] for e in h["bid"]]
    return h


def apply_op(op, gr, case):
    """Apply the y0 operation; returns a JSON-able result."""
    from y0.graph import NxMixedGraph, get_nodes_in_directed_paths
    import networkx as nx
    S = [GG.V(i) for i in case.get("S", [])]
    Sp = lambda: GG.present(S, (op, len(case["g"]["nodes"])))     # noqa: E731  -- the argument as callers hand it over (list, set, view, one-shot iterator, ...)
    if op in ("subgraph", "remove_in_edges", "remove_out_edges", "remove_nodes_from"):
        return GG.from_y0(getattr(gr, op)(Sp()))
    if op in ("ancestors_inclusive", "descendants_inclusive"):
        try:
            return sorted(GG.vid(v) for v in getattr(gr, op)(Sp()))
        except nx.NetworkXError:
            return None
    if op == "districts":
        return sorted(sorted(GG.vid(v) for v in d) for d in gr.districts())
    if op == "get_markov_pillow":
        return sorted(GG.vid(v) for v in gr.get_markov_pillow(GG.present(S, op, collection=True)))   # typed Collection[Variable]
    if op == "get_markov_blanket":
        return sorted(GG.vid(v) for v in gr.get_markov_blanket(Sp()))
    if op == "moralize":
        return GG.from_y0(gr.moralize())
    if op == "disorient":
        d = gr.disorient()
        return [sorted(GG.vid(v) for v in d.nodes()), [[GG.vid(a), GG.vid(b)] for a, b in d.edges()]]
    if op == "pre":
        if case.get("order") is None:      # the ordering left to the graph: its own topological sort
            return [GG.vid(v) for v in gr.pre(S)]
        return [GG.vid(v) for v in gr.pre(S, [GG.V(i) for i in case["order"]])]
    if op == "topological_sort":
        try:
            return [GG.vid(v) for v in gr.topological_sort()]
        except nx.NetworkXUnfeasible:
            return None
    if op == "get_nodes_in_directed_paths":
        return sorted(GG.vid(v) for v in get_nodes_in_directed_paths(gr, set(S), {GG.V(i) for i in case["T"]}))
    raise ValueError(op)


def canon(op, out):
    """Order-insensitive canonical form used only for the insertion-order [M] comparison."""
    if isinstance(out, dict):
        return (tuple(sorted(out["nodes"])), tuple(sorted(map(tuple, out["dir"]))),
                tuple(sorted(tuple(sorted(e)) for e in out["bid"])))
    if op == "disorient":
        return (tuple(out[0]), tuple(sorted(tuple(sorted(e)) for e in out[1])))
    if op == "topological_sort":
        return None if out is None else "order"
    return out


class C14(PropBase):
    pid = "C14"
    coq_imports = "Graph.MixedGraph Corr.C14"
    budgets = {"quick": 1400, "thorough": 14000}
    mismatch_is_failure = True
    rule = ("random mixed graphs (2..6 nodes quick, 2..8 thorough; 30% cyclic; forced isolated nodes, bidirected-only nodes, "
            "bows) x one of 14 operations x random node subset; thorough adds every labelled ADMG on <=3 nodes with every "
            "subset for the four surgery operations. A case is non-trivial when the graph has at least one edge and the "
            "result differs from the input graph / the argument set (or is a non-singleton partition); distinct = distinct "
            "(graph, op, args) up to JSON equality")
    explanation = ("each operation's model is proved (Properties/C14.v) to have exactly the node/edge sets of its set-theoretic "
                   "definition for every graph and subset; the model is tied to graph.py by evaluating both on the same inputs")
    trusted_base = ["model of graph.py operations in coq/theories/Graph/MixedGraph.v (hand-written)",
                    "networkx connected_components/ancestors/descendants/topological_sort are modelled through their results"]
    modelled = ["graph.py: from_edges, subgraph, remove_in_edges, remove_out_edges, remove_nodes_from, ancestors_inclusive, "
                "descendants_inclusive, districts, get_markov_pillow, get_markov_blanket, moralize, disorient, pre, "
                "topological_sort (result checked by the proved predicate is_topo), get_nodes_in_directed_paths (both branches)",
                "NOT modelled: intervene (relabels nodes to counterfactual variables; exercised through C07/C18), drawing, I/O"]
    assumptions = ["receiver-unchanged and insertion-order-independence clauses are monitored [M] on every implementation call "
                   "(deep snapshot before/after; second run on a shuffled presentation), not proved: the functional model has no mutation",
                   "node names V0..V9 so that name order equals integer order"]

    def gen(self, rng, tier, n, shard, nshards):
        cases = []
        nmax = 6 if tier == "quick" else 8
        if tier == "thorough" and shard == 0:
            for k in (1, 2, 3):
                for g in GG.all_admgs(k):
                    for mask in range(2 ** k):
                        S = [i for i in range(k) if mask >> i & 1]
                        for op in OPS[:4]:
                            cases.append({"op": op, "g": g, "S": S})
        if shard == 0:
            for g in GG.corpus_graphs(acyclic_only=False):
                g = {k: g[k] for k in ("nodes", "dir", "bid")}
                for op in OPS:
                    cases.append(self._mk(rng, op, g))
        while len(cases) < n or (shard == 0 and len(cases) < n):
            cyc = rng.random() < 0.3
            g = GG.rand_admg_big(rng, cyclic=cyc) if rng.random() < 0.04 else GG.rand_admg(rng, 2, nmax, cyclic=cyc)
            cases.append(self._mk(rng, rng.choice(OPS), g))
            if len(cases) >= n:
                break
        return cases

    def _mk(self, rng, op, g):
        ns = g["nodes"]
        case = {"op": op, "g": g}
        if op in ("subgraph", "remove_in_edges", "remove_out_edges", "remove_nodes_from", "ancestors_inclusive",
                  "descendants_inclusive", "get_markov_pillow", "get_markov_blanket"):
            case["S"] = GG.rand_subset(rng, ns, 0, max(1, len(ns) - 1))
            if op in ("ancestors_inclusive", "descendants_inclusive") and rng.random() < 0.05:
                case["S"] = case["S"] + [9]  # a source that is not a node: NetworkXError
            if op == "subgraph" and rng.random() < 0.05:
                case["S"] = case["S"] + [9]
        if op == "pre":
            order = list(ns); rng.shuffle(order)
            case["order"] = order if (rng.random() < 0.7 or not GG.is_acyclic(g)) else None
            case["S"] = GG.rand_subset(rng, ns, 1, 3)
        if op == "get_nodes_in_directed_paths":
            case["S"] = GG.rand_subset(rng, ns, 1, 2)
            case["T"] = GG.rand_subset(rng, ns, 1, 2)
        return case

    def run(self, case):
        op, g = case["op"], case["g"]
        gr = GG.to_y0(g, loose=True)
        before = GG.snapshot(gr)
        out = apply_op(op, gr, case)
        order_used = None
        if op == "pre" and case.get("order") is None:
            order_used = [GG.vid(v) for v in gr.topological_sort()]
        violation = None
        if GG.snapshot(gr) != before:
            violation = f"{op} modified its receiver"
        rng = random.Random(str(case))
        h = reorder(g, rng)
        case2 = dict(case, g=h, S=list(reversed(case.get("S", []))))
        out2 = apply_op(op, GG.to_y0(h, loose=True), case2)
        if canon(op, out) != canon(op, out2) and violation is None and order_used is None:   # (pre() under the graph's own order follows that order)
            violation = f"{op} result depends on insertion order: {out} vs {out2}"
        if violation is None and op not in ("topological_sort", "pre"):
            violation = GG.renamed_differs(case, canon(op, out), lambda: canon(op, apply_op(op, GG.to_y0(g), case)), cf_nodes=op not in ("moralize",))
        nontrivial = bool(g["dir"] or g["bid"]) and out is not None and canon(op, out) != canon(op, g) \
            and out != sorted(case.get("S", []))
        feats = [op, f"n={len(g['nodes'])}", "cyclic" if not GG.is_acyclic(g) else "acyclic"]
        if set(g["nodes"]) - {x for e in g["dir"] + g["bid"] for x in e}:
            feats.append("isolated-node")
        return {"out": out, "violation": violation, "nontrivial": nontrivial, "features": feats + (["default-ordering"] if order_used is not None else []),
                "order_used": order_used, "key": f"C14/{op}/" + ("mutation" if violation and "modified" in violation else "order")}

    def coq(self, case, res):
        op, g, out = case["op"], c_graph(case["g"]), res["out"]
        S = c_list(case.get("S", []))
        if op == "subgraph":
            return f"CSubgraph {g} {S} {c_graph(out)}"
        if op == "remove_in_edges":
            return f"CRemoveIn {g} {S} {c_graph(out)}"
        if op == "remove_out_edges":
            return f"CRemoveOut {g} {S} {c_graph(out)}"
        if op == "remove_nodes_from":
            return f"CRemoveNodes {g} {S} {c_graph(out)}"
        if op == "ancestors_inclusive":
            return f"CAnc {g} {S} {c_opt(out, c_list)}"
        if op == "descendants_inclusive":
            return f"CDesc {g} {S} {c_opt(out, c_list)}"
        if op == "districts":
            return f"CDistricts {g} {c_list(out, c_list)}"
        if op == "get_markov_pillow":
            return f"CPillow {g} {S} {c_list(out)}"
        if op == "get_markov_blanket":
            return f"CBlanket {g} {S} {c_list(out)}"
        if op == "moralize":
            return f"CMoralize {g} {c_graph(out)}"
        if op == "disorient":
            return f"CDisorient {g} ({c_list(out[0])}, {c_pairs(out[1])})"
        if op == "pre":
            return f"CPre {g} {c_list(case['order'] if case.get('order') is not None else res['order_used'])} {S} {c_list(out)}"
        if op == "topological_sort":
            return f"CTopo {g} {c_opt(out, c_list)}"
        if op == "get_nodes_in_directed_paths":
            return f"CPaths {g} {S} {c_list(case['T'])} {c_list(out)}"
        raise ValueError(op)

    def finding_key(self, case, res):
        return f"C14/{case['op']}"

    def classify_mismatch(self, case, res):
        return (True, f"{case['op']} does not return the graph/set of its definition on {case}", f"C14/{case['op']}")


PROP = C14()
