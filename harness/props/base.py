"""Base class of a property plug-in (see vcheck.py)."""


class PropBase:
    pid = "C00"
    coq_imports = ""
    case_type = "case"
    check_fn = "check"
    budgets = {"quick": 200, "thorough": 2000}
    rule = ""
    explanation = ""
    trusted_base: list = []
    modelled: list = []
    assumptions: list = []
    # True when the Coq model is *proved* to meet the property's mathematical definition and the
    # comparator is the property's own notion of equality: a model/implementation mismatch on an
    # input is then itself a concrete failing input of the property.
    mismatch_is_failure = False

    def gen(self, rng, tier, n, shard, nshards):
        raise NotImplementedError

    def run(self, case):
        raise NotImplementedError

    def coq(self, case, res):
        raise NotImplementedError

    def finding_key(self, case, res):
        return f"{self.pid}/{case.get('op', 'case')}"

    def classify_mismatch(self, case, res):
        return (self.mismatch_is_failure,
                f"implementation and proved model differ on {case.get('op', 'case')}", self.finding_key(case, res))

    def search(self, rng, case):
        """Search for a concrete property-level failing input; None when none is found."""
        return None
