"""C18 - counterfactual-graph construction preserves the event's probability."""
import itertools as itt

import gen_event as GEV
import gen_expr as GE
import gen_graph as GG
from common import c_graph, c_list
from oracles import ctf as CTF
from props.cf_common import CfProp, letter_topo
from props.id_common import TopoRecorder


class C18(CfProp):
    pid = "C18"
    budgets = {"quick": 400, "thorough": 4000}
    rule = ("random ADMGs with 2..4 nodes (5 thorough) x random conjunctions of 1..3 counterfactual events (0..2 subscripts each, shared and distinct "
            "worlds, factual variables, both polarities); non-trivial: at least two worlds or at least one merge; distinct by (graph, event)")
    explanation = ("make_counterfactual_graph must be one of the results of the Gallina model over all visiting orders of the world set; the structural "
                   "clauses (acyclic, ancestral, event variables are nodes) are checked on the output and the relabelled event's probability is "
                   "compared with the original's in a random functional SCM")
    modelled = ["cg.py make_parallel_worlds_graph (all five stitching sets), has_same_confounders, has_same_function, nodes_attain_same_value, "
                "parents_attain_same_values, nodes_have_same_domain_of_values, is_pw_equivalent, merge_pw, is_inconsistent, update_event, make_counterfactual_graph"]
    assumptions = ["the semantic clause is checked by the functional-SCM oracle; Lemmas 24/25 are not proved"]

    def gen(self, rng, tier, n, shard, nshards):
        cases = []
        nmax = 4 if tier == "quick" else 5
        while len(cases) < n:
            r0 = rng.random()
            r1 = rng.random()
            if r1 < 0.05:
                g, ev = GEV.prefix_name_case(rng)
                cases.append({"g": g, "event": ev})
                continue
            if r1 < 0.12:
                g, ev = GEV.mediator_case(rng)
                cases.append({"g": g, "event": ev})
                continue
            if r0 < 0.1:
                g, ev = GEV.three_world_case(rng)
                cases.append({"g": g, "event": ev})
                continue
            g = self.rand_case(rng, nmax)
            ev = None
            if r0 < 0.3:
                ev = GEV.structured_event(rng, g)
            elif r0 < 0.45:
                ev = GEV.two_parent_event(rng, g)
            cases.append({"g": g, "event": ev or GEV.rand_event(rng, g["nodes"])})
        return cases

    def run(self, case):
        from y0.algorithm.identify.cg import make_counterfactual_graph
        import networkx as nx
        g = case["g"]
        gr = GEV.to_y0_letters(g)
        event = GEV.event_of(case["event"])
        before = GG.snapshot(gr)
        ev_before = dict(event)
        with TopoRecorder() as rec:
            try:
                cf, new_event = make_counterfactual_graph(gr, event)
                exc = None
            except Exception as ex:  # noqa: BLE001
                exc = type(ex).__name__
        topo = letter_topo(rec, g)
        if exc is not None:
            return {"out": exc, "violation": f"make_counterfactual_graph raised {exc}", "nontrivial": True, "features": ["exception"],
                    "term": f"CCg {c_graph(g)} {GEV.c_event(event)} {c_list(topo)} (MG [] [] []) None", "key": "C18/crash"}
        violation, key = None, "C18/ok"
        if GG.snapshot(gr) != before or event != ev_before:
            violation, key = "make_counterfactual_graph modified its arguments", "C18/mutation"
        elif new_event is not None:
            if not nx.is_directed_acyclic_graph(cf.directed):
                violation, key = "counterfactual graph is cyclic", "C18/structure"
            elif not set(new_event) <= set(cf.nodes()):
                violation, key = f"relabelled event variables {set(new_event) - set(cf.nodes())} are not nodes of the graph", "C18/structure"
            elif set(cf.nodes()) != cf.ancestors_inclusive(set(new_event)):
                violation, key = "graph is not the ancestral set of the relabelled event", "C18/structure"
        if violation is None and len(g["bid"]) <= 4:
            m = CTF.FSCM(g, 0)
            node_of = {GE.ALPHA[v]: v for v in g["nodes"]}
            names = sorted(node_of)
            for base in itt.product(range(2), repeat=len(names)):
                rho = dict(zip(names, base))
                p0 = CTF.event_truth(m, event, rho, node_of)
                if new_event is None:
                    if p0 != 0:
                        violation, key = f"reported inconsistent but the event {event} has probability {p0} at {rho}", "C18/inconsistent"
                        break
                else:
                    p1 = CTF.event_truth(m, new_event, rho, node_of)
                    if p0 != p1:
                        violation, key = f"relabelled event {new_event} has probability {p1}, the original {event} has {p0} at {rho}", "C18/probability"
                        break
        out_ev = "None" if new_event is None else f"(Some {GEV.c_event(new_event)})"
        term = f"CCg {c_graph(g)} {GEV.c_event(event)} {c_list(topo)} {GEV.c_cgraph(cf)} {out_ev}"
        # the Python oracle against the formal semantics (Sem/Scm.v): at a few exogenous states the oracle's verdict 'the event is true here' has to
        # be the value of event_true in Coq, for the same response tables and base assignment
        import zlib
        if zlib.crc32(repr(case).encode()) % 4 == 0 and len(g["bid"]) <= 4:
            import random as _random
            from y0.dsl import CounterfactualVariable
            m = CTF.FSCM(g, 0)
            node_of = {GE.ALPHA[v]: v for v in g["nodes"]}
            r2 = _random.Random(repr(case))
            states = r2.sample(m.noise, min(6, len(m.noise)))
            rho = {name: r2.randint(0, 1) for name in node_of}
            def bit(x):
                return "true" if x else "false"
            tabs = []
            for ua, na, _ in states:
                per = []
                for v in m.V:
                    pa, us, tab = m.f[v]
                    rows = [f"({c_list(pv, bit)}, {bit(tab[tuple(pv) + tuple(ua[i] for i in us) + (na[v],)])})" for pv in itt.product(range(2), repeat=len(pa))]
                    per.append(f"({v}, ({c_list(pa)}, [{'; '.join(rows)}]))")
                tabs.append("[" + "; ".join(per) + "]")
            expected = []
            for ua, na, _ in states:
                ok = True
                for var, val in event.items():
                    do = {node_of[iv.name]: CTF.val_of(iv.star, iv.name, rho) for iv in getattr(var, "interventions", ())} if isinstance(var, CounterfactualVariable) else {}
                    if m.solve(ua, na, do)[node_of[var.name]] != CTF.val_of(val.star, val.name, rho):
                        ok = False
                expected.append(ok)
            base = "[" + "; ".join(f"({node_of[n]}, {bit(b)})" for n, b in sorted(rho.items())) + "]"
            term = [term, f"CSem {c_list(m.V)} [{'; '.join(tabs)}] {base} {GEV.c_event(event)} {c_list(expected, bit)}"]
        worlds = {frozenset(v.interventions) for v in event if hasattr(v, "interventions")}
        return {"out": [sorted(map(str, cf.nodes())), None if new_event is None else {str(k): str(v) for k, v in new_event.items()}],
                "violation": violation, "nontrivial": len(worlds) >= 2 or new_event is None or (new_event is not None and set(new_event) != set(event)),
                "features": [f"n={len(g['nodes'])}", f"worlds={len(worlds)}", f"events={len(event)}", "inconsistent" if new_event is None else "consistent"],
                "term": term, "key": key}

    def coq(self, case, res):
        return res.pop("term")

    def finding_key(self, case, res):
        return "C18/model-mismatch"

    def classify_mismatch(self, case, res):
        return (False, f"make_counterfactual_graph differs from the model on {case}", "C18/model-mismatch")

    def search(self, rng, case):
        for c in self.gen(rng, "quick", 600, 1, 2):
            r = self.run(c)
            if r["violation"]:
                return {"case": c, "what": r["violation"], "key": r["key"]}
        return None


PROP = C18()
