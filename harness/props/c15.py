"""C15 - implied conditional independencies are enumerated exactly."""
import itertools as itt

import gen_graph as GG
from common import c_bool, c_graph, c_list, c_opt, c_nat
from oracles import graphs as OG
from props.base import PropBase


class C15(PropBase):
    pid = "C15"
    coq_imports = "Graph.MixedGraph Graph.DSep Graph.CondInd Corr.C15"
    budgets = {"quick": 320, "thorough": 3200}
    per_file = 40
    rule = ("random ADMGs with 2..5 nodes (quick) / 2..6 (thorough), a bottleneck-above-a-fan family (5..6 nodes; the minimum separator lies outside both Markov blankets), layered series-parallel graphs (4..8 nodes, layer widths 1..3: separators far from both end nodes) and sparse 5..7-node graphs x max_conditions in {None,0,1,2,3} x policy in {default topological, len-lex}; "
            "non-trivial: at least one pair is separable only by a non-empty set or not at all; distinct = distinct (graph, limit, policy)")
    explanation = ("theorems characterise the enumeration for every vertex iteration order relative to the separation test; the check compares y0's "
                   "judgement set with the model pair by pair (existence, minimum size, canonical form, true separation by the model test)")
    trusted_base = ["model Graph/CondInd.v of d_separations/powerset (itertools.combinations order); Graph/DSep.v",
                    "minimal()/policies are not modelled separately: with one judgement per pair they select that judgement; the check verifies the result"]
    modelled = ["conditional_independencies.d_separations, get_conditional_independencies (through its result), util.combinatorics.powerset",
                "struct.DSeparationJudgement canonical form is checked on the implementation output"]
    assumptions = ["'true separation' is the model's are_d_separated, related to the textbook definition by C04 (partly proved, otherwise checked at run time)"]

    def gen(self, rng, tier, n, shard, nshards):
        cases = []
        if shard == 0:
            cases.append({"g": {"nodes": [0, 1, 2], "dir": [[0, 1], [1, 2]], "bid": []}, "mc": 1, "policy": "topo"})
            cases.append({"g": {"nodes": [0, 1, 2], "dir": [[0, 1], [1, 2]], "bid": []}, "mc": 0, "policy": "lenlex"})
            for g in GG.corpus_graphs():
                if len(g["nodes"]) <= 6:
                    cases.append({"g": {k: g[k] for k in ("nodes", "dir", "bid")}, "mc": None, "policy": "topo"})
        nmax = 5 if tier == "quick" else 6
        while len(cases) < n:
            g = GG.rand_admg(rng, 2, nmax)
            r = rng.random()
            if r < 0.2:
                # a bottleneck upstream of a fan: src -> r -> {m1..mk} -> dst; the minimum separator {r} is outside both Markov blankets
                k = rng.randint(2, 3)
                ids = list(range(3 + k)); rng.shuffle(ids)
                src, bot, dst, mids = ids[0], ids[1], ids[2], ids[3:]
                di = [[src, bot]] + [[bot, m] for m in mids] + [[m, dst] for m in mids]
                bi = [[a, b] for a, b in itt.combinations(mids, 2) if rng.random() < 0.3]
                if rng.random() < 0.3:
                    di = [[b, a] for a, b in di]
                nodes = list(ids); rng.shuffle(nodes); rng.shuffle(di)
                g = {"nodes": nodes, "dir": di, "bid": bi}
            elif r < 0.32:
                # layers of width 1..3 joined completely (series-parallel): narrow layers are small separators far from both end nodes,
                # wide layers are large separators next to them
                widths = [1] + [rng.randint(1, 3) for _ in range(rng.randint(2, 4))] + [1]
                while sum(widths) > 8:
                    widths.pop(rng.randrange(1, len(widths) - 1))
                ids = list(range(sum(widths))); rng.shuffle(ids)
                layers, at = [], 0
                for w in widths:
                    layers.append(ids[at:at + w]); at += w
                di = [[a, b] for l1, l2 in zip(layers, layers[1:]) for a in l1 for b in l2 if rng.random() < 0.9 or len(l1) * len(l2) == 1]
                bi = [[a, b] for l in layers for a, b in itt.combinations(l, 2) if rng.random() < 0.3]
                if rng.random() < 0.3:
                    di = [[b, a] for a, b in di]
                nodes = list(ids); rng.shuffle(nodes); rng.shuffle(di)
                g = {"nodes": nodes, "dir": di, "bid": bi}
            elif r < 0.42:
                g = GG.rand_admg(rng, 5, nmax + 1)   # larger and sparse: long chains
                g["dir"] = [e for e in g["dir"] if rng.random() < 0.6]
                g["bid"] = [e for e in g["bid"] if rng.random() < 0.4]
            cases.append({"g": g, "mc": rng.choice([None, None, 0, 1, 1, 2, 2, 3]), "policy": rng.choice(["topo", "lenlex"])})
        return cases

    def run(self, case):
        from y0.algorithm.conditional_independencies import _len_lex, get_conditional_independencies
        g = case["g"]
        kw = {} if case["policy"] == "topo" else {"policy": _len_lex}
        gr = GG.to_y0(g, warm=lambda partial, present: get_conditional_independencies(partial, max_conditions=case["mc"], **kw))
        before = GG.snapshot(gr)
        js = get_conditional_independencies(gr, max_conditions=case["mc"], **kw)
        out = sorted([GG.vid(j.left), GG.vid(j.right), [GG.vid(c) for c in j.conditions], bool(j.separated)] for j in js)
        violation = None
        if GG.snapshot(gr) != before:
            violation = "get_conditional_independencies modified the graph"
        if violation is None and len(g["nodes"]) <= 5:
            # the generator behind it, asked for ALL separations: each one must be true, within the limit, and the pairs must be the listed pairs
            import zlib
            if zlib.crc32(repr(case).encode()) % 3 == 1:
                from y0.algorithm.conditional_independencies import d_separations
                every = list(d_separations(gr, max_conditions=case["mc"], return_all=True))
                lim = len(g["nodes"]) if case["mc"] is None else case["mc"]
                for j in every:
                    l, r, cs = GG.vid(j.left), GG.vid(j.right), [GG.vid(c) for c in j.conditions]
                    if len(cs) > lim or not OG.d_separated(g, l, r, cs):
                        violation = f"d_separations(return_all=True) yields ({l},{r}|{cs}), which is not a separation within the limit {lim}"
                        break
                if violation is None and {frozenset((GG.vid(j.left), GG.vid(j.right))) for j in every} != {frozenset((l, r)) for l, r, _, _ in out}:
                    violation = "d_separations(return_all=True) and get_conditional_independencies disagree on which pairs are separable"
        if violation is None:       # which pairs are listed, and with how many conditions, may not depend on what the variables are called
            def renamed():
                gr2 = GG.to_y0(g)
                return sorted([GG.vid(j.left), GG.vid(j.right), len(j.conditions)] for j in get_conditional_independencies(gr2, max_conditions=case["mc"], **kw))
            violation = GG.renamed_differs(case, sorted([l, r, len(cs)] for l, r, cs, _ in out), renamed)
        ns = sorted(g["nodes"])
        limit = len(ns) if case["mc"] is None else case["mc"]
        got = {}
        for l, r, cs, sep in out:
            if (l, r) in got or (r, l) in got:
                violation = violation or f"two judgements for the pair ({l},{r})"
            got[(l, r)] = cs
            if not (l < r and cs == sorted(set(cs)) and sep):
                violation = violation or f"judgement ({l},{r}|{cs}) not canonical"
        hard = False
        for a, b in itt.combinations(ns, 2):
            rest = [x for x in ns if x not in (a, b)]
            best = None
            for k in range(0, min(limit, len(rest)) + 1):
                if any(OG.d_separated(g, a, b, C) for C in itt.combinations(rest, k)):
                    best = k
                    break
            if best != 0:
                hard = True
            have = got.get((a, b))
            if best is None and have is not None:
                violation = violation or f"pair ({a},{b}) listed with {have} but no set of size <= {limit} separates it"
            elif best is not None and have is None:
                violation = violation or f"pair ({a},{b}) separable by a set of size {best} <= {limit} but not listed"
            elif best is not None:
                if not OG.d_separated(g, a, b, have):
                    violation = violation or f"listed judgement ({a},{b}|{have}) is not a true separation"
                elif len(have) != best:
                    violation = violation or f"listed set {have} for ({a},{b}) is not of minimum size {best}"
        return {"out": out, "violation": violation, "nontrivial": hard and bool(g["dir"] or g["bid"]),
                "features": [f"n={len(ns)}", f"mc={case['mc']}", case["policy"], f"judgements={len(out)}"],
                "key": "C15/" + (violation.split(" ")[0] if violation else "ok")}

    def coq(self, case, res):
        g = case["g"]
        js = c_list(res["out"], lambda j: f"({j[0]}, {j[1]}, {c_list(j[2])}, {c_bool(j[3])})")
        return f"CCI {c_graph(g)} {c_list(sorted(g['nodes']))} {c_opt(case['mc'], c_nat)} {js}"

    def finding_key(self, case, res):
        return "C15/model-mismatch"

    def classify_mismatch(self, case, res):
        return (False, f"get_conditional_independencies differs from the model on {case}", "C15/model-mismatch")

    def search(self, rng, case):
        for _ in range(400):
            c = {"g": GG.rand_admg(rng, 2, 5), "mc": rng.choice([None, 0, 1, 2]), "policy": rng.choice(["topo", "lenlex"])}
            r = self.run(c)
            if r["violation"]:
                return {"case": c, "what": r["violation"], "key": r["key"]}
        return None


PROP = C15()
