"""C08 - IDC* estimands equal the conditional counterfactual probability."""
import itertools as itt

import gen_event as GEV
import gen_expr as GE
import gen_graph as GG
from common import c_graph, c_list
from oracles import ctf as CTF
from props.c07 import single_world_violation
from props.cf_common import CfProp, letter_topo
from props.id_common import TopoRecorder


class C08(CfProp):
    pid = "C08"
    budgets = {"quick": 300, "thorough": 3000}
    per_file = 30
    rule = ("random ADMGs with 2..4 nodes x (outcome conjunction of 1..2 events, condition conjunction of 1..2 events over other variables); "
            "non-trivial: a condition was moved by rule 2, or the answer is a fraction, Zero, a rejection or a refusal; distinct by input")
    explanation = ("idc_star must be one of the results of the Gallina model; each expression is evaluated in a random functional SCM against "
                   "P(outcomes and conditions)/P(conditions) wherever the conditions have positive probability; an impossible conditioning event must be rejected")
    modelled = ["idc_star.py idc_star (lines 1-5), get_new_outcomes_and_conditions, cf_rule_2_of_do_calculus_applies (on Graph/DSep.v over counterfactual "
                "nodes); dsl conditional()"]
    assumptions = ["soundness not proved; same reading of expressions as C07"]

    def gen(self, rng, tier, n, shard, nshards):
        cases = []
        while len(cases) < n:
            if rng.random() < 0.15:
                # three worlds that share do(x) and differ in an irrelevant intervention, split between outcomes and conditions: copies of one
                # variable in several worlds are the same variable, so contradicting values are impossible (wherever they are stated)
                g, ev = GEV.three_world_case(rng)
                if len(ev) >= 2:
                    rng.shuffle(ev)
                    k = rng.randint(1, len(ev) - 1)
                    cases.append({"g": g, "outcomes": ev[:k], "conditions": ev[k:]})
                continue
            g = self.rand_case(rng, 4)
            o = GEV.rand_event(rng, g["nodes"], 1, 2)
            used = {v["n"] for v, _ in o}
            rest = [k for k in g["nodes"] if GE.ALPHA[k] not in used]
            if rng.random() < 0.2:      # conditions may mention the outcome variables in other worlds
                rest = list(g["nodes"])
            if not rest:
                continue
            c = GEV.rand_event(rng, rest, 1, 2)
            if not c:
                continue
            cases.append({"g": g, "outcomes": o, "conditions": c})
        return cases

    def run(self, case):
        from y0.algorithm.identify import Unidentifiable, idc_star
        from y0.dsl import Zero
        g = case["g"]
        gr = GEV.to_y0_letters(g)
        outcomes, conditions = GEV.event_of(case["outcomes"]), GEV.event_of(case["conditions"])
        o0, c0 = dict(outcomes), dict(conditions)
        before = GG.snapshot(gr)
        with TopoRecorder() as rec:
            try:
                est, code, exc = idc_star(gr, outcomes, conditions), 0, None
            except Unidentifiable:
                est, code, exc = None, 1, None
            except Exception as ex:  # noqa: BLE001
                est, exc = None, type(ex).__name__
                code = 2 + GE.EXC.get(exc, 9)
        topo = letter_topo(rec, g)
        violation, key, verdict = None, "C08/ok", "n/a"
        joint = {**o0, **c0}
        pol = GEV.consistent_polarity(joint)
        m = CTF.FSCM(g, 0) if len(g["bid"]) <= 4 else None
        node_of = {GE.ALPHA[v]: v for v in g["nodes"]}
        names = sorted(node_of)
        if exc == "ValueError":
            # rejection: legitimate only if the conditioning event is impossible
            if m is not None and pol is not None:
                if any(CTF.event_truth(m, c0, dict(zip(names, b)), node_of) != 0 for b in itt.product(range(2), repeat=len(names))):
                    violation, key = f"IDC* rejected the conditions {c0} although they have positive probability", "C08/rejects-possible-conditions"
            verdict = "rejected"
        elif exc is not None:
            violation, key = f"IDC* raised {exc}", f"C08/crash/{exc}"
        elif GG.snapshot(gr) != before or outcomes != o0 or conditions != c0:
            violation, key = "IDC* modified its arguments", "C08/mutation"
        elif est is not None:
            bad = single_world_violation(est)
            if bad:
                violation, key = bad, "C06/vocabulary-idcstar"
            elif m is not None and pol is not None:
                for b in itt.product(range(2), repeat=len(names)):
                    rho = dict(zip(names, b))
                    pc = CTF.event_truth(m, c0, rho, node_of)
                    if pc == 0:
                        continue
                    truth = CTF.event_truth(m, joint, rho, node_of) / pc
                    env = dict(rho)
                    for n_, st in pol.items():
                        if st:
                            env[n_] = 1 - rho[n_]
                    try:
                        got = CTF.ev_ctf(est, env, rho, m, node_of)
                    except (CTF.Unsupported, ZeroDivisionError):
                        verdict = "unsupported"
                        break
                    if got != truth:
                        kind = "zero-for-possible-event" if isinstance(est, Zero) else "wrong-value"
                        violation, key = f"IDC* expression {est} = {got} but P(outcomes and conditions)/P(conditions) = {truth} at {rho} for {o0} | {c0}", f"C08/{kind}"
                        break
                else:
                    verdict = "checked"
        term = (f"CIdcStar {c_graph(g)} {GEV.c_event(o0)} {GEV.c_event(c0)} {c_list(topo)} {code} "
                f"{GE.c_expr(est) if est is not None else 'EOne'}")
        return {"out": str(est) if est is not None else code, "violation": violation,
                "nontrivial": code != 0 or (est is not None and type(est).__name__ != "Probability"),
                "features": [f"n={len(g['nodes'])}", "expr" if code == 0 else ("unidentifiable" if code == 1 else f"exception:{exc}"),
                             f"verdict={verdict}", type(est).__name__ if est is not None else "none"],
                "term": term, "key": key}

    def coq(self, case, res):
        return res.pop("term")

    def finding_key(self, case, res):
        return "C08/model-mismatch"

    def classify_mismatch(self, case, res):
        return (False, f"idc_star differs from the model on {case}", "C08/model-mismatch")


PROP = C08()
