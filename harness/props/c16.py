"""C16 - LV-DAG conversion round-trips; Evans simplification keeps the observed model."""
import itertools as itt
import re

import gen_graph as GG
from common import c_graph, c_list, c_pairs
from props.base import PropBase


def enc(v) -> int:
    name = v.name if hasattr(v, "name") else str(v)
    m = re.fullmatch(r"V(\d+)((?:_prime)*)", name)
    if m:
        return 2 * int(m.group(1)) + len(m.group(2)) // 6
    m = re.fullmatch(r"(?:u_|L|lat)(\d+)", name)
    if m:
        # y0 keeps, among latents with the same children, the one whose NAME sorts first: "u_11" < "u_4". The code of u_k is its rank in
        # string order (k < 100), so that the model's numeric comparison is y0's comparison of names.
        k = int(m.group(1))
        if k >= 100:
            raise ValueError(name)
        return 2000 + 2 * (k * 11 if k < 10 else (k // 10) * 11 + 1 + k % 10)
    raise ValueError(name)


def c_lv(d) -> str:
    return f"(LV {c_list(d['nodes'])} {c_pairs(d['edges'])} {c_list(d['lat'])})"


def lv_of_nx(dag, tag="hidden"):
    return {"nodes": [enc(v) for v in dag.nodes()], "edges": [[enc(a), enc(b)] for a, b in dag.edges()],
            "lat": [enc(v) for v, data in dag.nodes(data=True) if data[tag]]}


def nx_of_lv(d):
    import networkx as nx
    from y0.dsl import Variable
    def V(i):
        return Variable(f"V{i // 2}" + "_prime" * (i % 2))
    dag = nx.DiGraph()
    for v in d["nodes"]:
        dag.add_node(V(v), hidden=(v in d["lat"]))
    for a, b in d["edges"]:
        dag.add_edge(V(a), V(b))
    return dag


def nx_of_lv_worlds(d):
    """The same tagged DAG with its observed nodes called as variables of several worlds that SHARE base names (B0, B1 @ -W1, B0 @ -W1, ...): node sets keyed
    by name instead of by node would merge them. Returns the DAG and the map back to identifiers."""
    import networkx as nx
    from y0.dsl import Variable
    lat = set(d["lat"])
    ids = sorted(v for v in d["nodes"] if v not in lat)
    m = max(2, (len(ids) + 1) // 2)
    var = {v: Variable(f"U{v}") for v in lat}     # latents stay plain variables (y0 orders latents by comparing the nodes; it cannot compare across classes)
    for idx, v in enumerate(ids):
        base, w = Variable(f"B{idx % m}"), idx // m
        var[v] = base if w == 0 else base @ (-Variable(f"W{w}"))
    dag = nx.DiGraph()
    for v in d["nodes"]:
        dag.add_node(var[v], hidden=(v in d["lat"]))
    for a, b in d["edges"]:
        dag.add_edge(var[a], var[b])
    return dag, {x: v for v, x in var.items()}


def admg_enc(gr):
    return {"nodes": [enc(v) for v in gr.nodes()], "dir": [[enc(a), enc(b)] for a, b in gr.directed.edges()],
            "bid": [[enc(a), enc(b)] for a, b in gr.undirected.edges()]}


def projection(d):
    """Latent projection by path enumeration (independent oracle)."""
    lat = set(d["lat"])
    succ = {}
    for a, b in d["edges"]:
        succ.setdefault(a, set()).add(b)
    def through(src):
        seen, st, out = set(), [src], set()
        while st:
            x = st.pop()
            for c in succ.get(x, ()):
                if c in lat:
                    if c not in seen:
                        seen.add(c); st.append(c)
                else:
                    out.add(c)
        return out
    obs = {v for v in d["nodes"] if v not in lat}
    di = {(o, c) for o in obs for c in through(o)}
    bi = set()
    for l in lat:
        for a, b in itt.combinations(sorted(through(l)), 2):
            bi.add(frozenset((a, b)))
    return obs, di, bi


def sets_of(g):
    return set(g["nodes"]), {tuple(e) for e in g["dir"]}, {frozenset(e) for e in g["bid"]}


class C16(PropBase):
    pid = "C16"
    coq_imports = "Graph.MixedGraph Graph.LatentDag Corr.C16"
    budgets = {"quick": 900, "thorough": 9000}
    rule = ("(a) random ADMGs (2..6 nodes, with isolated nodes) through to_latent_variable_dag and back; (b) random DAGs on 3..7 nodes with a random "
            "subset tagged latent (latents with parents, 0/1/many children, duplicated child sets), and a family built around a directed chain of 3..4 latents with observed nodes hanging off it, through simplify_latent_dag and "
            "from_latent_variable_dag, each also with its nodes called as variables of several worlds that share base names. Non-trivial: (a) graph has a bidirected edge or an isolated node, (b) at least one latent has a parent or the "
            "simplification removes a node; distinct by input")
    explanation = ("round trip proved for every well-formed ADMG; simplification model checked on every case against y0 and, inside Coq, against "
                   "idempotence and the latent-projection specification")
    trusted_base = ["model Graph/LatentDag.v; latent names compared up to renaming for to_latent_variable_dag",
                    "transform_latents_with_parents visits latents in a topological order of the input DAG (the implementation's lazy networkx generator is "
                    "assumed equivalent; checked by correspondence)"]
    modelled = ["graph.py to_latent_variable_dag/_latent_dag/from_latent_variable_dag; simplify_latent.py all four rules and simplify_latent_dag",
                "evans_simplify (the public wrapper, with latents=) as the composition of the above; NOT modelled: taheri_design.py consumer"]
    assumptions = ["'separation relations and identifiability verdicts unchanged' is a corollary of projection equality given C04/C02 and is not separately proved"]

    def gen(self, rng, tier, n, shard, nshards):
        cases = []
        if shard == 0:
            cases.append({"kind": "simp", "d": {"nodes": [4, 6], "edges": [[4, 6]], "lat": [4, 6]}})
            cases.append({"kind": "round", "g": {"nodes": [0, 1, 2], "dir": [[0, 1]], "bid": []}})
            for g in GG.corpus_graphs():
                cases.append({"kind": "round", "g": {k: g[k] for k in ("nodes", "dir", "bid")}})
        while len(cases) < n:
            if rng.random() < 0.12:
                # the public wrapper, with its rarely used latents= argument: an ADMG some of whose nodes are declared latent as well
                g = GG.rand_admg(rng, 3, 6)
                cases.append({"kind": "evans", "g": g, "lat": rng.sample(g["nodes"], rng.randint(0, max(1, len(g["nodes"]) - 2)))})
            elif rng.random() < 0.3:
                c = {"kind": "round", "g": GG.rand_admg(rng, 2, 6)}
                if rng.random() < 0.35:   # the rarely used keyword arguments of to_latent_variable_dag / from_latent_variable_dag
                    c["kw"] = {"start": rng.choice([0, 1, 2, 7]), "prefix": rng.choice([None, "L", "lat"]), "tag": rng.choice([None, "is_latent"])}
                cases.append(c)
            elif rng.random() < 0.3:
                # a directed chain of 3..4 latents with observed nodes hanging off it (the bypass edges of rule 2 between two latents matter)
                m = rng.randint(3, 4)
                nobs = rng.randint(2, 4)
                chain = [2 * i for i in range(m)]
                obs = [2 * (m + i) for i in range(nobs)]
                edges = [[chain[i], chain[i + 1]] for i in range(m - 1)]
                edges.append([chain[0], rng.choice(obs)])
                edges.append([chain[-1], rng.choice(obs)])
                for l in chain:
                    for o in obs:
                        if rng.random() < 0.2 and [l, o] not in edges:
                            edges.append([l, o])
                for i in range(nobs):
                    for j in range(i + 1, nobs):
                        if rng.random() < 0.3:
                            edges.append([obs[i], obs[j]])
                if rng.random() < 0.4:
                    edges.append([rng.choice(obs[:1]), chain[0]])
                    edges = [e for e in edges if not (e[0] in chain and e[1] == obs[0])]
                rng.shuffle(edges)
                nodes = chain + obs; rng.shuffle(nodes)
                cases.append({"kind": "simp", "d": {"nodes": nodes, "edges": edges, "lat": list(chain)}})
            else:
                k = rng.randint(3, 6 if tier == "quick" else 7)
                order = list(range(k)); rng.shuffle(order)
                p = rng.choice((0.25, 0.4, 0.6))
                edges = [[2 * order[i], 2 * order[j]] for i in range(k) for j in range(i + 1, k) if rng.random() < p]
                rng.shuffle(edges)
                nodes = [2 * i for i in range(k)]; rng.shuffle(nodes)
                lat = rng.sample(nodes, rng.randint(0, k - 1))
                cases.append({"kind": "simp", "d": {"nodes": nodes, "edges": edges, "lat": lat}})
        return cases

    def run(self, case):
        from y0.graph import NxMixedGraph
        from y0.algorithm.simplify_latent import simplify_latent_dag
        violation = None
        if case["kind"] == "round":
            gr = GG.to_y0(case["g"])
            before = GG.snapshot(gr)
            kw = {k: v for k, v in case.get("kw", {}).items() if v is not None}
            tag = kw.get("tag")
            dag = gr.to_latent_variable_dag(**kw)
            back = NxMixedGraph.from_latent_variable_dag(dag, **({"tag": tag} if tag else {}))
            out = {"lv": lv_of_nx(dag, tag or "hidden"), "back": admg_enc(back)}
            g2 = {"nodes": [2 * v for v in case["g"]["nodes"]], "dir": [[2 * a, 2 * b] for a, b in case["g"]["dir"]],
                  "bid": [[2 * a, 2 * b] for a, b in case["g"]["bid"]]}
            if sets_of(out["back"]) != sets_of(g2) or not (back == gr):
                violation = "from_latent_variable_dag(to_latent_variable_dag(G)) != G"
            if GG.snapshot(gr) != before:
                violation = violation or "conversion modified the graph"
            iso = set(case["g"]["nodes"]) - {x for e in case["g"]["dir"] + case["g"]["bid"] for x in e}
            return {"out": out, "violation": violation, "nontrivial": bool(case["g"]["bid"]) or bool(iso),
                    "features": ["round", "isolated" if iso else "no-isolated", f"bid={len(case['g']['bid'])}"], "key": "C16/roundtrip"}
        if case["kind"] == "evans":
            from y0.algorithm.simplify_latent import evans_simplify
            gr = GG.to_y0(case["g"])
            before = GG.snapshot(gr)
            extra = {GG.V(v) for v in case["lat"]}
            res = evans_simplify(gr, latents=GG.present(sorted(extra, key=str), "evans")) if (extra or len(case["g"]["nodes"]) % 2) else evans_simplify(gr)
            dag = gr.to_latent_variable_dag()
            for node, data in dag.nodes(data=True):
                if node in extra:
                    data["hidden"] = True
            d = lv_of_nx(dag)
            simplify_latent_dag(dag)
            out = {"lv": lv_of_nx(dag), "admg": admg_enc(res), "d": d}
            want, got = projection(d), sets_of(out["admg"])
            if got != want:
                violation = (f"evans_simplify(G, latents={sorted(case['lat'])}) gave {sorted(got[1])}/{sorted(map(sorted, got[2]))} nodes {sorted(got[0])}, "
                             f"not the latent projection {sorted(want[1])}/{sorted(map(sorted, want[2]))} nodes {sorted(want[0])}")
            if GG.snapshot(gr) != before:
                violation = violation or "evans_simplify modified the graph"
            return {"out": out, "violation": violation, "nontrivial": bool(case["lat"]) or bool(case["g"]["bid"]),
                    "features": ["evans", f"n={len(case['g']['nodes'])}", f"declared-latents={len(case['lat'])}"], "key": "C16/projection"}
        d = case["d"]
        dag = nx_of_lv(d)
        simplify_latent_dag(dag)
        out_lv = lv_of_nx(dag)
        admg = NxMixedGraph.from_latent_variable_dag(dag)
        out = {"lv": out_lv, "admg": admg_enc(admg)}
        want = projection(d)
        got = sets_of(out["admg"])
        if got != want:
            violation = f"ADMG read off the simplified DAG {sorted(got[1])}/{sorted(map(sorted, got[2]))} nodes {sorted(got[0])} is not the latent projection {sorted(want[1])}/{sorted(map(sorted, want[2]))} nodes {sorted(want[0])}"
        if not {v for v in d["nodes"] if v not in d["lat"]} <= set(out_lv["nodes"]):
            violation = violation or "an observed node was removed"
        dag2 = dag.copy()
        simplify_latent_dag(dag2)
        if set(dag2.nodes()) != set(dag.nodes()) or set(dag2.edges()) != set(dag.edges()):
            violation = violation or "simplification is not idempotent"
        if violation is None:
            # the same DAG over variables of several worlds that share base names: the read-off ADMG must again be the latent projection
            dagw, back = nx_of_lv_worlds(d)
            simplify_latent_dag(dagw)
            aw = NxMixedGraph.from_latent_variable_dag(dagw)
            gotw = ({back[v] for v in aw.nodes()}, {(back[a], back[b]) for a, b in aw.directed.edges()},
                    {frozenset((back[a], back[b])) for a, b in aw.undirected.edges()})
            if gotw != want:
                violation = (f"with the nodes called as variables of several worlds sharing base names, the ADMG read off the simplified DAG "
                             f"{sorted(gotw[1])}/{sorted(map(sorted, gotw[2]))} is not the latent projection {sorted(want[1])}/{sorted(map(sorted, want[2]))}")
        has_parent = any(b in d["lat"] for a, b in d["edges"])
        return {"out": out, "violation": violation,
                "nontrivial": has_parent or set(out_lv["nodes"]) != set(d["nodes"]),
                "features": ["simp", f"n={len(d['nodes'])}", f"latents={len(d['lat'])}", "latent-with-parent" if has_parent else "exogenous-only"],
                "key": "C16/" + ("idempotent" if violation and "idempotent" in violation else "projection")}

    def coq(self, case, res):
        if case["kind"] == "round":
            g = case["g"]
            g2 = {"nodes": [2 * v for v in g["nodes"]], "dir": [[2 * a, 2 * b] for a, b in g["dir"]], "bid": [[2 * a, 2 * b] for a, b in g["bid"]]}
            return f"CRound {c_graph(g2)} {c_lv(res['out']['lv'])} {c_graph(res['out']['back'])}"
        if case["kind"] == "evans":
            return f"CSimp {c_lv(res['out']['d'])} {c_lv(res['out']['lv'])} {c_graph(res['out']['admg'])}"
        return f"CSimp {c_lv(case['d'])} {c_lv(res['out']['lv'])} {c_graph(res['out']['admg'])}"

    def finding_key(self, case, res):
        return f"C16/model-mismatch/{case['kind']}"

    def classify_mismatch(self, case, res):
        return (False, f"LV-DAG {case['kind']} differs from the model on {case}", f"C16/model-mismatch/{case['kind']}")

    def search(self, rng, case):
        for c in self.gen(rng, "quick", 1500, 1, 2):
            r = self.run(c)
            if r["violation"]:
                return {"case": c, "what": r["violation"], "key": r["key"]}
        return None


PROP = C16()
