"""C07 - ID* estimands equal the probability of the counterfactual event."""
import gen_event as GEV
import gen_expr as GE
import gen_graph as GG
from common import c_graph, c_list
from props.cf_common import CfProp, letter_topo
from props.id_common import TopoRecorder


def single_world_violation(est):
    """C06 for ID*/IDC*: every probability term is single-world (all its variables carry the same subscripts)."""
    from y0.dsl import CounterfactualVariable, Fraction, Probability, Product, Sum
    def walk(e):
        if isinstance(e, Probability):
            ivsets = {frozenset(x.interventions) if isinstance(x, CounterfactualVariable) else frozenset() for x in (*e.children, *e.parents)}
            return f"term {e} mixes worlds" if len(ivsets) > 1 else None
        if isinstance(e, Product):
            for x in e.expressions:
                r = walk(x)
                if r:
                    return r
            return None
        if isinstance(e, Sum):
            return walk(e.expression)
        if isinstance(e, Fraction):
            return walk(e.numerator) or walk(e.denominator)
        return None
    return walk(est)


def wrong_value_signature(event, est):
    """Which catalogued mechanism a wrong ID* value goes with (see DESIGN.md section 6)."""
    from y0.dsl import CounterfactualVariable, Sum
    bound = set()
    def free(e):
        from y0.dsl import Fraction, Probability, Product
        if isinstance(e, Probability):
            return {c.name for c in e.children if c.star is None} - bound
        if isinstance(e, Sum):
            names = {r.name for r in e.ranges}
            bound.update(names)
            out = free(e.expression)
            return out
        if isinstance(e, Product):
            return set().union(*[free(x) for x in e.expressions])
        if isinstance(e, Fraction):
            return free(e.numerator) | free(e.denominator)
        return set()
    unbound = free(est) - {v.name for v in event}
    if unbound:
        return "free-ancestors"
    plus = any(val.star for val in event.values()) or any(i.star for v in event if isinstance(v, CounterfactualVariable) for i in v.interventions)
    return "plus-values" if plus else "other"


class C07(CfProp):
    pid = "C07"
    budgets = {"quick": 1200, "thorough": 8000}
    rule = ("random ADMGs with 2..4 nodes x random conjunctions of 1..3 counterfactual events; non-trivial: the answer is an expression other than a "
            "single term, or Zero, or a refusal; distinct by (graph, event)")
    explanation = ("id_star must be one of the results of the Gallina model over all visiting orders; each expression is evaluated in a random functional "
                   "SCM with the property's reading (event values for outcome variables, literal values for subscripts) against the event's probability; "
                   "events whose printed estimand has no defined reading (one variable with two polarities) are counted, not judged")
    modelled = ["id_star.py id_star (lines 1-9), violates_axiom_of_effectiveness, remove_event_tautologies, id_star_line_6, get_events_of_district, "
                "get_conflicts, id_star_line_9; dsl._to_interventions (pillow nodes become '-v' subscripts)"]
    assumptions = ["soundness not proved; the reading of an ID* expression is the one fixed in DESIGN.md section 5 (C07)"]

    def gen(self, rng, tier, n, shard, nshards):
        cases = []
        if shard == 0:
            cases.append({"g": {"nodes": [0, 1, 2], "dir": [[0, 2]], "bid": [[1, 2]]},
                          "event": [[{"k": "V", "n": "A", "s": None}, ["A", False]], [{"k": "C", "n": "C", "s": None, "i": [["A", True]]}, ["C", True]]]})
        while len(cases) < n:
            r0 = rng.random()
            r1 = rng.random()
            if r1 < 0.05:
                g, ev = GEV.prefix_name_case(rng)
                cases.append({"g": g, "event": ev})
                continue
            if r1 < 0.12:
                g, ev = GEV.mediator_case(rng)
                cases.append({"g": g, "event": ev})
                continue
            if r0 < 0.08:
                g, ev = GEV.three_world_case(rng)
                cases.append({"g": g, "event": ev})
                continue
            g = self.rand_case(rng, 4)
            ev = None
            if r0 < 0.28:
                ev = GEV.structured_event(rng, g)
            elif r0 < 0.43:
                ev = GEV.two_parent_event(rng, g)
            cases.append({"g": g, "event": ev or GEV.rand_event(rng, g["nodes"])})
        return cases

    def call(self, gr, event):
        from y0.algorithm.identify import Unidentifiable, id_star
        try:
            return id_star(gr, dict(event)), 0, None
        except Unidentifiable:
            return None, 1, None
        except Exception as ex:  # noqa: BLE001
            return None, 2 + GE.EXC.get(type(ex).__name__, 9), type(ex).__name__

    def run(self, case):
        from y0.dsl import Zero
        g = case["g"]
        gr = GEV.to_y0_letters(g)
        event = GEV.event_of(case["event"])
        before = GG.snapshot(gr)
        with TopoRecorder() as rec:
            est, code, exc = self.call(gr, event)
        topo = letter_topo(rec, g)
        violation, key, reading = None, "C07/ok", "n/a"
        if exc is not None:
            violation, key = f"ID* raised {exc}", f"C07/crash/{exc}"
        elif GG.snapshot(gr) != before:
            violation, key = "ID* modified the graph", "C07/mutation"
        elif est is not None:
            bad = single_world_violation(est)
            if bad:
                violation, key = bad, "C06/vocabulary-idstar"
            elif len(g["bid"]) <= 4:
                violation, reading = self.truth_check(g, event, est, "ID* expression")
                if violation:
                    key = "C07/zero-for-possible-event" if isinstance(est, Zero) else "C07/wrong-value/" + wrong_value_signature(event, est)
        term = f"CIdStar {c_graph(g)} {GEV.c_event(event)} {c_list(topo)} {code} {GE.c_expr(est) if est is not None else 'EOne'}"
        return {"out": str(est) if est is not None else code, "violation": violation,
                "nontrivial": code == 1 or (est is not None and type(est).__name__ != "Probability"),
                "features": [f"n={len(g['nodes'])}", f"events={len(event)}", "expr" if code == 0 else ("unidentifiable" if code == 1 else f"exception:{exc}"),
                             f"reading={reading}", type(est).__name__ if est is not None else "none"],
                "term": term, "key": key}

    def coq(self, case, res):
        return res.pop("term")

    def finding_key(self, case, res):
        return "C07/model-mismatch"

    def classify_mismatch(self, case, res):
        return (False, f"id_star differs from the model on {case}", "C07/model-mismatch")

    def search(self, rng, case):
        return None


PROP = C07()
