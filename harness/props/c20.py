"""C20 - sigma-separation agrees with d-separation on ADMGs; symmetric; adjacent => connected."""
import gen_graph as GG
from common import c_bool, c_graph, c_list
from oracles import graphs as OG
from props.base import PropBase


def call(g, a, b, C):
    from y0.algorithm.separation.sigma_separation import are_sigma_separated
    def warm(partial, present):
        ps = sorted(present, key=str)
        for i, u in enumerate(ps):
            for v in ps[i + 1:]:
                are_sigma_separated(partial, u, v, conditions=[])
                are_sigma_separated(partial, u, v, conditions=[c for c in ps if c not in (u, v)])
    gr = GG.to_y0(g, warm=warm, loose=True)
    before = GG.snapshot(gr)
    import zlib
    how = zlib.crc32(repr((g, a, b)).encode()) % 3
    if not C and how == 0:
        out = bool(are_sigma_separated(gr, GG.V(a), GG.V(b)))                  # no conditions given at all
    elif not C and how == 1:
        out = bool(are_sigma_separated(gr, GG.V(a), GG.V(b), conditions=None))
    else:
        # cutoff: a bound on the path length that cannot bind (simple paths have at most n - 1 edges) must give the unbounded answer
        kw = {}
        if (zlib.crc32(repr((b, a, g)).encode()) >> 3) % 3 == 0:
            kw["cutoff"] = len(g["nodes"]) - 1 + ((zlib.crc32(repr((a, b)).encode()) >> 5) % 3)
        out = bool(are_sigma_separated(gr, GG.V(a), GG.V(b), conditions=GG.present([GG.V(c) for c in C], (a, b)), **kw))
    return out, GG.snapshot(gr) != before


class C20(PropBase):
    pid = "C20"
    coq_imports = "Graph.MixedGraph Graph.DSep Graph.Sigma Corr.C20"
    budgets = {"quick": 1200, "thorough": 12000}
    per_file = 150
    rule = ("random directed mixed graphs with 2..6 nodes, 35% with directed cycles; forced bows and chains below colliders; up to 10 (a,b,C) per graph (|C| up to all other nodes); "
            "non-trivial: the pair is connected in the skeleton and (C non-empty or a bidirected edge or a cycle is present); distinct by (graph,a,b,C)")
    explanation = ("adjacency clause proved for all mixed graphs; agreement with the textbook d-separation specification and symmetry are evaluated "
                   "on the model inside Coq for every generated case and on y0 directly by an independent oracle")
    trusted_base = ["model Graph/Sigma.v; specification d_connected_spec (Graph/DSep.v)"]
    modelled = ["sigma_separation.py: are_sigma_separated, is_z_sigma_open, all triple predicates, backtrack augmentation, get_equivalence_classes",
                "NOT modelled: the cutoff argument"]
    assumptions = ["inputs: a, b nodes of the graph, C a subset of the other nodes"]

    def gen(self, rng, tier, n, shard, nshards):
        cases = []
        if shard == 0:
            cases.append({"g": {"nodes": [0, 1, 2, 3, 4], "dir": [[0, 2], [1, 2], [2, 3], [3, 4]], "bid": []}, "a": 0, "b": 1, "C": [4]})
            cases.append({"g": {"nodes": [0, 1, 2], "dir": [[0, 1], [1, 2]], "bid": [[1, 2]]}, "a": 0, "b": 2, "C": []})
        while len(cases) < n:
            g = GG.rand_admg_big(rng, cyclic=rng.random() < 0.35) if rng.random() < 0.04 else GG.rand_admg(rng, 2, 6, cyclic=rng.random() < 0.35)
            for _ in range(10):
                a, b = rng.sample(g["nodes"], 2)
                rest = [x for x in g["nodes"] if x not in (a, b)]
                C = GG.rand_subset(rng, rest, 0, 3 if rng.random() < 0.7 else len(rest))
                cases.append({"g": g, "a": a, "b": b, "C": C})
        return cases

    def run(self, case):
        g, a, b, C = case["g"], case["a"], case["b"], case["C"]
        o1, m1 = call(g, a, b, C)
        o2, m2 = call(g, b, a, list(reversed(C)))
        acyc = GG.is_acyclic(g)
        violation = None
        if o1 != o2:
            violation = f"verdict not symmetric: ({a},{b})={o1}, ({b},{a})={o2}"
        adjacent = any(set(e) == {a, b} for e in g["dir"] + g["bid"])
        if adjacent and (o1 or o2):
            violation = violation or f"adjacent nodes {a},{b} reported separated"
        if acyc:
            truth = OG.d_separated(g, a, b, C)
            if o1 != truth:
                violation = violation or f"sigma-separation says {o1} but d-separation is {truth}"
        if m1 or m2:
            violation = violation or "are_sigma_separated modified the graph"
        adj = {}
        for u, v in g["dir"] + g["bid"]:
            adj.setdefault(u, set()).add(v); adj.setdefault(v, set()).add(u)
        seen, todo = {a}, [a]
        while todo:
            x = todo.pop()
            for y in adj.get(x, ()):
                if y not in seen:
                    seen.add(y); todo.append(y)
        if violation is None:   # the same query under other names, and on a graph whose nodes are counterfactual variables of one world
            violation = GG.renamed_differs(case, o1, lambda: call(g, a, b, C)[0], cf_nodes=True)
        return {"out": [o1, o2], "violation": violation,
                "nontrivial": b in seen and (bool(C) or bool(g["bid"]) or not acyc),
                "features": ["acyclic" if acyc else "cyclic", f"n={len(g['nodes'])}", f"|C|={len(C)}", f"sep={o1}", "adjacent" if adjacent else "non-adjacent"],
                "key": "C20/" + ("dsep-disagreement" if violation and "d-separation" in violation else "symmetry-or-adjacency")}

    def coq(self, case, res):
        return f"CSigma {c_graph(case['g'])} {case['a']} {case['b']} {c_list(case['C'])} {c_bool(res['out'][0])} {c_bool(res['out'][1])}"

    def finding_key(self, case, res):
        return "C20/model-mismatch"

    def classify_mismatch(self, case, res):
        return (False, f"are_sigma_separated differs from the model on {case}", "C20/model-mismatch")

    def search(self, rng, case):
        for c in self.gen(rng, "quick", 3000, 1, 2):
            r = self.run(c)
            if r["violation"]:
                return {"case": c, "what": r["violation"], "key": r["key"]}
        return None


PROP = C20()
