"""C12 - printing and parsing are inverse and printing is unambiguous."""
import gen_expr as GE
from props.dsl_common import DslProp, exc_code, normalise_l2, sem_check, ser


def simple_divisions(e, in_product=False):
    """Every division has division-free, non-constant operands and is not itself a factor of a product."""
    from y0.dsl import Fraction, One, Product, Sum, Zero
    def div_free(x):
        if isinstance(x, Fraction):
            return False
        if isinstance(x, Product):
            return all(div_free(y) for y in x.expressions)
        if isinstance(x, Sum):
            return div_free(x.expression)
        return True
    if isinstance(e, Fraction):
        if in_product:
            return False
        ops = (e.numerator, e.denominator)
        return all(div_free(o) and not isinstance(o, One | Zero) for o in ops) and all(simple_divisions(o) for o in ops)
    if isinstance(e, Product):
        return all(simple_divisions(x, True) for x in e.expressions)
    if isinstance(e, Sum):
        return simple_divisions(e.expression)
    return True


def c_string(s):
    return '"' + s.replace('"', '""') + '"'


class C12(DslProp):
    pid = "C12"
    budgets = {"quick": 1500, "thorough": 15000}
    kinds = ["round"]
    hashseed_replicas = {"quick": 1, "thorough": 2}
    rule = ("random expressions built only through the public operators (P, P[..], PP[..], Sum[..], Q[..], *, /, One(), Zero(), unary +/- marks, "
            "@ subscripts), each distribution mentioning a name once, depth <= 3 (quick) / 4 (thorough): printed, parsed, re-printed; every shard "
            "re-run under another PYTHONHASHSEED and texts compared; non-trivial: more than 12 tree nodes")
    explanation = ("str(e), parse_y0(str(e)) and str of that are compared verbatim with the printer and parser models; independently the parsed "
                   "expression is evaluated against the original on random joint tables, and for un-nested divisions object equality and equal text are required")
    modelled = ["dsl.py to_y0 of every class; parser/internal.py parse_y0 as tokenizer + precedence parser + evaluation through the overloaded "
                "operators (Dsl/Parse.v); LOCALS restricted to the harness alphabet and the builder names"]
    assumptions = ["Python's own expression grammar is modelled by the precedence parser in Dsl/Parse.v for the token alphabet the printer emits"]

    def mk(self, rng, kind, depth):
        gen = GE.ExprGen(rng, rich=True, public=True)
        return {"kind": "round", "a": GE.to_tree(gen.expr(depth + 1))}

    def corpus(self):
        from y0.dsl import A, B, C, One, P, Sum
        yield {"kind": "round", "a": GE.to_tree(P(A) / (P(B) * P(C)))}
        yield {"kind": "round", "a": GE.to_tree(Sum.safe(One(), [A]))}
        yield {"kind": "round", "a": GE.to_tree(P[A, C](B))}

    def run(self, case):
        from y0.parser import parse_y0
        a = GE.from_tree(case["a"])
        txt = str(a)
        parsed, exc = exc_code(lambda: parse_y0(txt))
        txt2 = str(parsed) if exc is None else ""
        violation = None
        if exc is not None:
            violation = f"parsing the printed form {txt} raised {exc}"
        else:
            violation = sem_check(parsed, a, f"parsed form of {txt} means something else")
            if violation is None and simple_divisions(a):
                if parsed != a:
                    violation = f"un-nested divisions but parse(print(e)) != e: {txt} -> {txt2}"
                elif txt2 != txt:
                    violation = f"re-printed text differs: {txt} -> {txt2}"
        term = f"CRound {GE.c_expr(a)} {c_string(txt)} {ser(parsed, exc)} {c_string(txt2)}"
        return {"out": [txt, txt2], "violation": violation, "nontrivial": GE.tree_size(case["a"]) > 12,
                "features": ["round", f"size={min(GE.tree_size(case['a']) // 10 * 10, 60)}", "simple-div" if simple_divisions(a) else "nested-div"],
                "term": term, "key": "C12/" + ("raise" if exc else "roundtrip")}


PROP = C12()
