"""C04 - d-separation verdicts equal true m-separation (conditional_independencies.are_d_separated)."""
import itertools as itt
import random

import gen_graph as GG
from common import c_graph, c_list
from oracles import graphs as OG
from props.base import PropBase


def call(g, a, b, C):
    import networkx as nx
    from y0.algorithm.conditional_independencies import are_d_separated
    gr = GG.to_y0(g, loose=True)
    before = GG.snapshot(gr)
    try:
        import zlib
        how = zlib.crc32(repr((g, a, b)).encode()) % 3
        if not C and how == 0:
            j = are_d_separated(gr, GG.V(a), GG.V(b))                      # no conditions given at all
        elif not C and how == 1:
            j = are_d_separated(gr, GG.V(a), GG.V(b), conditions=None)
        else:
            j = are_d_separated(gr, GG.V(a), GG.V(b), conditions=GG.present([GG.V(c) for c in C], (a, b)))
        out = 1 if j.separated else 0
        canonical = bool(j.is_canonical) and set(j.conditions) == {GG.V(c) for c in C} and {j.left, j.right} == {GG.V(a), GG.V(b)}
    except KeyError:
        out, canonical = 2, True
    except nx.NodeNotFound:
        out, canonical = 3, True
    mutated = GG.snapshot(gr) != before
    return out, canonical, mutated


class C04(PropBase):
    pid = "C04"
    coq_imports = "Graph.MixedGraph Graph.DSep Corr.C04"
    budgets = {"quick": 1600, "thorough": 16000}
    mismatch_is_failure = False
    rule = ("random ADMGs (2..6 nodes; forced bows, bidirected-only nodes, chains below colliders), up to 14 (a,b,C) triples per graph (|C| up to all other nodes), a family of long mostly-bidirected paths with most inner nodes conditioned (runs of up to 6 conditioned colliders), "
            "both argument orders and a shuffled presentation of the graph; thorough adds every labelled ADMG on <=3 nodes with every triple. "
            "Non-trivial: a and b are joined in the skeleton by some path and C is non-empty or a bidirected edge exists; distinct = distinct (graph, a, b, C)")
    explanation = ("model of are_d_separated checked against y0 and, inside Coq on every valid case, against the executable textbook "
                   "specification (active path in the latent DAG); theorems in Properties/C04.v")
    trusted_base = ["model Graph/DSep.v of are_d_separated; textbook specification d_connected_spec in the same file",
                    "independent Python path-enumeration oracle harness/oracles/graphs.py (failing-input search only)"]
    modelled = ["conditional_independencies.are_d_separated incl. KeyError checks; graph.py subgraph/moralize/disorient/districts/get_markov_pillow",
                "struct.DSeparationJudgement.create/is_canonical are checked on the implementation output directly, not modelled"]
    assumptions = ["'every reported separation is a conditional independence of every compatible model' is the global Markov property: not proved here"]

    def gen(self, rng, tier, n, shard, nshards):
        cases = []
        if shard == 0:
            graphs = [ {k: g[k] for k in ("nodes", "dir", "bid")} for g in GG.corpus_graphs()]
            graphs.append({"nodes": [0, 1, 2], "dir": [[2, 0]], "bid": [[0, 1]]})
            if tier == "thorough":
                for k in (2, 3):
                    graphs.extend(GG.all_admgs(k))
            for g in graphs:
                ns = sorted(g["nodes"])
                triples = [(a, b, list(C)) for a, b in itt.permutations(ns, 2) if a < b
                           for r in range(len(ns) - 1) for C in itt.combinations([x for x in ns if x not in (a, b)], r)]
                if len(triples) > 30:
                    triples = rng.sample(triples, 30)
                cases.extend({"g": g, "a": a, "b": b, "C": C} for a, b, C in triples)
        nmax = 6 if tier == "quick" else 7
        while len(cases) < n:
            if rng.random() < 0.06:
                # a long path between the two end nodes whose links are mostly bidirected, with most inner nodes conditioned on: runs of 1..6
                # conditioned colliders in a row (the path is open exactly when every inner collider is in C or has a descendant there)
                k = rng.randint(3, 7)
                ids = rng.sample(range(10), min(10, k + 1 + rng.randint(0, 2)))
                path, extra = ids[:k + 1], ids[k + 1:]
                di, bi = [], []
                for u, v in zip(path, path[1:]):
                    r = rng.random()
                    (bi if r < 0.7 else di).append([u, v] if r < 0.85 else [v, u])
                for x in extra:
                    di.append([rng.choice(path[1:-1]), x])
                g = {"nodes": list(ids), "dir": di, "bid": bi}
                rng.shuffle(g["nodes"])
                for _ in range(4):
                    C = [x for x in path[1:-1] if rng.random() < 0.85] + [x for x in extra if rng.random() < 0.3]
                    cases.append({"g": g, "a": path[0], "b": path[-1], "C": C})
                continue
            g = GG.rand_admg_big(rng) if rng.random() < 0.04 else GG.rand_admg(rng, 2, nmax)
            ns = g["nodes"]
            for _ in range(14):
                a, b = rng.sample(ns, 2)
                rest = [x for x in ns if x not in (a, b)]
                C = GG.rand_subset(rng, rest, 0, 3 if rng.random() < 0.7 else len(rest))
                r = rng.random()
                if r < 0.02:
                    C = C + [9]
                elif r < 0.04:
                    C = C + [a]
                elif r < 0.05:
                    b = 9
                cases.append({"g": g, "a": a, "b": b, "C": C})
        return cases[:max(n, len(cases) if shard == 0 else n)]

    def run(self, case):
        g, a, b, C = case["g"], case["a"], case["b"], case["C"]
        o1, can1, mut1 = call(g, a, b, C)
        o2, can2, mut2 = call(g, b, a, list(reversed(C)))
        rng = random.Random(str(case))
        h = {"nodes": list(g["nodes"]), "dir": list(g["dir"]), "bid": [e[::-1] for e in g["bid"]]}
        rng.shuffle(h["nodes"]); rng.shuffle(h["dir"]); rng.shuffle(h["bid"])
        o3, _, _ = call(h, a, b, C)
        ns = set(g["nodes"])
        valid = a in ns and b in ns and set(C) <= ns and a != b and a not in C and b not in C
        violation = None
        if valid:
            truth = 1 if OG.d_separated(g, a, b, C) else 0
            if o1 != truth:
                violation = f"verdict {o1} but true d-separation in the latent DAG is {truth}"
            elif o2 != o1:
                violation = f"verdict not symmetric: ({a},{b})={o1} ({b},{a})={o2}"
            elif o3 != o1:
                violation = f"verdict depends on insertion order: {o1} vs {o3}"
            elif not (can1 and can2):
                violation = "judgement record not canonical / does not carry the arguments"
        if mut1 or mut2:
            violation = violation or "are_d_separated modified the caller's graph"
        if violation is None:       # the same query with the variables called otherwise (names with a leading digit, digits inside, underscores)
            violation = GG.renamed_differs(case, o1, lambda: call(g, a, b, C)[0], cf_nodes=True)
        # skeleton-connected?
        adj = {}
        for u, v in g["dir"] + g["bid"]:
            adj.setdefault(u, set()).add(v); adj.setdefault(v, set()).add(u)
        seen, todo = {a}, [a]
        while todo:
            x = todo.pop()
            for y in adj.get(x, ()):
                if y not in seen:
                    seen.add(y); todo.append(y)
        nontrivial = valid and b in seen and (bool(C) or bool(g["bid"]))
        feats = [f"n={len(ns)}", f"|C|={len(C)}", "valid" if valid else "invalid-input", f"out={o1}",
                 "has-bidirected" if g["bid"] else "no-bidirected"]
        return {"out": [o1, o2], "violation": violation, "nontrivial": nontrivial, "features": feats,
                "key": "C04/wrong-verdict" if violation and "true d-sep" in violation else "C04/other"}

    def coq(self, case, res):
        return f"CDsep {c_graph(case['g'])} {case['a']} {case['b']} {c_list(case['C'])} {res['out'][0]} {res['out'][1]}"

    def finding_key(self, case, res):
        return "C04/model-mismatch"

    def classify_mismatch(self, case, res):
        return (False, f"are_d_separated differs from the model on {case}", "C04/model-mismatch")

    def search(self, rng, case):
        for _ in range(3000):
            g = GG.rand_admg(rng, 2, 6)
            a, b = rng.sample(g["nodes"], 2)
            C = GG.rand_subset(rng, [x for x in g["nodes"] if x not in (a, b)], 0, 3)
            r = self.run({"g": g, "a": a, "b": b, "C": C})
            if r["violation"]:
                return {"case": {"g": g, "a": a, "b": b, "C": C}, "what": r["violation"], "key": r["key"]}
        return None


PROP = C04()
