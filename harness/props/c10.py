"""C10 - canonicalisation never changes what an expression means."""
import gen_expr as GE
from props.dsl_common import DslProp, sem_check


def wellscoped(e, bound=frozenset()):
    """The property's precondition: sums bind plain names not bound above and not occurring value-marked or as
    intervention subscripts below; each distribution mentions a base name once; no literal Zero below a bar."""
    from y0.dsl import CounterfactualVariable, Fraction, Probability, Product, QFactor, Sum, Zero
    if isinstance(e, Probability):
        names = [v.name for v in (*e.children, *e.parents)]
        if len(set(names)) != len(names):
            return False
        for v in (*e.children, *e.parents):
            if v.name in bound and v.star is not None:
                return False
            if isinstance(v, CounterfactualVariable) and any(i.name in bound for i in v.interventions):
                return False
        return True
    if isinstance(e, Sum):
        rs = {r.name for r in e.ranges}
        if rs & bound or any(r.star is not None for r in e.ranges):
            return False
        return wellscoped(e.expression, bound | rs)
    if isinstance(e, Product):
        return all(wellscoped(x, bound) for x in e.expressions)
    if isinstance(e, Fraction):
        return not has_zero(e.denominator) and wellscoped(e.numerator, bound) and wellscoped(e.denominator, bound)
    if isinstance(e, QFactor):
        return False
    return True


def has_zero(e):
    from y0.dsl import Fraction, Product, Sum, Zero
    if isinstance(e, Zero):
        return True
    if isinstance(e, Product):
        return any(has_zero(x) for x in e.expressions)
    if isinstance(e, Sum):
        return has_zero(e.expression)
    if isinstance(e, Fraction):
        return has_zero(e.numerator) or has_zero(e.denominator)
    return False


class C10(DslProp):
    pid = "C10"
    budgets = {"quick": 1500, "thorough": 15000}
    kinds = ["canon", "canon", "canon", "canon_eq"]
    rule = ("random expressions (depth <= 2 quick / 3 thorough) x (default ordering | random total ordering); canonical_expr_equal on (e, presentation "
            "permutation of e) and on unrelated pairs; non-trivial: more than 12 tree nodes; distinct by tree")
    explanation = ("canonicalize compared verbatim with the Gallina model; for well-scoped inputs the canonical form is evaluated exactly against the "
                   "original on random positive joint tables, and pairs declared canonically equal are evaluated against each other")
    modelled = ["mutate/canonicalize_expr.py (Canonicalizer, canonicalize, canonical_expr_equal, _flatten_product); dsl.py Sum.safe/simplify, "
                "Product.safe, __truediv__, __mul__, ensure_ordering"]
    assumptions = ["well-scopedness as stated in DESIGN.md section 5 (C10) is the precondition of the semantic check"]

    def corpus(self):
        from y0.dsl import A, B, C, P, Sum
        yield {"kind": "canon", "a": GE.to_tree(Sum(P(A, B), frozenset([A, B, C]))), "ordering": None}

    def canon_checks(self, case, a, ordv, res, exc, res2, exc2):
        if exc is not None:
            return None
        if not wellscoped(a):
            return None
        return sem_check(res, a, "canonicalize changed the meaning")


PROP = C10()
