"""C19 - counterfactual event simplification and factorisation preserve probability."""
import itertools as itt

import gen_event as GEV
import gen_expr as GE
import gen_graph as GG
from common import c_graph, c_list
from oracles import ctf as CTF
from props.cf_common import CfProp


def c_opt_iv(v):
    return "None" if v is None else f"(Some ({GE.name_id(v.name)}, {'true' if v.star else 'false'}))"


def c_cevent(ev):
    return "[" + "; ".join(f"({GE.c_var(k)}, {c_opt_iv(v)})" for k, v in ev) + "]"


def c_varlist(vs):
    return "[" + "; ".join(GE.c_var(v) for v in vs) + "]"


def rand_cf_var(rng, nodes, kmax=2):
    y = rng.choice(nodes)
    k = rng.choice([0, 1, 1, 2][: kmax + 2])
    subs = sorted([GE.ALPHA[s], rng.random() < 0.35] for s in rng.sample(nodes, min(k, len(nodes))))
    return {"k": "C", "n": GE.ALPHA[y], "s": None, "i": subs} if subs else {"k": "V", "n": GE.ALPHA[y], "s": None}


def ev_list(tree):
    from y0.dsl import Intervention
    return [(GE.tree_var(v), None if val is None else Intervention(name=val[0], star=val[1])) for v, val in tree]


def world_value(m, var, ua, na, rho, node_of):
    from y0.dsl import CounterfactualVariable
    do = {}
    if isinstance(var, CounterfactualVariable):
        for iv in var.interventions:
            do[node_of[iv.name]] = CTF.val_of(iv.star, iv.name, rho)
    return m.solve(ua, na, do)[node_of[var.name]]


def union_find_components(sets, g):
    """Def. 4.2 by union-find: sets sharing a base vertex, or joined by a bidirected edge between member vertices."""
    sets = [set(s) for s in sets]
    parent = list(range(len(sets)))
    def find(i):
        while parent[i] != i:
            parent[i] = parent[parent[i]]
            i = parent[i]
        return i
    bases = [{v.name for v in s} for s in sets]
    for i, j in itt.combinations(range(len(sets)), 2):
        link = bool(bases[i] & bases[j]) or any((GE.ALPHA[a] in bases[i] and GE.ALPHA[b] in bases[j]) or (GE.ALPHA[b] in bases[i] and GE.ALPHA[a] in bases[j]) for a, b in g["bid"])
        if link:
            parent[find(i)] = find(j)
    out = {}
    for i, s in enumerate(sets):
        out.setdefault(find(i), set()).update(s)
    return {frozenset(s) for s in out.values()}


class C19(CfProp):
    pid = "C19"
    coq_imports = "Graph.MixedGraph Dsl.Syntax Dsl.Build Alg.Id Alg.Cg Alg.CtfAnc Corr.Ctf"
    budgets = {"quick": 600, "thorough": 6000}
    per_file = 100
    rule = ("random ADMGs with 2..5 nodes x one of: minimise a counterfactual variable (0..2 subscripts, reflexive ones and non-ancestors included), "
            "its counterfactual ancestors, ancestral components of 1..6 roots given 0..2 conditioned variables (and of the sinks of zigzag graphs on 5..9 nodes, whose ancestral sets overlap along a path), SIMPLIFY of a 1..4-conjunct event "
            "(repeated variables, reflexive subscripts, both polarities), factorisation of a 1..2-variable query; non-trivial: the operation changes "
            "its input, merges sets, or returns None; distinct by input")
    explanation = ("each routine is compared with its Gallina model; minimise is checked to denote the same random variable for every noise value of a "
                   "random functional SCM, SIMPLIFY and the factorised sum-product are evaluated against the event's probability, ancestors and "
                   "components against independent implementations of Definitions 2.1 and 4.2")
    modelled = ["ancestor_utils.py: get_ancestors_of_counterfactual, minimize_counterfactual, _get_conditioned_variables_in_ancestral_set, "
                "_get_ancestral_set_after_intervening_on_conditioned_variables, both merge passes, get_ancestral_components; api.py: simplify with its "
                "helpers, minimize_event, convert_to_counterfactual_factor_form, is_counterfactual_factor_form, get_counterfactual_factors, "
                "do_counterfactual_factor_factorization"]
    assumptions = ["semantic clauses are checked by the functional-SCM oracle, not proved"]
    KINDS = ["min", "anc", "comp", "simp", "simp", "fact"]

    def gen(self, rng, tier, n, shard, nshards):
        cases = []
        if shard == 0:
            cases.append({"kind": "min", "g": {"nodes": [0, 1, 2, 3], "dir": [[0, 1], [2, 3]], "bid": []}, "v": {"k": "C", "n": "B", "s": None, "i": [["C", False]]}})
            cases.append({"kind": "comp", "g": {"nodes": [0, 1, 2, 3], "dir": [], "bid": [[0, 2], [1, 3]]}, "conds": [],
                          "roots": [{"k": "V", "n": "A", "s": None}, {"k": "V", "n": "B", "s": None}]})
        while len(cases) < n:
            g = GG.rand_admg(rng, 2, 5)
            g = {"nodes": sorted(g["nodes"]), "dir": g["dir"], "bid": g["bid"]}
            if rng.random() < 0.25:
                # a directed chain (ancestor sets grow with every edge), its edges listed in random order, plus a few random edges
                k = rng.randint(3, 5)
                order = list(range(k)); rng.shuffle(order)
                chain = [[order[i], order[i + 1]] for i in range(k - 1)]
                extra = [[order[i], order[j]] for i in range(k) for j in range(i + 2, k) if rng.random() < 0.15]
                di = chain + extra; rng.shuffle(di)
                g = {"nodes": list(range(k)), "dir": di, "bid": [[order[i], order[j]] for i in range(k) for j in range(i + 1, k) if rng.random() < 0.15]}
            if rng.random() < 0.06:
                # a zigzag v0 <- v1 -> v2 <- v3 -> ... (some links bidirected): the ancestral sets of the sinks overlap pairwise along a path, so that
                # four or more sets have to be chained into one component whatever order they are met in (the names are a random permutation)
                k = rng.randint(5, 9)
                ids = list(range(k)); rng.shuffle(ids)
                di, bi = [], []
                for i in range(k - 1):
                    a_, b_ = (ids[i + 1], ids[i]) if i % 2 == 0 else (ids[i], ids[i + 1])
                    (bi if rng.random() < 0.15 else di).append([a_, b_])
                rng.shuffle(di)
                zg = {"nodes": sorted(ids), "dir": di, "bid": bi}
                sinks = [ids[i] for i in range(0, k, 2)]
                for _ in range(4):
                    roots = [{"k": "V", "n": GE.ALPHA[v], "s": None} for v in sinks if rng.random() < 0.9]
                    roots += [{"k": "V", "n": GE.ALPHA[v], "s": None} for v in ids if v not in sinks and rng.random() < 0.25]
                    if len(roots) >= 2:
                        rng.shuffle(roots)
                        cases.append({"kind": "comp", "g": zg, "roots": roots, "conds": []})
                continue
            kind = rng.choice(self.KINDS)
            c = {"kind": kind, "g": g}
            if kind in ("min", "anc"):
                c["v"] = rand_cf_var(rng, g["nodes"])
            elif kind == "comp":
                c["roots"] = [rand_cf_var(rng, g["nodes"]) for _ in range(rng.randint(1, 3) if rng.random() < 0.75 else rng.randint(4, 6))]
                c["conds"] = [rand_cf_var(rng, g["nodes"], 1) for _ in range(rng.randint(0, 2))]
                two = [(a, b, d) for a, b in g["dir"] for b2, d in g["dir"] if b2 == b and d != a]
                if two and rng.random() < 0.3:
                    # one variable in two worlds among the roots, conditioned on a mediator in the counterfactual world: P(Y_x, Y | Z_x) on x -> z -> y.
                    # The conditioned variable's out-edges are cut in the set of Y_x only, where the remaining ancestors lose their subscript:
                    # the factual root Y is NOT the plain Y inside that set
                    x, z, y = rng.choice(two)
                    sub = [[GE.ALPHA[x], rng.random() < 0.3]]
                    zx = {"k": "C", "n": GE.ALPHA[z], "s": None, "i": sub}
                    roots = [{"k": "C", "n": GE.ALPHA[y], "s": None, "i": sub}, {"k": "V", "n": GE.ALPHA[y], "s": None}, zx]
                    if rng.random() < 0.3:
                        roots.append(rand_cf_var(rng, g["nodes"]))
                    rng.shuffle(roots)
                    c["roots"], c["conds"] = roots, [zx]
            elif kind == "simp":
                ev = []
                for _ in range(rng.randint(1, 4)):
                    v = rand_cf_var(rng, g["nodes"])
                    if ev and rng.random() < 0.25:
                        v = rng.choice(ev)[0]
                    ev.append([v, [v["n"], rng.random() < 0.35]])
                c["event"] = ev
            else:
                vs, seen = [], set()
                for _ in range(rng.randint(1, 2)):
                    v = rand_cf_var(rng, g["nodes"], 1)
                    if v["n"] in seen or any(i[0] == v["n"] for i in v.get("i", [])):
                        continue
                    seen.add(v["n"])
                    vs.append([v, [v["n"], rng.random() < 0.35]])
                if not vs:
                    continue
                c["event"] = vs
            cases.append(c)
        return cases

    def run(self, case):
        from y0.algorithm.counterfactual_transport.ancestor_utils import (get_ancestors_of_counterfactual, get_ancestral_components,
                                                                          minimize_counterfactual)
        from y0.algorithm.counterfactual_transport.api import do_counterfactual_factor_factorization, simplify
        g, kind = case["g"], case["kind"]
        gr = GEV.to_y0_letters(g)
        before = GG.snapshot(gr)
        node_of = {GE.ALPHA[v]: v for v in g["nodes"]}
        names = sorted(node_of)
        m = CTF.FSCM(g, 0) if len(g["bid"]) <= 4 else None
        violation, key, nontrivial = None, "C19/ok", False
        gc = c_graph(g)
        if kind in ("min", "anc"):
            v = GE.tree_var(case["v"])
            f = minimize_counterfactual if kind == "min" else get_ancestors_of_counterfactual
            try:
                out, exc = f(v, gr), None
            except Exception as ex:  # noqa: BLE001
                out, exc = None, type(ex).__name__
            if kind == "min":
                term = f"CMin {GE.c_var(v)} {gc} " + ("None" if exc else f"(Some {GE.c_var(out)})")
                if exc:
                    violation, key = f"minimize_counterfactual({v}) raised {exc}", "C19/minimize-raises"
                elif m is not None:
                    rho = {n: 0 for n in names}
                    for ua, na, p in m.noise:
                        if world_value(m, v, ua, na, rho, node_of) != world_value(m, out, ua, na, rho, node_of):
                            violation, key = f"minimised variable {out} differs from {v} for some noise value", "C19/minimize-changes-variable"
                            break
                nontrivial = out != v
            else:
                term = f"CAnc {GE.c_var(v)} {gc} " + ("None" if exc else f"(Some {c_varlist(sorted(out, key=str))})")
                if exc:
                    violation, key = f"get_ancestors_of_counterfactual({v}) raised {exc}", "C19/ancestors-raise"
                else:
                    want = definition_ancestors(v, g)
                    if {str(x) for x in out} != want:
                        violation, key = f"ancestors of {v}: {sorted(map(str, out))} but Definition 2.1 gives {sorted(want)}", "C19/ancestors"
                nontrivial = len(out or []) > 1
        elif kind == "comp":
            roots = [GE.tree_var(v) for v in case["roots"]]
            conds = [GE.tree_var(v) for v in case["conds"]]
            try:
                out, exc = get_ancestral_components(conditioned_variables=set(conds), root_variables=set(roots), graph=gr), None
            except Exception as ex:  # noqa: BLE001
                out, exc = None, type(ex).__name__
            term = f"CComp {c_varlist(conds)} {c_varlist(roots)} {gc} " + ("None" if exc else "(Some [" + "; ".join(c_varlist(sorted(s, key=str)) for s in out) + "])")
            if exc:
                violation, key = f"get_ancestral_components raised {exc}", "C19/components-raise"
            else:
                from y0.algorithm.counterfactual_transport.ancestor_utils import _get_ancestral_set_after_intervening_on_conditioned_variables as anc_set
                sets = {anc_set(conditioned_variables=set(conds), ancestral_set_root_variable=r, graph=gr) for r in roots}
                want = union_find_components(sets, g)
                if set(out) != want:
                    violation, key = f"ancestral components {sorted(sorted(map(str, s)) for s in out)} but Definition 4.2 gives {sorted(sorted(map(str, s)) for s in want)}", "C19/components"
                nontrivial = len(sets) > 1
        elif kind == "simp":
            ev = ev_list(case["event"])
            try:
                out, exc = simplify(event=list(ev), graph=gr), None
            except Exception as ex:  # noqa: BLE001
                out, exc = None, type(ex).__name__
            code = 0 if (exc is None and out is not None) else (1 if exc is None else 2 + GE.EXC.get(exc, 9))
            term = f"CSimp {c_cevent(ev)} {gc} {code} {c_cevent(out) if code == 0 else '[]'}"
            if exc:
                violation, key = f"simplify raised {exc} on {ev}", "C19/simplify-raises"
            elif m is not None:
                for b in itt.product(range(2), repeat=len(names)):
                    rho = dict(zip(names, b))
                    p0 = m.prob(truth_events(ev, rho, node_of))
                    if out is None:
                        if p0 != 0:
                            violation, key = f"simplify says impossible but {ev} has probability {p0} at {rho}", "C19/simplify-impossible"
                            break
                    else:
                        p1 = m.prob(truth_events(out, rho, node_of))
                        if p0 != p1:
                            violation, key = f"simplify({ev}) = {out}: probability {p1} instead of {p0} at {rho}", "C19/simplify-probability"
                            break
            nontrivial = out is None or out != ev
        else:
            ev = ev_list(case["event"])
            try:
                (expr, rev), exc = do_counterfactual_factor_factorization(variables=list(ev), graph=gr), None
            except Exception as ex:  # noqa: BLE001
                expr, rev, exc = None, None, type(ex).__name__
            term = f"CFact {c_cevent(ev)} {gc} " + ("false EOne []" if exc else f"true {GE.c_expr(expr)} {c_cevent(rev)}")
            if exc:
                violation, key = f"do_counterfactual_factor_factorization raised {exc} on {ev}", "C19/factorization-raises"
            elif m is not None:
                evd = {k: v for k, v in ev}
                outcome_names = {k.name for k in evd}
                # skip the ambiguous case: a literal '-x' subscript of the query on a variable that is itself an outcome
                from y0.dsl import Sum as _Sum
                summed = {r.name for r in expr.ranges} if isinstance(expr, _Sum) else set()
                ambiguous = any(i.name in outcome_names | summed for k in evd if hasattr(k, "interventions") for i in k.interventions)
                v2, reading = (None, "ambiguous") if ambiguous else self.truth_check(g, evd, expr, "factorised query", outcome_names)
                if v2:
                    # a non-event ancestor that is a copy (another world) of an outcome variable is never summed out: its base is an outcome base
                    from y0.dsl import Intervention as _Iv
                    free_copy = any(v.name in outcome_names and v not in evd for v in expr.get_variables() if not isinstance(v, _Iv))
                    violation, key = v2, "C19/factorization-value" + ("/unsummed-copy-of-an-outcome-variable" if free_copy else "")
            nontrivial = True
        if violation is None and GG.snapshot(gr) != before:
            violation, key = f"{kind} modified the graph", "C19/mutation"
        return {"out": term[-300:], "violation": violation, "nontrivial": nontrivial,
                "features": [kind, f"n={len(g['nodes'])}"], "term": term, "key": key}

    def coq(self, case, res):
        return res.pop("term")

    def finding_key(self, case, res):
        return f"C19/model-mismatch/{case['kind']}"

    def classify_mismatch(self, case, res):
        return (False, f"{case['kind']} differs from the model on {case}", f"C19/model-mismatch/{case['kind']}")


def truth_events(ev, rho, node_of):
    from y0.dsl import CounterfactualVariable
    out = []
    for var, val in ev:
        do = {}
        if isinstance(var, CounterfactualVariable):
            for iv in var.interventions:
                do[node_of[iv.name]] = CTF.val_of(iv.star, iv.name, rho)
        out.append((do, node_of[var.name], CTF.val_of(val.star, val.name, rho)))
    return out


def definition_ancestors(v, g):
    """Definition 2.1 (Correa, Lee, Bareinboim): An(Y_x) = { W_z : W in An(Y) in G with the edges out of X removed,
    z = x restricted to An(W) in G with the edges into X removed }."""
    from y0.dsl import CounterfactualVariable
    name = {k: GE.ALPHA[k] for k in g["nodes"]}
    idx = {GE.ALPHA[k]: k for k in g["nodes"]}
    def anc(edges, src):
        out, todo = {src}, [src]
        while todo:
            x = todo.pop()
            for a, b in edges:
                if b == x and a not in out:
                    out.add(a); todo.append(a)
        return out
    if not isinstance(v, CounterfactualVariable):
        return {name[w] for w in anc(g["dir"], idx[v.name])}
    X = {idx[i.name] for i in v.interventions}
    g_under = [e for e in g["dir"] if e[0] not in X]
    g_over = [e for e in g["dir"] if e[1] not in X]
    res = set()
    for w in anc(g_under, idx[v.name]):
        aw = anc(g_over, w)
        z = sorted((i for i in v.interventions if idx[i.name] in aw), key=lambda i: (i.name, i.star))
        if not z:
            res.add(name[w])
        elif len(z) == 1:
            res.add(f"{name[w]} @ {z[0].to_y0()}")
        else:
            res.add(f"{name[w]} @ ({', '.join(i.to_y0() for i in z)})")
    return res


PROP = C19()
