"""C05 - surrogate-outcome / transport (TRSO) estimands equal the target effect."""
import itertools as itt

import gen_expr as GE
import gen_graph as GG
from common import c_list
from oracles import domains as DOM
from oracles import expr_sem as SEM
from oracles import ident as IDENT
from props.base import PropBase
from props.id_common import OFF, TopoRecorder, c_graph_off, c_table, gen_query


def vocabulary_violation(est, g, domains):
    """C06 for TRSO: only target-observational terms or source terms under a subset of that domain's experiments; no T_ node."""
    from y0.dsl import CounterfactualVariable, Fraction, PopulationProbability, Probability, Product, Sum
    names = {f"V{v}" for v in g["nodes"]}
    allowed = {f"pi{i + 1}": {f"V{v}" for v in d["Z"]} for i, d in enumerate(domains)}
    def walk(e):
        if isinstance(e, Probability):
            if not isinstance(e, PopulationProbability):
                return f"term {e} carries no population"
            pop = e.population.name
            ivsets = {frozenset(x.interventions) if isinstance(x, CounterfactualVariable) else frozenset() for x in (*e.children, *e.parents)}
            if len(ivsets) != 1:
                return f"term {e} mixes worlds"
            ivs = {i.name for i in next(iter(ivsets))}
            for v in (*e.children, *e.parents):
                if v.name not in names:
                    return f"term {e} mentions {v.name} (not a node of the graph; selection nodes must not appear)"
            if pop == "pi*":
                return f"target term {e} is interventional" if ivs else None
            if pop not in allowed:
                return f"term {e} uses an undeclared domain"
            if not ivs <= allowed[pop]:
                return f"term {e} intervenes on {sorted(ivs - allowed[pop])}, not experimental variables of {pop}"
            return None
        if isinstance(e, Product):
            for x in e.expressions:
                r = walk(x)
                if r:
                    return r
            return None
        if isinstance(e, Sum):
            for r_ in e.ranges:
                if r_.name not in names:
                    return f"sum over {r_.name}: not a node of the graph"
            return walk(e.expression)
        if isinstance(e, Fraction):
            return walk(e.numerator) or walk(e.denominator)
        return None
    return walk(est)


class C05(PropBase):
    pid = "C05"
    coq_imports = "Graph.MixedGraph Dsl.Syntax Dsl.Build Alg.Id Alg.Trso Corr.Id Corr.Trso"
    budgets = {"quick": 320, "thorough": 3200}
    per_file = 60
    rule = ("random ADMGs with 2..5 nodes (6 thorough) x disjoint X, Y x 0..2 source domains with random experiment sets Z_i and surrogate-outcome sets W_i; "
            "30% of the cases have no domain at all (TRSO must then agree with ID); 30% two-domain family; 20% napkin-like chains with skip-level bidirected edges (lines 9/10). Non-trivial: a source-domain term appears in the answer, or the "
            "recursion used a topological order, or the answer is None; distinct by input; one query per shape of run of ID that goes through line 7 (= TRSO line 10), alone and with a random source domain (harness/corpus/id_traces.json)")
    explanation = ("identify_target_outcomes compared with the Gallina model of transport.py (recorded topological orders replayed; population-tagged parents "
                   "compared as sets); each estimand is evaluated exactly on a family of SCMs that differ from the target exactly at the transported "
                   "nodes, against P*(y | do x); without domains the verdict is compared with the Tian-Pearl identifiability criterion")
    trusted_base = ["model Alg/Trso.v of transport.py; Dsl/Canon.v for the internal canonicalize calls",
                    "Python multi-domain SCM oracle harness/oracles/domains.py: supporting validation only"]
    modelled = ["transport.py get_nodes_to_transport, create_transport_diagram, surrogate_to_transport, trso (lines 1-11), trso_line2/9/10, _line_6_helper, "
                "all_transports_d_separated, activate_domain_and_interventions, identify_target_outcomes input checks"]
    assumptions = ["a source domain is read as an SCM equal to the target except for the mechanisms of the nodes that received a transport node; "
                   "PP[pi_i][Z'](...) is that SCM's distribution under do(Z')",
                   "soundness is not yet a Coq theorem (DESIGN.md 5/C05)"]

    def gen(self, rng, tier, n, shard, nshards):
        cases = []
        if shard == 0:
            # Tikka & Karvanen style: X -> Z -> Y with X <-> Y, experiment on Z available in a source domain
            cases.append({"g": {"nodes": [0, 1, 2], "dir": [[0, 1], [1, 2]], "bid": [[0, 2]]}, "X": [0], "Y": [2], "domains": [{"Z": [1], "W": [2]}]})
            cases.append({"g": {"nodes": [0, 1], "dir": [[0, 1]], "bid": [[0, 1]]}, "X": [0], "Y": [1], "domains": [{"Z": [0], "W": [1]}]})
            # one query per shape of run of the ID recursion that goes through line 7 (= TRSO line 10: c-factors from the carried distribution),
            # alone (TRSO must then agree with ID) and with a random source domain
            for c in GG.trace_corpus(rng, tier, conditions=False, quick_n=60, keep=lambda shape: "7" in shape.split("|")[1]):
                doms = []
                if rng.random() < 0.4:
                    Z = list(set(GG.rand_subset(rng, c["g"]["nodes"], 1, 2)) | ({rng.choice(c["X"])} if rng.random() < 0.6 else set()))
                    W = GG.rand_subset(rng, [v for v in c["g"]["nodes"] if v not in Z], 1, 2)
                    if W:
                        doms.append({"Z": Z, "W": W})
                cases.append({"g": c["g"], "X": c["X"], "Y": c["Y"], "domains": doms})
        nmax = 5 if tier == "quick" else 6
        while len(cases) < n:
            r0 = rng.random()
            if r0 < 0.3:
                c = self.multi_domain_case(rng)
                if c:
                    cases.append(c)
                continue
            if r0 < 0.5:
                cases.append(self.napkin_case(rng))
                continue
            g = GG.rand_admg(rng, 2, nmax)
            X, Y = gen_query(rng, g)
            if rng.random() < 0.55:   # prefer queries that ID alone cannot answer, so that the surrogates matter
                for _ in range(25):
                    if not IDENT.identifiable(g, X, Y):
                        break
                    g = GG.rand_admg(rng, 2, nmax)
                    X, Y = gen_query(rng, g)
            doms = []
            if rng.random() > 0.3:
                for _ in range(rng.randint(1, 2)):
                    Z = GG.rand_subset(rng, g["nodes"], 1, 2)
                    if rng.random() < 0.6:
                        Z = list(set(Z) | {rng.choice(X)})
                    W = GG.rand_subset(rng, [v for v in g["nodes"] if v not in Z], 1, 2) or [v for v in g["nodes"] if v not in Z][:1]
                    if W:
                        doms.append({"Z": Z, "W": W})
            cases.append({"g": g, "X": X, "Y": Y, "domains": doms})
        return cases

    def napkin_case(self, rng):
        """A directed chain with skip-level bidirected edges (napkin-like): the district of G minus X that holds the outcomes is a
        proper part of a larger district of G, so TRSO goes through lines 9 and 10 (c-factors from the carried distribution)."""
        n = rng.randint(4, 6)
        order = list(range(n)); rng.shuffle(order)
        di = [[order[i], order[i + 1]] for i in range(n - 1) if rng.random() < 0.85]
        di += [[order[i], order[j]] for i in range(n) for j in range(i + 2, n) if rng.random() < 0.15]
        bi = [[order[i], order[j]] for i in range(n) for j in range(i + 2, n) if rng.random() < 0.35]
        g = {"nodes": sorted(order), "dir": di, "bid": bi}
        y = order[-1]
        ys = [y] + ([order[-2]] if rng.random() < 0.25 else [])
        xs = rng.sample([v for v in order if v not in ys], rng.randint(1, 2))
        doms = []
        if rng.random() < 0.5:
            doms.append({"Z": rng.sample([v for v in order if v not in ys], 1), "W": [y]})
        return {"g": g, "X": xs, "Y": ys, "domains": doms}

    def multi_domain_case(self, rng):
        """Two or three target interventions, two source domains whose experiments hit different interventions, outcomes
        downstream: exercises the domain switch of line 6 with interventions left over, followed by lines 2-4 inside a source domain."""
        n = rng.randint(4, 6)
        order = list(range(n)); rng.shuffle(order)
        di = [[order[i], order[j]] for i in range(n) for j in range(i + 1, n) if rng.random() < 0.45]
        bi = [[order[i], order[j]] for i in range(n) for j in range(i + 1, n) if rng.random() < 0.15]
        g = {"nodes": sorted(order), "dir": di, "bid": bi}
        y = order[-1]
        xs = rng.sample(order[:-1], rng.randint(2, min(3, n - 1)))
        rng.shuffle(xs)
        k = rng.randint(1, len(xs) - 1)
        z1, z2 = xs[:k], xs[k:]
        others = [v for v in order if v not in xs]
        doms = [{"Z": z1 + (rng.sample(others, 1) if rng.random() < 0.2 and len(others) > 1 else []), "W": [y] + rng.sample([v for v in others if v != y], min(1, len(others) - 1))},
                {"Z": z2, "W": [y]}]
        for d in doms:
            d["Z"] = [v for v in d["Z"] if v not in d["W"]]
            if not d["Z"]:
                return None
        return {"g": g, "X": xs, "Y": [y], "domains": doms}

    def run(self, case):
        from y0.algorithm.transport import get_nodes_to_transport, identify_target_outcomes
        from y0.dsl import Variable
        g, X, Y, doms = case["g"], case["X"], case["Y"], case["domains"]
        def warm(partial, present):
            ys, xs = {GG.V(v) for v in Y} & present, {GG.V(v) for v in X} & present
            if ys and xs:
                identify_target_outcomes(partial, target_outcomes=ys, target_interventions=xs, surrogate_outcomes={}, surrogate_interventions={})
        gr = GG.to_y0(g, warm=warm, loose=True)
        before = GG.snapshot(gr)
        g_impl = GG.from_y0(gr)       # nodes and edges in the order the object holds them (a loose build brings nodes in through edges)
        pops = [Variable(f"pi{i + 1}") for i in range(len(doms))]
        so = {p: {GG.V(v) for v in d["W"]} for p, d in zip(pops, doms)}
        si = {p: {GG.V(v) for v in d["Z"]} for p, d in zip(pops, doms)}
        import zlib
        if len(doms) > 1 and zlib.crc32(repr((X, Y, doms)).encode()) % 2:
            # the two dictionaries describe the same domains; nothing says they list them in the same order
            si = dict(reversed(list(si.items())))
        with TopoRecorder() as rec:
            try:
                est = identify_target_outcomes(gr, target_outcomes={GG.V(v) for v in Y}, target_interventions={GG.V(v) for v in X},
                                               surrogate_outcomes=so, surrogate_interventions=si)
                code, exc = (1 if est is None else 0), None
            except Exception as ex:  # noqa: BLE001
                est, exc = None, type(ex).__name__
                code = 2 + GE.EXC.get(exc, 9)
        tbl, _ = rec.table()
        violation, key = None, "C05/ok"
        if exc is not None:
            violation, key = f"TRSO raised {exc} on a valid query", f"C05/crash/{exc}"
        elif GG.snapshot(gr) != before:
            violation, key = "TRSO modified the graph", "C05/mutation"
        elif not doms and (est is not None) != IDENT.identifiable(g, X, Y):
            violation, key = "without surrogate experiments TRSO and the identifiability criterion disagree", "C05/verdict"
        elif est is not None:
            bad = vocabulary_violation(est, g, doms)
            if bad:
                violation, key = bad, "C06/vocabulary-trso"
            elif len(g["bid"]) <= 4:
                differing = {}
                for p, d in zip(pops, doms):
                    differing[p.name] = {GG.vid(v) for v in get_nodes_to_transport(surrogate_interventions={GG.V(v) for v in d["Z"]},
                                                                                  surrogate_outcomes={GG.V(v) for v in d["W"]}, graph=gr)}
                violation = self.semantic(g, X, Y, est, differing)
                if violation:
                    key = "C05/wrong-estimand"
        dom_c = "[" + "; ".join(f"({201 + i}, {c_list([OFF + v for v in d['W']])}, {c_list([OFF + v for v in d['Z']])})" for i, d in enumerate(doms)) + "]"
        term = (f"CTrso {c_graph_off(g_impl)} {c_list([OFF + v for v in Y])} {c_list([OFF + v for v in X])} {dom_c} {c_table(tbl)} {code} "
                f"{GE.c_expr(est) if est is not None else 'EOne'}")
        uses_source = est is not None and "pi1" in str(est) or (est is not None and "pi2" in str(est))
        return {"out": str(est) if est is not None else code, "violation": violation,
                "nontrivial": bool(uses_source) or len(tbl) > 0 or code == 1,
                "features": [f"n={len(g['nodes'])}", f"domains={len(doms)}", "estimand" if code == 0 else ("none" if code == 1 else f"exception:{exc}"),
                             "uses-source-domain" if uses_source else "target-only"],
                "term": term, "key": key}

    def semantic(self, g, X, Y, est, differing):
        fam = DOM.Family(g, differing, seed=0)
        names = sorted({v.name for v in est.get_variables() if v.name.startswith("V")})
        others = [n for n in names if n not in {f"V{v}" for v in (*X, *Y)}]
        for xv in itt.product((0, 1), repeat=len(X)):
            do = dict(zip(sorted(X), xv))
            for yv in itt.product((0, 1), repeat=len(Y)):
                ya = dict(zip(sorted(Y), yv))
                truth = fam.target.prob(ya, do)
                for ov in itt.product((0, 1), repeat=len(others)):
                    env = {f"V{k}": v for k, v in {**do, **ya}.items()}
                    env.update(zip(others, ov))
                    for v in g["nodes"]:
                        env.setdefault(f"V{v}", 0)
                    try:
                        val = SEM.ev(est, env, fam)
                    except SEM.Undefined:
                        continue
                    except SEM.Unsupported:
                        return None
                    except KeyError as ex:
                        return f"estimand {est} mentions {ex}, not evaluable on the declared domains"
                    if val != truth:
                        return f"estimand {est} = {val} but P*(y|do x) = {truth} at do={do} y={ya} others={dict(zip(others, ov))}"
        return None

    def coq(self, case, res):
        return res.pop("term")

    def finding_key(self, case, res):
        return "C05/model-mismatch"

    def classify_mismatch(self, case, res):
        return (False, f"identify_target_outcomes differs from the model on {case}", "C05/model-mismatch")

    def search(self, rng, case):
        for c in self.gen(rng, "quick", 500, 1, 2):
            r = self.run(c)
            if r["violation"]:
                return {"case": c, "what": r["violation"], "key": r["key"]}
        return None


PROP = C05()
