"""C09 - counterfactual transport (ctfTRu / ctfTR) answers are correct."""
import itertools as itt
import random
from fractions import Fraction as Fr

import gen_expr as GE
import gen_graph as GG
from common import c_list
from oracles import ctf as CTF
from oracles.expr_sem import Model, Undefined, Unsupported, ev as sem_ev
from props.base import PropBase
from props.c17 import rand_topo
from props.c19 import c_cevent
from props.id_common import OFF, c_graph_off


def Vn(k):
    return f"V{k}"


def rand_var(rng, nodes):
    y = rng.choice(nodes)
    k = rng.choice([0, 0, 1, 1, 2])
    subs = sorted([Vn(s), rng.random() < 0.3] for s in rng.sample([n for n in nodes if n != y], min(k, len(nodes) - 1)))
    return {"k": "C", "n": Vn(y), "s": None, "i": subs} if subs else {"k": "V", "n": Vn(y), "s": None}


class FamilyF(Model):
    """expr_sem model over functional SCMs: world (population, ()) -> observational joint of that domain's FSCM."""

    def __init__(self, g, domains, seed=0):
        super().__init__("ffam", [Vn(v) for v in sorted(g["nodes"])])
        self.g = g
        self.target = CTF.FSCM(g, seed)
        self.scms = {"pi*": self.target}
        for k, d in enumerate(domains):
            m = CTF.FSCM(g, seed)
            rng = random.Random(f"fdom/{seed}/{k}")
            for v in set(d["transport"]) | set(d["policy"]):
                pa, us, tab = m.f[v]
                m.f[v] = (pa, us, {key: rng.randint(0, 1) for key in tab})
            self.scms[f"pi{k + 1}"] = m

    def table(self, world):
        if world not in self.tables:
            pop, ivs = world
            if ivs:
                raise Unsupported("interventional atom")
            m = self.scms[pop]
            order = sorted(self.g["nodes"])
            acc = {}
            den = 1
            import math
            for ua, na, p in m.noise:
                a = m.solve(ua, na, {})
                key = tuple(a[v] for v in order)
                acc[key] = acc.get(key, Fr(0)) + p
            for p in acc.values():
                den = den * p.denominator // math.gcd(den, p.denominator)
            full = {vals: int(acc.get(vals, Fr(0)) * den) for vals in itt.product((0, 1), repeat=len(order))}
            self.tables[world] = (full, den)
        return self.tables[world]


class C09(PropBase):
    pid = "C09"
    coq_imports = "Graph.MixedGraph Dsl.Syntax Dsl.Build Alg.Id Alg.Tian Alg.Cg Alg.CtfAnc Alg.CtfTr Corr.CtfTr"
    budgets = {"quick": 300, "thorough": 3000}
    per_file = 40
    rule = ("random target ADMGs with 2..4 nodes (5 thorough), 1..2 domains (selection diagram = target plus transport nodes on a random subset, a "
            "random valid topological order containing them, a random policy-variable set, joint distribution tag), an unconditional event of 1..3 "
            "valued counterfactual variables or an (outcomes, conditions) pair; non-trivial: the answer is an expression with more than one term, "
            "Zero, or FAIL; distinct by input")
    explanation = ("transport_unconditional_counterfactual_query / transport_conditional_counterfactual_query compared with the Gallina model "
                   "(Algorithms 2-4 on the SIMPLIFY, ancestor, factor-form and Tian models); answers are evaluated on the observational distributions of a "
                   "family of functional SCMs that differ from the target at the transported and policy variables, against the target probability "
                   "of the queried event; any exception on an input that passed validation is a violation")
    trusted_base = ["model Alg/CtfTr.v (+ Alg/CtfAnc.v, Alg/Tian.v); input validation is represented by generating only inputs that pass it",
                    "functional-SCM family oracle: supporting validation only; a domain's policy/transported variables get redrawn response functions"]
    modelled = ["api.py transport_district_intervening_on_parents, _transport_unconditional_counterfactual_query_line_2, "
                "_counterfactual_factor_is_inconsistent, transport_unconditional_counterfactual_query, _initialize_..., "
                "_transport_conditional_counterfactual_query_line_2/_line_4 incl. its output validation, transport_conditional_counterfactual_query",
                "NOT modelled: the 450 lines of input validation (accept/reject only, through the generator), the CFTDomain wrappers"]
    assumptions = ["soundness is not proved", "C19's known SIMPLIFY findings propagate to events with reflexive subscripts; the generator avoids self-subscripts"]

    def gen(self, rng, tier, n, shard, nshards):
        cases = []
        nmax = 4 if tier == "quick" else 5
        while len(cases) < n:
            g = GG.rand_admg(rng, 2, nmax)
            g = {"nodes": sorted(g["nodes"]), "dir": g["dir"], "bid": g["bid"]}
            doms = []
            for _ in range(rng.randint(1, 2)):
                tr = GG.rand_subset(rng, g["nodes"], 0, 2)
                pol = GG.rand_subset(rng, g["nodes"], 0, 1)
                dg = {"nodes": g["nodes"] + [("T", v) for v in tr], "dir": g["dir"] + [[("T", v), v] for v in tr], "bid": g["bid"]}
                topo = rand_topo(rng, dg)
                doms.append({"transport": tr, "policy": pol, "topo": [t if not isinstance(t, tuple) else ["T", t[1]] for t in topo]})
            if rng.random() < 0.06:
                # the first usable domain cannot identify a factor (a bow into the outcome), a later one can: a policy on X reading a covariate
                # that comes AFTER X in the first domain's order; the later domain's own order has to be used for it
                x, pre, y = rng.sample([0, 1, 2], 3)
                g = {"nodes": [0, 1, 2], "dir": [[x, y], [pre, y]], "bid": [[pre, y]] + ([[x, y]] if rng.random() < 0.6 else [])}
                if rng.random() < 0.3:
                    g["nodes"].append(3); g["dir"].append([3, rng.choice([x, pre, y])])
                rest = [v for v in g["nodes"] if v not in (x, pre, y)]
                t1 = rand_topo(rng, g)
                for _ in range(8):       # X before the covariate whenever the graph leaves the two unordered
                    if t1.index(x) < t1.index(pre) or rng.random() < 0.1:
                        break
                    t1 = rand_topo(rng, g)
                d1 = {"transport": [], "policy": [], "topo": t1}
                ddir = [e for e in g["dir"] if e[1] != x] + [[pre, x]]
                dbid = [e for e in g["bid"] if x not in e]
                d2 = {"transport": [], "policy": [x], "topo": rand_topo(rng, {"nodes": g["nodes"], "dir": ddir, "bid": dbid}), "dir": ddir, "bid": dbid}
                ev = [[{"k": "C", "n": Vn(y), "s": None, "i": [[Vn(x), rng.random() < 0.3]]}, [Vn(y), rng.random() < 0.3]]]
                cases.append({"kind": "uncond", "g": {"nodes": sorted(g["nodes"]), "dir": g["dir"], "bid": g["bid"]}, "domains": [d1, d2], "event": ev})
                continue
            if rng.random() < 0.15 and len(g["nodes"]) >= 3:
                # a policy regime: in the last domain one policy variable X gets a mechanism of its own - its incoming edges (directed and bidirected)
                # are replaced by one edge from a variable that is not among its descendants. The domains then have different diagrams and different
                # valid orders (Algorithm 4 has to work in each domain's own). Checked against the model only: the value oracle reads domains as
                # target-like SCMs.
                desc = lambda x: {x} | {b_ for a_, b_ in g["dir"] if a_ == x}    # noqa: E731
                x = rng.choice(g["nodes"])
                D, grew = desc(x), True
                while grew:
                    nxt = set(D)
                    for v in D:
                        nxt |= desc(v)
                    grew, D = nxt != D, nxt
                cand = [v for v in g["nodes"] if v not in D]
                if cand:
                    pnew = rng.choice(cand)
                    ddir = [e for e in g["dir"] if e[1] != x] + [[pnew, x]]
                    dbid = [e for e in g["bid"] if x not in e]
                    tr = GG.rand_subset(rng, [v for v in g["nodes"] if v != x], 0, 1)
                    dg = {"nodes": g["nodes"] + [("T", v) for v in tr], "dir": ddir + [[("T", v), v] for v in tr], "bid": dbid}
                    dom = {"transport": tr, "policy": [x], "topo": [t if not isinstance(t, tuple) else ["T", t[1]] for t in rand_topo(rng, dg)],
                           "dir": ddir, "bid": dbid}
                    doms = doms[:1] + [dom]
            if rng.random() < 0.2 and len(g["nodes"]) >= 4 and not any("dir" in d for d in doms):
                # nested interventions along a chain: {Y_{x1,x2} = y, W_{x2} = w} with x1 -> x2 -> w -> y
                order = list(g["nodes"]); rng.shuffle(order)
                x1, x2, w, y = order[0], order[1], order[2], order[-1]
                g["dir"] = [e for e in g["dir"] if order.index(e[0]) < order.index(e[1])] + [e for e in ([x1, x2], [x2, w], [w, y]) if e not in g["dir"]]
                if rng.random() < 0.5 and [x1, y] not in g["dir"]:
                    g["dir"].append([x1, y])
                g["bid"] = [e for e in g["bid"] if rng.random() < 0.5]
                b1, b2 = rng.random() < 0.3, rng.random() < 0.3
                ev = [[{"k": "C", "n": Vn(y), "s": None, "i": sorted([[Vn(x1), b1], [Vn(x2), b2]])}, [Vn(y), rng.random() < 0.3]],
                      [{"k": "C", "n": Vn(w), "s": None, "i": [[Vn(x2), b2]]}, [Vn(w), rng.random() < 0.3]]]
                for d in doms:   # the diagrams were drawn for the old edge set
                    dg = {"nodes": g["nodes"] + [("T", v) for v in d["transport"]], "dir": g["dir"] + [[("T", v), v] for v in d["transport"]], "bid": g["bid"]}
                    d["topo"] = [t_ if not isinstance(t_, tuple) else ["T", t_[1]] for t_ in rand_topo(rng, dg)]
                cases.append({"kind": "uncond", "g": g, "domains": doms, "event": ev})
                continue
            if rng.random() < 0.6:
                ev = []
                for _ in range(rng.randint(1, 3)):
                    v = rand_var(rng, g["nodes"])
                    if any(x[0] == v for x in ev):
                        continue
                    ev.append([v, [v["n"], rng.random() < 0.3]])
                cases.append({"kind": "uncond", "g": g, "domains": doms, "event": ev})
            else:
                o = [[v, [v["n"], rng.random() < 0.3]] for v in [rand_var(rng, g["nodes"])]]
                if rng.random() < 0.3:       # a second outcome (another variable, or the same one in another world)
                    v2 = rand_var(rng, g["nodes"])
                    if v2 != o[0][0]:
                        o.append([v2, [v2["n"], rng.random() < 0.3]])
                used = {x[0]["n"] for x in o}
                rest = [k for k in g["nodes"] if Vn(k) not in used]
                if rng.random() < 0.2:       # a condition on a variable that is also an outcome (P(y, x | x), P(y_x | y))
                    rest = list(g["nodes"])
                if not rest:
                    continue
                cv = rand_var(rng, rest) if len(rest) > 1 else {"k": "V", "n": Vn(rest[0]), "s": None}
                if cv.get("i") and any(i[0] == cv["n"] for i in cv["i"]):
                    continue
                cases.append({"kind": "cond", "g": g, "domains": doms, "outcomes": o, "conditions": [[cv, [cv["n"], rng.random() < 0.3]]]})
        return cases

    def build(self, case):
        from y0.dsl import PP, Variable
        from y0.graph import NxMixedGraph
        g = case["g"]
        target = GG.to_y0(g)
        domain_graphs, domain_data, coq_doms = [], [], []
        for k, d in enumerate(case["domains"]):
            dgd = {"nodes": g["nodes"], "dir": d.get("dir", g["dir"]), "bid": d.get("bid", g["bid"])}
            gr = GG.to_y0(dgd)
            for v in d["transport"]:
                gr.add_directed_edge(Variable(f"T_V{v}"), GG.V(v))
            topo = [Variable(f"T_V{t[1]}") if isinstance(t, list) else GG.V(t) for t in d["topo"]]
            pp = PP[Variable(f"pi{k + 1}")](*[GG.V(v) for v in g["nodes"]])
            domain_graphs.append((gr, topo))
            domain_data.append(({GG.V(v) for v in d["policy"]}, pp))
            gq = (f"(MG {c_list([OFF + v for v in g['nodes']] + [50 + v for v in d['transport']])} "
                  f"{'[' + '; '.join(f'({OFF + a}, {OFF + b})' for a, b in dgd['dir']) + ('; ' if dgd['dir'] and d['transport'] else '') + '; '.join(f'({50 + v}, {OFF + v})' for v in d['transport']) + ']'} "
                  f"{'[' + '; '.join(f'({OFF + a}, {OFF + b})' for a, b in dgd['bid']) + ']'})")
            tq = c_list([(50 + t[1]) if isinstance(t, list) else OFF + t for t in d["topo"]])
            coq_doms.append(f"(mkDom {gq} {tq} {c_list([OFF + v for v in d['policy']])} {GE.c_expr(pp)})")
        return target, domain_graphs, domain_data, "[" + "; ".join(coq_doms) + "]"

    def renamed_answer(self, case, prefix, suffix=""):
        """The same query with every variable V<k> called <prefix><k> (selection nodes T_<prefix><k>): (expression text, event text) with the
        names mapped back, or the exception class - the procedure may not depend on how the variables are called."""
        import re
        from y0.algorithm.counterfactual_transport.api import (transport_conditional_counterfactual_query,
                                                                transport_unconditional_counterfactual_query)
        from y0.dsl import PP, CounterfactualVariable, Intervention, Variable
        from y0.graph import NxMixedGraph
        g = case["g"]
        def N(k):
            return Variable(f"{prefix}{k}{suffix}")
        def mk(extra_dir=(), d=None):
            d = d or {}
            return NxMixedGraph.from_edges(nodes=[N(v) for v in g["nodes"]], directed=[(N(a), N(b)) for a, b in d.get("dir", g["dir"])] + list(extra_dir),
                                           undirected=[(N(a), N(b)) for a, b in d.get("bid", g["bid"])])
        target = mk()
        domain_graphs, domain_data = [], []
        for k, d in enumerate(case["domains"]):
            gr = mk([(Variable(f"T_{prefix}{v}{suffix}"), N(v)) for v in d["transport"]], d)
            topo = [Variable(f"T_{prefix}{t[1]}{suffix}") if isinstance(t, list) else N(t) for t in d["topo"]]
            domain_graphs.append((gr, topo))
            domain_data.append(({N(v) for v in d["policy"]}, PP[Variable(f"pi{k + 1}")](*[N(v) for v in g["nodes"]])))
        def rn(name):
            return prefix + name[1:] + suffix
        def var(t):
            if t["k"] == "C":
                return CounterfactualVariable(name=rn(t["n"]), star=t["s"], interventions=frozenset(Intervention(name=rn(n), star=s_) for n, s_ in t["i"]))
            return Variable(rn(t["n"]), star=t["s"])
        def evl(tree):
            return [(var(v), Intervention(name=rn(val[0]), star=val[1])) for v, val in tree]
        try:
            if case["kind"] == "uncond":
                res = transport_unconditional_counterfactual_query(event=evl(case["event"]), target_domain_graph=target, domain_graphs=domain_graphs, domain_data=domain_data)
            else:
                res = transport_conditional_counterfactual_query(outcomes=evl(case["outcomes"]), conditions=evl(case["conditions"]), target_domain_graph=target,
                                                                 domain_graphs=domain_graphs, domain_data=domain_data)
        except Exception as ex:  # noqa: BLE001
            return "exception:" + type(ex).__name__
        if res is None:
            return None
        back = lambda text: re.sub(r"(?<![A-Za-z_])" + re.escape(prefix) + r"(\d)" + re.escape(suffix) + r"(?![A-Za-z0-9_])", r"V\1", text)   # noqa: E731
        from y0.dsl import Distribution, Fraction, PopulationProbability, Probability, Product, Sum
        def bv(v):            # a variable with its name (and the names in its subscripts) mapped back
            if isinstance(v, CounterfactualVariable):
                return CounterfactualVariable(name=back(v.name), star=v.star, interventions=frozenset(Intervention(name=back(i.name), star=i.star) for i in v.interventions))
            if isinstance(v, Intervention):
                return Intervention(name=back(v.name), star=v.star)
            return Variable(back(v.name), star=v.star)
        def be(e):
            if isinstance(e, Probability):
                d = Distribution(children=tuple(bv(c) for c in e.children), parents=tuple(bv(c) for c in e.parents))
                return PopulationProbability(population=e.population, distribution=d) if isinstance(e, PopulationProbability) else Probability(d)
            if isinstance(e, Product):
                return Product(tuple(be(x) for x in e.expressions))
            if isinstance(e, Sum):
                return Sum(be(e.expression), frozenset(bv(r) for r in e.ranges))
            if isinstance(e, Fraction):
                return Fraction(be(e.numerator), be(e.denominator))
            return e
        ev = None if res.event is None else sorted((back(str(k)), back(str(v))) for k, v in res.event)
        return be(res.expression), ev

    def run(self, case):
        from y0.algorithm.counterfactual_transport.api import (transport_conditional_counterfactual_query,
                                                                transport_unconditional_counterfactual_query)
        from y0.dsl import Intervention, Zero
        g = case["g"]
        target, domain_graphs, domain_data, coq_doms = self.build(case)
        def evl(tree):
            return [(GE.tree_var(v), Intervention(name=val[0], star=val[1])) for v, val in tree]
        from y0.algorithm.counterfactual_transport import api as API
        try:
            if case["kind"] == "uncond":
                API._validate_transport_unconditional_counterfactual_query_input(event=evl(case["event"]), target_domain_graph=target,
                                                                                 domain_graphs=domain_graphs, domain_data=domain_data)
            else:
                API._validate_transport_conditional_counterfactual_query_input(outcomes=evl(case["outcomes"]), conditions=evl(case["conditions"]),
                                                                               target_domain_graph=target, domain_graphs=domain_graphs, domain_data=domain_data)
        except Exception as ex:  # noqa: BLE001  -- the input does not pass the procedure's own validation: outside the property
            return {"out": "rejected-by-validation", "violation": None, "nontrivial": False, "features": [case["kind"], "invalid-input:" + type(ex).__name__],
                    "term": "CUncond [] (MG [] [] []) [] 0 EOne (Some [])", "key": "C09/ok"}
        try:
            if case["kind"] == "uncond":
                event = evl(case["event"])
                res = transport_unconditional_counterfactual_query(event=list(event), target_domain_graph=target, domain_graphs=domain_graphs, domain_data=domain_data)
            else:
                outcomes, conditions = evl(case["outcomes"]), evl(case["conditions"])
                res = transport_conditional_counterfactual_query(outcomes=list(outcomes), conditions=list(conditions), target_domain_graph=target,
                                                                 domain_graphs=domain_graphs, domain_data=domain_data)
            exc = None
        except Exception as ex:  # noqa: BLE001
            res, exc = None, type(ex).__name__
            exc_site = "/empty-event-from-line-2" if (exc == "ValueError" and "empty list for the event" in str(ex) and case["kind"] == "cond") else ""
        code = (2 + GE.EXC.get(exc, 9)) if exc else (1 if res is None else 0)
        violation, key = None, "C09/ok"
        if exc is not None:
            violation, key = f"{case['kind']} query raised {exc} on an input that passes validation", f"C09/crash/{exc}{exc_site}"
        elif res is not None and len(g["bid"]) <= 3 and not any("dir" in d for d in case["domains"]):
            violation, key = self.semantic(case, g, res)
        # names: the answer may not depend on what the variables are called (in particular not on a name starting like a selection node's)
        import zlib
        if violation is None and zlib.crc32(repr(case).encode()) % 3 == 0:
            from y0.mutate import canonical_expr_equal
            # V<k> -> T<k> (a name that starts like a selection node's) or PI<k>K (a digit inside the name, as in gene names)
            scheme = ("T", "") if zlib.crc32(repr(case).encode()) % 2 else ("PI", "K")
            other = self.renamed_answer(case, *scheme)
            if exc or res is None or isinstance(other, str) or other is None:
                same = (("exception:" + exc) if exc else None) == other if (exc or res is None) else False
            else:
                mine_ev = None if res.event is None else sorted((str(k), str(v)) for k, v in res.event)
                same = mine_ev == other[1] and (other[0] == res.expression or canonical_expr_equal(other[0], res.expression))
            if not same:
                shown = other if isinstance(other, str) or other is None else (str(other[0]), other[1])
                violation, key = (f"with the variables renamed V<k> -> {scheme[0]}<k>{scheme[1]} the answer is {shown}, not "
                                  f"{(str(res.expression), str(res.event)) if res is not None else (exc or None)}"), "C09/name-dependent"
        # the public wrappers (unconditional_cft / conditional_cft over CFTDomain objects) have to give the answer of the procedure they wrap
        if violation is None and zlib.crc32(repr(case).encode()) % 3 == 1:
            from y0.algorithm.counterfactual_transport.api import CFTDomain, conditional_cft, unconditional_cft
            from y0.dsl import CounterfactualVariable, Variable as _Var
            def marked(ev):
                return [CounterfactualVariable(name=v.name, star=val.star, interventions=v.interventions) if isinstance(v, CounterfactualVariable)
                        else _Var(v.name, star=val.star) for v, val in ev]
            doms = [CFTDomain(graph=gr_, population=pp_, policy_variables=pol_, ordering=list(topo_))
                    for (gr_, topo_), (pol_, pp_) in zip(domain_graphs, domain_data)]
            try:
                if case["kind"] == "uncond":
                    res_w = unconditional_cft(event=marked(evl(case["event"])), target_domain_graph=target, domains=doms)
                else:
                    res_w = conditional_cft(outcomes=marked(evl(case["outcomes"])), conditions=marked(evl(case["conditions"])),
                                            target_domain_graph=target, domains=doms)
                shown_w = None if res_w is None else (str(res_w.expression), str(res_w.event))
            except Exception as ex:  # noqa: BLE001
                shown_w = "exception:" + type(ex).__name__
            shown_d = ("exception:" + exc) if exc else (None if res is None else (str(res.expression), str(res.event)))
            if shown_w != shown_d:
                violation, key = f"the public wrapper answers {shown_w}, the procedure it wraps {shown_d}", "C09/wrapper"
        out_e = GE.c_expr(res.expression) if res is not None else "EOne"
        out_ev = "None" if (res is None or res.event is None) else f"(Some {c_cevent(res.event)})"
        if case["kind"] == "uncond":
            term = f"CUncond {c_cevent(evl(case['event']))} {c_graph_off(g)} {coq_doms} {code} {out_e} {out_ev}"
        else:
            def c_ev2(ev):
                return "[" + "; ".join(f"({GE.c_var(k)}, ({GE.name_id(v.name)}, {'true' if v.star else 'false'}))" for k, v in ev) + "]"
            term = f"CCond {c_ev2(evl(case['outcomes']))} {c_ev2(evl(case['conditions']))} {c_graph_off(g)} {coq_doms} {code} {out_e} {out_ev}"
        kind_out = "exception" if exc else ("fail" if res is None else ("zero" if isinstance(res.expression, Zero) else "expr"))
        return {"out": (str(res.expression), str(res.event)) if res is not None else code, "violation": violation,
                "nontrivial": kind_out != "expr" or (res is not None and type(res.expression).__name__ != "PopulationProbability"),
                "features": [case["kind"], f"n={len(g['nodes'])}", f"domains={len(case['domains'])}", kind_out] + (["policy-regime-diagram"] if any("dir" in d for d in case["domains"]) else []), "term": term, "key": key}

    def semantic(self, case, g, res):
        from y0.dsl import Intervention, Zero
        fam = FamilyF(g, case["domains"], 0)
        node_of = {Vn(v): v for v in g["nodes"]}
        names = sorted(node_of)
        def evl(tree):
            return [(GE.tree_var(v), Intervention(name=val[0], star=val[1])) for v, val in tree]
        for b in itt.product(range(2), repeat=len(names)):
            rho = dict(zip(names, b))
            if case["kind"] == "uncond":
                query = evl(case["event"])
                truth = fam.target.prob(_events(query, rho, node_of))
            else:
                o, c = evl(case["outcomes"]), evl(case["conditions"])
                pc = fam.target.prob(_events(c, rho, node_of))
                if pc == 0:
                    continue
                truth = fam.target.prob(_events(o + c, rho, node_of)) / pc
            if res.event is None:
                if truth != 0:
                    return f"answered Zero / impossible but the query has probability {truth} at {rho}", "C09/zero-for-possible-event"
                continue
            if ambiguous_event(res.event):
                return None, "C09/ok"     # one name with two different values: the printed answer has no defined reading
            env = dict(rho)
            for var, val in res.event:   # the returned event fixes its variables and, through their subscripts, the intervened ones
                for iv in getattr(var, "interventions", ()):
                    env[iv.name] = CTF.val_of(iv.star, iv.name, rho)
            for var, val in res.event:
                if val is not None:
                    env[var.name] = CTF.val_of(val.star, val.name, rho)
            try:
                got = sem_ev(res.expression, env, fam)
            except (Undefined, Unsupported):
                continue
            if got != truth:
                return (f"{case['kind']} answer {res.expression} with event {res.event} = {got} but the target probability is {truth} at {rho}",
                        "C09/wrong-value")
        return None, "C09/ok"

    def coq(self, case, res):
        return res.pop("term")

    def finding_key(self, case, res):
        return f"C09/model-mismatch/{case['kind']}"

    def classify_mismatch(self, case, res):
        return (False, f"{case['kind']} transport differs from the model on {case}", f"C09/model-mismatch/{case['kind']}")


def ambiguous_event(ev):
    seen = {}
    for var, val in ev:
        items = [(i.name, bool(i.star)) for i in getattr(var, "interventions", ())]
        if val is not None:
            items.append((val.name, bool(val.star)))
        for n, s in items:
            if seen.setdefault(n, s) != s:
                return True
    return False


def _events(ev, rho, node_of):
    from y0.dsl import CounterfactualVariable
    out = []
    for var, val in ev:
        do = {}
        if isinstance(var, CounterfactualVariable):
            for iv in var.interventions:
                do[node_of[iv.name]] = CTF.val_of(iv.star, iv.name, rho)
        out.append((do, node_of[var.name], CTF.val_of(val.star, val.name, rho)))
    return out


PROP = C09()
