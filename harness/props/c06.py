"""C06 - estimands mention only distributions the analyst actually has."""
import random

import gen_expr as GE
from common import c_list
from props.base import PropBase
from props.id_common import OFF


class C06(PropBase):
    pid = "C06"
    coq_imports = "Dsl.Syntax Dsl.Build Alg.Vocab Corr.C06"
    budgets = {"quick": 700, "thorough": 7000}
    per_file = 150
    mismatch_is_failure = True
    rule = ("the generators of C01 (ID), C03 (IDC), C05 (TRSO), C07 (ID*) and C08 (IDC*) in equal shares; every returned estimand is passed to the "
            "vocabulary predicate defined in Coq (Alg/Vocab.v) for its algorithm; non-trivial: the estimand has more than one probability term; distinct by input")
    explanation = ("the vocabulary predicates are Gallina functions evaluated on y0's actual estimands; for ID the predicate is proved to hold of every "
                   "result of the model (Properties/C06.v), so a failure is either a model/implementation difference or a genuine violation")
    trusted_base = ["predicates Alg/Vocab.v; serialiser of estimands", "models of the five algorithms are tied to y0 by the C01/C03/C05/C07/C08 checks"]
    modelled = ["the vocabulary clauses as predicates plain_obs, trso_vocab, single_world"]
    assumptions = ["the ID* / IDC* clause is read as 'all variables of a probability term carry the same subscript set'"]

    def __init__(self):
        from props import c01, c03, c05, c07, c08
        self.subs = [("id", c01.PROP), ("idc", c03.PROP), ("trso", c05.PROP), ("idstar", c07.PROP), ("idcstar", c08.PROP)]

    def gen(self, rng, tier, n, shard, nshards):
        cases = []
        weights = {"id": 1, "idc": 1, "trso": 4, "idstar": 1, "idcstar": 1}   # TRSO has the richest vocabulary clause
        unit = max(1, n // sum(weights.values()))
        for name, sub in self.subs:
            for c in sub.gen(random.Random(rng.random()), tier, unit * weights[name], 1, 2):
                cases.append({"alg": name, "case": c})
        return cases

    def run(self, case):
        alg, c = case["alg"], case["case"]
        sub = dict(self.subs)[alg]
        est, doms = self.estimand(alg, sub, c)
        if est is None:
            return {"out": None, "violation": None, "nontrivial": False, "features": [alg, "no-estimand"], "term": "CVocab 2 [] [] EOne", "key": "C06/ok"}
        g = c["g"]
        if alg in ("id", "idc", "trso"):
            N = c_list([OFF + v for v in g["nodes"]])
        else:
            N = c_list(list(g["nodes"]))
        kind = {"id": 0, "idc": 0, "trso": 1, "idstar": 2, "idcstar": 2}[alg]
        dom_c = "[" + "; ".join(f"({201 + i}, {c_list([OFF + v for v in d['Z']])})" for i, d in enumerate(doms)) + "]"
        term = f"CVocab {kind} {N} {dom_c} {GE.c_expr(est)}"
        nterms = str(est).count("P(") + str(est).count("](")
        return {"out": str(est), "violation": None, "nontrivial": nterms > 1, "features": [alg, "estimand"], "term": term, "key": f"C06/vocabulary-{alg}"}

    def estimand(self, alg, sub, c):
        import gen_event as GEV
        import gen_graph as GG
        try:
            if alg == "id":
                return sub.call(c)[0], []
            if alg == "idc":
                from y0.algorithm.identify import identify_outcomes
                return identify_outcomes(GG.to_y0(c["g"]), {GG.V(v) for v in c["X"]}, {GG.V(v) for v in c["Y"]}, {GG.V(v) for v in c["Z"]}), []
            if alg == "trso":
                from y0.algorithm.transport import identify_target_outcomes
                from y0.dsl import Variable
                pops = [Variable(f"pi{i + 1}") for i in range(len(c["domains"]))]
                return identify_target_outcomes(GG.to_y0(c["g"]), target_outcomes={GG.V(v) for v in c["Y"]}, target_interventions={GG.V(v) for v in c["X"]},
                                                surrogate_outcomes={p: {GG.V(v) for v in d["W"]} for p, d in zip(pops, c["domains"])},
                                                surrogate_interventions=dict(reversed([(p, {GG.V(v) for v in d["Z"]}) for p, d in zip(pops, c["domains"])])) if len(pops) > 1 and len(c["g"]["dir"]) % 2
                                                else {p: {GG.V(v) for v in d["Z"]} for p, d in zip(pops, c["domains"])}), c["domains"]
            if alg == "idstar":
                from y0.algorithm.identify import id_star
                return id_star(GEV.to_y0_letters(c["g"]), GEV.event_of(c["event"])), []
            from y0.algorithm.identify import idc_star
            return idc_star(GEV.to_y0_letters(c["g"]), GEV.event_of(c["outcomes"]), GEV.event_of(c["conditions"])), []
        except Exception:  # refusals and rejections carry no estimand
            return None, []

    def coq(self, case, res):
        return res.pop("term")

    def finding_key(self, case, res):
        return f"C06/vocabulary-{case['alg']}"

    def classify_mismatch(self, case, res):
        return (True, f"estimand {res.get('out')} of {case['alg']} violates the vocabulary clause", f"C06/vocabulary-{case['alg']}")


PROP = C06()
