"""Shared runner of the ID-family properties (C01, C02, C06): graph + query -> y0 -> Gallina case."""
import itertools as itt
import random

import gen_expr as GE
import gen_graph as GG
from common import c_list, c_pairs
from oracles import expr_sem as SEM
from oracles import ident as IDENT
from oracles import scm as SCM
from props.base import PropBase

OFF = 100  # graph node k is the variable "V<k>" = name id 100+k


def c_graph_off(g):
    return f"(MG {c_list([OFF + v for v in g['nodes']])} {c_pairs([[OFF + a, OFF + b] for a, b in g['dir']])} {c_pairs([[OFF + a, OFF + b] for a, b in g['bid']])})"


class TopoRecorder:
    """Wraps NxMixedGraph.topological_sort from outside the package and records (node set -> order)."""

    def __enter__(self):
        from y0.graph import NxMixedGraph
        self.cls = NxMixedGraph
        self.orig = NxMixedGraph.topological_sort
        self.log = []
        rec = self

        def wrapped(graph):
            o = rec.orig(graph)
            try:
                rec.log.append((sorted(GE.name_id(v.name) for v in graph.nodes()), [GE.name_id(v.name) for v in o]))
            except Exception:
                pass
            return o
        NxMixedGraph.topological_sort = wrapped
        return self

    def __exit__(self, *a):
        self.cls.topological_sort = self.orig

    def table(self):
        tbl, ambiguous = {}, False
        for ns, o in self.log:
            k = tuple(ns)
            if k in tbl and tbl[k] != o:
                ambiguous = True
            tbl.setdefault(k, o)
        return tbl, ambiguous


def c_table(tbl):
    return "[" + "; ".join(f"({c_list(k)}, {c_list(o)})" for k, o in tbl.items()) + "]"


def gen_query(rng, g, kmax=2):
    ns = g["nodes"]
    k = rng.randint(1, min(kmax, len(ns) - 1))
    X = rng.sample(ns, k)
    rest = [v for v in ns if v not in X]
    Y = rng.sample(rest, rng.randint(1, min(2, len(rest))))
    return X, Y


def check_estimand(g, X, Y, est, seeds=(0,), Z=()):
    """Evaluate est on the observational joint of random SCMs against P(y | do x) (or P(y,z|do x)/P(z|do x));
    also check independence of the value from variables outside X, Y, Z. Returns a violation string or None."""
    names = {f"V{v}" for v in g["nodes"]}
    free = {v.name for v in est.get_variables()}
    if not free <= names:
        return f"estimand mentions variables outside the graph: {sorted(free - names)}"
    for seed in seeds:
        scm = SCM.SCM(g, seed)
        m = SCM.ScmModel(scm)
        others = sorted(n for n in free if n not in {f"V{v}" for v in (*X, *Y, *Z)})
        for xv in itt.product((0, 1), repeat=len(X)):
            do = dict(zip(sorted(X), xv))
            for yv in itt.product((0, 1), repeat=len(Y)):
                ya = dict(zip(sorted(Y), yv))
                for zv in itt.product((0, 1), repeat=len(Z)):
                    za = dict(zip(sorted(Z), zv))
                    if Z:
                        den = scm.prob(za, do)
                        if den == 0:
                            continue
                        truth = scm.prob({**ya, **za}, do) / den
                    else:
                        truth = scm.prob(ya, do)
                    for ov in itt.product((0, 1), repeat=len(others)):
                        env = {f"V{k}": v for k, v in {**do, **ya, **za}.items()}
                        env.update(zip(others, ov))
                        for n in names - set(env):
                            env[n] = 0
                        try:
                            val = SEM.ev(est, env, m)
                        except SEM.Undefined:
                            continue
                        if val != truth:
                            return (f"estimand {est} = {val} but the interventional value is {truth} at do={do} y={ya} z={za} others={dict(zip(others, ov))} "
                                    f"(SCM seed {seed})")
    return None


class IdProp(PropBase):
    coq_imports = "Graph.MixedGraph Dsl.Syntax Dsl.Build Alg.Id Corr.Id"
    per_file = 120
    trusted_base = ["model Alg/Id.v of id_std.py/utils.py/api.py on Graph/MixedGraph.v and Dsl/Build.v; topological orders recorded from y0 and replayed (checked is_topo)",
                    "Python SCM oracle harness/oracles/scm.py (binary variables, one binary latent per bidirected edge, exact rationals) and the "
                    "Tian-Pearl identifiability oracle harness/oracles/ident.py: supporting validation and failing-input search only"]
    modelled = ["id_std.py identify, line_1..line_7, p_parents, _is_marginal_of_joint; utils.Identification/Query as plain records; api.identify_outcomes"]
    with_oracle = True

    def gen(self, rng, tier, n, shard, nshards):
        cases = []
        if shard == 0:
            cases.append({"g": {"nodes": [0, 1, 2], "dir": [[0, 1]], "bid": [[0, 2]]}, "X": [0], "Y": [1, 2]})
            cases.append({"g": {"nodes": [0, 1, 2, 3, 4], "dir": [[0, 1], [0, 2], [1, 4], [1, 3], [4, 3], [4, 2]], "bid": [[0, 1], [1, 2]]}, "X": [4], "Y": [2, 0]})
            for g in GG.corpus_graphs():
                g = {k: g[k] for k in ("nodes", "dir", "bid")}
                if len(g["nodes"]) <= 7:
                    for _ in range(3):
                        X, Y = gen_query(rng, g)
                        cases.append({"g": g, "X": X, "Y": Y})
            cases.extend(GG.trace_corpus(rng, tier, conditions=False))   # one query per shape of run of the recursion (tools/mktracecorpus.py)
            if tier == "thorough":
                for k in (2, 3):
                    for g in GG.all_admgs(k):
                        for X in itt.chain.from_iterable(itt.combinations(range(k), r) for r in range(1, k)):
                            rest = [v for v in range(k) if v not in X]
                            for Y in itt.chain.from_iterable(itt.combinations(rest, r) for r in range(1, len(rest) + 1)):
                                cases.append({"g": g, "X": list(X), "Y": list(Y)})
        nmax = 6 if tier == "quick" else 7
        while len(cases) < n:
            g = GG.rand_admg_big(rng) if rng.random() < 0.04 else GG.rand_admg(rng, 2, nmax)
            X, Y = gen_query(rng, g)
            cases.append({"g": g, "X": X, "Y": Y})
        return cases

    def call(self, case):
        from y0.algorithm.identify import identify_outcomes
        g = case["g"]
        X = {GG.V(v) for v in case["X"]}
        Y = {GG.V(v) for v in case["Y"]}
        def warm(partial, present):   # the same query on the graph before its last edits
            if X & present and Y & present:
                identify_outcomes(partial, X & present, Y & present)
        gr = GG.to_y0(g, warm=warm)
        before = GG.snapshot(gr)
        Xc, Yc = set(X), set(Y)
        import zlib
        h = zlib.crc32(repr((case["g"], case["X"], case["Y"])).encode())
        Xa = next(iter(X)) if (len(X) == 1 and h % 2) else X             # a single variable may be given as such (Variable | set[Variable])
        Ya = next(iter(Y)) if (len(Y) == 1 and (h >> 1) % 2) else Y
        with TopoRecorder() as rec:
            try:
                est = identify_outcomes(gr, Xa, Ya)
                code = 1 if est is None else 0
                exc = None
            except Exception as ex:  # noqa: BLE001
                est, exc = None, type(ex).__name__
                code = 2 + GE.EXC.get(exc, 9)
        mutated = GG.snapshot(gr) != before or X != Xc or Y != Yc
        tbl, ambiguous = rec.table()
        return est, code, exc, tbl, ambiguous, mutated

    def owned_objects_unchanged(self, case, expect=None):
        """Hand identify() an Identification/Query built by the caller and check that neither it nor the graph changes,
        and that asking the same object again gives the same verdict."""
        from y0.algorithm.identify import Identification, Query, Unidentifiable, identify
        gr = GG.to_y0(case["g"])
        q = Query(outcomes={GG.V(v) for v in case["Y"]}, treatments={GG.V(v) for v in case["X"]})
        ident = Identification(query=q, graph=gr)
        snap = (set(q.outcomes), set(q.treatments), set(q.conditions), GG.snapshot(ident.graph), GG.snapshot(gr), str(ident.estimand))
        def ask():
            try:
                return str(identify(ident))
            except Unidentifiable:
                return "unidentifiable"
            except Exception as ex:  # noqa: BLE001
                return "exception:" + type(ex).__name__
        first = ask()
        now = (set(q.outcomes), set(q.treatments), set(q.conditions), GG.snapshot(ident.graph), GG.snapshot(gr), str(ident.estimand))
        if now != snap:
            changed = [n for n, a, b in zip(("outcomes", "treatments", "conditions", "identification graph", "graph", "estimand"), snap, now) if a != b]
            return f"identify() changed the caller's {', '.join(changed)} (treatments {sorted(map(str, snap[1]))} -> {sorted(map(str, now[1]))})"
        second = ask()
        if first.startswith("exception") != second.startswith("exception") or (first == "unidentifiable") != (second == "unidentifiable"):
            return f"asking the same Identification twice gives {first!r} then {second!r}"
        if expect is not None:
            kind = "exception" if first.startswith("exception") else ("unidentifiable" if first == "unidentifiable" else "estimand")
            if kind != expect:
                return f"identify(Identification(...)) gives {first!r} where identify_outcomes() gave {expect}: the two entry points disagree"
        return None

    def run(self, case):
        g, X, Y = case["g"], case["X"], case["Y"]
        est, code, exc, tbl, ambiguous, mutated = self.call(case)
        violation, key = None, f"{self.pid}/ok"
        if exc is not None:
            violation, key = f"ID raised {exc} on a valid query", f"C02/crash/{exc}"
        elif mutated:
            violation, key = "identify_outcomes modified the caller's graph or query", "C02/mutation"
        if violation is None:
            own = self.owned_objects_unchanged(case, "exception" if exc else ("estimand" if est is not None else "unidentifiable"))
            if own:
                violation, key = own, ("C02/entry-points" if "entry points" in own else "C02/mutation")
        want = IDENT.identifiable(g, X, Y)
        if violation is None and (est is not None) != want:
            violation = (f"ID {'returned an estimand' if est is not None else 'refused'} but the effect is "
                         f"{'identifiable' if want else 'not identifiable'} (Tian-Pearl criterion)")
            key = "C02/verdict"
        if violation is None and est is not None and self.with_oracle and len(g["nodes"]) <= 6 and len(g["bid"]) <= 5:
            v = check_estimand(g, X, Y, est)
            if v:
                violation, key = v, "C01/wrong-estimand"
        if violation is None and est is not None:
            bad = atoms_violation(est, {f"V{v}" for v in g["nodes"]})
            if bad:
                violation, key = bad, "C06/vocabulary"
        if violation is None:
            # (the TEXT of an estimand may differ under other names: sub-graphs are built from sets, whose iteration order follows the hashes of the
            # names and breaks ties between topological orders; the verdict and the absence of errors may not)
            def renamed():
                est2, code2, exc2, *_ = self.call(case)
                return ("exception:" + exc2) if exc2 else ("estimand" if est2 is not None else "unidentifiable")
            diff = GG.renamed_differs(case, ("exception:" + exc) if exc else ("estimand" if est is not None else "unidentifiable"), renamed)
            if diff:
                violation, key = diff, "C02/name-dependent"
        term = (f"CId {c_graph_off(g)} {c_list([OFF + v for v in X])} {c_list([OFF + v for v in Y])} {c_table(tbl)} {code} "
                f"{GE.c_expr(est) if est is not None else 'EOne'}")
        if ambiguous:
            term = "CId (MG [] [] []) [] [1] [] 0 (ESum (EProb None [] []) [])".replace("(ESum (EProb None [] []) [])", "EErr 2") if False else term
        feats = [f"n={len(g['nodes'])}", f"|X|={len(X)}", f"|Y|={len(Y)}", "estimand" if code == 0 else ("unidentifiable" if code == 1 else f"exception:{exc}"),
                 "isolated-node" if set(g["nodes"]) - {x for e in g["dir"] + g["bid"] for x in e} else "no-isolated",
                 f"topo-sorts={len(tbl)}", "ambiguous-oracle" if ambiguous else "oracle-ok"]
        return {"out": str(est) if est is not None else code, "violation": violation, "nontrivial": len(tbl) > 0 or code == 1,
                "features": feats, "term": term, "key": key}

    def coq(self, case, res):
        return res.pop("term")

    def finding_key(self, case, res):
        return f"{self.pid}/model-mismatch"

    def classify_mismatch(self, case, res):
        return (False, f"identify_outcomes differs from the model on {case}", f"{self.pid}/model-mismatch")

    def search(self, rng, case):
        for _ in range(1500):
            g = GG.rand_admg(rng, 2, 5)
            X, Y = gen_query(rng, g)
            c = {"g": g, "X": X, "Y": Y}
            r = self.run(c)
            if r["violation"]:
                return {"case": c, "what": r["violation"], "key": r["key"]}
        return None


def atoms_violation(est, names, allow_pop=False):
    """C06 for ID/IDC: only plain observational probability terms over graph nodes."""
    from y0.dsl import CounterfactualVariable, Fraction, Intervention, PopulationProbability, Probability, Product, QFactor, Sum
    def walk(e):
        if isinstance(e, Probability):
            if isinstance(e, PopulationProbability) and not allow_pop:
                return f"population-tagged term {e}"
            for v in (*e.children, *e.parents):
                if isinstance(v, CounterfactualVariable | Intervention) or v.star is not None:
                    return f"term {e} has an intervention subscript / counterfactual / value mark"
                if v.name not in names:
                    return f"term {e} mentions {v.name}, not a node of the graph"
            return None
        if isinstance(e, Product):
            for x in e.expressions:
                r = walk(x)
                if r:
                    return r
            return None
        if isinstance(e, Sum):
            for r_ in e.ranges:
                if r_.name not in names:
                    return f"sum over {r_.name}, not a node of the graph"
            return walk(e.expression)
        if isinstance(e, Fraction):
            return walk(e.numerator) or walk(e.denominator)
        if isinstance(e, QFactor):
            return f"Q factor {e} in an estimand"
        return None
    return walk(est)
