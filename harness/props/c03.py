"""C03 - IDC estimands equal the true conditional interventional distribution."""
import gen_expr as GE
import gen_graph as GG
from common import c_list
from props.id_common import OFF, IdProp, TopoRecorder, atoms_violation, c_graph_off, c_table, check_estimand


class C03(IdProp):
    pid = "C03"
    coq_imports = "Graph.MixedGraph Dsl.Syntax Dsl.Build Alg.Id Alg.Idc Corr.Id Corr.Idc"
    budgets = {"quick": 450, "thorough": 4500}
    rule = ("random ADMGs with 3..6 nodes x pairwise disjoint X (possibly empty), Y, Z (non-empty); non-trivial: rule 2 moved at least one condition "
            "or ID used a topological order; distinct by (graph, X, Y, Z); one query per shape of run of IDC + ID (harness/corpus/id_traces.json, fresh node names)")
    explanation = ("identify_outcomes(conditions=Z) must be one of the results of the all-visiting-orders Gallina model of idc(); each estimand is "
                   "evaluated exactly against P(y,z|do x)/P(z|do x) on a random positive SCM")
    modelled = ["id_c.py idc, rule_2_of_do_calculus_applies (on Graph/DSep.v); utils.exchange_observation_with_action/uncondition; dsl normalize_marginalize"]
    assumptions = ["soundness not yet a Coq theorem; rule 2 of the do-calculus and ID soundness are its premises (DESIGN.md 5/C03)"]

    def gen(self, rng, tier, n, shard, nshards):
        cases = []
        if shard == 0:
            cases.append({"g": {"nodes": [0, 1, 2], "dir": [[2, 0]], "bid": [[0, 1]]}, "X": [], "Y": [1], "Z": [0]})
            cases.extend(GG.trace_corpus(rng, tier, conditions=True))   # one query per shape of run of IDC + ID (tools/mktracecorpus.py)
        nmax = 6
        while len(cases) < n:
            if rng.random() < 0.25:      # several conditions joined by bidirected edges, each with its own parent
                cases.append(self.collider_chain_case(rng))
                continue
            g = GG.rand_admg(rng, 3, nmax)
            ns = list(g["nodes"]); rng.shuffle(ns)
            kx = rng.randint(0, min(2, len(ns) - 2))
            ky = rng.randint(1, min(2, len(ns) - kx - 1))
            kz = rng.randint(1, min(3, len(ns) - kx - ky))
            cases.append({"g": g, "X": ns[:kx], "Y": ns[kx:kx + ky], "Z": ns[kx + ky:kx + ky + kz]})
        return cases

    def collider_chain_case(self, rng):
        """Z1 <- W -> Z2 <-> Z3 <- Y style graphs: conditioning on a run of colliders linked by bidirected edges."""
        k = rng.randint(2, 3)
        zs = list(range(k))                      # conditions 0..k-1 chained by bidirected edges
        nxt = k
        di, bi = [], [[zs[i], zs[i + 1]] for i in range(k - 1)]
        w, y, x = nxt, nxt + 1, nxt + 2
        di += [[w, zs[0]], [y, zs[-1]], [x, y]]
        extra = nxt + 3
        conds = list(zs)
        if rng.random() < 0.6 and extra <= 6:
            di.append([w, extra]); conds.append(extra)
        nodes = sorted({v for e in di + bi for v in e})
        for _ in range(rng.randint(0, 2)):
            a, b = sorted(rng.sample(nodes, 2))
            if [a, b] not in di and [b, a] not in di and rng.random() < 0.5:
                pass
        perm = list(nodes); rng.shuffle(perm)
        ren = dict(zip(nodes, perm))
        g = {"nodes": sorted(perm), "dir": [[ren[a], ren[b]] for a, b in di], "bid": [[ren[a], ren[b]] for a, b in bi]}
        return {"g": g, "X": [ren[x]] if rng.random() < 0.7 else [], "Y": [ren[y]], "Z": [ren[c] for c in conds]}

    def run(self, case):
        from y0.algorithm.identify import identify_outcomes
        g, X, Y, Z = case["g"], case["X"], case["Y"], case["Z"]
        def warm(partial, present):
            xs, ys, zs = ({GG.V(v) for v in S} & present for S in (X, Y, Z))
            if ys:
                identify_outcomes(partial, xs, ys, zs)
        gr = GG.to_y0(g, warm=warm)
        before = GG.snapshot(gr)
        with TopoRecorder() as rec:
            try:
                import zlib
                h = zlib.crc32(repr((g, X, Y, Z)).encode())
                one = lambda vs, bit: GG.V(vs[0]) if (len(vs) == 1 and (h >> bit) % 2) else {GG.V(v) for v in vs}   # noqa: E731  (Variable | set[Variable])
                est = identify_outcomes(gr, one(X, 0) if X else set(), one(Y, 1), one(Z, 2))
                code, exc = (1 if est is None else 0), None
            except Exception as ex:  # noqa: BLE001
                est, exc = None, type(ex).__name__
                code = 2 + GE.EXC.get(exc, 9)
        tbl, ambiguous = rec.table()
        violation, key = None, "C03/ok"
        if exc is not None:
            violation, key = f"IDC raised {exc} on a valid query", f"C03/crash/{exc}"
        elif GG.snapshot(gr) != before:
            violation, key = "IDC modified the graph", "C03/mutation"
        elif est is not None and len(g["nodes"]) <= 6 and len(g["bid"]) <= 5:
            v = check_estimand(g, X, Y, est, Z=Z)
            if v:
                violation, key = v, "C03/wrong-estimand"
            else:
                bad = atoms_violation(est, {f"V{v}" for v in g["nodes"]})
                if bad:
                    violation, key = bad, "C06/vocabulary"
        term = (f"CIdc {c_graph_off(g)} {c_list([OFF + v for v in X])} {c_list([OFF + v for v in Y])} {c_list([OFF + v for v in Z])} "
                f"{c_table(tbl)} {code} {GE.c_expr(est) if est is not None else 'EOne'}")
        feats = [f"n={len(g['nodes'])}", f"|X|={len(X)}", f"|Z|={len(Z)}", "estimand" if code == 0 else ("unidentifiable" if code == 1 else f"exception:{exc}")]
        return {"out": str(est) if est is not None else code, "violation": violation, "nontrivial": len(tbl) > 0 or code == 1,
                "features": feats, "term": term, "key": key}

    def search(self, rng, case):
        for c in self.gen(rng, "quick", 800, 1, 2):
            r = self.run(c)
            if r["violation"]:
                return {"case": c, "what": r["violation"], "key": r["key"]}
        return None


PROP = C03()
