"""Shared machinery of the DSL-layer properties (C10-C13): case kinds, runners, serialisation."""
import random

import gen_expr as GE
from oracles import expr_sem as SEM
from props.base import PropBase


def V(n):
    from y0.dsl import Variable
    return Variable(n)


def exc_code(f):
    try:
        return f(), None
    except Exception as ex:  # noqa: BLE001
        return None, type(ex).__name__


def ser(res, exc):
    return GE.c_expr(res) if exc is None else f"(EErr {GE.EXC.get(exc, 9)})"


def self_intervened(e) -> bool:
    """Does a term of the expression contain a variable intervened on itself (X @ X)? Summing over X then also moves the subscript: the DSL has
    no way to sum the child alone, so 'the same function' is not defined for rewrites that introduce or move such sums; only the model decides."""
    from y0.dsl import Fraction, Probability, Product, Sum
    if isinstance(e, Probability):
        return any(any(i.name == v.name for i in getattr(v, "interventions", ())) for v in (*e.children, *e.parents))
    if isinstance(e, Sum):
        return self_intervened(e.expression)
    if isinstance(e, Product):
        return any(self_intervened(x) for x in e.expressions)
    if isinstance(e, Fraction):
        return self_intervened(e.numerator) or self_intervened(e.denominator)
    return False


def sem_check(result, reference, what, seed=0):
    """None when result and reference denote the same function (or the oracle does not apply)."""
    if self_intervened(result) or self_intervened(reference):
        return None
    try:
        w = SEM.same_function(reference, result, seed=seed)
    except SEM.Unsupported:
        return None
    except Exception as ex:  # noqa: BLE001
        return None
    if w is None:
        return None
    return f"{what}: result {result} differs from reference {reference} at {w}"


class DslProp(PropBase):
    coq_imports = "Dsl.Syntax Dsl.Build Dsl.Canon Dsl.Print Corr.Dsl"
    per_file = 200
    trusted_base = ["models Dsl/Syntax.v, Dsl/Build.v, Dsl/Canon.v, Dsl/Print.v of dsl.py and mutate/*.py (hand-written, function for function)",
                    "names A..Z (without P,Q) mapped to 0..23 so that string order = number order; frozensets serialised in the model's canonical order",
                    "Python TypeError on mixed-type sort keys is not modelled (it cannot occur for the keys of well-formed expressions)"]
    kinds: list = []

    def mk(self, rng, kind, depth):
        gen = GE.ExprGen(rng, rich=True)
        if kind in ("canon", "canon_eq", "sum_simplify", "sum_safe_simplify", "marginalize", "conditional", "normalize_marginalize", "sum_safe") and rng.random() < 0.25:
            # names of different lengths ("Z10" < "Z2" as strings): alphabetical and natural order differ
            gen = GE.ExprGen(rng, names=["A", "B", "C", "D", "Z10", "Z2"], rich=True)
        c = {"kind": kind}
        if kind in ("mul", "truediv"):
            c["a"] = GE.to_tree(gen.expr(depth)); c["b"] = GE.to_tree(gen.expr(depth))
        elif kind in ("marginalize", "conditional", "normalize_marginalize", "sum_safe", "sum_safe_simplify"):
            c["a"] = GE.to_tree(gen.expr(depth))
            c["rs"] = rng.sample(gen.names, rng.randint(1, 3))
        elif kind in ("frac_simplify",):
            from y0.dsl import Fraction, Product
            parts = [gen.expr(1) for _ in range(rng.randint(2, 4))]
            if rng.random() < 0.35:      # near-twins across the bar: a factor and the same factor with one value mark changed must NOT cancel
                tw = [t for t in (gen.twin(x) for x in parts) if t is not None]
                parts.extend(tw[:2])
            def pick():  # shared factors, with repeated factors (multiplicity matters when cancelling) in half of the cases
                if rng.random() < 0.5:
                    return rng.choices(parts, k=rng.randint(1, len(parts) + 1))
                return rng.sample(parts, rng.randint(1, len(parts)))
            num = pick() + [gen.expr(1) for _ in range(rng.randint(0, 2))]
            den = pick() + [gen.expr(1) for _ in range(rng.randint(0, 1))]
            def prod(xs):
                xs = list(xs); rng.shuffle(xs)
                return xs[0] if len(xs) == 1 else Product(tuple(xs))
            try:
                c["a"] = GE.to_tree(Fraction(prod(num), prod(den)))
            except ZeroDivisionError:
                c["a"] = GE.to_tree(Fraction(prod(num), gen.atom()))
            if rng.random() < 0.15:
                # the constant branches of Fraction.simplify: x / 1, 0 / x, 1 / (a / b), 1 / x (raw constructors: the operators never build these)
                from y0.dsl import One, Zero
                x = prod(num)
                try:
                    c["a"] = GE.to_tree(rng.choice([lambda: Fraction(x, One()), lambda: Fraction(Zero(), x), lambda: Fraction(One(), Fraction(x, gen.atom())),
                                                    lambda: Fraction(One(), x), lambda: Fraction(One(), Fraction(One(), x))])())
                except ZeroDivisionError:   # x is itself a Zero
                    pass
        elif kind == "sum_simplify":
            from y0.dsl import Sum
            inner = gen.atom() if rng.random() < 0.8 else gen.expr(1)
            rs = rng.sample(gen.names, rng.randint(1, 4))
            if gen.rich and rng.random() < 0.25:
                # a joint over counterfactual variables: copies of one variable in different worlds, and/or a child
                # whose intervention value is one of the summed variables
                from y0.dsl import P, Variable
                n1, n2, n3 = rng.sample(gen.names, 3)
                a1, a2, a3 = Variable(n1), Variable(n2), Variable(n3)
                ch = rng.choice([[a1 @ a3, a1 @ ~a3], [a1 @ a3, a1 @ ~a3, a2], [a1 @ a3, a2 @ a1], [a1 @ a3, a2 @ ~a1, a3 @ a2],
                                 [a1 @ a2, a3 @ a2], [a1, +a1, a2], [a1 @ a3, a1 @ ~a3, a2 @ a1]])
                inner = P(*ch)
                rs = rng.choice([[n1], [n1, n2], [n1, n3], [n2], [n1, n2, n3]])
            c["a"] = GE.to_tree(Sum(inner, frozenset(V(n) for n in rs)))
        elif kind in ("chain_expand", "fraction_expand", "bayes_expand"):
            p = None
            while p is None or not hasattr(p, "distribution"):
                p = gen.atom()
            if gen.rich and rng.random() < 0.25:
                # a joint with several children of one name: copies of a variable in different worlds, a factual variable next to its
                # counterfactual (an expansion that looks children up by base name loses a factor)
                from y0.dsl import P, Variable
                n1, n2, n3 = rng.sample(gen.names, 3)
                a1, a2, a3 = Variable(n1), Variable(n2), Variable(n3)
                ch = rng.choice([[a1 @ a3, a1 @ ~a3], [a1 @ a3, a1 @ ~a3, a2], [a1, a1 @ a3], [a1, a1 @ ~a3, a2], [a1 @ a3, a2 @ a3, a1 @ ~a3],
                                 [a1 @ a2, a1 @ a3, a2], [a1 @ a3, a2 @ a1]])
                ch = list(ch); rng.shuffle(ch)
                try:
                    p = P(*ch)
                except Exception:  # noqa: BLE001
                    pass
            c["a"] = GE.to_tree(p)
            if kind == "chain_expand":
                c["reorder"] = rng.random() < 0.7
                names = sorted({v.name for v in p.get_variables()})
                r = rng.random()
                if r < 0.4:
                    c["ordering"] = None
                else:
                    o = list(names); rng.shuffle(o)
                    if r > 0.9 and len(o) > 1:
                        o = o[:-1]
                    c["ordering"] = o
        elif kind in ("contract", "recursive_contract"):
            from y0.dsl import Fraction, P, Sum
            names = rng.sample(gen.names, rng.randint(2, 4))
            k = rng.randint(1, len(names) - 1)
            from y0.dsl import PP, Variable
            def build(ns):  # plain or population-tagged joint: contraction is only valid within one population
                r = rng.random()
                if not gen.rich or r < 0.55:
                    return P(*[V(n) for n in ns])
                return PP[Variable("S" if r < 0.8 else "T")](*[V(n) for n in ns])
            num = build(names)
            r = rng.random()
            if r < 0.1:
                sub = list(names); rng.shuffle(sub)      # the same children below the bar
            else:
                sub = names[:k] if r < 0.8 else names[:k - 1] + [rng.choice([n for n in gen.names if n not in names])]
            sub = sub or names[:1]
            den = build(sub)
            if rng.random() < 0.5 and type(den) is not type(num):
                den = num._new(den.distribution)
            e = Fraction(num, den)
            if kind == "recursive_contract":
                r = rng.random()
                if r < 0.4:
                    e = Sum(e, frozenset([V(rng.choice(names))]))
                elif r < 0.7:
                    e = e * gen.atom() if rng.random() < 0.5 else Sum(e, frozenset([V(names[0])])) * gen.atom()
            c["a"] = GE.to_tree(e)
        elif kind == "markov":
            c["a"] = GE.to_tree(gen.expr(depth))
        elif kind in ("canon", "canon_eq", "print"):
            r0 = rng.random()
            c["a"] = GE.to_tree(tie_family(gen, rng, same_name=(self.pid == "C11")) if r0 < 0.25
                                else nested_fractions(gen, rng) if r0 < 0.33 else gen.expr(depth))
            if kind == "canon":
                r = rng.random()
                if r < 0.5:
                    c["ordering"] = None
                else:
                    o = list(gen.names) + ["S", "T"]; rng.shuffle(o)
                    c["ordering"] = o
            if kind == "canon_eq":
                c["b"] = GE.to_tree(gen.expr(depth)) if rng.random() < 0.5 else GE.to_tree(permute(GE.from_tree(c["a"]), rng))
        else:
            raise ValueError(kind)
        return c

    def gen(self, rng, tier, n, shard, nshards):
        depth = 2 if tier == "quick" else 3
        cases = list(self.corpus()) if shard == 0 else []
        while len(cases) < n:
            kind = rng.choice(self.kinds)
            cases.append(self.mk(rng, kind, rng.randint(1, depth)))
        return cases

    def corpus(self):
        return []

    # ------------------------------------------------------------ running one case
    def run(self, case):
        from y0.dsl import Fraction, Product, Sum
        from y0.mutate import bayes_expand, canonicalize, chain_expand, fraction_expand
        from y0.mutate.canonicalize_expr import canonical_expr_equal
        from y0.mutate.contract import contract, recursive_contract
        from y0.predicates import has_markov_postcondition
        kind = case["kind"]
        a = GE.from_tree(case["a"])
        violation, term, out_s = None, None, None
        feats = [kind, f"size={min(GE.tree_size(case['a']) // 10 * 10, 60)}"]
        if kind in ("mul", "truediv"):
            b = GE.from_tree(case["b"])
            res, exc = exc_code((lambda: a * b) if kind == "mul" else (lambda: a / b))
            term = f"COp {0 if kind == 'mul' else 1} {GE.c_expr(a)} {GE.c_expr(b)} {ser(res, exc)}"
            if exc is None:
                ref, rexc = exc_code(lambda: Product((a, b)) if kind == "mul" else Fraction(a, b))
                if rexc is None:
                    violation = sem_check(res, ref, f"{kind}")
            elif exc != "ZeroDivisionError":  # a Zero reached a denominator: an operand is itself undefined, or b is Zero
                violation = f"{kind} raised {exc}"
            feats.append(f"{type(a).__name__}x{type(b).__name__}")
        elif kind in ("marginalize", "conditional", "normalize_marginalize", "sum_safe", "sum_safe_simplify"):
            rs = [V(n) for n in case["rs"]]
            # the argument as callers write it: Variables or their names, a list, a tuple, a set - or, for one variable, the bare name / object
            import zlib
            h = zlib.crc32(repr(case).encode()) % 6
            ra = {0: rs, 1: list(case["rs"]), 2: tuple(rs), 3: set(rs), 4: rs, 5: list(case["rs"])}[h]
            if len(rs) == 1 and h in (4, 5):
                ra = case["rs"][0] if h == 5 else rs[0]
            f = {"marginalize": lambda: a.marginalize(ra), "conditional": lambda: a.conditional(ra),
                 "normalize_marginalize": lambda: a.normalize_marginalize(ra), "sum_safe": lambda: Sum.safe(a, ra),
                 "sum_safe_simplify": lambda: Sum.safe(a, ra, simplify=True)}[kind]
            res, exc = exc_code(f)
            code = ["marginalize", "conditional", "normalize_marginalize", "sum_safe", "sum_safe_simplify"].index(kind)
            term = f"CMarg {code} {GE.c_expr(a)} {GE.c_vars(rs)} {ser(res, exc)}"
            if exc is None:
                if kind == "conditional" and any(type(v).__name__ == "Intervention" for v in a.get_variables()):
                    ref, rexc = None, "skip"   # conditioning an interventional term: which variables are summed is not defined by the property
                elif kind == "conditional":
                    comp = {V(n) for n in free_names(a)} - set(rs)   # the variables the expression is a function of
                    ref, rexc = exc_code(lambda: Fraction(a, Sum(a, frozenset(comp))) if comp else Fraction(a, a))
                elif kind == "normalize_marginalize":
                    ref, rexc = exc_code(lambda: Fraction(a, Sum(a, frozenset(rs))))
                else:
                    ref, rexc = exc_code(lambda: Sum(a, frozenset(rs)))
                if rexc is None:
                    violation = sem_check(res, ref, kind)
                    if violation and kind == "conditional":
                        violation = "conditional() sums again over variables already bound by a sum inside the expression: " + violation
        elif kind in ("frac_simplify", "sum_simplify", "fraction_expand", "bayes_expand", "contract", "recursive_contract"):
            f = {"frac_simplify": lambda: a.simplify(), "sum_simplify": lambda: a.simplify(), "fraction_expand": lambda: fraction_expand(a),
                 "bayes_expand": lambda: bayes_expand(a), "contract": lambda: contract(a), "recursive_contract": lambda: recursive_contract(a)}[kind]
            res, exc = exc_code(f)
            code = ["frac_simplify", "sum_simplify", "fraction_expand", "bayes_expand", "contract", "recursive_contract"].index(kind)
            term = f"CUn {code} {GE.c_expr(a)} {ser(res, exc)}"
            if exc is None:
                violation = sem_check(res, a, kind)
            elif exc != "ZeroDivisionError":  # a literal Zero below the bar: the operand itself is undefined
                violation = f"{kind} raised {exc} on {a}"
        elif kind == "chain_expand":
            o = case.get("ordering")
            res, exc = exc_code(lambda: chain_expand(a, reorder=case["reorder"], ordering=None if o is None else [V(n) for n in o]))
            oc = "None" if o is None else f"(Some {GE.c_vars([V(n) for n in o])})"
            term = f"CChain {GE.c_expr(a)} {'true' if case['reorder'] else 'false'} {oc} {ser(res, exc)}"
            if exc is None:
                violation = sem_check(res, a, kind)
                if violation is None and not has_markov_postcondition(res):
                    violation = f"chain_expand({a}) = {res} has a factor with several children"
        elif kind == "markov":
            res, exc = exc_code(lambda: has_markov_postcondition(a))
            term = f"CMarkov {GE.c_expr(a)} {2 if exc else (1 if res else 0)}"
        elif kind == "canon":
            o = case.get("ordering")
            ordv = None if o is None else [V(n) for n in o]
            res, exc = exc_code(lambda: canonicalize(a, ordv))
            res2, exc2 = (None, exc) if exc else exc_code(lambda: canonicalize(res, ordv))
            oc = "None" if o is None else f"(Some {GE.c_vars(ordv)})"
            term = f"CCanon {GE.c_expr(a)} {oc} {ser(res, exc)} {ser(res2, exc2)}"
            out_s = None if exc else str(res)
            violation = self.canon_checks(case, a, ordv, res, exc, res2, exc2)
        elif kind == "canon_eq":
            b = GE.from_tree(case["b"])
            res, exc = exc_code(lambda: canonical_expr_equal(a, b))
            term = f"CCanonEq {GE.c_expr(a)} {GE.c_expr(b)} {'true' if res else 'false'}" if exc is None else None
            if exc is None and res:
                violation = sem_check(b, a, "canonical_expr_equal declared equal")
            if term is None:
                term = f"CMarkov EOne 2"  # canonical_expr_equal raised (e.g. Q factor): nothing to compare
        elif kind == "print":
            res, exc = exc_code(lambda: str(a))
            out_s = res
            term = f"CPrint {GE.c_expr(a)} " + '"' + normalise_l2(res).replace('"', '""') + '"'
            violation = self.print_checks(case, a, res)
        return {"out": out_s if out_s is not None else term[-200:], "violation": violation,
                "nontrivial": GE.tree_size(case["a"]) > 12, "features": feats, "term": term,
                "key": f"{self.pid}/{kind}"}

    def canon_checks(self, case, a, ordv, res, exc, res2, exc2):
        return None

    def print_checks(self, case, a, res):
        return None

    def coq(self, case, res):
        return res.pop("term")

    def finding_key(self, case, res):
        return f"{self.pid}/model-mismatch/{case['kind']}"

    def classify_mismatch(self, case, res):
        return (False, f"{case['kind']} differs from the model on {GE.from_tree(case['a'])}", self.finding_key(case, res))

    def search(self, rng, case):
        for _ in range(3000):
            c = self.mk(rng, rng.choice(self.kinds), rng.randint(1, 3))
            try:
                r = self.run(c)
            except Exception:
                continue
            if r["violation"]:
                return {"case": c, "what": r["violation"], "key": r["key"]}
        return None


def free_names(e, bound=frozenset()):
    """Names of the variables an expression is a function of (those not bound by an enclosing sum)."""
    from y0.dsl import Fraction, Probability, Product, QFactor, Sum
    if isinstance(e, Probability):
        return {v.name for v in (*e.children, *e.parents)} - bound
    if isinstance(e, Sum):
        return free_names(e.expression, bound | {r.name for r in e.ranges})
    if isinstance(e, Product):
        return set().union(*[free_names(x, bound) for x in e.expressions]) if e.expressions else set()
    if isinstance(e, Fraction):
        return free_names(e.numerator, bound) | free_names(e.denominator, bound)
    if isinstance(e, QFactor):
        return {v.name for v in (*e.domain, *e.codomain)} - bound
    return set()


def normalise_l2(s: str) -> str:
    """P[..] intervention lists are printed in frozenset iteration order: sort them for comparison."""
    import re
    def fix(m):
        items = m.group(2).split(",")
        return m.group(1) + "[" + ",".join(sorted(items, key=lambda x: (x.lstrip("+"), x.startswith("+")))) + "]("
    return re.sub(r"(P|\])\[([+A-Za-z0-9,]+)\]\(", fix, s)


def same_name_atom(gen, rng):
    """A probability built from a raw Distribution whose children / parents contain several variables of one name
    (value marks, counterfactual copies in different worlds), in random order."""
    from y0.dsl import Distribution, Probability, Variable
    names = list(gen.names)
    n1, n2, n3 = rng.sample(names, 3)
    def variants(n):
        v = Variable(n)
        out = [v, +v, -v, v @ Variable(n3), v @ ~Variable(n3), v @ +Variable(n3), (+v) @ Variable(n3), (-v) @ Variable(n3), (+v) @ ~Variable(n3)]
        rng.shuffle(out)
        return out[:rng.randint(2, 4)]
    ch = variants(n1) + ([Variable(n2)] if rng.random() < 0.5 else [])
    pa = variants(n2) if rng.random() < 0.4 else []
    rng.shuffle(ch); rng.shuffle(pa)
    return Probability(Distribution(children=tuple(ch), parents=tuple(pa)))


def tie_family(gen, rng, same_name=False):
    """A product whose factors share their sort key (same first child; same population; same summand under different
    ranges; fractions over the same numerator): the order of the result then rests on the tie-break alone."""
    from y0.dsl import Fraction, PopulationProbability, Product, Sum, P, Variable
    if same_name and rng.random() < 0.4:
        a = same_name_atom(gen, rng)
        return a if rng.random() < 0.5 else Product((a, gen.atom()))
    names = list(gen.names)
    first = rng.choice(names)
    others = [n for n in names if n != first]
    def plain():
        extra = rng.sample(others, rng.randint(0, 2))
        k = rng.randint(0, len(extra))
        ch = [Variable(first)] + [Variable(n) for n in extra[:k]]
        pa = [Variable(n) for n in extra[k:]]
        rng.shuffle(ch)
        return P(*(ch[:-1] + [ch[-1] | pa if pa else ch[-1]]))
    pop = Variable(rng.choice(["S", "T"]))
    def popn():
        return PopulationProbability(population=pop, distribution=plain().distribution)
    base = plain()
    def summed():
        rs = rng.sample(names, rng.randint(1, 3))
        return Sum(base if rng.random() < 0.6 else plain(), frozenset(Variable(n) for n in rs))
    def frac():
        return Fraction(base if rng.random() < 0.6 else plain(), gen.atom())
    def marked():
        # factors that differ only in the value mark of a counterfactual variable: same key, same to_text
        n3 = rng.choice(others)
        w = Variable(n3)
        pa = [x for x in others if x != n3][:1]
        mk = rng.choice([lambda v: v, lambda v: +v, lambda v: -v])
        ch = [Variable(first) @ +w]
        par = [mk(Variable(pa[0])) @ +w] if pa else []
        return P(*(ch[:-1] + [ch[-1] | par if par else ch[-1]]))
    makers = rng.choice([[plain], [popn], [summed], [frac], [plain, popn, summed], [popn, summed], [plain, summed, frac], [marked], [marked, plain]])
    parts = []
    for _ in range(rng.randint(2, 4)):
        try:
            parts.append(rng.choice(makers)())
        except Exception:  # noqa: BLE001
            parts.append(plain())
    if rng.random() < 0.4:
        parts.append(gen.atom())
    rng.shuffle(parts)
    return Product(tuple(parts))


def nested_fractions(gen, rng):
    """Raw fractions whose numerator and/or denominator are themselves fractions over shared factors: dividing them
    multiplies across, and the two sides of the quotient can then coincide or share factors."""
    from y0.dsl import Fraction, Product
    pool = [gen.atom() for _ in range(rng.randint(2, 4))]
    if rng.random() < 0.3:
        pool.extend(t for t in (gen.twin(x) for x in pool[:2]) if t is not None)
    def prod(k):
        xs = rng.choices(pool, k=k)
        return xs[0] if len(xs) == 1 else Product(tuple(xs))
    def frac():
        try:
            return Fraction(prod(rng.randint(1, 3)), prod(rng.randint(1, 2)))
        except ZeroDivisionError:
            return prod(2)
    r = rng.random()
    try:
        if r < 0.35:       # (a*b/a) / (b*c/c): equal after multiplying across
            a, b, c = (rng.choice(pool) for _ in range(3))
            return Fraction(Fraction(Product((a, b)), a), Fraction(Product((b, c)), c))
        if r < 0.55:       # a / (b*a/b)
            a, b = rng.choice(pool), rng.choice(pool)
            return Fraction(a, Fraction(Product((b, a)), b))
        if r < 0.8:
            return Fraction(frac(), frac())
        return Fraction(frac(), prod(rng.randint(1, 2))) if rng.random() < 0.5 else Fraction(prod(rng.randint(1, 2)), frac())
    except ZeroDivisionError:
        return frac()


def permute(e, rng):
    """A presentation permutation: reorder product factors, re-nest products, reorder variables around the bar."""
    from y0.dsl import Distribution, Fraction, PopulationProbability, Probability, Product, Sum
    if isinstance(e, Probability):
        ch, pa = list(e.children), list(e.parents)
        rng.shuffle(ch); rng.shuffle(pa)
        d = Distribution(children=tuple(ch), parents=tuple(pa))
        return e._new(d)
    if isinstance(e, Product):
        parts = [permute(x, rng) for x in e.expressions]
        rng.shuffle(parts)
        if len(parts) >= 3 and rng.random() < 0.5:
            k = rng.randint(1, len(parts) - 2)
            parts = parts[:k] + [Product(tuple(parts[k:]))]
        return Product(tuple(parts))
    if isinstance(e, Sum):
        return Sum(permute(e.expression, rng), e.ranges)
    if isinstance(e, Fraction):
        return Fraction(permute(e.numerator, rng), permute(e.denominator, rng))
    return e
