"""C17 - Tian-Pearl c-factor identification returns the true c-factor."""
import itertools as itt

import gen_expr as GE
import gen_graph as GG
from common import c_list
from oracles import expr_sem as SEM
from oracles import scm as SCM
from props.base import PropBase
from props.id_common import OFF, c_graph_off


def districts(g, within):
    within = set(within)
    comps, seen = [], set()
    for v in sorted(within):
        if v in seen:
            continue
        comp, todo = {v}, [v]
        while todo:
            x = todo.pop()
            for a, b in g["bid"]:
                for p, q in ((a, b), (b, a)):
                    if p == x and q in within and q not in comp:
                        comp.add(q); todo.append(q)
        seen |= comp
        comps.append(sorted(comp))
    return comps


def rand_topo(rng, g):
    indeg = {v: 0 for v in g["nodes"]}
    for _, v in g["dir"]:
        indeg[v] += 1
    order, avail = [], [v for v in indeg if indeg[v] == 0]
    while avail:
        u = avail.pop(rng.randrange(len(avail)))
        order.append(u)
        for a, b in g["dir"]:
            if a == u:
                indeg[b] -= 1
                if indeg[b] == 0:
                    avail.append(b)
    return order


def anc_in(g, T, C):
    """Ancestors of C (inclusive) in the subgraph induced by T."""
    T, out, todo = set(T), set(C), list(C)
    while todo:
        x = todo.pop()
        for a, b in g["dir"]:
            if b == x and a in T and a not in out:
                out.add(a); todo.append(a)
    return out


def recursion_depth(g, T, C):
    """How many times identify_district_variables recurses on (C, T): each level takes A = An(C) in G_T and the district of C in G_A."""
    depth, T = 0, sorted(T)
    for _ in range(len(T) + 1):
        A = anc_in(g, T, C)
        if A == set(C) or A == set(T):
            return depth
        T2 = next(d for d in districts(g, A) if set(C) <= set(d))
        depth, T = depth + 1, T2
    return depth


def swapped_topo(rng, g, topo, prefer=()):
    """Another valid order: swap one adjacent pair the graph does not order, preferably both inside `prefer`
    (falls back to a fresh random order)."""
    edges = {tuple(e) for e in g["dir"]}
    idx = [i for i in range(len(topo) - 1) if (topo[i], topo[i + 1]) not in edges]
    pref = [i for i in idx if topo[i] in prefer and topo[i + 1] in prefer]
    idx = pref or idx
    if not idx:
        return rand_topo(rng, g)
    i = rng.choice(idx)
    out = list(topo)
    out[i], out[i + 1] = out[i + 1], out[i]
    return out


def q_truth_violation(g, C, expr, what):
    """expr must equal Q[C](v) = P(c | do(v minus c)) for every assignment, on a random positive SCM."""
    scm = SCM.SCM(g, 0)
    m = SCM.ScmModel(scm)
    V = sorted(g["nodes"])
    for vals in itt.product((0, 1), repeat=len(V)):
        a = dict(zip(V, vals))
        truth = scm.prob({c: a[c] for c in C}, {v: a[v] for v in V if v not in C})
        env = {f"V{v}": x for v, x in a.items()}
        try:
            val = SEM.ev(expr, env, m)
        except SEM.Undefined:
            continue
        except SEM.Unsupported:
            return None
        if val != truth:
            return f"{what} {expr} = {val} but Q[{C}] = {truth} at {a}"
    return None


class C17(PropBase):
    pid = "C17"
    coq_imports = "Graph.MixedGraph Dsl.Syntax Dsl.Build Alg.Id Alg.Tian Corr.Tian"
    budgets = {"quick": 400, "thorough": 4000}
    per_file = 100
    rule = ("random ADMGs with 2..6 nodes, two random valid topological orders (the routines are called once per order in the same process), every district T with Q[T] computed by compute_c_factor from P(V) "
            "(plain or population-tagged), a random C inside T whose induced subgraph is one district; non-trivial: the recursion takes at "
            "least one step (A differs from C) or fails; distinct by (graph, order, T, C, variant)")
    explanation = ("compute_c_factor and identify_district_variables compared with the Gallina model (parents of population-tagged atoms as sets); "
                   "each returned expression is evaluated exactly against the true c-factor P(c | do(v minus c)) of a random positive SCM")
    trusted_base = ["model Alg/Tian.v of tian_id.py", "Python SCM oracle: supporting validation only"]
    modelled = ["tian_id.py identify_district_variables, compute_c_factor (+ both lemma branches), compute_ancestral_set_q_value, "
                "compute_q_value_of_variables_with_low_topological_ordering_indices"]
    assumptions = ["soundness (value = Q[C]) is not yet a Coq theorem; it needs the c-factor lemmas over Sem/Scm.v"]

    def gen(self, rng, tier, n, shard, nshards):
        cases = []
        if shard == 0:  # Lemma 4(ii) with two variables of A = An(C) that the graph does not order
            cases.append({"g": {"nodes": [0, 1, 2, 3, 4], "dir": [[0, 1], [1, 3], [2, 3], [3, 4]], "bid": [[1, 3], [2, 4], [3, 4]]},
                          "topo": [0, 1, 2, 3, 4], "topo2": [0, 2, 1, 3, 4], "T": [1, 2, 3, 4], "C": [1, 3], "pop": False})
        while len(cases) < n:
            if rng.random() < 0.12:
                # Q[T] handed over as ONE conditional term P(T | Z): Z are unconfounded root parents of T, so P(t | z) = P(t | do(z)) = Q[T]
                k, m = rng.randint(2, 4), rng.randint(1, 2)
                T = list(range(k)); Z = list(range(k, k + m))
                order = list(T); rng.shuffle(order)
                di = [[order[i], order[j]] for i in range(k) for j in range(i + 1, k) if rng.random() < 0.5]
                bi = [[order[i], order[rng.randrange(i)]] for i in range(1, k)]          # a spanning tree of bidirected edges: one district
                bi += [[a, b] for a in T for b in T if a < b and [a, b] not in bi and [b, a] not in bi and rng.random() < 0.25]
                for z in Z:
                    for t in rng.sample(T, rng.randint(1, k)):
                        di.append([z, t])
                g = {"nodes": Z + T, "dir": di, "bid": bi}
                rng.shuffle(g["nodes"]); rng.shuffle(g["dir"])
                topo = rand_topo(rng, g)
                C = None
                for _ in range(20):
                    cand = sorted(rng.sample(T, rng.randint(1, k)))
                    if len(districts(g, cand)) == 1 and (C is None or len(cand) < len(anc_in(g, T, cand)) < len(T)):
                        C = cand
                        if len(cand) < len(anc_in(g, T, cand)) < len(T):
                            break
                cases.append({"g": g, "topo": topo, "topo2": None, "T": sorted(T), "C": C or T[:1], "pop": rng.random() < 0.25, "condq": sorted(Z)})
                continue
            g = GG.rand_admg(rng, 2, 6)
            if rng.random() < 0.15:
                # several recursion levels: a directed chain through the whole graph, many bidirected edges, and the (T, C) with the deepest
                # recursion among the sampled candidates (Lemma 3 is then applied to expressions Lemma 4 produced, more than once)
                k = rng.randint(5, 7)
                order = list(range(k)); rng.shuffle(order)
                di = [[order[i], order[i + 1]] for i in range(k - 1) if rng.random() < 0.85]
                di += [[order[i], order[j]] for i in range(k) for j in range(i + 2, k) if rng.random() < 0.1]
                bi = [[order[i], order[j]] for i in range(k) for j in range(i + 1, k) if rng.random() < 0.35]
                g = {"nodes": sorted(order), "dir": di, "bid": bi}
                topo = rand_topo(rng, g)
                best = None
                for T in districts(g, g["nodes"]):
                    for _ in range(25):
                        cand = sorted(rng.sample(T, rng.randint(1, min(2, len(T)))))
                        if len(districts(g, cand)) != 1:
                            continue
                        d = recursion_depth(g, T, cand)
                        if best is None or d > best[0]:
                            best = (d, T, cand)
                if best is not None:
                    _, T, C = best
                    cases.append({"g": g, "topo": topo, "topo2": swapped_topo(rng, g, topo, anc_in(g, T, C)), "T": T, "C": C, "pop": rng.random() < 0.2})
                continue
            if rng.random() < 0.4:  # large districts, sparse directed part: Lemma 4 with incomparable variables inside An(C)
                g = GG.rand_admg(rng, 4, 6)
                extra = [[a, b] for a in g["nodes"] for b in g["nodes"] if a < b and [a, b] not in g["bid"] and [b, a] not in g["bid"] and rng.random() < 0.4]
                g["bid"] += extra
                g["dir"] = [e for e in g["dir"] if rng.random() < 0.7]
            topo = rand_topo(rng, g)
            for T in districts(g, g["nodes"]):
                k = rng.randint(1, len(T))
                C, fallback = None, T[:1]
                for _ in range(12):
                    cand = sorted(rng.sample(T, rng.randint(1, len(T)) if C is None else k))
                    if len(districts(g, cand)) != 1:
                        continue
                    fallback = cand
                    A = anc_in(g, T, cand)
                    if len(cand) < len(A) < len(T) or rng.random() < 0.15:   # prefer the Lemma-4 branch: C < An(C) < T
                        C = cand
                        break
                C = C or fallback
                cases.append({"g": g, "topo": topo, "topo2": swapped_topo(rng, g, topo, anc_in(g, T, C)), "T": T, "C": C, "pop": rng.random() < 0.25})
        return cases

    def run(self, case):
        """The same (graph, T, C) is identified twice in this process, under two valid topological orders: a result may not depend on
        what was computed before (module-level state)."""
        r1 = self.run_order(case, case["topo"])
        if case.get("topo2") in (None, case["topo"]) or "terms" not in r1:
            return r1
        r2 = self.run_order(case, case["topo2"], qT_from=case["topo"])
        if "terms" not in r2:
            return r2
        r1["terms"] += r2["terms"]
        if r2["violation"] and not r1["violation"]:
            r1["violation"], r1["key"] = "second call, order %s: %s" % (case["topo2"], r2["violation"]), r2["key"]
        r1["features"].append("two-orders")
        return r1

    def run_order(self, case, topo, qT_from=None):
        from y0.algorithm.tian_id import compute_c_factor, identify_district_variables
        from y0.dsl import PP, P, Variable
        g, T, C = case["g"], case["T"], case["C"]
        gr = GG.to_y0(g)
        tv = [GG.V(v) for v in topo]
        joint = PP[Variable("pi1")](*tv) if case["pop"] else P(*tv)
        violation, key = None, "C17/ok"
        # the second call re-uses Q[T] as computed under the first order (any valid order may be used for the recursion itself)
        tq = tv if qT_from is None else [GG.V(v) for v in qT_from]
        topo_q = topo if qT_from is None else qT_from
        if qT_from is not None:
            joint = PP[Variable("pi1")](*tq) if case["pop"] else P(*tq)
        if case.get("condq"):
            tch = [GG.V(v) for v in topo if v in T]
            zs = [GG.V(z) for z in case["condq"]]
            qT = (PP[Variable("pi1")] if case["pop"] else P)(*(tch[:-1] + [tch[-1] | zs]))
            t1 = None
        else:
            try:
                qT = compute_c_factor(district=[GG.V(v) for v in T], subgraph_variables=set(tq), subgraph_probability=joint, graph_topo=tq)
            except Exception as ex:  # noqa: BLE001
                return {"out": f"c-factor raised {type(ex).__name__}", "violation": f"compute_c_factor raised {type(ex).__name__}", "nontrivial": True,
                        "features": ["cfactor-exception"], "term": "CCFactor [] [] EOne [] (EErr 3)", "key": "C17/crash"}
            t1 = (f"CCFactor {c_list([OFF + v for v in T])} {c_list([OFF + v for v in g['nodes']])} {GE.c_expr(joint)} "
                  f"{c_list([OFF + v for v in topo_q])} {GE.c_expr(qT)}")
        try:
            res = identify_district_variables(input_variables=frozenset(GG.V(v) for v in C), input_district=frozenset(GG.V(v) for v in T),
                                              district_probability=qT, graph=gr, topo=tv)
            code, exc = (1 if res is None else 0), None
        except Exception as ex:  # noqa: BLE001
            res, exc = None, type(ex).__name__
            code = 2 + GE.EXC.get(exc, 9)
        t2 = (f"CTian {c_graph_off(g)} {c_list([OFF + v for v in C])} {c_list([OFF + v for v in T])} {GE.c_expr(qT)} "
              f"{c_list([OFF + v for v in topo])} {code} {GE.c_expr(res) if res is not None else 'EOne'}")
        # the c-factor routine itself, on every district of G_A (A = An(C) within T) from the compound Q[A] (Lemma 4 when Q[A] is not atomic)
        extra_terms, extra_violation = [], None
        A = sorted(anc_in(g, T, C))
        try:
            from y0.algorithm.tian_id import compute_ancestral_set_q_value
            qA = compute_ancestral_set_q_value(ancestral_set=frozenset(GG.V(v) for v in A), subgraph_variables=frozenset(GG.V(v) for v in T),
                                               subgraph_probability=qT, graph_topo=tv)
            for D in districts(g, A):
                qD = compute_c_factor(district=[GG.V(v) for v in D], subgraph_variables={GG.V(v) for v in A}, subgraph_probability=qA, graph_topo=tv)
                extra_terms.append(f"CCFactor {c_list([OFF + v for v in D])} {c_list([OFF + v for v in A])} {GE.c_expr(qA)} "
                                   f"{c_list([OFF + v for v in topo])} {GE.c_expr(qD)}")
                if extra_violation is None and len(g["nodes"]) <= 6 and len(g["bid"]) <= 5 and not case["pop"]:
                    extra_violation = q_truth_violation(g, D, qD, f"compute_c_factor of the district {D} of G_A, A = {A}, from Q[A] = {qA}:")
        except Exception as ex:  # noqa: BLE001
            extra_violation = f"compute_c_factor on a district of G_A raised {type(ex).__name__}"
        # the same call on an edited graph: same C, T, Q[T] and order, one directed edge more (or less) - the answer has to be that graph's
        try:
            import random as _random
            r2 = _random.Random(repr((g, T, C, topo)))
            pos = {v: i for i, v in enumerate(topo)}
            posq = {v: i for i, v in enumerate(topo_q)}     # Q[T] was written under this order: it has to stay valid too
            have = {tuple(e) for e in g["dir"]}
            addable = [(u, v) for u in topo for v in topo if pos[u] < pos[v] and posq[u] < posq[v] and (u, v) not in have]
            if (not addable and not have) or case.get("condq"):
                raise LookupError      # (for a Q[T] handed over as P(T | Z) an edited graph would need another Q[T])
            if addable and (r2.random() < 0.7 or not have):
                e2 = r2.choice(addable); dir2 = g["dir"] + [list(e2)]
            else:
                e2 = r2.choice(sorted(have)); dir2 = [e for e in g["dir"] if tuple(e) != e2]
            g2 = {"nodes": g["nodes"], "dir": dir2, "bid": g["bid"]}
            res2 = identify_district_variables(input_variables=frozenset(GG.V(v) for v in C), input_district=frozenset(GG.V(v) for v in T),
                                               district_probability=qT, graph=GG.to_y0(g2), topo=tv)
            extra_terms.append(f"CTian {c_graph_off(g2)} {c_list([OFF + v for v in C])} {c_list([OFF + v for v in T])} {GE.c_expr(qT)} "
                               f"{c_list([OFF + v for v in topo])} {1 if res2 is None else 0} {GE.c_expr(res2) if res2 is not None else 'EOne'}")
            if extra_violation is None and res2 is not None and len(g2["bid"]) <= 5 and not case["pop"]:
                extra_violation = q_truth_violation(g2, C, res2, f"identify_district_variables on the edited graph (edge {e2} toggled):")
        except LookupError:
            pass          # a graph with two nodes in fixed order and no edge: nothing to edit
        except Exception as ex:  # noqa: BLE001
            extra_violation = extra_violation or f"identify_district_variables on the edited graph raised {type(ex).__name__}"
        if exc is not None:
            violation, key = f"identify_district_variables raised {exc} on a valid input", f"C17/crash/{exc}"
        elif len(g["nodes"]) <= 6 and len(g["bid"]) <= 5 and not case["pop"]:
            violation = q_truth_violation(g, T, qT, "compute_c_factor")
            if violation is None and res is not None:
                violation = q_truth_violation(g, C, res, "identify_district_variables")
            if violation:
                key = "C17/wrong-cfactor"
        if violation is None and extra_violation:
            violation, key = extra_violation, "C17/wrong-cfactor"
        return {"out": str(res) if res is not None else code, "violation": violation, "nontrivial": sorted(C) != sorted(T) or len(T) > 1,
                "features": [f"n={len(g['nodes'])}", f"|T|={len(T)}", f"|C|={len(C)}", "pop" if case["pop"] else "plain",
                             "expr" if code == 0 else ("fail" if code == 1 else f"exception:{exc}")] + (["Q[T]-given-as-conditional"] if case.get("condq") else []),
                "terms": ([t1] if t1 else []) + [t2] + extra_terms, "key": key}

    def coq(self, case, res):
        ts = res.pop("terms", None)
        if ts is None:
            return res.pop("term")
        return ts

    def finding_key(self, case, res):
        return "C17/model-mismatch"

    def classify_mismatch(self, case, res):
        return (False, f"tian_id differs from the model on {case}", "C17/model-mismatch")

    def search(self, rng, case):
        for c in self.gen(rng, "quick", 600, 1, 2):
            r = self.run(c)
            if r["violation"]:
                return {"case": c, "what": r["violation"], "key": r["key"]}
        return None


PROP = C17()
