"""Shared runner of the counterfactual properties C18 (make-cg), C07 (ID*), C08 (IDC*)."""
import itertools as itt

import gen_event as GEV
import gen_expr as GE
import gen_graph as GG
from common import c_graph, c_list
from oracles import ctf as CTF
from props.base import PropBase
from props.id_common import TopoRecorder


def letter_topo(rec, g):
    tbl, _ = rec.table()
    key = tuple(sorted(g["nodes"]))
    if key in tbl:
        return tbl[key]
    from oracles.scm import topo_order
    return topo_order(g)


class CfProp(PropBase):
    coq_imports = "Graph.MixedGraph Dsl.Syntax Dsl.Build Alg.Id Alg.Cg Alg.IdStar Corr.Cf"
    per_file = 40
    trusted_base = ["models Alg/Cg.v and Alg/IdStar.v of cg.py, id_star.py, idc_star.py (all visiting orders of the world set)",
                    "functional-SCM oracle harness/oracles/ctf.py (binary variables, one binary latent per bidirected edge, 3-valued private noise, "
                    "random response functions, exact rationals): supporting validation only"]

    def rand_case(self, rng, nmax=4):
        g = GG.rand_admg(rng, 2, nmax)
        g = {"nodes": sorted(g["nodes"]), "dir": g["dir"], "bid": g["bid"]}
        return g

    def truth_check(self, g, event, est, what, env_subscripts=frozenset()):
        """est (ID*/IDC* output) against the probability of the event in a random functional SCM, for every base assignment."""
        pol = GEV.consistent_polarity(event)
        if pol is None:
            return None, "ambiguous-reading"
        m = CTF.FSCM(g, 0)
        node_of = {GE.ALPHA[v]: v for v in g["nodes"]}
        names = sorted(node_of)
        for base in itt.product(range(2), repeat=len(names)):
            rho = dict(zip(names, base))
            truth = CTF.event_truth(m, event, rho, node_of)
            env = dict(rho)
            for b, st in pol.items():
                if st:
                    env[b] = 1 - rho[b]
            try:
                got = CTF.ev_ctf(est, env, rho, m, node_of, frozenset(env_subscripts))
            except CTF.Unsupported:
                return None, "unsupported"
            except ZeroDivisionError:
                continue
            if got != truth:
                return f"{what} {est} = {got} but the event {event} has probability {truth} at base assignment {rho}", "wrong"
        return None, "checked"
