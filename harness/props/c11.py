"""C11 - canonical form is a true normal form."""
import random

import gen_expr as GE
from props.dsl_common import DslProp, permute


class C11(DslProp):
    pid = "C11"
    budgets = {"quick": 1200, "thorough": 12000}
    kinds = ["canon"]
    hashseed_replicas = {"quick": 1, "thorough": 3}
    rule = ("random expressions x orderings; each case canonicalised, re-canonicalised, and canonicalised again from 3 presentation permutations "
            "(factor order, product nesting, variable order around the bar); every shard is re-run under other PYTHONHASHSEED values and the printed "
            "canonical forms compared; non-trivial: more than 12 tree nodes")
    explanation = ("idempotence and permutation-invariance are checked on y0 directly and on the model inside Coq (CCanon carries the "
                   "re-canonicalised form); theorems in Properties/C11.v")
    modelled = ["mutate/canonicalize_expr.py; dsl.py _get_key of every class, Product.safe sorting with the text tie-break, Sum.safe, __truediv__"]
    assumptions = ["hash-seed independence is monitored [M] by re-running under other seeds, not proved: the model has no hashing"]

    def corpus(self):
        from y0.dsl import A, B, C, P, Product
        yield {"kind": "canon", "a": GE.to_tree(Product((P(A | C), P(A | B)))), "ordering": ["A", "B", "C"]}
        from y0.dsl import Fraction
        yield {"kind": "canon", "a": GE.to_tree(Fraction(Fraction(Product((P(A), P(B))), P(A)), Fraction(Product((P(B), P(C))), P(C)))), "ordering": None}

    def canon_checks(self, case, a, ordv, res, exc, res2, exc2):
        from y0.mutate import canonicalize
        if exc is not None:
            return None
        if exc2 is not None:
            return f"canonicalising the canonical form of {a} raised {exc2}"
        if res2 != res:
            return f"not idempotent: canon({a}) = {res} but canon of that = {res2}"
        rng = random.Random(str(case))
        for _ in range(3):
            b = permute(a, rng)
            try:
                rb = canonicalize(b, ordv)
            except Exception as ex:  # noqa: BLE001
                return f"presentation permutation {b} of {a} raised {type(ex).__name__}"
            if rb != res:
                return f"presentation dependent: canon({a}) = {res} but canon({b}) = {rb}"
        return None


PROP = C11()
