"""C13 - DSL operators and rewrite helpers are identities of probability calculus."""
from props.dsl_common import DslProp


class C13(DslProp):
    pid = "C13"
    budgets = {"quick": 2000, "thorough": 20000}
    kinds = ["mul", "mul", "truediv", "truediv", "marginalize", "conditional", "normalize_marginalize", "sum_safe", "sum_safe_simplify",
             "frac_simplify", "sum_simplify", "chain_expand", "fraction_expand", "bayes_expand", "contract", "recursive_contract", "markov"]
    rule = ("grammar-directed random expressions (depth <= 2 quick / 3 thorough; joint/conditional/interventional/population-tagged probabilities, "
            "Q factors, value marks, products, sums, fractions, One, Zero; raw constructors and public operators) as operands of every operator "
            "and helper; non-trivial: operand tree has more than 12 nodes; distinct by operand trees")
    explanation = ("each operator/helper is compared verbatim with its Gallina model; independently the result is evaluated exactly on random positive "
                   "joint tables against the mathematical operation applied to the operands (Python oracle)")
    modelled = ["dsl.py __mul__/__truediv__ of all classes, Product.safe, Sum.safe, Sum.simplify, Fraction.simplify/_simplify_parts, marginalize, "
                "conditional, normalize_marginalize; mutate/chain.py, contract.py, utils.py (Applier as used by recursive_contract), predicates.py"]
    assumptions = ["semantic identities are checked by the Python exact-arithmetic oracle and (where proved) by theorems in Properties/C13.v"]


PROP = C13()
