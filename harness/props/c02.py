"""C02 - ID verdicts are total, complete and side-effect free."""
from props.id_common import IdProp


class C02(IdProp):
    pid = "C02"
    budgets = {"quick": 900, "thorough": 9000}
    with_oracle = False
    rule = ("random ADMGs with 2..6 nodes (7 thorough) with forced isolated nodes, several districts, treatments that are not ancestors of outcomes x random "
            "disjoint X, Y; one query per shape of run of the recursion (harness/corpus/id_traces.json, fresh node names); thorough adds every labelled ADMG on <= 3 nodes with every query. Each call: outcome class (estimand / None / exception), "
            "identifiability by the independent Tian-Pearl criterion, deep snapshot of graph and query before/after. Non-trivial: reached line 4-7 or refused")
    explanation = ("verdict and exception class compared with the Gallina model; totality/hedge clauses in Properties/C02.v; mutation monitored on every call")
    assumptions = ["'refuses exactly when a hedge exists' is checked against the Tian-Pearl criterion (complete by Huang-Valtorta / Shpitser-Pearl), not proved",
                   "'leaves the caller's objects unchanged' is monitored [M], not proved: the functional model has no mutation"]


PROP = C02()
