"""Counterfactual event generators over letter-named graphs (node k = Variable(ALPHA[k]))."""
import gen_expr as GE


def L(k):
    from y0.dsl import Variable
    return Variable(GE.ALPHA[k])


def to_y0_letters(g, warm=None):
    import gen_graph as GG
    return GG.build_y0(g, L, warm, every=2)


def rand_event(rng, nodes, kmin=1, kmax=3, reuse_worlds=True):
    """JSON event: list of [var_tree, [name, star]]."""
    ev, worlds = [], []
    for _ in range(rng.randint(kmin, kmax)):
        y = rng.choice(nodes)
        if worlds and reuse_worlds and rng.random() < 0.4:
            subs = rng.choice(worlds)
        else:
            k = rng.choice([0, 1, 1, 2])
            subs = sorted([GE.ALPHA[s], rng.random() < 0.35] for s in rng.sample(nodes, min(k, len(nodes))))
            if subs:
                worlds.append(subs)
        var = {"k": "C", "n": GE.ALPHA[y], "s": None, "i": subs} if subs else {"k": "V", "n": GE.ALPHA[y], "s": None}
        if any(v == var for v, _ in ev):
            continue
        ev.append([var, [GE.ALPHA[y], rng.random() < 0.35]])
    return ev


def event_of(tree):
    from y0.dsl import Intervention
    return {GE.tree_var(v): Intervention(name=n, star=s) for v, (n, s) in tree}


def c_event(ev) -> str:
    """ev: dict Variable -> Intervention (insertion ordered)."""
    return "[" + "; ".join(f"({GE.c_var(k)}, ({GE.name_id(v.name)}, {'true' if v.star else 'false'}))" for k, v in ev.items()) + "]"


def c_cgraph(gr) -> str:
    ns = "[" + "; ".join(GE.c_var(v) for v in gr.nodes()) + "]"
    ds = "[" + "; ".join(f"({GE.c_var(a)}, {GE.c_var(b)})" for a, b in gr.directed.edges()) + "]"
    bs = "[" + "; ".join(f"({GE.c_var(a)}, {GE.c_var(b)})" for a, b in gr.undirected.edges()) + "]"
    return f"(MG {ns} {ds} {bs})"


def consistent_polarity(ev):
    """One value polarity per base variable across the event (the reading of the printed estimand is then defined)."""
    pol = {}
    for var, val in ev.items():
        if pol.setdefault(var.name, val.star) != val.star:
            return None
    return pol


def structured_event(rng, g):
    """Events of the shape {A_b = a, C_a = c, C = c'}: a redundantly subscripted observation whose value equals the value
    another world sets it to, and a descendant seen in both worlds - exercises relabelling followed by merging in make-cg."""
    nodes = g["nodes"]
    children = {v: [b for a, b in g["dir"] if a == v] for v in nodes}
    parents_with_children = [v for v in nodes if children[v]]
    if not parents_with_children:
        return None
    a = rng.choice(parents_with_children)
    c = rng.choice(children[a])
    anc_a = {a}
    todo = [a]
    while todo:
        x = todo.pop()
        for p_, q in g["dir"]:
            if q == x and p_ not in anc_a:
                anc_a.add(p_); todo.append(p_)
    others = [v for v in nodes if v not in anc_a and v != c]
    sa = rng.random() < 0.3
    ev = []
    if others and rng.random() < 0.8:
        b = rng.choice(others)
        ev.append([{"k": "C", "n": GE.ALPHA[a], "s": None, "i": [[GE.ALPHA[b], rng.random() < 0.3]]}, [GE.ALPHA[a], sa]])
    else:
        ev.append([{"k": "V", "n": GE.ALPHA[a], "s": None}, [GE.ALPHA[a], sa]])
    sc = rng.random() < 0.5
    ev.append([{"k": "C", "n": GE.ALPHA[c], "s": None, "i": [[GE.ALPHA[a], sa if rng.random() < 0.8 else not sa]]}, [GE.ALPHA[c], sc]])
    ev.append([{"k": "V", "n": GE.ALPHA[c], "s": None}, [GE.ALPHA[c], (not sc) if rng.random() < 0.7 else sc]])
    return ev


def two_parent_event(rng, g):
    """Events {Z_{d,e} = z, D = d [, E = e']}: a node intervened on two of its parents, one of which is also observed at the
    intervened value - the world-copies of Z may be merged only if ALL differing parents attain the same values."""
    nodes = g["nodes"]
    parents = {v: sorted({a for a, b in g["dir"] if b == v}) for v in nodes}
    cands = [v for v in nodes if len(parents[v]) >= 2]
    if not cands:
        return None
    z = rng.choice(cands)
    d, e = rng.sample(parents[z], 2)
    sd, se, sz = rng.random() < 0.3, rng.random() < 0.3, rng.random() < 0.5
    ev = [[{"k": "C", "n": GE.ALPHA[z], "s": None, "i": sorted([[GE.ALPHA[d], sd], [GE.ALPHA[e], se]])}, [GE.ALPHA[z], sz]],
          [{"k": "V", "n": GE.ALPHA[d], "s": None}, [GE.ALPHA[d], sd]]]
    r = rng.random()
    if r < 0.3:
        ev.append([{"k": "V", "n": GE.ALPHA[e], "s": None}, [GE.ALPHA[e], se if rng.random() < 0.5 else not se]])
    elif r < 0.5:
        ev.append([{"k": "V", "n": GE.ALPHA[z], "s": None}, [GE.ALPHA[z], sz if rng.random() < 0.5 else not sz]])
    return ev


def three_world_case(rng):
    """A graph X -> Y, X -> W (plus noise) with irrelevant nodes A, B, C, and an event over three worlds that all share do(X = x) and
    differ only in an irrelevant intervention: {W_{x,a} = w, Y_{x,b} = y, Y_{x,c} = y'}. The copies of Y merge with each other but
    not with the factual Y; y' <> y makes the event impossible."""
    x, y, w, a, b, c = range(6)
    di = [[x, y], [x, w]] + ([[w, y]] if rng.random() < 0.3 else [])
    bi = [[y, w]] if rng.random() < 0.3 else []
    k = rng.choice([2, 3, 3])
    irr = [a, b, c][:k]
    nodes = [x, y, w] + irr
    g = {"nodes": nodes, "dir": di, "bid": bi}
    sx = rng.random() < 0.3
    def cf(v, extra, val):
        return [{"k": "C", "n": GE.ALPHA[v], "s": None, "i": sorted([[GE.ALPHA[x], sx], [GE.ALPHA[extra], rng.random() < 0.3]])}, [GE.ALPHA[v], val]]
    sy = rng.random() < 0.5
    ev = [cf(w, irr[0], rng.random() < 0.5), cf(y, irr[1 % k], sy)]
    if k == 3 or rng.random() < 0.5:
        ev.append(cf(y, irr[2 % k], (not sy) if rng.random() < 0.6 else sy))
    keys = set()
    out = []
    for item in ev:
        key = repr(item[0])
        if key not in keys:
            keys.add(key); out.append(item)
    return g, out


def prefix_name_case(rng):
    """Z -> A <- Z10 (names one of which is a prefix of the other; 23 = "Z", 24 = "Z10"): the node intervened on both parents and
    observed, with the parents observed at the intervened values - copies must be merged, and contradictory values make the event impossible."""
    z, z10, a = 23, 24, 0
    extra = [1] if rng.random() < 0.4 else []
    di = [[z, a], [z10, a]] + ([[a, 1]] if extra else [])
    bi = [[z, z10]] if rng.random() < 0.2 else []
    g = {"nodes": [a, z, z10] + extra, "dir": di, "bid": bi}
    sz, sz10, sa = rng.random() < 0.3, rng.random() < 0.3, rng.random() < 0.5
    ev = [[{"k": "C", "n": GE.ALPHA[a], "s": None, "i": sorted([[GE.ALPHA[z], sz], [GE.ALPHA[z10], sz10]])}, [GE.ALPHA[a], sa]],
          [{"k": "V", "n": GE.ALPHA[a], "s": None}, [GE.ALPHA[a], (not sa) if rng.random() < 0.6 else sa]],
          [{"k": "V", "n": GE.ALPHA[z], "s": None}, [GE.ALPHA[z], sz]],
          [{"k": "V", "n": GE.ALPHA[z10], "s": None}, [GE.ALPHA[z10], sz10 if rng.random() < 0.8 else not sz10]]]
    return g, ev


def mediator_case(rng):
    """X -> Z -> Y (optionally X <-> Y): the outcome seen in two worlds of X with the mediator unobserved - Y_x and Y_x' are different
    variables and may not be merged."""
    x, z, y = 0, 1, 2
    g = {"nodes": [x, z, y], "dir": [[x, z], [z, y]] + ([[x, y]] if rng.random() < 0.2 else []), "bid": [[x, y]] if rng.random() < 0.4 else []}
    s1 = rng.random() < 0.5
    ev = [[{"k": "C", "n": GE.ALPHA[y], "s": None, "i": [[GE.ALPHA[x], False]]}, [GE.ALPHA[y], s1]],
          [{"k": "C", "n": GE.ALPHA[y], "s": None, "i": [[GE.ALPHA[x], True]]}, [GE.ALPHA[y], (not s1) if rng.random() < 0.5 else s1]]]
    if rng.random() < 0.3:
        ev.append([{"k": "V", "n": GE.ALPHA[x], "s": None}, [GE.ALPHA[x], rng.random() < 0.5]])
    return g, ev
