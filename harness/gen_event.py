"""Counterfactual event generators over letter-named graphs (node k = Variable(ALPHA[k]))."""
import gen_expr as GE


def L(k):
    from y0.dsl import Variable
    return Variable(GE.ALPHA[k])


def to_y0_letters(g):
    from y0.graph import NxMixedGraph
    return NxMixedGraph.from_edges(nodes=[L(i) for i in g["nodes"]], directed=[(L(a), L(b)) for a, b in g["dir"]],
                                   undirected=[(L(a), L(b)) for a, b in g["bid"]])


def rand_event(rng, nodes, kmin=1, kmax=3, reuse_worlds=True):
    """JSON event: list of [var_tree, [name, star]]."""
    ev, worlds = [], []
    for _ in range(rng.randint(kmin, kmax)):
        y = rng.choice(nodes)
        if worlds and reuse_worlds and rng.random() < 0.4:
            subs = rng.choice(worlds)
        else:
            k = rng.choice([0, 1, 1, 2])
            subs = sorted([GE.ALPHA[s], rng.random() < 0.35] for s in rng.sample(nodes, min(k, len(nodes))))
            if subs:
                worlds.append(subs)
        var = {"k": "C", "n": GE.ALPHA[y], "s": None, "i": subs} if subs else {"k": "V", "n": GE.ALPHA[y], "s": None}
        if any(v == var for v, _ in ev):
            continue
        ev.append([var, [GE.ALPHA[y], rng.random() < 0.35]])
    return ev


def event_of(tree):
    from y0.dsl import Intervention
    return {GE.tree_var(v): Intervention(name=n, star=s) for v, (n, s) in tree}


def c_event(ev) -> str:
    """ev: dict Variable -> Intervention (insertion ordered)."""
    return "[" + "; ".join(f"({GE.c_var(k)}, ({GE.name_id(v.name)}, {'true' if v.star else 'false'}))" for k, v in ev.items()) + "]"


def c_cgraph(gr) -> str:
    ns = "[" + "; ".join(GE.c_var(v) for v in gr.nodes()) + "]"
    ds = "[" + "; ".join(f"({GE.c_var(a)}, {GE.c_var(b)})" for a, b in gr.directed.edges()) + "]"
    bs = "[" + "; ".join(f"({GE.c_var(a)}, {GE.c_var(b)})" for a, b in gr.undirected.edges()) + "]"
    return f"(MG {ns} {ds} {bs})"


def consistent_polarity(ev):
    """One value polarity per base variable across the event (the reading of the printed estimand is then defined)."""
    pol = {}
    for var, val in ev.items():
        if pol.setdefault(var.name, val.star) != val.star:
            return None
    return pol
