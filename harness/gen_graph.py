"""Graph generators. Nodes are ints 0..n-1; y0 sees them as Variable("V<i>") (n <= 10 so that
name order = integer order). One PRNG drives everything."""
from __future__ import annotations

import itertools as itt
import random

PROBS = (0.15, 0.3, 0.5)


def rand_admg(rng: random.Random, nmin=2, nmax=6, cyclic=False) -> dict:
    n = rng.randint(nmin, nmax)
    order = list(range(n))
    rng.shuffle(order)
    pd, pb = rng.choice(PROBS), rng.choice(PROBS)
    di, bi = [], []
    for i in range(n):
        for j in range(i + 1, n):
            if rng.random() < pd:
                di.append([order[i], order[j]])
            if rng.random() < pb:
                e = [order[i], order[j]]
                if rng.random() < 0.5:
                    e.reverse()
                bi.append(e)
    feat = rng.random()
    if feat < 0.15 and n >= 2:  # bow
        a, b = rng.sample(range(n), 2)
        if order.index(a) > order.index(b):
            a, b = b, a
        if [a, b] not in di:
            di.append([a, b])
        if [a, b] not in bi and [b, a] not in bi:
            bi.append([a, b])
    elif feat < 0.3 and n >= 3:  # isolate a node
        v = rng.randrange(n)
        di = [e for e in di if v not in e]
        bi = [e for e in bi if v not in e]
    elif feat < 0.4 and n >= 3:  # a node touched only by bidirected edges
        v = rng.randrange(n)
        di = [e for e in di if v not in e]
        w = rng.choice([x for x in range(n) if x != v])
        if [v, w] not in bi and [w, v] not in bi:
            bi.append([v, w])
    elif feat < 0.5 and n >= 4:  # long chain below a collider
        a, b, m, d = rng.sample(range(n), 4)
        pos = {v: i for i, v in enumerate(order)}
        chain = sorted([m, d], key=pos.get)
        ab = [a, b]
        for p in ab:
            if pos[p] < pos[chain[0]] and [p, chain[0]] not in di:
                di.append([p, chain[0]])
        if [chain[0], chain[1]] not in di:
            di.append(chain)
    if cyclic and n >= 2:
        for _ in range(rng.randint(1, 2)):
            a, b = rng.sample(range(n), 2)
            if [a, b] not in di:
                di.append([a, b])
    nodes = list(range(n))
    rng.shuffle(nodes)
    rng.shuffle(di)
    rng.shuffle(bi)
    return {"nodes": nodes, "dir": di, "bid": bi}


def rand_admg_big(rng: random.Random, cyclic=False) -> dict:
    """A sparse graph on 8..10 nodes (the names V0..V9 allow ten): code that treats 'large' inputs differently has to be reached too."""
    n = rng.randint(8, 10)
    order = list(range(n))
    rng.shuffle(order)
    pd, pb = rng.choice((0.1, 0.15, 0.2)), rng.choice((0.05, 0.1, 0.15))
    di = [[order[i], order[j]] for i in range(n) for j in range(i + 1, n) if rng.random() < pd]
    bi = [[order[i], order[j]] if rng.random() < 0.5 else [order[j], order[i]] for i in range(n) for j in range(i + 1, n) if rng.random() < pb]
    if cyclic:
        a, b = rng.sample(range(n), 2)
        if [a, b] not in di:
            di.append([a, b])
    nodes = list(range(n))
    rng.shuffle(nodes); rng.shuffle(di); rng.shuffle(bi)
    return {"nodes": nodes, "dir": di, "bid": bi}


def all_admgs(n: int):
    """Every labelled ADMG on nodes 0..n-1 (acyclic directed part, any bidirected part)."""
    pairs = list(itt.combinations(range(n), 2))
    for dchoice in itt.product((0, 1, 2), repeat=len(pairs)):  # none, u->v, v->u
        di = []
        for (u, v), c in zip(pairs, dchoice):
            if c == 1:
                di.append([u, v])
            elif c == 2:
                di.append([v, u])
        if not _acyclic(n, di):
            continue
        for bchoice in itt.product((0, 1), repeat=len(pairs)):
            bi = [[u, v] for (u, v), c in zip(pairs, bchoice) if c]
            yield {"nodes": list(range(n)), "dir": di, "bid": bi}


def _acyclic(n, di) -> bool:
    indeg = [0] * n
    for _, v in di:
        indeg[v] += 1
    todo = [v for v in range(n) if indeg[v] == 0]
    seen = 0
    while todo:
        u = todo.pop()
        seen += 1
        for a, b in di:
            if a == u:
                indeg[b] -= 1
                if indeg[b] == 0:
                    todo.append(b)
    return seen == n


def is_acyclic(g) -> bool:
    n = max(g["nodes"]) + 1 if g["nodes"] else 0
    return _acyclic(n, [e for e in g["dir"]]) if set(g["nodes"]) == set(range(n)) else True


def rand_subset(rng, xs, pmin=0, pmax=None):
    xs = list(xs)
    pmax = len(xs) if pmax is None else min(pmax, len(xs))
    k = rng.randint(min(pmin, pmax), pmax)
    return rng.sample(xs, k)


# ---------------------------------------------------------------- bridge to y0 objects


def V(i: int):
    from y0.dsl import Variable

    return Variable(f"V{i}")


def vid(v) -> int:
    return int(v.name[1:])


# ---------------------------------------------------------------- the same problem under other names
# An answer may not depend on what the variables are called. The schemes keep the string order of V0..V9 (y0 sorts by name), so the renamed answer,
# with the names mapped back, has to be the same TEXT. They are shaped like names users have: a leading digit, digits inside, underscores.
def _mixed(i):      # a leading digit on some names only (digits sort before letters, so the order of V0..V9 is kept)
    return f"{i}M" if i < 3 else f"V{i}"


_B = r"(?<![A-Za-z0-9_])"
_E = r"(?![A-Za-z0-9_])"
SCHEMES = [(_mixed, _B + r"(\d)M" + _E, "<k>M for k < 3, V<k> otherwise"),
           (lambda i: f"PI{i}K", _B + r"PI(\d)K" + _E, "PI<k>K"),
           (lambda i: f"gene_{i}_x", _B + r"gene_(\d)_x" + _E, "gene_<k>_x"),
           (lambda i: f"{i}M", _B + r"(\d)M" + _E, "<k>M"),
           (lambda i: f"u_{i}", _B + r"u_(\d)" + _E, "u_<k> (the names y0 gives its own latent nodes)")]


class naming:
    """with naming(k): ... - inside, GG.V / GG.vid use the k-th scheme (every plug-in builds its variables through GG.V)."""

    def __init__(self, k, cf_nodes=False):
        self.fun, self.pat, self.label = SCHEMES[k % len(SCHEMES)]
        # graphs whose nodes are counterfactual variables of one world (as the parallel-worlds graphs the library builds itself)
        self.cf = cf_nodes and (k // len(SCHEMES)) % 3 == 0
        if self.cf:
            self.label += ", every node a counterfactual variable @ -W"

    def __enter__(self):
        import re
        import sys
        from y0.dsl import Variable
        mod = sys.modules[__name__]
        self.saved = (mod.V, mod.vid)
        fun, pat = self.fun, re.compile(self.pat)

        def vid_(v):
            m = pat.fullmatch(v.name)
            return int(m.group(1)) if m else int(v.name[1:])
        if self.cf:
            world = Variable("W")
            mod.V = lambda i: Variable(fun(i)) @ world
        else:
            mod.V = lambda i: Variable(fun(i))
        mod.vid = vid_
        return self

    def __exit__(self, *exc):
        import sys
        mod = sys.modules[__name__]
        mod.V, mod.vid = self.saved
        return False

    def back(self, text):
        import re
        return re.sub(self.pat, r"V\1", text)


def renamed_differs(case, mine, outcome, cf_nodes=False):
    """Run [outcome] (a function of nothing that builds its y0 objects through GG.V) under another naming scheme for one case in three and compare
    its text, names mapped back, with [mine]. Returns a description of the difference or None."""
    import zlib
    h = zlib.crc32(repr(case).encode())
    if h % 3:
        return None
    nm = naming(h // 3, cf_nodes=cf_nodes)
    try:
        with nm:
            other = outcome()
    except Exception as ex:  # noqa: BLE001
        other = "exception:" + type(ex).__name__
    other = nm.back(str(other))
    if other != str(mine):
        return f"with the variables called {nm.label} the answer is {other}, not {mine}"
    return None


def build_y0(g, V, warm=None, every=4, loose=False):
    """The y0 graph of a case. One graph in [every] (chosen by the case itself, so reproducibly) is built the way an analyst edits a graph:
    part of the nodes and edges, some queries (which a careless cache would remember; [warm] is the calling property's own entry point), then the rest
    through the public add_* methods.
    The underlying networkx graphs receive nodes and edges in the same order either way."""
    from y0.graph import NxMixedGraph
    import zlib

    nodes = [V(i) for i in g["nodes"]]
    directed = [(V(a), V(b)) for a, b in g["dir"]]
    undirected = [(V(a), V(b)) for a, b in g["bid"]]
    if zlib.crc32(repr((g["nodes"], g["dir"], g["bid"])).encode()) % every != 0 or not (directed or undirected):
        return NxMixedGraph.from_edges(nodes=nodes, directed=directed, undirected=undirected)
    kd, ku = len(directed) // 2, len(undirected) // 2
    if (zlib.crc32(repr((g["dir"], g["bid"], g["nodes"])).encode()) >> 8) % 2:
        # the later half of the edges first: generated edge lists tend to be in topological order, and an edit UPSTREAM of what was already
        # queried is what a stale cache gets wrong (the edge sets are the same; only networkx' insertion order differs)
        directed, undirected = directed[kd:] + directed[:kd], undirected[ku:] + undirected[:ku]
        kd, ku = len(directed) - kd, len(undirected) - ku
    # nodes at the end of the node list that the first batch of edges does not touch are added later too (same final node order)
    early = {x for e in directed[:kd] + undirected[:ku] for x in e}
    kn = len(nodes)
    while kn > 1 and nodes[kn - 1] not in early:
        kn -= 1
    gr = NxMixedGraph.from_edges(nodes=nodes[:kn], directed=directed[:kd], undirected=undirected[:ku])
    def separations():
        from y0.algorithm.conditional_independencies import are_d_separated
        present = nodes[:kn]
        for i, a in enumerate(present):
            for b in present[i + 1:]:
                are_d_separated(gr, a, b, conditions=[])
                are_d_separated(gr, a, b, conditions=[c for c in present if c not in (a, b)])
    queries = [lambda: gr.disorient(), lambda: gr.districts(), lambda: gr.topological_sort(), lambda: gr.moralize(),
               lambda: gr.is_connected(), lambda: gr.joint(), separations]
    for v in nodes[:kn]:
        queries += [lambda v=v: gr.ancestors_inclusive(v), lambda v=v: gr.descendants_inclusive(v), lambda v=v: gr.get_markov_blanket(v)]
    queries.append(lambda: gr.ancestors_inclusive(set(nodes[:kn])))
    if warm is not None:
        queries.append(lambda: warm(gr, set(nodes[:kn])))     # the property's own entry point, on the graph as it stands now
    for query in queries:
        try:
            query()
        except Exception:  # noqa: BLE001  -- a warm-up query may not apply to this graph (cycles, ...)
            pass
    if loose and (zlib.crc32(repr((g["bid"], g["nodes"], g["dir"])).encode()) >> 4) % 2:
        # [loose]: the caller compares node SETS only. The later nodes are then not announced with add_node: the edges bring them in
        # (directed edges first - a cache that is cleared by add_node / add_undirected_edge only would survive), isolated ones at the end
        for a, b in directed[kd:]:
            gr.add_directed_edge(a, b)
        for query in queries[:8]:
            try:
                query()
            except Exception:  # noqa: BLE001
                pass
        for a, b in undirected[ku:]:
            gr.add_undirected_edge(a, b)
        for v in nodes[kn:]:
            if v not in set(gr.nodes()):
                gr.add_node(v)
        return gr
    for v in nodes[kn:]:
        gr.add_node(v)
    for a, b in directed[kd:]:
        gr.add_directed_edge(a, b)
    for a, b in undirected[ku:]:
        gr.add_undirected_edge(a, b)
    return gr


def to_y0(g, warm=None, loose=False):
    return build_y0(g, V, warm, loose=loose)


def present(items, salt, collection=False):
    """The same collection handed over the way different callers would: the parameters typed Iterable accept lists, tuples, sets, dict views and
    ONE-SHOT iterators alike (a function that walks its argument twice sees nothing the second time). The form is chosen by the case itself."""
    import zlib
    items = list(items)
    k = zlib.crc32(repr((salt, [str(x) for x in items])).encode()) % 8
    if collection:          # a parameter typed Collection: sized, re-iterable containers only
        k = (0, 1, 2, 3, 6)[k % 5]
    if k == 0:
        return list(items)
    if k == 1:
        return tuple(items)
    if k == 2:
        return set(items)
    if k == 3:
        return frozenset(items)
    if k == 4:
        return iter(items)
    if k == 5:
        return (x for x in items)
    if k == 6:
        return dict.fromkeys(items).keys()
    return map(lambda x: x, items)


def from_y0(gr) -> dict:
    return {"nodes": [vid(v) for v in gr.nodes()],
            "dir": [[vid(a), vid(b)] for a, b in gr.directed.edges()],
            "bid": [[vid(a), vid(b)] for a, b in gr.undirected.edges()]}


def snapshot(gr):
    """Order-sensitive deep snapshot of an NxMixedGraph, to detect mutation of the receiver."""
    return (list(gr.directed.nodes()), list(gr.directed.edges()), list(gr.undirected.nodes()),
            list(gr.undirected.edges()))


def corpus_graphs(acyclic_only=True):
    """Textbook graphs shipped in y0.examples whose nodes can be renamed to V0..V9."""
    out = []
    try:
        from y0 import examples
        from y0.graph import NxMixedGraph

        for name in dir(examples):
            obj = getattr(examples, name)
            gr = getattr(obj, "graph", None) if not isinstance(obj, NxMixedGraph) else obj
            if isinstance(gr, NxMixedGraph) and 2 <= len(gr.nodes()) <= 8 and not gr.is_counterfactual():
                names = sorted(gr.nodes(), key=lambda v: v.name)
                idx = {v: i for i, v in enumerate(names)}
                out.append({"nodes": [idx[v] for v in gr.nodes()],
                            "dir": [[idx[a], idx[b]] for a, b in gr.directed.edges()],
                            "bid": [[idx[a], idx[b]] for a, b in gr.undirected.edges()],
                            "name": name})
    except Exception:
        pass
    seen, uniq = set(), []
    for g in out:
        k = (tuple(sorted(g["nodes"])), tuple(sorted(map(tuple, g["dir"]))), tuple(sorted(tuple(sorted(e)) for e in g["bid"])))
        if acyclic_only and not _acyclic(len(g["nodes"]), g["dir"]):
            continue
        if k not in seen:
            seen.add(k)
            uniq.append(g)
    return uniq


def trace_corpus(rng, tier, conditions, quick_n=150, nmax=7, keep=None):
    """Queries from harness/corpus/id_traces.json (one per shape of run of the ID / IDC recursion, built by tools/mktracecorpus.py), each under a fresh
    permutation of the node identifiers (so names, insertion order and ties in the topological order change from run to run)."""
    import json, os
    path = os.path.join(os.path.dirname(__file__), "corpus", "id_traces.json")
    try:
        entries = json.load(open(path))
    except OSError:
        return []
    entries = [e for e in entries if bool(e.get("Z")) == conditions and len(e["g"]["nodes"]) <= nmax and (conditions or e["X"])]
    if keep is not None:
        entries = [e for e in entries if keep(e["shape"])]
    if tier == "quick" and len(entries) > quick_n:
        entries = rng.sample(entries, quick_n)
    out = []
    for e in entries:
        ids = sorted(e["g"]["nodes"])
        perm = list(ids); rng.shuffle(perm)
        m = dict(zip(ids, perm))
        g = {"nodes": [m[v] for v in e["g"]["nodes"]], "dir": [[m[a], m[b]] for a, b in e["g"]["dir"]], "bid": [[m[a], m[b]] for a, b in e["g"]["bid"]]}
        rng.shuffle(g["nodes"]); rng.shuffle(g["dir"]); rng.shuffle(g["bid"])
        c = {"g": g, "X": [m[v] for v in e["X"]], "Y": [m[v] for v in e["Y"]]}
        if conditions:
            c["Z"] = [m[v] for v in e["Z"]]
        out.append(c)
    return out
