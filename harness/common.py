"""Shared plumbing of the verification harness (see DESIGN.md sections 2 and 3)."""
from __future__ import annotations

import json
import os
import re
import subprocess
import time
from pathlib import Path

VERIF = Path(__file__).resolve().parent.parent
COQ = VERIF / "coq"
RUN = COQ / "run"
EVID = VERIF / "evidence"
REPLAYS = VERIF / "replays"
REPO = Path(os.environ.get("Y0_REPO", "/repo"))
PY = "/venv/bin/python"
NPROC = int(os.environ.get("VERIF_JOBS", "16"))

# ---------------------------------------------------------------- has the modelled source changed since the model was reconciled with it?

FINGERPRINTS = VERIF / "tools" / "source_fingerprints.json"
DSL_PROPS = {"C10", "C11", "C12", "C13"}
GRAPH_PROPS = {"C04", "C14", "C15", "C16", "C20"}
NOT_DSL = ("graph.py", "algorithm/", "struct.py", "examples.py", "resources.py", "identify.py", "hierarchical.py")
NOT_GRAPH = ("algorithm/identify/", "algorithm/transport.py", "algorithm/counterfactual_transport/", "parser/", "mutate/",
             "algorithm/tian_id.py", "algorithm/ioscm/")


def _ast_fingerprint(path: Path) -> str:
    """Hash of the syntax tree without docstrings: comments, layout and documentation do not count as a change."""
    import ast
    import hashlib

    try:
        tree = ast.parse(path.read_text())
    except Exception:  # noqa: BLE001
        return "unparsable"
    for node in ast.walk(tree):
        body = getattr(node, "body", None)
        if isinstance(node, (ast.Module, ast.FunctionDef, ast.AsyncFunctionDef, ast.ClassDef)) and body and isinstance(body[0], ast.Expr) \
                and isinstance(getattr(body[0], "value", None), ast.Constant) and isinstance(body[0].value.value, str):
            node.body = body[1:] or [ast.Pass()]
    return hashlib.sha1(ast.dump(tree).encode()).hexdigest()


def source_fingerprints() -> dict:
    root = REPO / "src" / "y0"
    return {str(f.relative_to(root)): _ast_fingerprint(f) for f in sorted(root.rglob("*.py"))}


def changed_sources(pid: str) -> list:
    """Files of y0 whose code differs from the tree the model was last reconciled with (tools/source_fingerprints.json) and that the
    property [pid] can depend on. A change is NOT a violation: it only makes the quick check explore as much as the thorough one."""
    try:
        recorded = json.loads(FINGERPRINTS.read_text())
    except Exception:  # noqa: BLE001
        return []
    now = source_fingerprints()
    changed = sorted(f for f in set(recorded) | set(now) if recorded.get(f) != now.get(f))
    if pid in DSL_PROPS:
        changed = [f for f in changed if not f.startswith(NOT_DSL)]
    elif pid in GRAPH_PROPS:
        changed = [f for f in changed if not f.startswith(NOT_GRAPH)]
    return changed


# ---------------------------------------------------------------- Gallina serialisation


def c_nat(n: int) -> str:
    return str(int(n))


def c_list(xs, f=c_nat) -> str:
    return "[" + "; ".join(f(x) for x in xs) + "]"


def c_pair(p, f=c_nat, g=None) -> str:
    g = g or f
    return f"({f(p[0])}, {g(p[1])})"


def c_pairs(ps) -> str:
    return c_list(ps, c_pair)


def c_opt(x, f) -> str:
    return "None" if x is None else f"(Some {f(x)})"


def c_bool(b) -> str:
    return "true" if b else "false"


def c_graph(g) -> str:
    """g = {"nodes": [...], "dir": [[u,v],...], "bid": [[u,v],...]} over ints."""
    return f"(MG {c_list(g['nodes'])} {c_pairs(g['dir'])} {c_pairs(g['bid'])})"


def c_str(s: str) -> str:
    return '"' + s.replace('"', '""') + '"'


# ---------------------------------------------------------------- running Coq


def coq_env():
    env = dict(os.environ)
    env.pop("COQPATH", None)
    return env


def make_build(timeout=3600) -> tuple[bool, str]:
    """Full .vo build of the development (no-op when current). Serialised with a lock."""
    import fcntl

    lock = open(COQ / ".build.lock", "w")
    fcntl.flock(lock, fcntl.LOCK_EX)
    try:
        vs = sorted(str(p.relative_to(COQ)) for p in (COQ / "theories").rglob("*.v"))
        r = subprocess.run(["coq_makefile", "-f", "_CoqProject", "-o", "Makefile", *vs], cwd=COQ,
                           capture_output=True, text=True, env=coq_env())
        if r.returncode != 0:
            return False, r.stdout + r.stderr
        r = subprocess.run(["timeout", str(timeout), "make", f"-j{NPROC}"], cwd=COQ, capture_output=True,
                           text=True, env=coq_env())
        return r.returncode == 0, r.stdout[-4000:] + r.stderr[-4000:]
    finally:
        fcntl.flock(lock, fcntl.LOCK_UN)
        lock.close()


def coqc(path: Path, timeout=600) -> tuple[int, str]:
    r = subprocess.run(["timeout", str(timeout), "coqc", "-Q", str(COQ / "theories"), "Y0", str(path)],
                       cwd=COQ, capture_output=True, text=True, env=coq_env())
    return r.returncode, r.stdout + r.stderr


def check_properties_file(pid: str) -> dict:
    """Re-check coq/theories/Properties/<pid>.v and collect Print Assumptions output."""
    src = COQ / "theories" / "Properties" / f"{pid}.v"
    text = src.read_text()
    theorems = re.findall(r"^\s*(?:Theorem|Lemma|Corollary)\s+(\w+)", text, re.M)
    forbidden = re.findall(r"\b(Admitted|admit|Axiom|Parameter|Conjecture|Hypothesis|Variable)\b", text)
    t0 = time.time()
    rc, out = coqc(src)
    for ext in (".vok", ".vos"):
        pass
    blocks = re.split(r"\n(?=Closed under the global context|Axioms:)", "\n" + out)
    closed = out.count("Closed under the global context")
    axioms = re.findall(r"^Axioms:\n((?:.+\n?)+?)(?=\n\S|\Z)", out, re.M)
    axiom_names = sorted(set(re.findall(r"^(\w[\w.']*)\s*:", "\n".join(axioms), re.M)))
    prints = len(re.findall(r"^\s*Print Assumptions", text, re.M))
    ok = rc == 0 and not forbidden and prints >= len(theorems) and (closed + len(axioms)) >= len(theorems)
    return {"ok": ok, "rc": rc, "theorems": theorems, "closed": closed, "axiom_blocks": len(axioms),
            "axiom_names": axiom_names, "forbidden": forbidden, "wall_s": round(time.time() - t0, 2),
            "log": out[-3000:] if rc != 0 else ""}


def run_case_files(pid: str, imports: str, case_type: str, check_fn: str, terms: list[str],
                   per_file: int = 250, extra_defs: str = "") -> tuple[list[int], list[str]]:
    """Write cases_<pid>_<k>.v files, evaluate [mismatches] in each with vm_compute, return global
    indices of mismatching cases and error logs of files that failed to compile."""
    RUN.mkdir(exist_ok=True)
    for p in RUN.glob(f"cases_{pid}_*"):
        p.unlink()
    files = []
    for k in range(0, len(terms), per_file):
        chunk = terms[k:k + per_file]
        path = RUN / f"cases_{pid}_{k // per_file}.v"
        body = ";\n ".join(chunk)
        path.write_text(
            "From Coq Require Import List String Bool Arith ZArith.\n"
            f"From Y0 Require Import Base.ListSet Corr.Common {imports}.\nImport ListNotations.\n"
            "Open Scope nat_scope.\n" + extra_defs +
            f"Definition cases : list {case_type} := [\n {body}\n].\n"
            f"Definition bad := mismatches {check_fn} cases.\n"
            "Eval vm_compute in bad.\n")
        files.append((k, path))
    bad: list[int] = []
    errors: list[str] = []
    from concurrent.futures import ThreadPoolExecutor

    def one(item):
        k, path = item
        rc, out = coqc(path, timeout=900)
        return k, path, rc, out

    with ThreadPoolExecutor(max_workers=NPROC) as ex:
        for k, path, rc, out in ex.map(one, files):
            if rc != 0:
                errors.append(f"{path.name}: rc={rc}\n{out[-2000:]}")
                continue
            m = re.search(r"=\s*(\[[^\]]*\])\s*:\s*list nat", out, re.S)
            if not m:
                errors.append(f"{path.name}: unparsable output\n{out[-2000:]}")
                continue
            bad.extend(k + int(x) for x in re.findall(r"\d+", m.group(1)))
    return sorted(bad), errors


def eval_terms(imports: str, exprs: list[str], extra_defs: str = "") -> list[str]:
    """Evaluate Gallina expressions with vm_compute and return Coq's printed values (for replays)."""
    RUN.mkdir(exist_ok=True)
    path = RUN / f"eval_{os.getpid()}.v"
    sep = "(*SEP*)"
    path.write_text(
        "From Coq Require Import List String Bool Arith ZArith.\n"
        f"From Y0 Require Import Base.ListSet Corr.Common {imports}.\nImport ListNotations.\nOpen Scope nat_scope.\n"
        + extra_defs + "".join(f"Eval vm_compute in ({e}).\n" for e in exprs))
    rc, out = coqc(path)
    for ext in (".v", ".vo", ".glob", ".vok", ".vos"):
        q = path.with_suffix(ext)
        if q.exists():
            q.unlink()
    if rc != 0:
        return [f"<coq error> {out[-1500:]}"]
    return [re.sub(r"\s+", " ", x).strip() for x in re.findall(r"=\s*(.*?)\n\s*:\s", out, re.S)]


# ---------------------------------------------------------------- known findings


def load_findings() -> list[dict]:
    p = VERIF / "known_findings.json"
    if not p.exists():
        return []
    return json.loads(p.read_text())["findings"]


def validate_evidence(ev: dict) -> list[str]:
    """Minimal structural validation mirroring /root/.vp/EVIDENCE.schema.json (no jsonschema in /venv)."""
    errs = []
    for k in ("property_id", "tier", "seed", "level", "coverage", "wall_s"):
        if k not in ev:
            errs.append(f"missing {k}")
    cov = ev.get("coverage", {})
    if ev.get("level") == "proof":
        for k in ("obligations", "discharged", "checker_cmd", "trusted_base"):
            if k not in cov:
                errs.append(f"coverage missing {k}")
        if cov.get("obligations", 0) < 1 or cov.get("discharged", 0) < 1:
            errs.append("obligations/discharged must be >= 1")
    if not isinstance(cov.get("samples", []), list):
        errs.append("samples must be a list")
    return errs
