#!/usr/bin/env python3
"""Confirm a seeded change IN the sub-agent's worktree (it is never applied to /repo) and run a property's quick check against that worktree.
usage: seedtest4.py <name> <worktree> <check-ids...>"""
import json, os, shutil, subprocess, sys
name, wt, checks = sys.argv[1], sys.argv[2], sys.argv[3:]
dst = f"/verif/seeded/{name}"
os.makedirs(dst, exist_ok=True)
def sh(cmd, **kw):
    return subprocess.run(cmd, shell=True, capture_output=True, text=True, **kw)
# the patch is re-derived from the worktree, so that what is stored is what was tested
open(f"{wt}/seed/patch.diff", "w").write(sh(f"git -C {wt} diff -- src").stdout)
for f in ("patch.diff", "demo.py", "meta.json"):
    shutil.copy(f"{wt}/seed/{f}", f"{dst}/{f}")
env = "PYTHONDONTWRITEBYTECODE=1"
r0 = sh(f"cd /tmp && PYTHONPATH=/repo/src {env} /venv/bin/python {dst}/demo.py")
r1 = sh(f"cd /tmp && PYTHONPATH={wt}/src {env} /venv/bin/python {dst}/demo.py")
ap = sh(f"git -C /repo apply --check {dst}/patch.diff")
res = {"demo_on_original_exit": r0.returncode, "patch_applies": ap.returncode == 0, "demo_with_change_exit": r1.returncode,
       "demo_with_change_tail": (r1.stdout + r1.stderr)[-400:]}
prev = {}
try:
    prev = json.load(open(f"{dst}/meta.json")).get("confirmed", {})
except Exception:
    pass
if os.environ.get("SKIP_SUITE") and prev.get("suite_with_change"):
    res["suite_with_change"] = prev["suite_with_change"]          # the patch is unchanged: the suite result of the first confirmation stands
    if prev.get("checks"):
        res["checks_before_strengthening"] = prev.get("checks_before_strengthening") or prev["checks"]
else:
    su = sh(f"python3 /verif/tools/suite.py {wt}")
    res["suite_with_change"] = su.stdout.strip().splitlines()[0] if su.stdout.strip() else su.stderr[-200:]
res["checks"] = {}
for c in checks:
    rc = sh(f"cd /verif && Y0_REPO={wt} ./vcheck {c} quick")
    lines = [l for l in rc.stdout.splitlines() if l.startswith("VIOLATION") or "quick" in l]
    res["checks"][c] = {"exit": rc.returncode, "lines": lines[:4]}
sh("rm -rf /verif/replays/*/20260930-*")
meta = json.load(open(f"{dst}/meta.json"))
meta["confirmed"] = res
meta["what_was_run"] = f"tools/seedtest4.py {name} {wt} {' '.join(checks)} (checks run with Y0_REPO=<worktree>; /repo untouched)"
json.dump(meta, open(f"{dst}/meta.json", "w"), indent=1)
print(json.dumps(res, indent=1))
