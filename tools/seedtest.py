#!/usr/bin/env python3
"""Confirm a seeded change (from a sub-agent's worktree), store it under /verif/seeded/<name>/, and run checks against it.
usage: seedtest.py <name> <worktree> <check-ids...>"""
import json, os, shutil, subprocess, sys
name, wt, checks = sys.argv[1], sys.argv[2], sys.argv[3:]
dst = f"/verif/seeded/{name}"
os.makedirs(dst, exist_ok=True)
for f in ("patch.diff", "demo.py", "meta.json"):
    shutil.copy(f"{wt}/seed/{f}", f"{dst}/{f}")
def sh(cmd, **kw):
    return subprocess.run(cmd, shell=True, capture_output=True, text=True, **kw)
assert sh("git -C /repo status --porcelain").stdout.strip() == "", "/repo not clean"
env = "PYTHONPATH=/repo/src PYTHONDONTWRITEBYTECODE=1"
r0 = sh(f"cd /tmp && {env} /venv/bin/python {dst}/demo.py")
ap = sh(f"git -C /repo apply {dst}/patch.diff")
res = {"demo_on_original_exit": r0.returncode, "patch_applies": ap.returncode == 0}
try:
    if ap.returncode == 0:
        r1 = sh(f"cd /tmp && {env} /venv/bin/python {dst}/demo.py")
        res["demo_with_change_exit"] = r1.returncode
        res["demo_with_change_tail"] = (r1.stdout + r1.stderr)[-400:]
        su = sh("python3 /verif/tools/suite.py /repo")
        res["suite_with_change"] = su.stdout.strip().splitlines()[-1] if su.stdout.strip() else su.stderr[-200:]
        res["checks"] = {}
        for c in checks:
            rc = sh(f"cd /verif && ./vcheck {c} quick")
            lines = [l for l in rc.stdout.splitlines() if l.startswith("VIOLATION") or "quick:" in l]
            res["checks"][c] = {"exit": rc.returncode, "lines": lines[:4]}
finally:
    sh("git -C /repo checkout -- .")
    sh("rm -rf /verif/replays/*/20260930-*")
meta = json.load(open(f"{dst}/meta.json"))
meta["confirmed"] = res
meta["what_was_run"] = f"tools/seedtest.py {name} {wt} {' '.join(checks)}"
json.dump(meta, open(f"{dst}/meta.json", "w"), indent=1)
print(json.dumps(res, indent=1))
