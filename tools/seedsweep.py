#!/usr/bin/env python3
"""Run every stored seeded change against the COMMITTED checks without touching /repo or /verif:
a copy of /verif's HEAD and a scratch worktree of /repo's HEAD are made under /tmp/seedsweep, each seeded/<name>/patch.diff is applied
to the worktree, the property's own quick check runs there (Y0_REPO), and the change is undone. Both copies are removed at the end.
usage: seedsweep.py [name ...]   (default: all).  Prints one line per seed: DETECTED / MISSED / PATCH-FAILED."""
import json
import re
import shutil
import subprocess
import sys
from pathlib import Path

VERIF = Path(__file__).resolve().parent.parent
import os
ROOT = Path(os.environ.get("SEEDSWEEP_ROOT", "/tmp/seedsweep"))   # several sweeps over disjoint seed names may run side by side


def sh(cmd, **kw):
    return subprocess.run(cmd, shell=True, capture_output=True, text=True, **kw)


names = sys.argv[1:] or sorted(p.name for p in (VERIF / "seeded").iterdir() if (p / "patch.diff").exists())
shutil.rmtree(ROOT, ignore_errors=True)
(ROOT / "verif").mkdir(parents=True)
assert sh(f"git -C {VERIF} archive HEAD | tar -x -C {ROOT}/verif").returncode == 0
assert sh(f"git -C /repo worktree add --detach {ROOT}/repo HEAD").returncode == 0
env = f"Y0_REPO={ROOT}/repo"
out = {}
try:
    r = sh(f"cd {ROOT}/verif && {env} ./vcheck setup")
    assert r.returncode == 0, r.stdout[-2000:] + r.stderr[-2000:]
    for name in names:
        meta = json.loads((VERIF / "seeded" / name / "meta.json").read_text())
        pid = meta.get("property") or re.match(r"C\d\d", name).group(0)
        ap = sh(f"git -C {ROOT}/repo apply {VERIF}/seeded/{name}/patch.diff")
        if ap.returncode != 0:
            out[name] = "PATCH-FAILED"
        else:
            r = sh(f"cd {ROOT}/verif && {env} ./vcheck {pid} quick")
            hit = [ln for ln in r.stdout.splitlines() if ln.startswith("VIOLATION")]
            out[name] = ("DETECTED " + hit[0]) if (r.returncode == 1 and hit) else f"MISSED rc={r.returncode} {r.stdout.strip().splitlines()[-1:]}"
        sh(f"git -C {ROOT}/repo checkout -- . && git -C {ROOT}/repo clean -fdq")
        print(name, out[name], flush=True)
finally:
    sh(f"git -C /repo worktree remove --force {ROOT}/repo")
    shutil.rmtree(ROOT, ignore_errors=True)
    sh("git -C /repo worktree prune")
missed = [n for n, v in out.items() if not v.startswith("DETECTED")]
print(f"{len(out) - len(missed)}/{len(out)} detected; missed: {missed}")
sys.exit(1 if missed else 0)
