#!/usr/bin/env python3
"""Record the syntax-tree fingerprints of /repo/src/y0 the model is reconciled with (run after a fix: commit and a full quick pass).
A later run whose tree differs from these gives the quick checks the thorough budget; it never reports a violation by itself."""
import json
import subprocess
import sys
from pathlib import Path

sys.path.insert(0, str(Path(__file__).resolve().parent.parent / "harness"))
import common as C  # noqa: E402

if sys.executable != C.PY:  # the fingerprints are syntax trees as the interpreter of the checks sees them
    import os
    os.execv(C.PY, [C.PY] + sys.argv)

head = subprocess.run(["git", "-C", str(C.REPO), "rev-parse", "HEAD"], capture_output=True, text=True).stdout.strip()
dirty = subprocess.run(["git", "-C", str(C.REPO), "status", "--porcelain"], capture_output=True, text=True).stdout.strip()
if dirty:
    sys.exit("refusing: /repo has uncommitted changes")
fp = C.source_fingerprints()
C.FINGERPRINTS.write_text(json.dumps(fp, indent=0, sort_keys=True) + "\n")
print(f"{len(fp)} files fingerprinted at {head}")
