#!/usr/bin/env python3
"""Regenerate /verif/MANIFEST.json from tools/checks.json (kept by hand) and properties.jsonl."""
import json, pathlib
V = pathlib.Path(__file__).resolve().parent.parent
props = [json.loads(l)["id"] for l in (V / "properties.jsonl").read_text().splitlines() if l.strip()]
checks = json.loads((V / "tools" / "checks.json").read_text())
m = {
 "version": 1,
 "setup_cmd": "./vcheck setup",
 "hooks": {"guard": "Y0_VERIF", "enable": "no source hooks in /repo: the harness wraps y0 methods from outside the package; Y0_VERIF=1 is exported to the implementation workers for completeness",
           "baseline_off_cmd": "cd /repo && /venv/bin/python -m pytest -ra -q -p no:cacheprovider --timeout=900 --continue-on-collection-errors",
           "source_commits": [], "add_only": True},
 "engines": [{"name": "coq-model-and-correspondence", "path": "coq/", "serves_properties": sorted(checks["claimed"]),
              "kind_free_text": "Coq 8.16.1 theorems (coq/theories/Properties/Cxx.v) over a hand-written Gallina model of the anchored y0 functions; tied to /repo's working tree on every run by differential correspondence: generated inputs are run through y0, serialised to Gallina terms, and compared with the model inside Coq by vm_compute (harness/vcheck.py)"}],
 "checks": [], "notes": "DESIGN.md explains approach, trusted base and per-property levels. known_findings.json lists recorded/fixed defects.",
 "not_applicable": [],
}
for pid in props:
    if pid in checks["claimed"]:
        c = checks["claimed"][pid]
        m["checks"].append({
            "property_id": pid, "quick_cmd": f"./vcheck {pid} quick", "thorough_cmd": f"./vcheck {pid} thorough",
            "evidence_file": f"/verif/evidence/{pid}.json", "replay_cmd_template": "./vcheck replay {path}",
            "engine": "coq-model-and-correspondence",
            "level_claimed": {"category": "proof", "text": c["text"], "design_ref": c.get("design_ref", "DESIGN.md section 5")},
            "level_note": c["note"], "technique": c["technique"]})
    else:
        m["not_applicable"].append({"property_id": pid, "reason": checks["pending"].get(pid, "check not built yet (work in progress; DESIGN.md section 8)")})
(V / "MANIFEST.json").write_text(json.dumps(m, indent=1))
print("claimed", len(m["checks"]), "unclaimed", len(m["not_applicable"]))
