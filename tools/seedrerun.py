#!/usr/bin/env python3
"""Re-run quick checks against a stored seeded change: seedrerun.py <name> <check-ids...> (applies seeded/<name>/patch.diff to /repo, undoes it afterwards)."""
import json, subprocess, sys
name, checks = sys.argv[1], sys.argv[2:]
dst = f"/verif/seeded/{name}"
def sh(cmd):
    return subprocess.run(cmd, shell=True, capture_output=True, text=True)
assert sh("git -C /repo status --porcelain").stdout.strip() == "", "/repo not clean"
ap = sh(f"git -C /repo apply {dst}/patch.diff")
assert ap.returncode == 0, ap.stderr
res = {}
try:
    for c in checks:
        rc = sh(f"cd /verif && ./vcheck {c} quick")
        lines = [l for l in rc.stdout.splitlines() if l.startswith("VIOLATION") or "quick:" in l]
        first = [l.strip() for l in rc.stdout.splitlines() if l.startswith("  ")][:1]
        res[c] = {"exit": rc.returncode, "lines": lines[:3], "first": first}
finally:
    sh("git -C /repo checkout -- .")
    sh("rm -rf /verif/replays/*/2026*")
meta = json.load(open(f"{dst}/meta.json"))
meta["rerun_after_strengthening"] = res
json.dump(meta, open(f"{dst}/meta.json", "w"), indent=1)
print(name, json.dumps(res, indent=1)[:1500])
