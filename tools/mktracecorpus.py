#!/venv/bin/python
"""Build harness/corpus/id_traces.json: for every distinct *shape of run* of y0's ID / IDC recursion that a long random search reaches,
the smallest query found that produces it.

Random graphs rarely take line 7 twice on one branch, or reach line 6 with a derived distribution and a district whose members are not
consecutive in the topological order; a change confined to such a path is then invisible to a budgeted random run.  The corpus makes every
run of C01/C02/C03/C06 (and C05, which shares the recursion) start from one query per shape, under fresh node names each time.

The shape is read off the implementation while it runs (a trace function on id_std.identify / id_c.idc): the tree of ID lines taken, and
at line 6 the size of the district, whether the carried distribution is still the joint, whether the district is consecutive in the order,
and whether anything is summed out.  It only GUIDES which inputs are kept: what is checked on them is the same as on every other case.

usage (on the reconciled tree):  PYTHONPATH=/repo/src:/verif/harness /venv/bin/python tools/mktracecorpus.py [seconds] [procs]
"""
import json, multiprocessing as mp, os, random, sys, time

sys.path.insert(0, os.path.join(os.path.dirname(__file__), "..", "harness"))
import gen_graph as GG  # noqa: E402

OUT = os.path.join(os.path.dirname(__file__), "..", "harness", "corpus", "id_traces.json")


def shape_of(g, X, Y, Z):
    """Run identify_outcomes and return the shape of the run (a string), or None if the call is not a valid query."""
    from y0.algorithm.identify import identify_outcomes, id_std, id_c
    from y0.algorithm.identify.utils import Unidentifiable
    gr = GG.to_y0(g)
    src_lines = open(id_std.__file__).read().splitlines()
    code = id_std.identify.__code__
    labels = {}
    cur = None
    for i in range(code.co_firstlineno, code.co_firstlineno + 80):
        if i - 1 >= len(src_lines):
            break
        s = src_lines[i - 1].strip()
        if s.startswith("# line "):
            cur = s.split()[2]
        if s.startswith("def _get_single_district"):
            break
        labels[i] = cur
    stack, roots, nidc = [], [], [0]

    def tracer(frame, event, arg):
        if frame.f_code is id_c.idc.__code__ and event == "call":
            nidc[0] += 1
            return None
        if frame.f_code is not code:
            return tracer if event == "call" else None
        if event == "call":
            node = {"line": None, "kids": [], "extra": ""}
            (stack[-1]["kids"] if stack else roots).append(node)
            stack.append(node)
            return tracer
        if event == "line":
            lab = labels.get(frame.f_lineno)
            if lab:
                stack[-1]["line"] = lab
            return tracer
        if event == "return":
            node = stack.pop()
            loc = frame.f_locals
            if node["line"] == "6" and "parents" in loc:
                d = loc["district_without_treatment"]
                order = loc["parents"]
                idx = sorted(order.index(v) for v in d)
                contiguous = idx == list(range(idx[0], idx[0] + len(idx)))
                derived = not id_std._is_marginal_of_joint(loc["identification"].estimand)
                anc = {v: loc["graph"].ancestors_inclusive(v) for v in d}
                chain = all(a in anc[b] or b in anc[a] for a in d for b in d)
                node["extra"] = f"[{min(len(d), 3)}{'d' if derived else 'j'}{'c' if contiguous else 'g'}{'' if chain else 'u'}{'s' if loc.get('ranges') else ''}]"
            elif node["line"] == "7" and "district_without_treatment" in loc:
                gph, dwt = loc["graph"], loc["district_without_treatment"]
                big = next(d for d in gph.districts() if dwt <= d)
                derived = not id_std._is_marginal_of_joint(loc["identification"].estimand)
                anc = {v: gph.ancestors_inclusive(v) for v in big}
                chain = all(a in anc[b] or b in anc[a] for a in big for b in big)
                node["extra"] = f"[{min(len(big), 4)}{'d' if derived else 'j'}{'c' if chain else 'u'}]"
            elif node["line"] == "6":
                node["line"] = "5"       # raised at line 5
            elif node["line"] == "4":
                node["extra"] = f"[{min(len(node['kids']), 3)}]"
            return tracer
        return tracer

    def render(node, depth=0):
        kids = sorted(render(k, depth + 1) for k in node["kids"]) if depth < 7 else []
        out = []
        for k in kids:       # collapse repeated children to at most two
            if out.count(k) < 2:
                out.append(k)
        return f"{node['line']}{node['extra']}" + (("(" + ",".join(out) + ")") if out else "")

    V = GG.V
    sys.settrace(tracer)
    try:
        est = identify_outcomes(gr, {V(x) for x in X}, {V(y) for y in Y}, conditions={V(z) for z in Z} or None)
        kind = type(est).__name__ if est is not None else "None"
    except Unidentifiable:
        kind = "Unidentifiable"
    except Exception as e:     # not a shape worth keeping: invalid query for this entry point
        sys.settrace(None)
        return None
    finally:
        sys.settrace(None)
    cover = set(X) | set(Y) | set(Z) == set(g["nodes"])
    return f"idc{nidc[0]}|" + ";".join(render(r) for r in roots) + f"|{kind}|{'all' if cover else 'part'}"


def size(c):
    g = c["g"]
    return (len(g["nodes"]), len(g["bid"]), len(g["dir"]), len(c["X"]) + len(c["Y"]) + len(c.get("Z", [])))


def worker(args):
    seed, seconds = args
    rng = random.Random(seed)
    best = {}
    t0 = time.time()
    while time.time() - t0 < seconds:
        g = GG.rand_admg(rng, 3, 8)
        ns = list(g["nodes"])
        for _ in range(6):
            rng.shuffle(ns)
            kx = rng.randint(0, min(4, len(ns) - 1))
            ky = rng.randint(1, min(3, len(ns) - kx))
            kz = rng.randint(0, min(3, len(ns) - kx - ky)) if rng.random() < 0.4 else 0
            c = {"g": g, "X": sorted(ns[:kx]), "Y": sorted(ns[kx:kx + ky])}
            if kz:
                c["Z"] = sorted(ns[kx + ky:kx + ky + kz])
            s = shape_of(g, c["X"], c["Y"], c.get("Z", []))
            if s is None:
                continue
            if s not in best or size(c) < size(best[s]):
                best[s] = c
    return best


def main():
    seconds = int(sys.argv[1]) if len(sys.argv) > 1 else 300
    procs = int(sys.argv[2]) if len(sys.argv) > 2 else 12
    with mp.Pool(procs) as pool:
        parts = pool.map(worker, [(1000 + i, seconds) for i in range(procs)])
    best = {}
    for p in parts:
        for s, c in p.items():
            if s not in best or size(c) < size(best[s]):
                best[s] = c
    os.makedirs(os.path.dirname(OUT), exist_ok=True)
    entries = [{"shape": s, **c} for s, c in sorted(best.items(), key=lambda kv: (size(kv[1]), kv[0]))]
    json.dump(entries, open(OUT, "w"), indent=0)
    by_n = {}
    for e in entries:
        by_n[len(e["g"]["nodes"])] = by_n.get(len(e["g"]["nodes"]), 0) + 1
    print(f"{len(entries)} shapes; by graph size {sorted(by_n.items())}; with conditions {sum(1 for e in entries if e.get('Z'))}")


if __name__ == "__main__":
    main()
