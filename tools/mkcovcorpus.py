#!/venv/bin/python
"""Build harness/corpus/<pid>.json: a small set of generated cases that together reach every (control-flow edge, hit-count bucket) of y0's code that a
long run of the property's own generator reaches (AFL-style greedy selection, smallest cases first).

Why: a budgeted random run reaches rare paths (a third counterfactual world, line 7 of ID taken twice on one branch, a district that is not
consecutive in the topological order) only now and then, so a change confined to such a path can pass a quick check.  The corpus is run FIRST by every
check of the property (vcheck.py worker, shard 0), so each run starts from one input per path that the generator has ever been seen to reach.
Coverage only selects inputs; what is decided on them is the same as on every other case (model correspondence + property oracle).

usage (on the reconciled tree):  ./tools/mkcovcorpus.py <pid> [seconds-per-process] [processes] [max-cases]
"""
import json, multiprocessing as mp, os, random, sys, time

ROOT = os.path.abspath(os.path.join(os.path.dirname(__file__), ".."))
sys.path.insert(0, os.path.join(ROOT, "harness"))
REPO_SRC = os.environ.get("Y0_REPO", "/repo") + "/src"
sys.path.insert(0, REPO_SRC)
SCOPE = os.path.join(REPO_SRC, "y0") + os.sep


def features_of(prop, case):
    counts = {}

    def local(frame, event, arg):
        if event == "line":
            fid = id(frame)
            prev = last.get(fid, 0)
            key = (frame.f_code.co_filename, frame.f_code.co_firstlineno, prev, frame.f_lineno)
            counts[key] = counts.get(key, 0) + 1
            last[fid] = frame.f_lineno
        elif event == "return":
            last.pop(id(frame), None)
        return local

    last = {}

    def tracer(frame, event, arg):
        if event == "call" and frame.f_code.co_filename.startswith(SCOPE):
            return local
        return None

    sys.settrace(tracer)
    try:
        res = prop.run(case)
        prop.coq(case, res)
    except Exception:  # noqa: BLE001 -- a case the harness cannot handle is not kept
        return None
    finally:
        sys.settrace(None)
    short = len(SCOPE)
    return frozenset((k[0][short:], k[1], k[2], k[3], (c if c < 4 else (4 if c < 8 else 8))) for k, c in counts.items())


def load(pid):
    import importlib
    return importlib.import_module(f"props.{pid.lower()}").PROP


def worker(args):
    pid, seed, seconds = args
    import logging, warnings
    warnings.simplefilter("ignore"); logging.disable(logging.CRITICAL)
    prop = load(pid)
    rng = random.Random(f"cov/{seed}")
    kept, seen = [], set()
    t0 = time.time()
    while time.time() - t0 < seconds:
        cases = prop.gen(rng, "thorough", 300, 1 + seed, 64)[:400]
        cases.sort(key=lambda c: len(json.dumps(c)))
        for c in cases:
            if time.time() - t0 >= seconds:
                break
            f = features_of(prop, c)
            if f is None:
                continue
            new = f - seen
            if new:
                seen |= f
                kept.append((c, f))
    return kept


def main():
    pid = sys.argv[1]
    seconds = int(sys.argv[2]) if len(sys.argv) > 2 else 120
    procs = int(sys.argv[3]) if len(sys.argv) > 3 else 6
    cap = int(sys.argv[4]) if len(sys.argv) > 4 else 250
    with mp.Pool(procs) as pool:
        parts = pool.map(worker, [(pid, i, seconds) for i in range(procs)])
    cand = [x for p in parts for x in p]
    cand.sort(key=lambda cf: len(json.dumps(cf[0])))
    total = set()
    for _, f in cand:
        total |= f
    # greedy set cover, smallest cases first among equal gains
    chosen, covered = [], set()
    remaining = list(cand)
    while remaining and len(chosen) < cap:
        best_i, best_gain = None, 0
        for i, (c, f) in enumerate(remaining):
            g = len(f - covered)
            if g > best_gain:
                best_i, best_gain = i, g
        if best_i is None:
            break
        c, f = remaining.pop(best_i)
        chosen.append(c); covered |= f
    out = os.path.join(ROOT, "harness", "corpus", f"{pid}.json")
    os.makedirs(os.path.dirname(out), exist_ok=True)
    with open(out, "w") as fh:
        fh.write("[\n" + ",\n".join(json.dumps(c) for c in chosen) + "\n]\n")
    print(f"{pid}: {len(cand)} candidates, {len(chosen)} kept, covering {len(covered)}/{len(total)} (edge, hit-count) features")


if __name__ == "__main__":
    main()
