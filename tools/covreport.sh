#!/bin/sh
# development aid: line coverage of /repo/src/y0 reached by the quick checks (per property or all). usage: tools/covreport.sh [C01 C02 ...]
cd "$(dirname "$0")/.." || exit 2
D=/tmp/verif_cov; rm -rf $D; mkdir -p $D
for p in ${@:-C01 C02 C03 C04 C05 C06 C07 C08 C09 C10 C11 C12 C13 C14 C15 C16 C17 C18 C19 C20}; do VERIF_COVERAGE=$D ./vcheck $p ${TIER:-quick} | tail -1; done
cd $D && /venv/bin/python -m coverage combine -q . >/dev/null 2>&1; /venv/bin/python -m coverage report --data-file=$D/.coverage -m 2>/dev/null | grep -v "100%" 
