#!/usr/bin/env python3
"""Run y0's pinned test suite in a tree (default /repo) and compare with /root/.vp/BASELINE.json stable_pass."""
import json, os, subprocess, sys, tempfile, xml.etree.ElementTree as ET
tree = sys.argv[1] if len(sys.argv) > 1 else "/repo"
base = json.load(open("/root/.vp/BASELINE.json"))
fd, junit = tempfile.mkstemp(suffix=".xml"); os.close(fd)
env = dict(os.environ, PYTHONPATH=f"{tree}/src", PYTHONDONTWRITEBYTECODE="1")
subprocess.run(["/venv/bin/python", "-m", "pytest", "-q", "-p", "no:cacheprovider", "--timeout=900",
                "--continue-on-collection-errors", f"--junitxml={junit}"], cwd=tree, env=env,
               stdout=subprocess.DEVNULL, stderr=subprocess.DEVNULL)
passed = set()
for tc in ET.parse(junit).getroot().iter("testcase"):
    if not any(ch.tag in ("failure", "error", "skipped") for ch in tc):
        passed.add(f"{tc.get('classname')}::{tc.get('name')}")
os.unlink(junit)
want = set(base["stable_pass"])
missing = sorted(want - passed)
print(f"passed={len(passed)} stable_pass={len(want)} missing={len(missing)}")
for m in missing: print("  NOT PASSING:", m)
sys.exit(1 if missing else 0)
