(* Tokens of the y0 text syntax, shared by the printer (Dsl/Print.v: expressions are printed as spaced tokens and rendered)
   and the parser model (Dsl/Parse.v: the tokenizer reads them back). *)
From Coq Require Import List Bool Arith String Ascii.
Import ListNotations.
Open Scope string_scope.

Inductive token := TName (s : string) | TSym (c : ascii).

(* a token with a flag: is it preceded by one space *)
Definition stok := (bool * token)%type.

Definition tok_str (t : token) : string := match t with TName s => s | TSym c => String c "" end.

Fixpoint render (l : list stok) : string :=
  match l with
  | [] => ""
  | (sp, t) :: r => (if sp : bool then " " else "") ++ tok_str t ++ render r
  end.

(* put a space before a phrase *)
Definition spaced (l : list stok) : list stok := match l with (_, t) :: r => (true, t) :: r | [] => [] end.

(* items separated by [sep]; [after]: a space follows the separator *)
Fixpoint jointk (sep : stok) (after : bool) (items : list (list stok)) : list stok :=
  match items with
  | [] => []
  | [x] => x
  | x :: t => (x ++ [sep] ++ (if after then spaced (jointk sep after t) else jointk sep after t))%list
  end.

Definition sym (c : ascii) : stok := (false, TSym c).
Definition ssym (c : ascii) : stok := (true, TSym c).
Definition nm (s : string) : stok := (false, TName s).

Lemma sapp_assoc (a b c : string) : (a ++ b) ++ c = a ++ (b ++ c).
Proof. induction a as [|ch a IH]; cbn; [reflexivity|]. rewrite IH. reflexivity. Qed.

Lemma render_app (l1 l2 : list stok) : render (l1 ++ l2)%list = render l1 ++ render l2.
Proof.
  induction l1 as [|[sp t] r IH]; cbn [render app]; [reflexivity|]. rewrite IH, !sapp_assoc. reflexivity.
Qed.
