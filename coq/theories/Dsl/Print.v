(* to_y0 printers of dsl.py (with the repaired bracketing of product denominators). An expression is printed as a list of
   spaced tokens ([toks_gen]) and rendered to text; the text is what every run compares verbatim with y0's str(). *)
From Coq Require Import List Bool Arith String Ascii.
From Y0 Require Import Base.ListSet Dsl.Syntax Dsl.Text Dsl.Tok.
Import ListNotations.
Open Scope string_scope.

Definition sign_toks (s : option bool) : list stok :=
  match s with None => [] | Some true => [sym "+"] | Some false => [sym "-"] end.
Definition name_tok (n : nat) : stok := nm (name_str n).

Definition iv_toks (i : nat * bool) : list stok := (sign_toks (Some (snd i)) ++ [name_tok (fst i)])%list.

Definition var_toks (v : var) : list stok :=
  match vk v, vi v with
  | KCf, [i] => (sign_toks (vs v) ++ [name_tok (vn v); ssym "@"] ++ spaced (iv_toks i))%list
  | KCf, ivs => (sign_toks (vs v) ++ [name_tok (vn v); ssym "@"; ssym "("] ++ jointk (sym ",") true (map iv_toks ivs) ++ [sym ")"])%list
  | _, _ => (sign_toks (vs v) ++ [name_tok (vn v)])%list
  end.

Definition vars_toks (l : list var) : list stok := jointk (sym ",") true (map var_toks l).

Definition dist_toks (ch pa : list var) : list stok :=
  match pa with
  | [] => vars_toks ch
  | _ => (vars_toks ch ++ [ssym "|"] ++ spaced (vars_toks pa))%list
  end.

Definition iv_y0 (i : nat * bool) : string := render (iv_toks i).
Definition var_y0 (v : var) : string := render (var_toks v).
Definition dist_y0 (ch pa : list var) : string := render (dist_toks ch pa).

Definition strip (v : var) : var := mkVar KVar (vn v) (vs v) [].

(* _help_level_2_distribution: the single shared, non-empty intervention set, if any *)
Definition level2 (ch pa : list var) : option (list (nat * bool)) :=
  match dedup (map (fun v => match vk v with KCf => vi v | _ => [] end) (ch ++ pa)) with
  | [ivs] => match ivs with [] => None | _ => Some ivs end
  | _ => None
  end.

Definition l2_toks (ivs : list (nat * bool)) : list stok :=
  jointk (sym ",") false (map (fun i : nat * bool => if snd i then [sym "+"; name_tok (fst i)] else [name_tok (fst i)]) ivs).

Section Printer.
Variable old : bool.   (* true = pinned tree before the repair: product denominators are not bracketed *)

Definition wrap_den (d : expr) (l : list stok) : list stok :=
  if old then l else match d with EProd _ => ([sym "("] ++ l ++ [sym ")"])%list | _ => l end.

Fixpoint toks_gen (e : expr) : list stok :=
  match e with
  | EProb pop ch pa =>
      let head := match pop with None => [nm "P"] | Some p => ([nm "PP"; sym "["] ++ var_toks p ++ [sym "]"])%list end in
      match level2 ch pa with
      | Some ivs => (head ++ [sym "["] ++ l2_toks ivs ++ [sym "]"; sym "("] ++ dist_toks (map strip ch) (map strip pa) ++ [sym ")"])%list
      | None => (head ++ [sym "("] ++ dist_toks ch pa ++ [sym ")"])%list
      end
  | EProd es => jointk (ssym "*") true (map toks_gen es)
  | ESum e' rs =>
      let s := match e' with
               | EFrac n d => ([sym "("] ++ toks_gen n ++ [ssym "/"] ++ spaced (wrap_den d (toks_gen d)) ++ [sym ")"])%list
               | _ => toks_gen e'
               end in
      ([nm "Sum"; sym "["] ++ vars_toks (by_name_v rs) ++ [sym "]"; sym "("] ++ s ++ [sym ")"])%list
  | EFrac n d => ([sym "("; sym "("] ++ toks_gen n ++ [ssym "/"] ++ spaced (wrap_den d (toks_gen d)) ++ [sym ")"; sym ")"])%list
  | EOne => [nm "One"; sym "("; sym ")"]
  | EZero => [nm "Zero"; sym "("; sym ")"]
  | EQ dom cod => ([nm "Q"; sym "["] ++ vars_toks (by_name_v cod) ++ [sym "]"; sym "("] ++ vars_toks (by_name_v dom) ++ [sym ")"])%list
  | EErr _ => [sym "<"; nm "error"; sym ">"]
  end.

Definition to_y0_gen (e : expr) : string := render (toks_gen e).
End Printer.

Definition toks := toks_gen false.
Definition to_y0 := to_y0_gen false.
Definition to_y0_old := to_y0_gen true.
