(* to_y0 printers of dsl.py (with the repaired bracketing of product denominators). *)
From Coq Require Import List Bool Arith String Ascii.
From Y0 Require Import Base.ListSet Dsl.Syntax Dsl.Text.
Import ListNotations.
Open Scope string_scope.

Definition iv_y0 (i : nat * bool) : string := sign_str (Some (snd i)) ++ name_str (fst i).

Definition var_y0 (v : var) : string :=
  match vk v, vi v with
  | KCf, [i] => sign_str (vs v) ++ name_str (vn v) ++ " @ " ++ iv_y0 i
  | KCf, ivs => sign_str (vs v) ++ name_str (vn v) ++ " @ (" ++ join ", " (map iv_y0 ivs) ++ ")"
  | _, _ => sign_str (vs v) ++ name_str (vn v)
  end.

Definition dist_y0 (ch pa : list var) : string :=
  match pa with
  | [] => join ", " (map var_y0 ch)
  | _ => join ", " (map var_y0 ch) ++ " | " ++ join ", " (map var_y0 pa)
  end.

Definition strip (v : var) : var := mkVar KVar (vn v) (vs v) [].

(* _help_level_2_distribution: the single shared, non-empty intervention set, if any *)
Definition level2 (ch pa : list var) : option (list (nat * bool)) :=
  match dedup (map (fun v => match vk v with KCf => vi v | _ => [] end) (ch ++ pa)) with
  | [ivs] => match ivs with [] => None | _ => Some ivs end
  | _ => None
  end.

Definition l2_str (ivs : list (nat * bool)) : string :=
  join "," (map (fun i : nat * bool => if snd i then "+" ++ name_str (fst i) else name_str (fst i)) ivs).


Section Printer.
Variable old : bool.   (* true = pinned tree before the repair: product denominators are not bracketed *)

Definition wrap_den (d : expr) (s : string) : string :=
  if old then s else match d with EProd _ => "(" ++ s ++ ")" | _ => s end.

Fixpoint to_y0_gen (e : expr) : string :=
  match e with
  | EProb pop ch pa =>
      let head := match pop with None => "P" | Some p => "PP[" ++ var_y0 p ++ "]" end in
      match level2 ch pa with
      | Some ivs => head ++ "[" ++ l2_str ivs ++ "](" ++ dist_y0 (map strip ch) (map strip pa) ++ ")"
      | None => head ++ "(" ++ dist_y0 ch pa ++ ")"
      end
  | EProd es => join " * " (map to_y0_gen es)
  | ESum e' rs =>
      let s := match e' with
               | EFrac n d => "(" ++ to_y0_gen n ++ " / " ++ wrap_den d (to_y0_gen d) ++ ")"
               | _ => to_y0_gen e'
               end in
      "Sum[" ++ join ", " (map var_y0 (by_name_v rs)) ++ "](" ++ s ++ ")"
  | EFrac n d => "((" ++ to_y0_gen n ++ " / " ++ wrap_den d (to_y0_gen d) ++ "))"
  | EOne => "One()"
  | EZero => "Zero()"
  | EQ dom cod => "Q[" ++ join ", " (map var_y0 (by_name_v cod)) ++ "](" ++ join ", " (map var_y0 (by_name_v dom)) ++ ")"
  | EErr _ => "<error>"
  end.
End Printer.

Definition to_y0 := to_y0_gen false.
Definition to_y0_old := to_y0_gen true.
