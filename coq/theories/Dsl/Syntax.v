(* Abstract syntax of y0's probability-expression DSL (dsl.py). Names are natural numbers; the
   harness maps the single-letter variable names A..Z (without P, Q) to 0.. in alphabetical order, so
   that string comparison of names is comparison of numbers. *)
From Coq Require Import List Bool Arith ZArith.
From Y0 Require Import Base.ListSet.
Import ListNotations.

Inductive vkind := KVar | KIv | KCf.

Definition vkind_eqb (a b : vkind) : bool :=
  match a, b with KVar, KVar | KIv, KIv | KCf, KCf => true | _, _ => false end.
Lemma vkind_eqb_eq a b : vkind_eqb a b = true <-> a = b.
Proof. destruct a, b; simpl; split; congruence. Qed.
#[export] Instance EqB_vkind : EqB vkind := {| eqb := vkind_eqb; eqb_eq := vkind_eqb_eq |}.

(* Variable / Intervention / CounterfactualVariable. [vi] is the frozenset of interventions kept as
   the list sorted by (name, star) without duplicates; empty unless vk = KCf. *)
Record var := mkVar { vk : vkind; vn : nat; vs : option bool; vi : list (nat * bool) }.

Definition var_eqb (a b : var) : bool :=
  eqb (vk a) (vk b) && Nat.eqb (vn a) (vn b) && eqb (vs a) (vs b) && eqb (vi a) (vi b).
Lemma var_eqb_eq a b : var_eqb a b = true <-> a = b.
Proof.
  destruct a as [k n s i], b as [k' n' s' i']. unfold var_eqb. cbn [vk vn vs vi].
  rewrite !andb_true_iff, Nat.eqb_eq. split.
  - intros [[[E1 E2] E3] E4]. apply eqb_true in E1, E3, E4. subst. reflexivity.
  - intros E. inversion E; subst. repeat split; try apply eqb_refl.
Qed.
#[export] Instance EqB_var : EqB var := {| eqb := var_eqb; eqb_eq := var_eqb_eq |}.

Definition V (n : nat) : var := mkVar KVar n None [].
Definition get_base (v : var) : var := V (vn v).

Inductive expr :=
| EProb (pop : option var) (ch pa : list var)   (* Probability / PopulationProbability *)
| EProd (es : list expr)
| ESum (e : expr) (rs : list var)               (* ranges: frozenset kept sorted *)
| EFrac (n d : expr)
| EOne
| EZero
| EQ (dom cod : list var)                       (* QFactor: frozensets kept sorted *)
| EErr (code : nat).                            (* an exception raised while building *)

(* exception codes *)
Definition ZeroDivisionError := 1.
Definition ValueError := 2.
Definition TypeError := 3.
Definition KeyError := 4.

Fixpoint expr_eqb (a b : expr) : bool :=
  match a, b with
  | EProb p c q, EProb p' c' q' => eqb p p' && eqb c c' && eqb q q'
  | EProd l, EProd l' =>
      (fix go (l l' : list expr) : bool :=
         match l, l' with
         | [], [] => true
         | x :: t, y :: u => expr_eqb x y && go t u
         | _, _ => false
         end) l l'
  | ESum e r, ESum e' r' => expr_eqb e e' && eqb r r'
  | EFrac n d, EFrac n' d' => expr_eqb n n' && expr_eqb d d'
  | EOne, EOne => true
  | EZero, EZero => true
  | EQ d c, EQ d' c' => eqb d d' && eqb c c'
  | EErr k, EErr k' => Nat.eqb k k'
  | _, _ => false
  end.

Definition is_err (e : expr) : bool := match e with EErr _ => true | _ => false end.
Definition is_one (e : expr) : bool := match e with EOne => true | _ => false end.
Definition is_zero (e : expr) : bool := match e with EZero => true | _ => false end.
