(* mutate/canonicalize_expr.py, mutate/chain.py, mutate/contract.py, mutate/utils.py, predicates.py *)
From Coq Require Import List Bool Arith String.
From Y0 Require Import Base.ListSet Dsl.Syntax Dsl.Text Dsl.Build Dsl.Print.
Import ListNotations.
Open Scope list_scope.

(* ensure_ordering: pass the given ordering through _upgrade_ordering, or sort the expression's variables *)
Definition ensure_ordering (e : expr) (ordering : option (list var)) : list var :=
  match ordering with
  | Some o => upgrade_ordering o
  | None => sorted_variables (dedup (iter_variables e))
  end.

Fixpoint level_of (ordering : list var) (name : nat) : option nat :=
  match ordering with
  | [] => None
  | v :: t => match level_of t name with          (* dict built left to right: the last entry wins *)
              | Some k => Some (S k)
              | None => if Nat.eqb (vn v) name then Some 0 else None
              end
  end.

(* Canonicalizer._sorted. Repaired key: (level of the name, _variable_sort_key, to_y0) - variables sharing a name
   (value marks, counterfactual copies) no longer keep their input order. [old] = pinned tree: the level alone. *)
Definition canon_var_lt (old : bool) (ordering : list var) (a b : var) : bool :=
  match level_of ordering (vn a), level_of ordering (vn b) with
  | Some x, Some y =>
      if Nat.ltb x y then true else if Nat.ltb y x then false
      else if old then false
      else var_sort_lt a b || (negb (var_sort_lt b a) && String.ltb (var_y0 a) (var_y0 b))
  | _, _ => false
  end.

Definition canon_sorted (old : bool) (ordering : list var) (vars : list var) : option (list var) :=
  if forallb (fun v => match level_of ordering (vn v) with Some _ => true | None => false end) vars
  then Some (stable_sort (canon_var_lt old ordering) vars)
  else None.

(* _flatten_product *)
Fixpoint flatten (e : expr) : list expr :=
  match e with
  | EProd es => (fix go (es : list expr) : list expr :=
                   match es with [] => [] | x :: t => flatten x ++ go t end) es
  | _ => [e]
  end.

(* repaired canonicalize: the equal-sides test is applied to the quotient too (dividing by a fraction multiplies across) *)
Definition post_quotient (q : expr) : expr :=
  match q with EFrac a b => if expr_eqb a b then EOne else q | _ => q end.

Section Canon.
  Variable old : bool.
  Variable ordering : list var.

  (* repaired _canonical_factors: a canonical factor that is itself a product is flattened again *)
  Definition factors_of (r : expr) : list expr :=
    if old then [r] else match r with EProd fs => fs | _ => [r] end.

  (* (canonical form of e, canonical forms of the flattened factors of e) *)
  Fixpoint cz (e : expr) : expr * list expr :=
    match e with
    | EProb pop ch pa =>
        let r := match canon_sorted old ordering ch, canon_sorted old ordering pa with
                 | Some c, Some p => prob_raw pop c p
                 | _, _ => EErr KeyError
                 end in (r, factors_of r)
    | ESum e' rs => let r := sum_safe_gen old (fst (cz e')) rs true in (r, factors_of r)
    | EProd es =>
        let leaves := (fix go (es : list expr) : list expr :=
                         match es with [] => [] | x :: t => snd (cz x) ++ go t end) es in
        (prod_safe_gen old leaves, leaves)
    | EFrac n d =>
        let n' := fst (cz n) in
        let d' := fst (cz d) in
        let r := if is_err n' then n' else if is_err d' then d'
                 else if is_one d' then n'
                 else if expr_eqb n' d' then EOne
                 else (if old then truediv_old n' d' else post_quotient (truediv n' d')) in (r, factors_of r)
    | EOne | EZero => (e, [e])
    | EQ _ _ => (EErr TypeError, [EErr TypeError])
    | EErr _ => (e, [e])
    end.
  Definition canonicalize (e : expr) : expr := fst (cz e).
End Canon.

(* Canonicalizer.__init__ rejects an ordering with duplicates *)
Definition canonicalize_top (old : bool) (e : expr) (ordering : option (list var)) : expr :=
  let o := ensure_ordering e ordering in
  canonicalize old o e.

Definition canonical_expr_equal (a b : expr) : bool :=
  let o := sorted_variables (dedup (iter_variables a ++ iter_variables b)) in
  expr_eqb (canonicalize false o a) (canonicalize false o b).

(* ---------------------------------------------------------------- chain.py *)

Fixpoint tails {A} (l : list A) : list (A * list A) :=
  match l with [] => [] | x :: t => (x, t) :: tails t end.

Definition chain_expand (e : expr) (reorder : bool) (ordering : option (list var)) : expr :=
  match e with
  | EProb pop ch pa =>
      let ordered :=
        if reorder then
          let o := ensure_ordering e ordering in
          if forallb (fun v => mem v o) ch then Some (filter (fun v => mem v ch) o) else None
        else Some ch in
      match ordered with
      | None => EErr ValueError
      | Some oc => prod_safe (map (fun xt => prob_raw pop [fst xt] (upgrade_ordering (snd xt ++ pa))) (tails oc))
      end
  | _ => EErr TypeError
  end.

Definition uncondition (e : expr) : expr :=
  match e with EProb pop ch pa => prob_raw pop (ch ++ pa) [] | _ => e end.

Definition fraction_expand (e : expr) : expr :=
  match e with
  | EProb pop ch [] => e
  | EProb pop ch pa => mk_frac (uncondition e) (prob_raw pop (upgrade_ordering pa) [])
  | _ => EErr TypeError
  end.

Definition bayes_expand (e : expr) : expr :=
  match e with
  | EProb pop ch [] => e
  | EProb pop ch pa => normalize_marginalize (uncondition e) ch
  | _ => EErr TypeError
  end.

(* ---------------------------------------------------------------- contract.py *)

Definition by_name (l : list var) : list var := stable_sort (fun a b => Nat.ltb (vn a) (vn b)) l.

(* pinned tree before the repairs: the denominator's population is ignored, and equal child sets are accepted *)
Definition contract_old (e : expr) : expr :=
  match e with
  | EFrac (EProb pop nch []) (EProb _ dch []) =>
      if subset dch nch
      then prob_raw pop (by_name (dedup (diff nch dch))) (by_name (dedup (inter nch dch)))
      else e
  | _ => e
  end.

(* repaired: same kind of probability and same population; the denominator's children a proper subset *)
Definition contract (e : expr) : expr :=
  match e with
  | EFrac (EProb pop nch []) (EProb pop' dch []) =>
      if eqb pop pop' && subset dch nch && negb (subset nch dch)
      then prob_raw pop (by_name (dedup (diff nch dch))) (by_name (dedup (inter nch dch)))
      else e
  | _ => e
  end.

Fixpoint recursive_contract (e : expr) : expr :=
  match e with
  | ESum e' rs => sum_raw (recursive_contract e') rs
  | EProd es => prod_safe (map recursive_contract es)
  | EFrac n d => contract e        (* _Contracter overrides apply_fraction: no recursion below a fraction *)
  | _ => e
  end.

(* ---------------------------------------------------------------- predicates.py; None = TypeError *)
(* all(...) and "and" short-circuit: a False met first wins over a later TypeError *)
Fixpoint has_markov_postcondition (e : expr) : option bool :=
  match e with
  | EProb _ ch _ => Some (Nat.eqb (List.length ch) 1)
  | EProd es => (fix go (es : list expr) : option bool :=
                   match es with
                   | [] => Some true
                   | x :: t => match has_markov_postcondition x with
                               | Some true => go t
                               | r => r
                               end
                   end) es
  | ESum e' _ => has_markov_postcondition e'
  | EFrac n d => match has_markov_postcondition n with
                 | Some true => has_markov_postcondition d
                 | r => r
                 end
  | _ => None
  end.
