(* The laws of probability that a model of Dsl/Sem.v has to satisfy for the rewrite rules that USE probability
   calculus (Sum.simplify, canonicalisation of sums, chain rule, Bayes expansion, contraction) to be sound.
   A model gives a value to every probability term; the laws say these values come from distributions:
   they do not depend on how the environment function is presented (ext) nor on the order of variables on either side
   of the bar (perm); summing a joint over one of its variables gives the joint of the others (marg), and 1 when nothing
   is left (total); P(c | p) P(p) = P(c, p) (chain); every term is positive and every variable has a value (pos, dom).
   [uniform] below is a model satisfying all of them, so the laws are consistent. *)
From Coq Require Import List Bool Arith QArith Permutation.
From Y0 Require Import Base.ListSet Dsl.Syntax Dsl.Build Dsl.Sem.
Import ListNotations.
Open Scope Q_scope.

Definition names (l : list var) : list nat := map vn l.
Definition pointwise (r r' : env) : Prop := forall k, r k = r' k.

Record lawful (m : model) : Prop := {
  law_ext : forall pop ch pa r r', pointwise r r' -> atom m pop ch pa r == atom m pop ch pa r';
  law_perm : forall pop ch ch' pa pa' r, Permutation ch ch' -> Permutation pa pa' -> atom m pop ch pa r == atom m pop ch' pa' r;
  law_marg : forall pop c ch r, ch <> [] -> ~ In (vn c) (names ch) ->
             qsum (map (fun x => atom m pop (c :: ch) [] (upd r (vn c) x)) (dom m (vn c))) == atom m pop ch [] r;
  law_total : forall pop c r, qsum (map (fun x => atom m pop [c] [] (upd r (vn c) x)) (dom m (vn c))) == 1;
  law_chain : forall pop ch pa r, ch <> [] -> pa <> [] -> atom m pop ch pa r * atom m pop pa [] r == atom m pop (ch ++ pa) [] r;
  law_pos : forall pop ch pa r, 0 < atom m pop ch pa r;
  law_dom : forall n, dom m n <> []
}.

(* binary variables, every one a fair coin independent of the others *)
Fixpoint half_pow (k : nat) : Q := match k with O => 1 | S k' => (1 # 2) * half_pow k' end.

Definition uniform : model :=
  mkModel (fun _ ch _ _ => half_pow (length ch)) (fun _ _ _ => 1) (fun _ => [0%nat; 1%nat]).

Lemma half_pow_pos k : 0 < half_pow k.
Proof. induction k as [|k IH]; cbn [half_pow]; [reflexivity|]. apply Qmult_lt_0_compat; [reflexivity|exact IH]. Qed.

Lemma half_pow_add a b : half_pow (a + b) == half_pow a * half_pow b.
Proof. induction a as [|a IH]; cbn [half_pow Nat.add]; [rewrite Qmult_1_l; reflexivity|]. rewrite IH. apply Qmult_assoc. Qed.

Theorem uniform_lawful : lawful uniform.
Proof.
  constructor; cbn [atom dom uniform].
  - reflexivity.
  - intros pop ch ch' pa pa' r Hc _. rewrite (Permutation_length Hc). reflexivity.
  - intros pop c ch r _ _. cbn [map qsum fold_right length half_pow]. ring.
  - intros pop c r. cbn [map qsum fold_right length half_pow]. ring.
  - intros pop ch pa r _ _. rewrite app_length, half_pow_add. reflexivity.
  - intros. apply half_pow_pos.
  - discriminate.
Qed.
