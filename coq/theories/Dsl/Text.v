(* to_text printers of dsl.py (used by Product.safe to break sort-key ties) and the name table. *)
From Coq Require Import List Bool Arith String Ascii.
From Y0 Require Import Base.ListSet Dsl.Syntax.
Import ListNotations.
Open Scope string_scope.

(* the harness' name table: 0..23 = A..Z without P and Q; 24 = "Z10", 25 = "Z2" (names of different lengths, in string order); 50+d = "T_V<d>"; 100+d = "V<d>"; 200+d = "pi<d>"; 210 = "pi*" *)
Definition alphabet : list string :=
  ["A";"B";"C";"D";"E";"F";"G";"H";"I";"J";"K";"L";"M";"N";"O";"R";"S";"T";"U";"V";"W";"X";"Y";"Z";"Z10";"Z2"].
Definition digit (d : nat) : string := nth d ["0";"1";"2";"3";"4";"5";"6";"7";"8";"9"] "?".
Definition name_str (n : nat) : string :=
  if Nat.leb 50 n && Nat.ltb n 60 then "T_V" ++ digit (n - 50)
  else if Nat.ltb n 100 then nth n alphabet "?"
  else if Nat.ltb n 200 then "V" ++ digit (n - 100)
  else if Nat.eqb n 200 then "pi*"
  else "pi" ++ digit (n - 200).

Fixpoint join (sep : string) (l : list string) : string :=
  match l with [] => "" | [x] => x | x :: t => x ++ sep ++ join sep t end.

Definition sign_str (s : option bool) : string :=
  match s with None => "" | Some true => "+" | Some false => "-" end.

Definition iv_text (i : nat * bool) : string := sign_str (Some (snd i)) ++ name_str (fst i).

Definition var_text (v : var) : string :=
  match vk v with
  | KCf => name_str (vn v) ++ "_{" ++ join ", " (map iv_text (vi v)) ++ "}"
  | _ => sign_str (vs v) ++ name_str (vn v)
  end.

Definition dist_text (ch pa : list var) : string :=
  match pa with
  | [] => join ", " (map var_text ch)
  | _ => join ", " (map var_text ch) ++ " | " ++ join ", " (map var_text pa)
  end.

Definition by_name_v (l : list var) : list var := stable_sort (fun a b => Nat.ltb (vn a) (vn b)) l.

Fixpoint to_text (e : expr) : string :=
  match e with
  | EProb None ch pa => "P(" ++ dist_text ch pa ++ ")"
  | EProb (Some p) ch pa => "PP[" ++ var_text p ++ "](" ++ dist_text ch pa ++ ")"
  | EProd es => join " " (map to_text es)
  | ESum e' rs => "[ sum_{" ++ join ", " (map var_text (by_name_v rs)) ++ "} " ++ to_text e' ++ " ]"
  | EFrac n d => "frac_{" ++ to_text n ++ "}{" ++ to_text d ++ "}"
  | EOne => "1"
  | EZero => "0"
  | EQ dom cod => "Q[" ++ join ", " (map var_text (by_name_v cod)) ++ "](" ++ join ", " (map var_text (by_name_v dom)) ++ ")"
  | EErr _ => "<error>"
  end.
