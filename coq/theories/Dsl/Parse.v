(* Model of parser/internal.py: parse_y0 = Python eval of the text with the LOCALS name table.
   Tokenizer, a precedence parser for the Python expression subset the printer emits
   ( | lowest; then binary * / @ (left-assoc); then unary + - ~; then call / subscript ), and an
   evaluator that applies the overloaded operators of dsl.py (Dsl/Build.v). *)
From Coq Require Import List Bool Arith String Ascii.
From Y0 Require Import Base.ListSet Dsl.Syntax Dsl.Text Dsl.Tok Dsl.Build.
Import ListNotations.
Open Scope string_scope.

Definition is_ident_char (c : ascii) : bool :=
  let n := nat_of_ascii c in
  (Nat.leb 65 n && Nat.leb n 90) || (Nat.leb 97 n && Nat.leb n 122) || (Nat.leb 48 n && Nat.leb n 57) || Nat.eqb n 95.

Fixpoint tokenize_acc (s : string) (cur : string) (acc : list token) : list token :=
  let flush := match cur with "" => acc | _ => (acc ++ [TName cur])%list end in
  match s with
  | EmptyString => flush
  | String c rest =>
      if is_ident_char c then tokenize_acc rest (cur ++ String c EmptyString) acc
      else if Ascii.eqb c " " then tokenize_acc rest "" flush
      else tokenize_acc rest "" (flush ++ [TSym c])%list
  end.
Definition tokenize (s : string) : list token := tokenize_acc s "" [].

Inductive ast :=
| AName (s : string)
| ACall (f : ast) (args : list ast)
| AIndex (f : ast) (args : list ast)
| ABin (op : ascii) (l r : ast)
| AUn (op : ascii) (a : ast)
| ATuple (l : list ast).

Definition is_sym (t : token) (c : ascii) : bool := match t with TSym d => Ascii.eqb c d | _ => false end.

(* parsers return (ast, remaining tokens) *)
Fixpoint p_or (fuel : nat) (ts : list token) : option (ast * list token) :=
  match fuel with
  | 0 => None
  | S f =>
      match p_mul f ts with
      | Some (l, rest) => p_or_tail f l rest
      | None => None
      end
  end
with p_or_tail (fuel : nat) (l : ast) (ts : list token) : option (ast * list token) :=
  match fuel with
  | 0 => None
  | S f =>
      match ts with
      | t :: rest => if is_sym t "|" then
                       match p_mul f rest with
                       | Some (r, rest') => p_or_tail f (ABin "|" l r) rest'
                       | None => None
                       end
                     else Some (l, ts)
      | [] => Some (l, ts)
      end
  end
with p_mul (fuel : nat) (ts : list token) : option (ast * list token) :=
  match fuel with
  | 0 => None
  | S f =>
      match p_unary f ts with
      | Some (l, rest) => p_mul_tail f l rest
      | None => None
      end
  end
with p_mul_tail (fuel : nat) (l : ast) (ts : list token) : option (ast * list token) :=
  match fuel with
  | 0 => None
  | S f =>
      match ts with
      | TSym c :: rest =>
          if Ascii.eqb c "*" || Ascii.eqb c "/" || Ascii.eqb c "@" then
            match p_unary f rest with
            | Some (r, rest') => p_mul_tail f (ABin c l r) rest'
            | None => None
            end
          else Some (l, ts)
      | _ => Some (l, ts)
      end
  end
with p_unary (fuel : nat) (ts : list token) : option (ast * list token) :=
  match fuel with
  | 0 => None
  | S f =>
      match ts with
      | TSym c :: rest =>
          if Ascii.eqb c "+" || Ascii.eqb c "-" || Ascii.eqb c "~" then
            match p_unary f rest with
            | Some (a, rest') => Some (AUn c a, rest')
            | None => None
            end
          else p_postfix f ts
      | _ => p_postfix f ts
      end
  end
with p_postfix (fuel : nat) (ts : list token) : option (ast * list token) :=
  match fuel with
  | 0 => None
  | S f =>
      match ts with
      | TName s :: rest => p_post_tail f (AName s) rest
      | TSym c :: rest =>
          if Ascii.eqb c "(" then
            match p_args f rest ")" with
            | Some (args, trailing, rest') =>
                p_post_tail f (match args, trailing with [a], false => a | _, _ => ATuple args end) rest'
            | None => None
            end
          else None
      | [] => None
      end
  end
with p_post_tail (fuel : nat) (a : ast) (ts : list token) : option (ast * list token) :=
  match fuel with
  | 0 => None
  | S f =>
      match ts with
      | TSym c :: rest =>
          if Ascii.eqb c "(" then
            match p_args f rest ")" with
            | Some (args, _, rest') => p_post_tail f (ACall a args) rest'
            | None => None
            end
          else if Ascii.eqb c "[" then
            match p_args f rest "]" with
            | Some (args, _, rest') => p_post_tail f (AIndex a args) rest'
            | None => None
            end
          else Some (a, ts)
      | _ => Some (a, ts)
      end
  end
(* comma-separated expressions up to the closing symbol; the flag records a trailing comma *)
with p_args (fuel : nat) (ts : list token) (close : ascii) : option (list ast * bool * list token) :=
  match fuel with
  | 0 => None
  | S f =>
      match ts with
      | t :: rest =>
          if is_sym t close then Some ([], false, rest)
          else match p_or f ts with
               | Some (a, rest1) =>
                   match rest1 with
                   | t1 :: rest2 =>
                       if is_sym t1 "," then
                         match p_args f rest2 close with
                         | Some (more, tr, rest3) => Some (a :: more, match more with [] => true | _ => tr end, rest3)
                         | None => None
                         end
                       else if is_sym t1 close then Some ([a], false, rest2)
                       else None
                   | [] => None
                   end
               | None => None
               end
      | [] => None
      end
  end.

Definition parse_ast (s : string) : option ast :=
  let ts := tokenize s in
  match p_or (4 * List.length ts + 8) ts with
  | Some (a, []) => Some a
  | _ => None
  end.

(* ---------------------------------------------------------------- evaluation with LOCALS *)

Inductive value :=
| VVar (v : var)
| VDist (ch pa : list var)
| VExpr (e : expr)
| VTuple (l : list value)
| VP (pop : option var) (ivs : option (list var))    (* P, P[..], PP[pop], PP[pop][..] *)
| VPP                                                (* the PP class, before [population] *)
| VSum (ranges : option (list var))                  (* Sum, Sum[..] *)
| VQ (cod : option (list var))                       (* Q, Q[..] *)
| VOneC | VZeroC                                     (* the classes One and Zero *)
| VErr (code : nat).

Definition NameError := 5.

(* LOCALS: single capital letters except P and Q, with optional digit / _digit; only the single
   letters are needed for the harness' alphabet *)
Fixpoint find_index (s : string) (l : list string) (i : nat) : option nat :=
  match l with [] => None | x :: t => if String.eqb x s then Some i else find_index s t (S i) end.

Definition lookup (s : string) : value :=
  if String.eqb s "P" || String.eqb s "PROB" || String.eqb s "Prob" || String.eqb s "PROBABILITY" || String.eqb s "Probability" then VP None None
  else if String.eqb s "PP" then VPP
  else if String.eqb s "Sum" || String.eqb s "SUM" then VSum None
  else if String.eqb s "Q" || String.eqb s "QFactor" then VQ None
  else if String.eqb s "One" then VOneC
  else if String.eqb s "Zero" then VZeroC
  else match find_index s (firstn 24 alphabet) 0 with
       | Some i => VVar (V i)
       | None => VErr NameError
       end.

Definition as_vars (vs : list value) : option (list var) :=
  map_opt (fun v => match v with VVar x => Some x | _ => None end) vs.

Definition flat_args (vs : list value) : list value :=
  match vs with [VTuple l] => l | _ => vs end.

Definition var_given (v : var) (p : value) : value :=
  match p with
  | VVar x => VDist [v] (upgrade_ordering [x])
  | VTuple l => match as_vars l with Some xs => VDist [v] (upgrade_ordering xs) | None => VErr TypeError end
  | VDist c [] => VDist [v] c
  | VDist _ _ => VErr TypeError
  | _ => VErr TypeError
  end.

Definition unary (op : ascii) (v : value) : value :=
  match v with
  | VVar x =>
      match vk x with
      | KCf => if Ascii.eqb op "+" then VVar (mkVar KCf (vn x) (Some true) (vi x))
               else if Ascii.eqb op "-" then VVar (mkVar KCf (vn x) (Some false) (vi x))
               else VVar (mkVar KCf (vn x) (Some (negb (match vs x with Some b => b | None => false end))) (vi x))
      | _ => if Ascii.eqb op "+" then VVar (mkVar KIv (vn x) (Some true) [])
             else if Ascii.eqb op "-" then VVar (mkVar KIv (vn x) (Some false) [])
             else VVar (mkVar KIv (vn x) (Some (negb (match vs x with Some b => b | None => false end))) [])
      end
  | VErr _ => v
  | _ => VErr TypeError
  end.

Definition binop (op : ascii) (l r : value) : value :=
  match l, r with
  | VErr _, _ => l
  | _, VErr _ => r
  | _, _ =>
  if Ascii.eqb op "*" then
    match l, r with VExpr a, VExpr b => VExpr (mul a b) | _, _ => VErr TypeError end
  else if Ascii.eqb op "/" then
    match l, r with VExpr a, VExpr b => VExpr (truediv a b) | _, _ => VErr TypeError end
  else if Ascii.eqb op "@" then
    match l with
    | VVar x =>
        match (match r with VVar y => Some [y] | VTuple t => as_vars t | _ => None end) with
        | Some ys => match var_intervene x ys with Some z => VVar z | None => VErr ValueError end
        | None => VErr TypeError
        end
    | _ => VErr TypeError
    end
  else (* | *)
    match l with
    | VVar x => var_given x r
    | VDist c p =>
        match r with
        | VVar y => VDist c (upgrade_ordering (p ++ [y])%list)
        | VTuple t => match as_vars t with Some ys => VDist c (upgrade_ordering (p ++ ys)%list) | None => VErr TypeError end
        | VDist c2 [] => VDist c (p ++ c2)%list
        | _ => VErr TypeError
        end
    | _ => VErr TypeError
    end
  end.

(* builder( args ): Probability.safe on variables with at most one distribution among them *)
Definition call_P (pop : option var) (ivs : option (list var)) (args : list value) : value :=
  let fix split (args : list value) (pre : list var) : option (list var * option (list var * list var) * list var) :=
      match args with
      | [] => Some (pre, None, [])
      | VVar x :: t => split t (pre ++ [x])%list
      | VDist c p :: t => match as_vars t with Some post => Some (pre, Some (c, p), post) | None => None end
      | _ => None
      end in
  match args with
  | [VTuple l] => match as_vars l with
                  | Some xs => VExpr (prob_safe pop xs None [] ivs)
                  | None => VErr TypeError
                  end
  | _ => match split args [] with
         | Some (pre, d, post) => VExpr (prob_safe pop pre d post ivs)
         | None => VErr ValueError
         end
  end.

Definition call (f : value) (args : list value) : value :=
  match f with
  | VErr _ => f
  | _ =>
  match find (fun a => match a with VErr _ => true | _ => false end) args with
  | Some e => e
  | None =>
  match f with
  | VP pop ivs => match args with [] => VErr TypeError | _ => call_P pop ivs args end
  | VSum (Some rs) => match args with [VExpr e] => VExpr (sum_safe e rs false) | _ => VErr TypeError end
  | VQ (Some cod) => match as_vars (flat_args args) with
                     | Some dom => match dom with [] => VErr TypeError | _ => VExpr (EQ (upgrade_ordering dom) (upgrade_ordering cod)) end
                     | None => VErr TypeError
                     end
  | VOneC => match args with [] => VExpr EOne | _ => VErr TypeError end
  | VZeroC => match args with [] => VExpr EZero | _ => VErr TypeError end
  | _ => VErr TypeError
  end end end.

Definition index (f : value) (args : list value) : value :=
  match f with
  | VErr _ => f
  | _ =>
  match find (fun a => match a with VErr _ => true | _ => false end) args with
  | Some e => e
  | None =>
  match f, as_vars (flat_args args) with
  | VP pop None, Some xs => VP pop (Some xs)
  | VPP, Some [p] => VP (Some p) None
  | VSum None, Some xs => VSum (Some xs)
  | VQ None, Some xs => VQ (Some xs)
  | _, _ => VErr TypeError
  end end end.

Fixpoint eval_ast (a : ast) : value :=
  match a with
  | AName s => lookup s
  | ACall f args => call (eval_ast f) (map eval_ast args)
  | AIndex f args => index (eval_ast f) (map eval_ast args)
  | ABin op l r => binop op (eval_ast l) (eval_ast r)
  | AUn op x => unary op (eval_ast x)
  | ATuple l => VTuple (map eval_ast l)
  end.

Definition SyntaxError := 6.

(* parse_y0: an Expression, or EErr with the exception raised *)
Definition parse_y0 (s : string) : expr :=
  match parse_ast s with
  | None => EErr SyntaxError
  | Some a => match eval_ast a with
              | VExpr e => e
              | VErr k => EErr k
              | _ => EErr 8      (* parse_y0 returned something that is not an expression *)
              end
  end.
