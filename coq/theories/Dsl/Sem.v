(* Denotation of probability expressions over Q. A [model] supplies the value of every probability term
   (and Q factor) under an environment that assigns a value to each base variable name, and the finite value
   range of each variable. Division is Coq's total division on Q (x / 0 = 0): identities that cancel a factor
   carry an explicit non-zero hypothesis. *)
From Coq Require Import List Bool Arith QArith.
From Y0 Require Import Base.ListSet Dsl.Syntax Dsl.Build.
Import ListNotations.
Open Scope Q_scope.

Definition env := nat -> nat.
Definition upd (r : env) (n x : nat) : env := fun k => if Nat.eqb k n then x else r k.

Record model := mkModel {
  atom : option var -> list var -> list var -> env -> Q;
  qfac : list var -> list var -> env -> Q;
  dom : nat -> list nat
}.

Definition qsum (l : list Q) : Q := fold_right Qplus 0 l.
Definition qprod (l : list Q) : Q := fold_right Qmult 1 l.

(* sum of f over all assignments of the listed names (in list order; the model keeps range sets sorted and duplicate-free) *)
Fixpoint sum_over (m : model) (names : list nat) (f : env -> Q) (r : env) : Q :=
  match names with
  | [] => f r
  | n :: t => qsum (map (fun x => sum_over m t f (upd r n x)) (dom m n))
  end.

Fixpoint eval (m : model) (e : expr) (r : env) : Q :=
  match e with
  | EProb pop ch pa => atom m pop ch pa r
  | EProd es => (fix go (es : list expr) : Q := match es with [] => 1 | x :: t => eval m x r * go t end) es
  | ESum e' rs => sum_over m (map vn rs) (eval m e') r
  | EFrac n d => eval m n r / eval m d r
  | EOne => 1
  | EZero => 0
  | EQ dm cd => qfac m dm cd r
  | EErr _ => 0
  end.

Definition eval_list (m : model) (es : list expr) (r : env) : list Q := map (fun e => eval m e r) es.
