(* Constructors and operators of dsl.py, function for function: Distribution.safe, Probability.safe,
   intervene, Product.safe, Sum.safe, Sum.simplify, __mul__ / __truediv__ of every class, marginalize,
   conditional, normalize_marginalize, Fraction.simplify, and the sort keys (_get_key, _variable_sort_key). *)
From Coq Require Import List Bool Arith ZArith String.
From Y0 Require Import Base.ListSet Dsl.Syntax Dsl.Text Dsl.Print.
Import ListNotations.

(* ---------------------------------------------------------------- variable ordering *)

(* _sort_interventions: key (name, star), False < True *)
Definition iv_lt (a b : nat * bool) : bool :=
  Nat.ltb (fst a) (fst b) || (Nat.eqb (fst a) (fst b) && negb (snd a) && snd b).

(* order of the strings "+X" / "-X" ('+' < '-'), then the name *)
Definition ivstr_cmp (a b : nat * bool) : comparison :=
  match snd a, snd b with
  | true, false => Lt
  | false, true => Gt
  | _, _ => Nat.compare (fst a) (fst b)
  end.
Fixpoint ivlist_cmp (l1 l2 : list (nat * bool)) : comparison :=
  match l1, l2 with
  | [], [] => Eq
  | [], _ => Lt
  | _, [] => Gt
  | x :: t, y :: u => match ivstr_cmp x y with Eq => ivlist_cmp t u | c => c end
  end.

(* _variable_sort_key: (name, joined y0 text of the sorted interventions) *)
Definition var_sort_lt (a b : var) : bool :=
  Nat.ltb (vn a) (vn b)
  || (Nat.eqb (vn a) (vn b) && match ivlist_cmp (vi a) (vi b) with Lt => true | _ => false end).

Definition sorted_variables (l : list var) : list var := stable_sort var_sort_lt l.
Definition upgrade_ordering (l : list var) : list var := sorted_variables (dedup l).
Definition norm_ivs (l : list (nat * bool)) : list (nat * bool) := stable_sort iv_lt (dedup l).

(* _to_interventions: Intervention instances are kept, anything else becomes Intervention(name, star=False) *)
Definition to_intervention (v : var) : nat * bool :=
  match vk v, vs v with
  | KIv, Some s => (vn v, s)
  | _, _ => (vn v, false)
  end.

Definition overlapping (ivs : list (nat * bool)) : bool :=
  existsb (fun a => existsb (fun b => Nat.eqb (fst a) (fst b) && negb (Bool.eqb (snd a) (snd b))) ivs) ivs.

(* Variable.intervene / CounterfactualVariable.intervene; None = ValueError *)
Definition var_intervene (v : var) (variables : list var) : option var :=
  match vk v with
  | KCf =>
      let ivs := norm_ivs (vi v ++ map to_intervention (upgrade_ordering variables)) in
      if overlapping ivs then None else Some (mkVar KCf (vn v) (vs v) ivs)
  | _ =>
      let ivs := norm_ivs (map to_intervention variables) in
      match ivs with [] => None | _ => Some (mkVar KCf (vn v) (vs v) ivs) end
  end.

Fixpoint map_opt {A B} (f : A -> option B) (l : list A) : option (list B) :=
  match l with
  | [] => Some []
  | x :: t => match f x, map_opt f t with Some y, Some u => Some (y :: u) | _, _ => None end
  end.

(* ---------------------------------------------------------------- sort keys of expressions *)

Inductive key := KI (z : Z) | KS (n : nat) | KV (v : var) | KT (l : list key).

Definition key_items (k : key) : list key := match k with KT l => l | _ => [k] end.

Definition min_name (l : list var) : nat := fold_right (fun v acc => Nat.min (vn v) acc) (match l with v :: _ => vn v | [] => 0 end) l.

Fixpoint get_key (e : expr) : key :=
  match e with
  | EProb None ch _ => KT [KI 0; KS (match ch with c :: _ => vn c | [] => 0 end)]
  | EProb (Some p) ch _ => KT [KI (-1); KV p; KS (match ch with c :: _ => vn c | [] => 0 end)]
  | ESum e _ => KT (KI 1 :: key_items (get_key e))
  | EProd es => KT (KI 2 :: map get_key es)
  | EFrac n d => KT [KI 3; get_key n; get_key d]
  | EOne => KT [KI 4; KS 1]
  | EZero => KT [KI 4; KS 0]
  | EQ dom cod => KT [KI (-5); KS (min_name dom); KS (min_name cod)]
  | EErr _ => KT [KI 99]
  end.

Definition tag (k : key) : nat := match k with KI _ => 0 | KS _ => 1 | KV _ => 2 | KT _ => 3 end.

Definition star_cmp (a b : option bool) : comparison :=
  match a, b with
  | None, None => Eq | None, Some _ => Lt | Some _, None => Gt
  | Some x, Some y => match x, y with false, true => Lt | true, false => Gt | _, _ => Eq end
  end.

(* Python tuple comparison. Mixed-type comparisons raise TypeError in Python; they do not occur for the
   keys of well-formed expressions (the first integer fixes the shape), and are ordered by [tag] here. *)
Fixpoint key_cmp (a b : key) : comparison :=
  match a, b with
  | KI x, KI y => Z.compare x y
  | KS x, KS y => Nat.compare x y
  | KV x, KV y => match Nat.compare (vn x) (vn y) with Eq => star_cmp (vs x) (vs y) | c => c end
  | KT l1, KT l2 =>
      (fix go (l1 l2 : list key) : comparison :=
         match l1, l2 with
         | [], [] => Eq
         | [], _ => Lt
         | _, [] => Gt
         | x :: t, y :: u => match key_cmp x y with Eq => go t u | c => c end
         end) l1 l2
  | _, _ => Nat.compare (tag a) (tag b)
  end.

(* pinned tree before the repair: the key alone *)
Definition expr_lt_old (a b : expr) : bool := match key_cmp (get_key a) (get_key b) with Lt => true | _ => false end.
(* repaired Product.safe: sorted(key=(e._get_key(), e.to_text(), e.to_y0())) *)
Definition expr_lt (a b : expr) : bool :=
  match key_cmp (get_key a) (get_key b) with
  | Lt => true
  | Eq => match String.compare (to_text a) (to_text b) with
          | Lt => true
          | Eq => String.ltb (to_y0 a) (to_y0 b)
          | Gt => false
          end
  | Gt => false
  end.

(* ---------------------------------------------------------------- constructors *)

Definition first_err (es : list expr) : option expr := find is_err es.

Definition mk_frac (n d : expr) : expr :=
  match first_err [n; d] with
  | Some e => e
  | None => if is_zero d then EErr ZeroDivisionError else EFrac n d
  end.

(* Product.safe on an iterable of expressions *)
Definition prod_safe_gen (old : bool) (es : list expr) : expr :=
  match first_err es with
  | Some e => e
  | None =>
      let es1 := filter (fun e => negb (is_one e)) es in
      if existsb is_zero es1 then EZero
      else match es1 with
           | [] => EOne
           | [x] => x
           | _ => EProd (stable_sort (if old then expr_lt_old else expr_lt) es1)
           end
  end.
Definition prod_safe := prod_safe_gen false.

(* Probability(Distribution(children, parents)); ValueError without children *)
Definition prob_raw (pop : option var) (ch pa : list var) : expr :=
  match ch with [] => EErr ValueError | _ => EProb pop ch pa end.

(* Distribution.safe( args ) where at most one argument is already a distribution (c | p) *)
Definition dist_safe (pre : list var) (d : option (list var * list var)) (post : list var) : list var * list var :=
  match d with
  | None => (upgrade_ordering (pre ++ post), [])
  | Some (c, p) => (sorted_variables (upgrade_ordering pre ++ c), sorted_variables (p ++ upgrade_ordering post))
  end.

(* Distribution.intervene *)
Definition dist_intervene (cp : list var * list var) (variables : list var) : option (list var * list var) :=
  let vs := upgrade_ordering variables in
  match map_opt (fun v => var_intervene v vs) (fst cp), map_opt (fun v => var_intervene v vs) (snd cp) with
  | Some c, Some p => Some (c, p)
  | _, _ => None
  end.

(* P(...) / P[interventions](...) / PP[pop](...) *)
Definition prob_safe (pop : option var) (pre : list var) (d : option (list var * list var)) (post : list var)
           (interventions : option (list var)) : expr :=
  let cp := dist_safe pre d post in
  match interventions with
  | None => prob_raw pop (fst cp) (snd cp)
  | Some ivs => match dist_intervene cp ivs with
                | Some cp' => prob_raw pop (fst cp') (snd cp')
                | None => EErr ValueError
                end
  end.

(* ---------------------------------------------------------------- __mul__ *)

Fixpoint mul (a : expr) : expr -> expr :=
  fix mul_a (b : expr) : expr :=
    match a, b with
    | EErr _, _ => a
    | _, EErr _ => b
    | EOne, _ => b
    | EZero, _ => EZero
    | EProb _ _ _, EZero => EZero
    | EProb _ _ _, EOne => a
    | EProb _ _ _, EProd es => prod_safe (a :: es)
    | EProb _ _ _, EFrac n d => mk_frac (mul_a n) d
    | EProb _ _ _, _ => prod_safe [a; b]
    | EProd es, EZero => EZero
    | EProd es, EProd es' => prod_safe (es ++ es')
    | EProd es, EFrac n d => mk_frac (mul_a n) d
    | EProd es, _ => prod_safe (es ++ [b])
    | ESum _ _, EZero => EZero
    | ESum _ _, EProd es' => prod_safe (a :: es')
    | ESum _ _, _ => prod_safe [a; b]
    | EFrac n d, EZero => EZero
    | EFrac n d, EFrac n' d' => mk_frac (mul n n') (mul d d')
    | EFrac n d, _ => mk_frac (mul n b) d
    | EQ _ _, EProd es' => prod_safe (a :: es')
    | EQ _ _, EFrac n d => mk_frac (mul_a n) d
    | EQ _ _, _ => prod_safe [a; b]
    end.

(* ---------------------------------------------------------------- __truediv__ *)
(* pinned tree before the repair of x / (One / y) *)
Definition truediv_old (a b : expr) : expr :=
  match a, b with
  | EErr _, _ => a
  | _, EErr _ => b
  | EZero, EZero => EErr ZeroDivisionError
  | EZero, _ => EZero
  | EFrac n d, EOne => a
  | EFrac n d, EFrac n' d' => mk_frac (mul n d') (mul d n')
  | EFrac n d, _ => mk_frac n (mul d b)
  | _, EOne => a
  | _, EFrac n' d' => mk_frac (mul a d') n'
  | _, _ => mk_frac a b
  end.

Fixpoint truediv (a b : expr) {struct b} : expr :=
  match a, b with
  | EErr _, _ => a
  | _, EErr _ => b
  | EZero, EZero => EErr ZeroDivisionError
  | EZero, _ => EZero
  | EFrac n d, EOne => a
  | EFrac n d, EFrac n' d' => mk_frac (mul n d') (mul d n')
  | EFrac n d, _ => mk_frac n (mul d b)
  | _, EOne => a
  | _, EFrac n' d' => truediv (mul a d') n'
  | _, _ => mk_frac a b
  end.

(* ---------------------------------------------------------------- Sum *)

Definition bad_range (v : var) : bool := match vk v with KVar => false | _ => true end.

Definition sum_raw (e : expr) (rs : list var) : expr :=
  if is_err e then e else
  match rs with
  | [] => EErr ValueError
  | _ => if existsb bad_range rs then EErr TypeError else ESum e rs
  end.

(* a range occurs as the intervention value of a counterfactual child *)
Definition iv_in_ranges (rs : list var) (c : var) : bool :=
  match vk c with KCf => existsb (fun i : nat * bool => mem (V (fst i)) rs) (vi c) | _ => false end.

(* Sum.simplify (repaired: a sum over more variables than the joint keeps the extra ranges) *)
Definition sum_simplify_gen (old : bool) (e : expr) (rs : list var) : expr :=
  match e with
  | EProb pop ch [] =>
      let bases := dedup (map get_base ch) in
      (* dict base -> child: a later child with the same base replaces the earlier value *)
      let child_of (b : var) := match find (fun c => eqb (get_base c) b) (rev ch) with Some c => c | None => b end in
      if negb old && (negb (Nat.eqb (List.length bases) (List.length ch)) || existsb (iv_in_ranges rs) ch)
      then sum_raw e rs     (* repaired: children sharing a name, or a range that is an intervention value below a child *)
      else
      if set_eqb rs bases then EOne
      else if subset bases rs then
             (if old then EOne else sum_raw EOne (upgrade_ordering (diff rs bases)))
      else if subset rs bases then
             prob_raw pop (upgrade_ordering (map child_of (diff bases rs))) []
      else let i := inter rs bases in
           let keep := diff bases i in
           let p := prob_raw pop (upgrade_ordering (map child_of keep)) [] in
           match upgrade_ordering (diff rs i) with
           | [] => p
           | rs' => if is_zero p then p else sum_raw p rs'
           end
  | _ => sum_raw e rs
  end.

Definition sum_safe_gen (old : bool) (e : expr) (ranges : list var) (simplify : bool) : expr :=
  if is_err e then e else
  let rs := upgrade_ordering ranges in
  match rs with
  | [] => e
  | _ => if is_zero e then e
         else if existsb bad_range rs then EErr TypeError
         else if simplify then sum_simplify_gen old e rs else ESum e rs
  end.

Definition sum_safe := sum_safe_gen false.
Definition sum_simplify := sum_simplify_gen false.

(* ---------------------------------------------------------------- variables of an expression *)

Definition var_iter (v : var) : list var := v :: map (fun i => mkVar KIv (fst i) (Some (snd i)) []) (vi v).

Fixpoint iter_variables (e : expr) : list var :=
  match e with
  | EProb _ ch pa => flat_map var_iter (ch ++ pa)
  | EProd es => flat_map iter_variables es
  | ESum e rs => iter_variables e ++ rs
  | EFrac n d => iter_variables n ++ iter_variables d
  | EQ dom cod => cod ++ dom
  | _ => []
  end.

Definition marginalize (e : expr) (ranges : list var) : expr :=
  sum_safe e (map get_base ranges) false.
Definition normalize_marginalize (e : expr) (ranges : list var) : expr :=
  truediv e (marginalize e ranges).
(* Expression.conditional / Probability.conditional *)
Definition conditional (e : expr) (ranges : list var) : expr :=
  let rs := upgrade_ordering (map get_base ranges) in
  let vars := match e with
              | EProb _ _ _ => filter (fun c => negb (eqb (vk c) KIv)) (iter_variables e)
              | _ => iter_variables e
              end in
  normalize_marginalize e (diff (dedup (map get_base vars)) rs).

(* ---------------------------------------------------------------- Fraction.simplify *)

Fixpoint cancel_one (x : expr) (den : list expr) : option (list expr) :=
  match den with
  | [] => None
  | d :: t => if expr_eqb x d then Some t else option_map (cons d) (cancel_one x t)
  end.

(* _simplify_parts_helper: each numerator factor cancels the first equal remaining denominator factor *)
Fixpoint simplify_parts_helper (num den : list expr) : list expr * list expr :=
  match num with
  | [] => ([], den)
  | x :: t => match cancel_one x den with
              | Some den' => simplify_parts_helper t den'
              | None => let r := simplify_parts_helper t den in (x :: fst r, snd r)
              end
  end.

Definition simplify_parts (num den : list expr) : expr :=
  let r := simplify_parts_helper num den in
  match fst r, snd r with
  | [], [] => EOne
  | n, [] => prod_safe n
  | [], d => truediv EOne (prod_safe d)
  | n, d => mk_frac (prod_safe n) (prod_safe d)
  end.

Definition frac_flip (e : expr) : expr := match e with EFrac n d => mk_frac d n | _ => e end.

Fixpoint frac_simplify_fuel (fuel : nat) (e : expr) : expr :=
  match e with
  | EFrac n d =>
      if is_one d then n
      else if is_zero n then n
      else if is_one n then
             match d, fuel with
             | EFrac _ _, S f => frac_simplify_fuel f (frac_flip d)
             | _, _ => e
             end
      else if expr_eqb n d then EOne
      else match n, d with
           | EProd ns, EProd ds => simplify_parts ns ds
           | EProd ns, _ => simplify_parts ns [d]
           | _, EProd ds => simplify_parts [n] ds
           | _, _ => e
           end
  | _ => e
  end.
Definition frac_simplify (e : expr) : expr := frac_simplify_fuel 2 e.
