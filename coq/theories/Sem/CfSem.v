(* Counterfactual variables and events read in a functional SCM (Sem/Scm.v): the value of Y_x at the exogenous state u is the value of Y in the
   solution of the submodel M_x at u; an event (a conjunction "variable = value") is true at u when every conjunct is. The probability of an event
   in a model is the total weight of the states u at which it is true, whatever the distribution of u: two events that are true at the same
   states have the same probability in every model, and an event true at no state has probability zero in every model. *)
From Coq Require Import List Bool Arith.
From Y0 Require Import Base.ListSet Graph.MixedGraph Dsl.Syntax Dsl.Build Alg.Cg Alg.CtfAnc Sem.Scm.
Import ListNotations.

(* the interventions a variable carries: its subscripts when it is counterfactual, none otherwise *)
Definition var_ivs (v : var) : list (nat * bool) := if is_cf v then vi v else [].

Section CfSem.
  Context {D : Type} {eqD : EqB D}.
  Variable U : Type.
  Variable f : nat -> (nat -> D) -> U -> D.
  Variable rho : nat * bool -> D.
  Variable order : list nat.       (* a topological order of the graph: the solution of every submodel is computed along it (Proofs/ScmP.v) *)

  Definition value (v : var) (u : U) : D := solve U f rho order (var_ivs v) u (vn v).

  Definition entry_true (u : U) (p : var * (nat * bool)) : bool := eqb (value (fst p) u) (lit rho (snd p)).
  Definition event_true (ev : event) (u : U) : bool := forallb (entry_true u) ev.

  (* events of the counterfactual-transport code: a conjunct may come without a value (it then constrains nothing) *)
  Definition centry_true (u : U) (p : var * option (nat * bool)) : bool :=
    match snd p with Some x => eqb (value (fst p) u) (lit rho x) | None => true end.
  Definition cevent_true (ev : cevent) (u : U) : bool := forallb (centry_true u) ev.
End CfSem.
