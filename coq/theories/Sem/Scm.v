(* Functional structural causal models over a mixed graph: the semantics against which the counterfactual clauses (C18, C19) are stated.
   A model gives every node a structural function of the values of the other nodes and of the exogenous state u (any type: one u stands
   for the joint state of all exogenous variables, shared across worlds); [local] says that the function of v reads its parents only.
   The graph's bidirected edges constrain the DISTRIBUTION of u, not the functions; every statement proved pointwise in u therefore
   holds for every distribution of u, i.e. in every structural causal model compatible with the graph.
   Values live in an arbitrary type D. y0 names two values of every variable: the intervention / value (n, false) stands for "n takes the
   value rho (n, false)" and (n, true) for "n takes the value rho (n, true)" (y0's starred values); the theorems that need the two to differ
   say so (forall n, rho (n, false) <> rho (n, true)). *)
From Coq Require Import List Bool Arith.
From Y0 Require Import Base.ListSet Graph.MixedGraph.
Import ListNotations.

Section SCM.
  Variable g : mg nat.
  Context {D : Type}.
  Variable U : Type.
  Variable f : nat -> (nat -> D) -> U -> D.
  Variable rho : nat * bool -> D.

  Definition local : Prop :=
    forall v x x' u, (forall p, In p (parents g v) -> x p = x' p) -> f v x u = f v x' u.

  Definition lit (i : nat * bool) : D := rho i.

  (* the value an intervention set gives to node v (the first entry naming v), if any *)
  Definition do_value (ivs : list (nat * bool)) (v : nat) : option D :=
    option_map lit (find (fun i => Nat.eqb (fst i) v) ivs).

  (* x solves the structural equations of the submodel M_ivs at exogenous state u *)
  Definition solution (ivs : list (nat * bool)) (u : U) (x : nat -> D) : Prop :=
    forall v, In v (nodes g) -> x v = match do_value ivs v with Some b => b | None => f v x u end.

  (* the solution computed along an order of the nodes *)
  Definition upd (x : nat -> D) (v : nat) (b : D) : nat -> D := fun w => if Nat.eqb w v then b else x w.
  Definition solve (order : list nat) (ivs : list (nat * bool)) (u : U) : nat -> D :=
    fold_left (fun x v => upd x v (match do_value ivs v with Some b => b | None => f v x u end)) order (fun _ => rho (0, false)).
End SCM.
