(* C06 - Estimands mention only distributions the analyst actually has. *)
From Coq Require Import List Bool.
From Y0 Require Import Base.ListSet Graph.MixedGraph Dsl.Syntax Dsl.Build Alg.Id Alg.Idc Alg.Vocab Proofs.VocabP.
Import ListNotations.

(* ID: for every well-formed graph, query, topological-order oracle: an estimand returned by the model consists of plain
   observational probability terms over nodes of the user's graph - no subscript, counterfactual, value mark,
   population tag, Q factor or foreign node. (An [EErr] value is an exception in y0, not an estimand.) *)
Theorem C06_ID_estimands_are_plain_observational_over_the_graph topo (g : mg nat) X Y e :
  wf g -> incl Y (nodes g) ->
  identify_outcomes false topo g X Y = IdOk e -> is_err e = false -> plain_obs (nodes g) e = true.
Proof. exact (identify_outcomes_vocab false topo g X Y e). Qed.

(* IDC: the same, for every result over all visiting orders of the conditions *)
Theorem C06_IDC_estimands_are_plain_observational_over_the_graph topo (g : mg nat) X Y Z e :
  wf g -> incl Y (nodes g) -> incl Z (nodes g) ->
  In (IdOk e) (idc false topo g X Y Z) -> is_err e = false -> plain_obs (nodes g) e = true.
Proof. exact (idc_vocab false topo g (S (List.length Z)) X Y Z e). Qed.

Print Assumptions C06_ID_estimands_are_plain_observational_over_the_graph.
Print Assumptions C06_IDC_estimands_are_plain_observational_over_the_graph.
