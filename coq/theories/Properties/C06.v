(* C06 - Estimands mention only distributions the analyst actually has. *)
From Coq Require Import List Bool.
From Y0 Require Import Base.ListSet Graph.MixedGraph Dsl.Syntax Dsl.Build Alg.Id Alg.Idc Alg.Cg Alg.IdStar Alg.Trso Alg.Vocab Proofs.VocabP Proofs.AtomsP Proofs.StarVocabP Proofs.TrsoVocab2P.
Import ListNotations.

(* ID: for every well-formed graph, query, topological-order oracle: an estimand returned by the model consists of plain
   observational probability terms over nodes of the user's graph - no subscript, counterfactual, value mark,
   population tag, Q factor or foreign node. (An [EErr] value is an exception in y0, not an estimand.) *)
Theorem C06_ID_estimands_are_plain_observational_over_the_graph topo (g : mg nat) X Y e :
  wf g -> incl Y (nodes g) ->
  identify_outcomes false topo g X Y = IdOk e -> is_err e = false -> plain_obs (nodes g) e = true.
Proof. exact (identify_outcomes_vocab false topo g X Y e). Qed.

(* IDC: the same, for every result over all visiting orders of the conditions *)
Theorem C06_IDC_estimands_are_plain_observational_over_the_graph topo (g : mg nat) X Y Z e :
  wf g -> incl Y (nodes g) -> incl Z (nodes g) ->
  In (IdOk e) (idc false topo g X Y Z) -> is_err e = false -> plain_obs (nodes g) e = true.
Proof. exact (idc_vocab false topo g (S (List.length Z)) X Y Z e). Qed.

(* Transport (TRSO): every term of a returned estimand is a term of the target observational distribution, or of a DECLARED
   source domain under a subset of THAT domain's declared experimental variables (as un-starred subscripts), over the user's
   nodes only - never a selection (transport) node. [surr_of domains] is the declaration: population -> experimental variables.
   Node names 100..109 are the harness' V0..V9, the selection node of V<k> is 50+k. For every oracle, every query. *)
Theorem C06_TRSO_estimands_use_only_declared_distributions topo (g : mg nat) Y X domains e :
  wf g -> (forall n, In n (nodes g) -> 100 <= n < 110) ->
  identify_target_outcomes topo g Y X domains = ROk (Some e) -> is_err e = false ->
  trso_vocab (nodes g) TARGET (surr_of domains) e = true.
Proof. exact (identify_target_outcomes_vocab topo g Y X domains e). Qed.

(* not vacuous: X -> W -> Y with X <-> Y, experiments on X in domain pi1: the estimand mixes target terms and pi1 terms under do(X) *)
Example C06_TRSO_not_vacuous :
  exists e, identify_target_outcomes topological_sort (MG [100; 101; 102] [(100, 101); (101, 102)] [(100, 102)]) [102] [100] [(201, [102], [100])] = ROk (Some e)
            /\ is_err e = false /\ plain_obs [100; 101; 102] e = false.
Proof. eexists. vm_compute. auto. Qed.

(* ID-star and IDC-star: every probability term of a returned estimand is single-world - all its variables carry the same
   intervention subscripts - for every graph, event, topological order, fuel and every order of the unordered choices *)
Theorem C06_IDstar_estimands_are_single_world (g : mg nat) topo fuel ev e :
  In (IdOk e) (id_star g topo fuel ev) -> is_err e = false -> single_world e = true.
Proof.
  exact (fun Hin Hne => swP_single e (PA_split_local e (id_star_single_world g topo fuel ev (IdOk e) Hin e eq_refl) Hne)).
Qed.

Theorem C06_IDCstar_estimands_are_single_world (g : mg nat) topo fuel outcomes conditions e :
  In (IdOk e) (idc_star g topo fuel outcomes conditions) -> is_err e = false -> single_world e = true.
Proof.
  exact (fun Hin Hne => swP_single e (PA_split_local e (idc_star_single_world g topo fuel outcomes conditions (IdOk e) Hin e eq_refl) Hne)).
Qed.

Print Assumptions C06_TRSO_estimands_use_only_declared_distributions.
Print Assumptions C06_IDstar_estimands_are_single_world.
Print Assumptions C06_IDCstar_estimands_are_single_world.
Print Assumptions C06_ID_estimands_are_plain_observational_over_the_graph.
Print Assumptions C06_IDC_estimands_are_plain_observational_over_the_graph.
