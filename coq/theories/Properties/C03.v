(* C03 - IDC estimands equal the true conditional interventional distribution. *)
From Coq Require Import List Bool.
From Y0 Require Import Base.ListSet Graph.MixedGraph Dsl.Syntax Dsl.Build Alg.Id Alg.Idc Proofs.IdcP.
Import ListNotations.

(* Soundness needs the SCM semantics, ID soundness (C01), d-separation correctness (C04) and rule 2 of the
   do-calculus (DESIGN.md 5/C03): not yet proved. Proved on the model, for every visiting order of the conditions: *)
Theorem C03_every_result_is_ID_on_a_split_of_the_conditions_then_normalised topo g X Y Z r :
  In r (idc false topo g X Y Z) ->
  exists moved, incl moved Z /\ r = idc_final false topo g (fold_left (fun acc z => union acc [z]) moved X) Y
                                      (fold_left (fun acc z => diff acc [z]) moved Z).
Proof. exact (idc_shape false topo g X Y Z r). Qed.

Theorem C03_answer_has_the_form_e_over_sum_Y_e topo g X Y Z e' :
  idc_final false topo g X Y Z = IdOk e' ->
  exists e, identify false topo (fuel_for g) (mkIdent g X (union Y Z) (prob_safe None (Vs (nodes g)) None [] None)) = IdOk e /\
            e' = truediv e (sum_safe e (map get_base (Vs Y)) false).
Proof. exact (idc_final_form false topo g X Y Z e'). Qed.

Print Assumptions C03_every_result_is_ID_on_a_split_of_the_conditions_then_normalised.
Print Assumptions C03_answer_has_the_form_e_over_sum_Y_e.
