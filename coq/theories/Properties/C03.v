(* C03 - IDC estimands equal the true conditional interventional distribution. *)
From Coq Require Import List Bool.
From Y0 Require Import Base.ListSet Graph.MixedGraph Graph.DSep Graph.MSep Dsl.Syntax Dsl.Build Alg.Id Alg.Idc Proofs.IdcP Proofs.IdTotalP Proofs.CondIndSemP.
Import ListNotations.

(* Soundness needs the SCM semantics, ID soundness (C01), d-separation correctness (C04) and rule 2 of the
   do-calculus (DESIGN.md 5/C03): not yet proved. Proved on the model, for every visiting order of the conditions: *)
Theorem C03_every_result_is_ID_on_a_split_of_the_conditions_then_normalised topo g X Y Z r :
  In r (idc false topo g X Y Z) ->
  exists moved, incl moved Z /\ r = idc_final false topo g (fold_left (fun acc z => union acc [z]) moved X) Y
                                      (fold_left (fun acc z => diff acc [z]) moved Z).
Proof. exact (idc_shape false topo g X Y Z r). Qed.

Theorem C03_answer_has_the_form_e_over_sum_Y_e topo g X Y Z e' :
  idc_final false topo g X Y Z = IdOk e' ->
  exists e, identify false topo (fuel_for g) (mkIdent g X (union Y Z) (prob_safe None (Vs (nodes g)) None [] None)) = IdOk e /\
            e' = truediv e (sum_safe e (map get_base (Vs Y)) false).
Proof. exact (idc_final_form false topo g X Y Z e'). Qed.

(* 'otherwise it refuses with unidentifiable and never fails in another way': for every valid query over a well-formed
   graph without a directed cycle, every result IDC can produce - whatever order the conditions are visited in - is an
   estimand or the refusal. [topo] as in C02. *)
Theorem C03_estimand_or_refusal_never_another_failure (topo : mg nat -> option (list nat)) (g : mg nat) X Y Z r :
  (forall h, wf h -> acyclicP h -> exists o, topo h = Some o /\ is_topo h o = true) ->
  wf g -> acyclicP g -> incl X (nodes g) -> incl Y (nodes g) -> incl Z (nodes g) -> Y <> [] ->
  (forall v, In v X -> ~ In v Y) -> (forall v, In v X -> ~ In v Z) -> (forall v, In v Y -> ~ In v Z) ->
  In r (idc false topo g X Y Z) -> match r with IdCrash _ => False | _ => True end.
Proof. exact (fun Ht => idc_total topo Ht g X Y Z r). Qed.

(* the rule-2 test never asks the separation routine an ill-formed question on a valid query *)
Theorem C03_rule2_separation_test_is_defined (g : mg nat) X Y Z y z :
  wf g -> incl X (nodes g) -> incl Y (nodes g) -> incl Z (nodes g) ->
  (forall v, In v X -> ~ In v Y) -> (forall v, In v X -> ~ In v Z) -> (forall v, In v Y -> ~ In v Z) ->
  In y Y -> In z Z ->
  exists s, are_d_separated (remove_out_edges (remove_in_edges g X) [z]) y z (union X (diff Z [z])) = DOk s.
Proof. exact (rule2_test_is_defined g X Y Z y z). Qed.

(* and its verdict is true m-separation in the mutilated graph (C04): the premise of rule 2 of the do-calculus *)
Theorem C03_rule2_verdict_is_true_separation (h : mg nat) y z C s :
  are_d_separated h y z C = DOk s ->
  if s then ~ m_connected h C y z else m_connected h C y z.
Proof. exact (fun Hv => proj2 (proj1 (dsep_verdict_iff h y z C s) Hv)). Qed.

Print Assumptions C03_estimand_or_refusal_never_another_failure.
Print Assumptions C03_rule2_separation_test_is_defined.
Print Assumptions C03_rule2_verdict_is_true_separation.
Print Assumptions C03_every_result_is_ID_on_a_split_of_the_conditions_then_normalised.
Print Assumptions C03_answer_has_the_form_e_over_sum_Y_e.
