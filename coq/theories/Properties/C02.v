(* C02 - ID verdicts are total, complete and side-effect free. *)
From Coq Require Import List Bool.
From Y0 Require Import Base.ListSet Graph.MixedGraph Dsl.Syntax Dsl.Build Alg.Id Proofs.IdP.
Import ListNotations.

(* Full statement of totality (kept visible; not yet proved - needs the fuel bound and the graph lemmas of DESIGN.md 5/C02). *)
Definition C02_totality_statement : Prop :=
  forall topo g X Y, wf g -> is_acyclic g = true -> (forall h, exists o, topo h = Some o /\ is_topo h o = true) ->
    X <> [] -> Y <> [] -> incl X (nodes g) -> incl Y (nodes g) -> (forall v, In v X -> ~ In v Y) ->
    exists r, identify_outcomes false topo g X Y = r /\ match r with IdCrash _ => False | _ => True end.

(* every refusal comes from the line-5 hedge test of a sub-problem reached through lines 2, 3, 4, 7 *)
Theorem C02_refusal_only_from_the_hedge_test topo fuel I :
  identify false topo fuel I = IdUnident -> refused_at_line5 false I.
Proof. exact (identify_refuses_only_at_line5 false topo fuel I). Qed.

Theorem C02_no_treatments_always_answers topo fuel g Y est :
  identify false topo (S fuel) (mkIdent g [] Y est) = IdOk (sum_safe est (Vs (diff (nodes g) Y)) false).
Proof. exact (identify_without_treatments false topo fuel g Y est). Qed.

Print Assumptions C02_refusal_only_from_the_hedge_test.
Print Assumptions C02_no_treatments_always_answers.
