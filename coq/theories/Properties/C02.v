(* C02 - ID verdicts are total, complete and side-effect free. *)
From Coq Require Import List Bool.
From Y0 Require Import Base.ListSet Graph.MixedGraph Dsl.Syntax Dsl.Build Alg.Id Proofs.IdP Proofs.IdTotalP Proofs.KahnP.
Import ListNotations.

(* Totality: for every well-formed graph without a directed cycle, every non-empty outcome set and every treatment set
   disjoint from it (both inside the node set), ID ends in an estimand or in the refusal - no other error, and the
   recursion depth stays within the model's fuel (lines 2 and 7 shrink the node set; lines 3 and 4 grow the treatment set).
   [topo] stands for graph.topological_sort: it is only assumed to return a valid order for every acyclic graph,
   and the model re-checks each order it is given (is_topo). *)
Theorem C02_total_estimand_or_refusal_never_another_failure (topo : mg nat -> option (list nat)) (g : mg nat) X Y :
  (forall h, wf h -> acyclicP h -> exists o, topo h = Some o /\ is_topo h o = true) ->
  wf g -> acyclicP g -> incl X (nodes g) -> incl Y (nodes g) -> Y <> [] -> (forall v, In v X -> ~ In v Y) ->
  match identify_outcomes false topo g X Y with IdCrash _ => False | _ => True end.
Proof. exact (fun Ht => identify_outcomes_total topo Ht g X Y). Qed.

(* the same with the model's own acyclicity test as the hypothesis (it rejects every directed cycle) *)
Theorem C02_total_on_graphs_passing_the_acyclicity_test (topo : mg nat -> option (list nat)) (g : mg nat) X Y :
  (forall h, wf h -> acyclicP h -> exists o, topo h = Some o /\ is_topo h o = true) ->
  wf g -> is_acyclic g = true -> incl X (nodes g) -> incl Y (nodes g) -> Y <> [] -> (forall v, In v X -> ~ In v Y) ->
  match identify_outcomes false topo g X Y with IdCrash _ => False | _ => True end.
Proof. exact (fun Ht Hw Hac => identify_outcomes_total topo Ht g X Y Hw (acyclic_no_cycle g Hw Hac)). Qed.

(* the same for any sub-problem and any amount of fuel above the measure *)
Theorem C02_total_for_every_subproblem (topo : mg nat -> option (list nat)) fuel I :
  (forall h, wf h -> acyclicP h -> exists o, topo h = Some o /\ is_topo h o = true) ->
  Inv I -> mu I < fuel -> match identify false topo fuel I with IdCrash _ => False | _ => True end.
Proof. exact (fun Ht => identify_total topo Ht fuel I). Qed.

(* every refusal comes from the line-5 hedge test of a sub-problem reached through lines 2, 3, 4, 7 *)
Theorem C02_refusal_only_from_the_hedge_test topo fuel I :
  identify false topo fuel I = IdUnident -> refused_at_line5 false I.
Proof. exact (identify_refuses_only_at_line5 false topo fuel I). Qed.

Theorem C02_no_treatments_always_answers topo fuel g Y est :
  identify false topo (S fuel) (mkIdent g [] Y est) = IdOk (sum_safe est (Vs (diff (nodes g) Y)) false).
Proof. exact (identify_without_treatments false topo fuel g Y est). Qed.

Print Assumptions C02_refusal_only_from_the_hedge_test.
Print Assumptions C02_no_treatments_always_answers.
Print Assumptions C02_total_estimand_or_refusal_never_another_failure.
Print Assumptions C02_total_on_graphs_passing_the_acyclicity_test.
Print Assumptions C02_total_for_every_subproblem.

(* the hypotheses are satisfiable: front door, and the model's own Kahn order serves as the oracle there *)
Example C02_not_vacuous :
  let g := MG [0; 1; 2] [(0, 1); (1, 2)] [(0, 2)] in
  wfb g = true /\ is_acyclic g = true /\
  (exists e, identify_outcomes false topological_sort g [0] [2] = IdOk e) /\
  identify_outcomes false topological_sort (MG [0; 1] [(0, 1)] [(0, 1)]) [0] [1] = IdUnident.
Proof. vm_compute. repeat split; eauto. Qed.
