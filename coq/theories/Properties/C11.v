(* C11 - Canonical form is a true normal form. *)
From Coq Require Import List Bool Permutation.
From Y0 Require Import Base.ListSet Dsl.Syntax Dsl.Build Dsl.Canon Proofs.SortP Proofs.DslP.
Import ListNotations.

(* Full statement (kept visible). Proved below: the sorting core (idempotence; independence of the presentation
   order when no two factors tie) and, relative to the order properties of the expression key, Product.safe.
   The whole-expression statement is evaluated on the model inside Coq for every generated case (Corr/Dsl.v CCanon). *)
Definition C11_statement : Prop :=
  forall o e, is_err (canonicalize false o e) = false ->
    canonicalize false o (canonicalize false o e) = canonicalize false o e.

Theorem C11_sorting_is_idempotent {A} (lt : A -> A -> bool) :
  (forall a, lt a a = false) -> (forall a b c, lt a b = true -> lt b c = true -> lt a c = true) ->
  forall l, stable_sort lt (stable_sort lt l) = stable_sort lt l.
Proof. exact (stable_sort_idempotent lt). Qed.

Theorem C11_sorting_ignores_presentation_order {A} (lt : A -> A -> bool) :
  (forall a, lt a a = false) -> (forall a b c, lt a b = true -> lt b c = true -> lt a c = true) ->
  forall l l', (forall a b, In a l -> In b l -> lt a b = false -> lt b a = false -> a = b) ->
  Permutation l l' -> stable_sort lt l = stable_sort lt l'.
Proof. exact (stable_sort_perm_invariant lt). Qed.

Theorem C11_product_ignores_factor_order_partial :
  (forall a, expr_lt a a = false) -> (forall a b c, expr_lt a b = true -> expr_lt b c = true -> expr_lt a c = true) ->
  forall es es',
    forallb (fun e => negb (is_err e)) es = true ->
    (forall a b, In a es -> In b es -> expr_lt a b = false -> expr_lt b a = false -> a = b) ->
    Permutation es es' -> prod_safe es = prod_safe es'.
Proof. exact (prod_safe_perm false). Qed.

Theorem C11_old_product_order_refuted :
  exists es es', Permutation es es' /\ prod_safe_gen true es <> prod_safe_gen true es'.
Proof. exact prod_safe_old_order_dependent. Qed.

Theorem C11_old_canonicalize_not_idempotent_refuted :
  canonicalize true idem_order (canonicalize true idem_order idem_witness) <> canonicalize true idem_order idem_witness.
Proof. exact canonicalize_old_not_idempotent. Qed.

(* the canonicalizer before the repair ordered the variables of a term by the level of their name only: Y and +Y
   (same name) kept their input order, so two presentations of one term had different canonical forms *)
Theorem C11_old_same_name_variables_presentation_dependent_refuted :
  let y := V 22 in let ystar := mkVar KVar 22 (Some true) [] in
  canonicalize true [y] (EProb None [y; ystar] []) <> canonicalize true [y] (EProb None [ystar; y] []) /\
  canonicalize false [y] (EProb None [y; ystar] []) = canonicalize false [y] (EProb None [ystar; y] []).
Proof. vm_compute. split; [discriminate|reflexivity]. Qed.

Print Assumptions C11_old_same_name_variables_presentation_dependent_refuted.
Print Assumptions C11_sorting_is_idempotent.
Print Assumptions C11_sorting_ignores_presentation_order.
Print Assumptions C11_product_ignores_factor_order_partial.
Print Assumptions C11_old_product_order_refuted.
Print Assumptions C11_old_canonicalize_not_idempotent_refuted.
