(* C11 - Canonical form is a true normal form. *)
From Coq Require Import List Bool Permutation.
From Y0 Require Import Base.ListSet Dsl.Syntax Dsl.Text Dsl.Print Dsl.Build Dsl.Canon Proofs.SortP Proofs.DslP Proofs.OrderP Proofs.CanonNfP Proofs.CanonNf3P Proofs.CanonNf4P Proofs.CanonPresP Proofs.EvalP Proofs.CanonTieP.
Import ListNotations.

(* Clause 1 of the property - canonicalising a canonical form returns it unchanged - for EVERY expression and every
   ordering the caller can give (canonicalize() passes the ordering through _upgrade_ordering, which sorts it by name;
   [canonicalize_top] is that entry point), and for the default ordering (None: the second call derives its ordering from the
   canonical form itself, which may mention fewer variables). An [EErr] value is an exception in y0, not a result.
   Proved through a normal form: Proofs/CanonNfP.v (every expression of shape NF is a fixed point), CanonNf2P.v / CanonNf3P.v
   (every non-error result of Product.safe, __mul__, __truediv__, Sum.safe(simplify=True) on canonical operands, and of the
   canonicalizer, has shape NF), OrderP.v (the three sort keys are strict orders), CanonNf4P.v (default ordering).
   The proof attempt found the defect repaired by /repo 029f0ea (a quotient of fractions with equal sides after multiplying across). *)
Theorem C11_canonicalize_is_idempotent e ordering :
  is_err (canonicalize_top false e (Some ordering)) = false ->
  canonicalize_top false (canonicalize_top false e (Some ordering)) (Some ordering) = canonicalize_top false e (Some ordering).
Proof. exact (canonicalize_top_idempotent e ordering). Qed.

Theorem C11_canonicalize_is_idempotent_default_ordering e :
  is_err (canonicalize_top false e None) = false ->
  canonicalize_top false (canonicalize_top false e None) None = canonicalize_top false e None.
Proof. exact (canonicalize_top_idempotent_default e). Qed.

(* not vacuous, and the repaired case: the witness of the defect is canonicalised to One, a fixed point *)
Definition C11_pA := EProb None [V 0] []. Definition C11_pB := EProb None [V 1] []. Definition C11_pC := EProb None [V 2] [].
Definition C11_witness := EFrac (EFrac (EProd [C11_pA; C11_pB]) C11_pA) (EFrac (EProd [C11_pB; C11_pC]) C11_pC).
Example C11_idempotent_not_vacuous :
  (canonicalize_top false C11_witness None = EOne) /\
  (canonicalize_top true C11_witness None = EFrac (EProd [C11_pA; C11_pB; C11_pC]) (EProd [C11_pA; C11_pB; C11_pC])) /\
  (canonicalize_top true (canonicalize_top true C11_witness None) None = EOne).
Proof. vm_compute. auto. Qed.

(* the canonicalizer before the repair 029f0ea: not idempotent on a quotient of fractions *)
Theorem C11_old_quotient_of_fractions_not_idempotent_refuted :
  exists e, is_err (canonicalize_top true e None) = false /\
            canonicalize_top true (canonicalize_top true e None) None <> canonicalize_top true e None.
Proof.
  exists (EFrac (EFrac (EProd [EProb None [V 0] []; EProb None [V 1] []]) (EProb None [V 0] []))
                (EFrac (EProd [EProb None [V 1] []; EProb None [V 2] []]) (EProb None [V 2] []))).
  vm_compute. split; [reflexivity|discriminate].
Qed.

(* the three sort keys are strict orders (Python's tuple comparison of nested keys included), so sorting by them is idempotent *)
Theorem C11_factor_order_is_a_strict_order :
  (forall a, expr_lt a a = false) /\ (forall a b c, expr_lt a b = true -> expr_lt b c = true -> expr_lt a c = true).
Proof. exact (conj expr_lt_irrefl expr_lt_trans). Qed.

(* two factors tie in Product.safe's key only if they print alike in both syntaxes *)
Theorem C11_factor_ties_print_alike a b : expr_lt a b = false -> expr_lt b a = false -> to_y0 a = to_y0 b /\ to_text a = to_text b.
Proof. exact (expr_lt_tie a b). Qed.

(* Clause 2 - expressions that differ only in presentation canonicalise to identical objects. [pres o e e'] (Proofs/CanonPresP.v)
   relates e to every e' obtained by permuting the variables on either side of a bar, permuting the factors of products and
   re-nesting products, at any depth; it carries the side conditions that the sort keys do not tie on DISTINCT members (two
   variables of one term; two canonical factors of one product). Those side conditions are discharged below for well-formed
   variables and for factors in operator normal form; PARTIAL for raw constructions outside that normal form. *)
Theorem C11_presentation_invariance_partial o e e' :
  pres o e e' -> is_err (canonicalize false o e) = false -> canonicalize false o e' = canonicalize false o e.
Proof. exact (presentation_invariance o e e'). Qed.

Theorem C11_no_variable_ties_when_names_are_distinct o l :
  NoDup (map vn l) -> forallb (has_level o) l = true -> vtie_free o l.
Proof. exact (vtie_free_distinct o l). Qed.

(* The side conditions hold for well-formed material, by way of C12: an expression in operator normal form [wf_rt] is recovered from
   its printed text (C12_round_trip), so two such canonical factors that tie - and therefore print alike - are the same factor; and two
   well-formed variables [wfvar] (plain, value, or counterfactual with normalised interventions) that tie are the same variable. What
   stays a hypothesis: products whose canonical factors are not in operator normal form (raw constructions). *)
Theorem C11_no_factor_ties_among_normal_form_factors l : (forall x, In x l -> wf_rt x = true) -> etie_free l.
Proof. exact (etie_free_wf l). Qed.

Theorem C11_no_variable_ties_among_wellformed_variables o l :
  forallb wfvar l = true -> forallb (has_level o) l = true -> vtie_free o l.
Proof. exact (vtie_free_wf o l). Qed.

(* not vacuous: P(B | A) * (P(C) * P(A, D))  and  (P(D, A) * P(C)) * P(B | A) *)
Example C11_presentation_invariance_not_vacuous :
  let o := [V 0; V 1; V 2; V 3] in
  let e := EProd [EProb None [V 1] [V 0]; EProd [EProb None [V 2] []; EProb None [V 0; V 3] []]] in
  let e' := EProd [EProd [EProb None [V 3; V 0] []; EProb None [V 2] []]; EProb None [V 1] [V 0]] in
  pres o e e' /\ is_err (canonicalize false o e) = false /\ e <> e'.
Proof.
  cbv zeta. split; [|split; [vm_compute; reflexivity|discriminate]].
  apply (pres_prod _ _ _ [EProb None [V 1] [V 0]; EProb None [V 2] []; EProb None [V 3; V 0] []]).
  - cbn [flatten app]. apply Forall2_cons; [apply pres_refl|]. apply Forall2_cons; [apply pres_refl|]. apply Forall2_cons; [|apply Forall2_nil].
    apply pres_prob; [apply perm_swap|apply perm_nil| |intros a b []].
    apply vtie_free_distinct; [repeat constructor; cbn; intuition discriminate|reflexivity].
  - cbn [flatten app].
    apply (Permutation_trans (l' := [EProb None [V 2] []; EProb None [V 3; V 0] []; EProb None [V 1] [V 0]])).
    + apply (Permutation_cons_append [EProb None [V 2] []; EProb None [V 3; V 0] []]).
    + apply perm_swap.
  - intros a b Ha Hb. vm_compute in Ha, Hb.
    destruct Ha as [<-|[<-|[<-|[]]]]; destruct Hb as [<-|[<-|[<-|[]]]]; vm_compute; intros; try reflexivity; discriminate.
Qed.

Theorem C11_sorting_is_idempotent {A} (lt : A -> A -> bool) :
  (forall a, lt a a = false) -> (forall a b c, lt a b = true -> lt b c = true -> lt a c = true) ->
  forall l, stable_sort lt (stable_sort lt l) = stable_sort lt l.
Proof. exact (stable_sort_idempotent lt). Qed.

Theorem C11_sorting_ignores_presentation_order {A} (lt : A -> A -> bool) :
  (forall a, lt a a = false) -> (forall a b c, lt a b = true -> lt b c = true -> lt a c = true) ->
  forall l l', (forall a b, In a l -> In b l -> lt a b = false -> lt b a = false -> a = b) ->
  Permutation l l' -> stable_sort lt l = stable_sort lt l'.
Proof. exact (stable_sort_perm_invariant lt). Qed.

Theorem C11_product_ignores_factor_order_partial :
  (forall a, expr_lt a a = false) -> (forall a b c, expr_lt a b = true -> expr_lt b c = true -> expr_lt a c = true) ->
  forall es es',
    forallb (fun e => negb (is_err e)) es = true ->
    (forall a b, In a es -> In b es -> expr_lt a b = false -> expr_lt b a = false -> a = b) ->
    Permutation es es' -> prod_safe es = prod_safe es'.
Proof. exact (prod_safe_perm false). Qed.

Theorem C11_old_product_order_refuted :
  exists es es', Permutation es es' /\ prod_safe_gen true es <> prod_safe_gen true es'.
Proof. exact prod_safe_old_order_dependent. Qed.

Theorem C11_old_canonicalize_not_idempotent_refuted :
  canonicalize true idem_order (canonicalize true idem_order idem_witness) <> canonicalize true idem_order idem_witness.
Proof. exact canonicalize_old_not_idempotent. Qed.

(* the canonicalizer before the repair ordered the variables of a term by the level of their name only: Y and +Y
   (same name) kept their input order, so two presentations of one term had different canonical forms *)
Theorem C11_old_same_name_variables_presentation_dependent_refuted :
  let y := V 22 in let ystar := mkVar KVar 22 (Some true) [] in
  canonicalize true [y] (EProb None [y; ystar] []) <> canonicalize true [y] (EProb None [ystar; y] []) /\
  canonicalize false [y] (EProb None [y; ystar] []) = canonicalize false [y] (EProb None [ystar; y] []).
Proof. vm_compute. split; [discriminate|reflexivity]. Qed.

Print Assumptions C11_canonicalize_is_idempotent.
Print Assumptions C11_presentation_invariance_partial.
Print Assumptions C11_no_variable_ties_when_names_are_distinct.
Print Assumptions C11_no_factor_ties_among_normal_form_factors.
Print Assumptions C11_no_variable_ties_among_wellformed_variables.
Print Assumptions C11_canonicalize_is_idempotent_default_ordering.
Print Assumptions C11_old_quotient_of_fractions_not_idempotent_refuted.
Print Assumptions C11_factor_order_is_a_strict_order.
Print Assumptions C11_factor_ties_print_alike.
Print Assumptions C11_old_same_name_variables_presentation_dependent_refuted.
Print Assumptions C11_sorting_is_idempotent.
Print Assumptions C11_sorting_ignores_presentation_order.
Print Assumptions C11_product_ignores_factor_order_partial.
Print Assumptions C11_old_product_order_refuted.
Print Assumptions C11_old_canonicalize_not_idempotent_refuted.
