From Coq Require Import List.
Theorem placeholder_C11 : True. Proof. exact I. Qed.
Print Assumptions placeholder_C11.
