(* C20 - Sigma-separation agrees with d-separation on acyclic graphs; symmetric; adjacent => connected. *)
From Coq Require Import List Bool.
From Y0 Require Import Base.ListSet Graph.MixedGraph Graph.DSep Graph.Sigma Proofs.SigmaP Proofs.SigmaSymP Proofs.SigmaAgree2P.
Import ListNotations.

(* The full first clause: on every well-formed acyclic directed mixed graph, for all nodes a, b outside C, the verdict equals
   the textbook d-separation in the latent DAG [d_separated_spec] (which C04 proves equal to m-separation). Both directions:
   a sigma-open enumerated path (its triples may use the detour through a neighbour) expands into an active walk; an active
   simple path of the latent DAG collapses, dropping the latent nodes, to a sigma-open enumerated path. *)
Theorem C20_agrees_with_d_separation_on_acyclic_graphs (g : mg nat) a b C :
  wf g -> is_acyclic g = true -> In a (nodes g) -> In b (nodes g) -> incl C (nodes g) -> ~ In a C -> ~ In b C ->
  are_sigma_separated false g a b C = d_separated_spec g a b C.
Proof. exact (sigma_agrees_with_d_separation g a b C). Qed.

(* the verdict is symmetric in the two nodes: every mixed graph, cyclic or not, every conditioning set *)
Theorem C20_symmetric (g : mg nat) a b C : are_sigma_separated false g a b C = are_sigma_separated false g b a C.
Proof. exact (sigma_symmetric false g C a b). Qed.

Theorem C20_adjacent_nodes_are_never_separated (g : mg nat) a b C :
  In a (nodes g) -> a <> b ->
  (In (a, b) (dir g) \/ In (b, a) (dir g) \/ In (a, b) (bid g) \/ In (b, a) (bid g)) ->
  ~ In a C -> ~ In b C -> are_sigma_separated false g a b C = false.
Proof. exact (sigma_adjacent_not_separated false g a b C). Qed.

Theorem C20_old_code_refuted_collider_with_distant_conditioned_descendant :
  exists (g : mg nat) a b C, is_acyclic g = true /\
    are_sigma_separated true g a b C = true /\ d_separated_spec g a b C = false.
Proof. exact sigma_old_refuted_deep_collider. Qed.

Theorem C20_old_code_refuted_bow :
  exists (g : mg nat) a b C, is_acyclic g = true /\
    are_sigma_separated true g a b C = true /\ d_separated_spec g a b C = false.
Proof. exact sigma_old_refuted_bow. Qed.

Print Assumptions C20_agrees_with_d_separation_on_acyclic_graphs.
Print Assumptions C20_symmetric.
Print Assumptions C20_adjacent_nodes_are_never_separated.
Print Assumptions C20_old_code_refuted_collider_with_distant_conditioned_descendant.
Print Assumptions C20_old_code_refuted_bow.
