(* C20 - Sigma-separation agrees with d-separation on acyclic graphs; symmetric; adjacent => connected. *)
From Coq Require Import List Bool.
From Y0 Require Import Base.ListSet Graph.MixedGraph Graph.DSep Graph.Sigma Proofs.SigmaP Proofs.SigmaSymP.
Import ListNotations.

(* The agreement clause (kept visible): proved below are symmetry and adjacency for ALL mixed graphs; agreement with
   d-separation on acyclic graphs is evaluated inside Coq on every generated case (Corr/C20.v) and not yet proved. *)
Definition C20_agreement_statement : Prop :=
  forall (g : mg nat) a b C, wf g -> is_acyclic g = true -> In a (nodes g) -> In b (nodes g) -> a <> b ->
     incl C (nodes g) -> ~ In a C -> ~ In b C ->
     are_sigma_separated false g a b C = d_separated_spec g a b C.

(* the verdict is symmetric in the two nodes: every mixed graph, cyclic or not, every conditioning set *)
Theorem C20_symmetric (g : mg nat) a b C : are_sigma_separated false g a b C = are_sigma_separated false g b a C.
Proof. exact (sigma_symmetric false g C a b). Qed.

Theorem C20_adjacent_nodes_are_never_separated (g : mg nat) a b C :
  In a (nodes g) -> a <> b ->
  (In (a, b) (dir g) \/ In (b, a) (dir g) \/ In (a, b) (bid g) \/ In (b, a) (bid g)) ->
  ~ In a C -> ~ In b C -> are_sigma_separated false g a b C = false.
Proof. exact (sigma_adjacent_not_separated false g a b C). Qed.

Theorem C20_old_code_refuted_collider_with_distant_conditioned_descendant :
  exists (g : mg nat) a b C, is_acyclic g = true /\
    are_sigma_separated true g a b C = true /\ d_separated_spec g a b C = false.
Proof. exact sigma_old_refuted_deep_collider. Qed.

Theorem C20_old_code_refuted_bow :
  exists (g : mg nat) a b C, is_acyclic g = true /\
    are_sigma_separated true g a b C = true /\ d_separated_spec g a b C = false.
Proof. exact sigma_old_refuted_bow. Qed.

Print Assumptions C20_symmetric.
Print Assumptions C20_adjacent_nodes_are_never_separated.
Print Assumptions C20_old_code_refuted_collider_with_distant_conditioned_descendant.
Print Assumptions C20_old_code_refuted_bow.
