(* C12 - Printing and parsing are inverse and printing is unambiguous. *)
From Coq Require Import List Bool String Ascii QArith.
From Y0 Require Import Base.ListSet Dsl.Syntax Dsl.Tok Dsl.Build Dsl.Print Dsl.Parse Proofs.DslP Proofs.RoundTripBounded Dsl.Sem Proofs.TokenizeP Proofs.ParseP Proofs.EvalP Proofs.EvalSemP Proofs.BuiltP Proofs.BuiltP2 Proofs.BuiltP3.
Import ListNotations.
Close Scope Q_scope.
Open Scope string_scope.

(* Full statement of the object-equality clause (kept visible). Proved below (C12_round_trip) with [wf_rt] - operator normal form - in place of
   'built through the public operators'; that every expression the operators build is in that normal form is shown on the bounded family only. *)
Definition C12_statement : Prop :=
  forall e, is_err e = false -> simple_div false e = true ->
    parse_y0 (to_y0 e) = e /\ to_y0 (parse_y0 (to_y0 e)) = to_y0 e.

(* PRINTING IS UNAMBIGUOUS, proved for every expression (any size, any nesting):
   (lexical layer) the tokenizer reads the printed text back as exactly the tokens the printer emitted, for every expression over
   the harness alphabet [names_ok] - error values included;
   (syntactic layer) Python's expression grammar - as modelled by the precedence parser of Dsl/Parse.v: "|" lowest, then
   left-associative * / @, then unary + - ~, then calls and subscripts - reads those tokens as the operator tree [ast_of e] the
   printer means: factors of a product chained to the left, a fraction as numerator / denominator with a product denominator
   bracketed, sums, subscripts and argument lists nested as printed. [printable]: no error value inside, every term has a child,
   products are non-empty and flat. The parser's fuel (4 * tokens + 8) is shown sufficient. *)
Theorem C12_tokenizer_reads_back_the_printed_tokens e :
  names_ok e = true -> tokenize (to_y0 e) = map snd (toks e).
Proof. exact (tokenize_to_y0 e). Qed.

Theorem C12_printed_text_parses_to_the_intended_tree e :
  names_ok e = true -> printable e = true -> parse_ast (to_y0 e) = Some (ast_of e).
Proof. exact (parse_printed e). Qed.

(* not vacuous: Sum[B](P(A | B) * P(B)) / (P(C) * P(D @ -A)) is printable, and its tree divides the sum by the bracketed product *)
Example C12_parse_not_vacuous :
  let e := EFrac (ESum (EProd [EProb None [V 0] [V 1]; EProb None [V 1] []]) [V 1])
                 (EProd [EProb None [V 2] []; EProb None [mkVar KCf 3 None [(0, false)]] []]) in
  names_ok e = true /\ printable e = true /\
  exists s p, ast_of e = ABin "/"%char (ACall s [ABin "*"%char (ACall (AName "P") [ABin "|"%char (AName "A") (AName "B")]) (ACall (AName "P") [AName "B"])]) p.
Proof. cbv zeta. split; [reflexivity|]. split; [reflexivity|]. eexists. eexists. vm_compute. reflexivity. Qed.

(* THE MEANING CLAUSE, unbounded: for every printable expression over well-formed terms [wf_sem] - ANY nesting of products, sums and
   divisions: fractions of fractions, fractions as factors of products, unsorted products, constants - parsing the printed form
   yields [reparse e], the object obtained by applying y0's overloaded operators along the printed tree, and that object denotes the
   same function of the distribution and of the variables' values as e, in every model (eval over Q, Dsl/Sem.v; an exception raised
   while re-building - only possible when a re-built denominator is Zero - is an [EErr] value and denotes 0, as does x / 0 in Q). *)
Theorem C12_parsed_text_means_what_the_object_means e :
  wf_sem e = true ->
  parse_y0 (to_y0 e) = reparse e /\ forall m r, (eval m (parse_y0 (to_y0 e)) r == eval m e r)%Q.
Proof. exact (parse_meaning e). Qed.

(* ... and the public operators keep expressions well formed: whatever is obtained from well-formed terms by *, / and Sum[...] (any
   number of times, in any nesting) without an operator raising is well formed, so the meaning clause holds of every expression so built.
   [built] starts from arbitrary well-formed expressions; the plain builder P(X1, .., Xn) / PP[pop](..) is shown to give one. *)
Theorem C12_operator_built_expressions_parse_to_the_same_meaning e :
  built e -> is_err e = false ->
  parse_y0 (to_y0 e) = reparse e /\ forall m r, (eval m (parse_y0 (to_y0 e)) r == eval m e r)%Q.
Proof. exact (built_parse_meaning e). Qed.

Theorem C12_joint_builder_gives_wellformed_terms pop pre :
  match pop with Some p => wfvar p = true | None => True end -> forallb wfvar pre = true -> pre <> [] ->
  wf_sem (prob_safe pop pre None [] None) = true.
Proof. exact (wf_prob_joint pop pre). Qed.

(* the conditional builder P(pre.., c.. | p.., post..) on well-formed, pairwise distinct children and parents *)
Theorem C12_conditional_builder_gives_wellformed_terms pop pre c p post :
  match pop with Some q => wfvar q = true | None => True end ->
  forallb wfvar (pre ++ c) = true -> forallb wfvar (p ++ post) = true ->
  NoDup (pre ++ c) -> NoDup (p ++ post) -> c <> [] ->
  wf_sem (prob_safe pop pre (Some (c, p)) post None) = true.
Proof. exact (wf_prob_conditional pop pre c p post). Qed.

(* the interventional builder P[x1, .., xk](...) on variables that carry no interventions yet: whenever it does not raise, the term is well formed *)
Theorem C12_interventional_builder_gives_wellformed_terms pop pre c p post ivs :
  match pop with Some q => wfvar q = true | None => True end ->
  forallb flat_var (pre ++ c) = true -> forallb flat_var (p ++ post) = true -> forallb flat_var ivs = true ->
  NoDup (map (fun v => (vn v, vs v)) (pre ++ c)) -> NoDup (map (fun v => (vn v, vs v)) (p ++ post)) -> c <> [] ->
  is_err (prob_safe pop pre (Some (c, p)) post (Some ivs)) = false ->
  wf_sem (prob_safe pop pre (Some (c, p)) post (Some ivs)) = true.
Proof. exact (wf_prob_interventional pop pre c p post ivs). Qed.

Example C12_interventional_builder_not_vacuous :
  is_err (prob_safe None [] (Some ([V 0; V 3], [V 2])) [] (Some [V 1; V 4])) = false /\
  wf_sem (prob_safe None [] (Some ([V 0; V 3], [V 2])) [] (Some [V 1; V 4])) = true.
Proof. vm_compute. auto. Qed.

(* not vacuous: ((P(A) / P(B)) / (P(C) / P(A))) * Sum[B](P(A | B)) - a fraction of fractions as a factor of a product *)
Example C12_meaning_not_vacuous :
  let pA := EProb None [V 0] [] in let pB := EProb None [V 1] [] in let pC := EProb None [V 2] [] in
  let e := EProd [EFrac (EFrac pA pB) (EFrac pC pA); ESum (EProb None [V 0] [V 1]) [V 1]] in
  wf_sem e = true /\ wf_rt e = false /\ parse_y0 (to_y0 e) <> e /\ is_err (parse_y0 (to_y0 e)) = false.
Proof. vm_compute. repeat split; try reflexivity. discriminate. Qed.

(* THE OBJECT-EQUALITY CLAUSE, unbounded: for every expression in operator normal form [wf_rt] - what the public operators build:
   terms (long form P(..) and short form P[interventions](..), plain or population-tagged) with sorted duplicate-free children and
   parents over plain variables, values (+X / -X) and counterfactual variables with a normalised intervention set; sorted products
   of >= 2 terms / sums / Q factors; sums over sorted plain variables; divisions with division-free, non-constant operands that are
   not factors of a product (exactly the condition of the property) - parsing the printed form gives back the object, which prints
   to the same text. All three layers compose: tokenizer, precedence parser, evaluation of y0's overloaded operators along the tree.
   [wf_rt] holds of every member of the bounded family below that satisfies the property's condition (C12_normal_form_covers_the_family). *)
Theorem C12_round_trip e :
  wf_rt e = true -> parse_y0 (to_y0 e) = e /\ to_y0 (parse_y0 (to_y0 e)) = to_y0 e.
Proof. exact (round_trip e). Qed.

(* not vacuous: Sum[B](P(A | B) * P(B)) / PP[S](C, +D, E @ (-A, +B))  and the short form  P[A, +B](C | -D) *)
Example C12_round_trip_not_vacuous :
  wf_rt (EFrac (ESum (EProd [EProb None [V 0] [V 1]; EProb None [V 1] []]) [V 1])
               (EProb (Some (V 16)) [V 2; mkVar KIv 3 (Some true) []; mkVar KCf 4 None [(0, false); (1, true)]] [])) = true /\
  wf_rt (EProb None [mkVar KCf 2 None [(0, false); (1, true)]] [mkVar KCf 3 (Some false) [(0, false); (1, true)]]) = true /\
  to_y0 (EProb None [mkVar KCf 2 None [(0, false); (1, true)]] [mkVar KCf 3 (Some false) [(0, false); (1, true)]]) = "P[A,+B](C | -D)".
Proof. vm_compute. auto. Qed.

Theorem C12_normal_form_covers_the_family :
  forall e, In e family -> is_err e = false -> simple_div false e = true -> wf_rt e = true.
Proof.
  assert (H : forallb (fun e => implb (negb (is_err e) && simple_div false e) (wf_rt e)) family = true) by (vm_compute; reflexivity).
  intros e He Hn Hs. rewrite forallb_forall in H. specialize (H e He). rewrite Hn, Hs in H. exact H.
Qed.

Theorem C12_product_denominator_is_bracketed n ds :
  to_y0 (EFrac n (EProd ds)) = "((" ++ to_y0 n ++ " / " ++ ("(" ++ to_y0 (EProd ds) ++ ")") ++ "))".
Proof. exact (product_denominator_is_bracketed n ds). Qed.

Theorem C12_old_printer_refuted :
  parse_y0 (to_y0_old (EFrac pA (EProd [pB; pC]))) = EFrac (EProd [pA; pC]) pB.
Proof. exact old_printer_ambiguous. Qed.

(* bounded: the 11412 expressions generated from 12 atoms by two rounds of the public operators *)
Theorem C12_round_trip_partial_bounded :
  forall e, In e family ->
    is_err (parse_y0 (to_y0 e)) = false /\
    (simple_div false e = true -> parse_y0 (to_y0 e) = e /\ to_y0 (parse_y0 (to_y0 e)) = to_y0 e).
Proof. exact round_trip_bounded. Qed.

Print Assumptions C12_tokenizer_reads_back_the_printed_tokens.
Print Assumptions C12_printed_text_parses_to_the_intended_tree.
Print Assumptions C12_parsed_text_means_what_the_object_means.
Print Assumptions C12_operator_built_expressions_parse_to_the_same_meaning.
Print Assumptions C12_joint_builder_gives_wellformed_terms.
Print Assumptions C12_conditional_builder_gives_wellformed_terms.
Print Assumptions C12_interventional_builder_gives_wellformed_terms.
Print Assumptions C12_round_trip.
Print Assumptions C12_normal_form_covers_the_family.
Print Assumptions C12_product_denominator_is_bracketed.
Print Assumptions C12_old_printer_refuted.
Print Assumptions C12_round_trip_partial_bounded.
