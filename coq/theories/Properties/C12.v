(* C12 - Printing and parsing are inverse and printing is unambiguous. *)
From Coq Require Import List Bool String.
From Y0 Require Import Base.ListSet Dsl.Syntax Dsl.Build Dsl.Print Dsl.Parse Proofs.DslP Proofs.RoundTripBounded.
Import ListNotations.
Open Scope string_scope.

(* Full statement of the object-equality clause (kept visible); proved below on a finite family only. *)
Definition C12_statement : Prop :=
  forall e, is_err e = false -> simple_div false e = true ->
    parse_y0 (to_y0 e) = e /\ to_y0 (parse_y0 (to_y0 e)) = to_y0 e.

Theorem C12_product_denominator_is_bracketed n ds :
  to_y0 (EFrac n (EProd ds)) = "((" ++ to_y0 n ++ " / " ++ ("(" ++ to_y0 (EProd ds) ++ ")") ++ "))".
Proof. exact (product_denominator_is_bracketed n ds). Qed.

Theorem C12_old_printer_refuted :
  parse_y0 (to_y0_old (EFrac pA (EProd [pB; pC]))) = EFrac (EProd [pA; pC]) pB.
Proof. exact old_printer_ambiguous. Qed.

(* bounded: the 11412 expressions generated from 12 atoms by two rounds of the public operators *)
Theorem C12_round_trip_partial_bounded :
  forall e, In e family ->
    is_err (parse_y0 (to_y0 e)) = false /\
    (simple_div false e = true -> parse_y0 (to_y0 e) = e /\ to_y0 (parse_y0 (to_y0 e)) = to_y0 e).
Proof. exact round_trip_bounded. Qed.

Print Assumptions C12_product_denominator_is_bracketed.
Print Assumptions C12_old_printer_refuted.
Print Assumptions C12_round_trip_partial_bounded.
