(* C14 - Mixed-graph surgery operations meet their set-theoretic definitions.
   This file contains only statements closed by [exact]; the proofs live in Proofs/. *)
From Coq Require Import List Relations.
From Coq Require Import Permutation.
From Y0 Require Import Base.ListSet Graph.Closure Graph.MixedGraph Graph.Paths Proofs.ClosureP Proofs.SurgeryP Proofs.DistrictsP Proofs.KahnP Proofs.KahnSoundP
  Proofs.MSepPathP Proofs.PathsNodesP.
Import ListNotations.

Section C14.
  Context {A : Type} `{EqB A}.
  Notation mg := (mg A).

  Theorem C14_subgraph (g : mg) S :
    (forall v, In v (nodes (subgraph g S)) <-> In v S) /\
    (forall u v, In (u, v) (dir (subgraph g S)) <-> In (u, v) (dir g) /\ In u S /\ In v S) /\
    (forall u v, In (u, v) (bid (subgraph g S)) <-> In (u, v) (bid g) /\ In u S /\ In v S).
  Proof. exact (conj (subgraph_nodes g S) (conj (subgraph_dir g S) (subgraph_bid g S))). Qed.

  Theorem C14_remove_in_edges (g : mg) S : wf g ->
    (forall v, In v (nodes (remove_in_edges g S)) <-> In v (nodes g)) /\
    (forall u v, In (u, v) (dir (remove_in_edges g S)) <-> In (u, v) (dir g) /\ ~ In v S) /\
    (forall u v, In (u, v) (bid (remove_in_edges g S)) <-> In (u, v) (bid g) /\ ~ In u S /\ ~ In v S).
  Proof.
    exact (fun W => conj (fun v => remove_in_edges_nodes g S v W)
                         (conj (remove_in_edges_dir g S) (remove_in_edges_bid g S))).
  Qed.

  Theorem C14_remove_out_edges (g : mg) S : wf g ->
    (forall v, In v (nodes (remove_out_edges g S)) <-> In v (nodes g)) /\
    (forall u v, In (u, v) (dir (remove_out_edges g S)) <-> In (u, v) (dir g) /\ ~ In u S) /\
    (forall e, In e (bid (remove_out_edges g S)) <-> In e (bid g)).
  Proof.
    exact (fun W => conj (fun v => remove_out_edges_nodes g S v W)
                         (conj (remove_out_edges_dir g S) (remove_out_edges_bid g S))).
  Qed.

  Theorem C14_remove_nodes_from (g : mg) S : wf g ->
    (forall v, In v (nodes (remove_nodes_from g S)) <-> In v (nodes g) /\ ~ In v S) /\
    (forall u v, In (u, v) (dir (remove_nodes_from g S)) <-> In (u, v) (dir g) /\ ~ In u S /\ ~ In v S) /\
    (forall u v, In (u, v) (bid (remove_nodes_from g S)) <-> In (u, v) (bid g) /\ ~ In u S /\ ~ In v S).
  Proof.
    exact (fun W => conj (fun v => remove_nodes_from_nodes g S v W)
                         (conj (remove_nodes_from_dir g S) (remove_nodes_from_bid g S))).
  Qed.

  Theorem C14_results_well_formed (g : mg) S :
    wf (subgraph g S) /\ wf (remove_in_edges g S) /\ wf (remove_out_edges g S) /\ wf (remove_nodes_from g S).
  Proof. exact (conj (wf_from_edges _ _ _) (conj (wf_from_edges _ _ _) (conj (wf_from_edges _ _ _) (wf_from_edges _ _ _)))). Qed.

  Theorem C14_ancestors_inclusive (g : mg) S v :
    In v (ancestors_inclusive g S) <-> exists s, In s S /\ clos_refl_trans A (fun a b => In (a, b) (dir g)) v s.
  Proof. exact (ancestors_inclusive_spec g S v). Qed.

  Theorem C14_descendants_inclusive (g : mg) S v :
    In v (descendants_inclusive g S) <-> exists s, In s S /\ clos_refl_trans A (fun a b => In (a, b) (dir g)) s v.
  Proof. exact (descendants_inclusive_spec g S v). Qed.

  Theorem C14_districts_partition (g : mg) :
    (forall v, In v (nodes g) -> exists D, In D (districts g) /\ In v D) /\
    ForallOrdPairs (fun D1 D2 => forall v, In v D1 -> ~ In v D2) (districts g) /\
    (forall D u v, In D (districts g) -> In u D ->
       (In v D <-> clos_refl_trans A (fun a b => In (a, b) (bid g) \/ In (b, a) (bid g)) u v)).
  Proof.
    exact (districts_partition g).
  Qed.

  Theorem C14_districts_within_nodes (g : mg) D : wf g -> In D (districts g) -> incl D (nodes g).
  Proof. exact (districts_within_nodes g D). Qed.

  Theorem C14_markov_pillow (g : mg) S u :
    In u (get_markov_pillow g S) <-> (exists s, In s S /\ In (u, s) (dir g)) /\ ~ In u S.
  Proof. exact (get_markov_pillow_spec g S u). Qed.

  Theorem C14_markov_blanket (g : mg) S u :
    In u (get_markov_blanket g S) <->
    (exists s, In s S /\ (In (u, s) (dir g) \/ In (s, u) (dir g) \/ exists c, In (s, c) (dir g) /\ In (u, c) (dir g)))
    /\ ~ In u S.
  Proof. exact (get_markov_blanket_spec g S u). Qed.

  Theorem C14_moralize (g : mg) :
    nodes (moralize g) = nodes g /\ dir (moralize g) = dir g /\
    (forall e, In e (bid g) -> In e (bid (moralize g))) /\
    (forall u v, In (u, v) (bid (moralize g)) ->
       In (u, v) (bid g) \/ exists c, In c (nodes g) /\ In (u, c) (dir g) /\ In (v, c) (dir g)) /\
    (forall u v c, In c (nodes g) -> In (u, c) (dir g) -> In (v, c) (dir g) -> u <> v ->
       In (u, v) (bid (moralize g)) \/ In (v, u) (bid (moralize g))).
  Proof.
    exact (conj eq_refl (conj eq_refl (conj (moralize_keeps_bid g) (conj (moralize_bid_sound g) (moralize_bid_complete g))))).
  Qed.

  Theorem C14_pre (order S : list A) :
    exists rest, order = pre_of order S ++ rest /\ (forall x, In x (pre_of order S) -> ~ In x S) /\
                 (rest = [] \/ exists h t, rest = h :: t /\ In h S).
  Proof. exact (pre_of_spec order S). Qed.

  Theorem C14_is_topo (g : mg) order :
    is_topo g order = true <->
    NoDup order /\ set_equiv order (nodes g) /\
    forall u v, In (u, v) (dir g) -> exists i j, index_of u order = Some i /\ index_of v order = Some j /\ i < j.
  Proof. exact (is_topo_spec g order). Qed.

  (* the model's own topological sort (Kahn): an answer enumerates the nodes once each with every edge pointing forward;
     a graph with a self-loop or a 2-cycle gets no answer *)
  Theorem C14_topological_sort_is_sound (g : mg) o :
    NoDup (nodes g) -> topological_sort g = Some o ->
    Permutation (nodes g) o /\ forall u v, In (u, v) (dir g) -> In u (nodes g) -> In v (nodes g) -> before o u v.
  Proof. exact (topological_sort_sound g o). Qed.

  Theorem C14_acyclicity_test_rejects_short_cycles (g : mg) :
    wf g -> is_acyclic g = true -> forall u v, In (u, v) (dir g) -> ~ In (v, u) (dir g).
  Proof. exact (acyclic_no_2cycle g). Qed.
End C14.

(* the pinned tree before the repair violated the node clause *)
Theorem C14_remove_in_edges_old_refuted :
  exists (g : mg nat) S v, wf g /\ In v (nodes g) /\ ~ In v (nodes (remove_in_edges_old g S)).
Proof. exact remove_in_edges_old_refuted. Qed.

(* get_nodes_in_directed_paths. On a graph the acyclicity test accepts, the result is the set of nodes on a directed walk with at least one edge from
   a source to a target (in a DAG walks are paths; note that a source that is also a target does not count by itself). Otherwise it is the set
   of nodes of the enumerated simple directed paths - and the enumeration is sound (every enumerated path starts at the source, ends at the target
   and follows directed edges) and complete (every duplicate-free directed path from source to target no longer than the node list is enumerated). *)
Theorem C14_nodes_in_directed_paths (g : mg nat) srcs tgts n :
  In n (get_nodes_in_directed_paths g srcs tgts) <->
  if is_acyclic g
  then exists s t, In s srcs /\ In t tgts /\ ((In n (nodes g) /\ tc g s n /\ tc g n t) \/ (tc g s t /\ (n = s \/ n = t)))
  else exists s t p, In s srcs /\ In t tgts /\ In p (all_simple_paths_dir (nodes g) (dir g) s t) /\ In n p.
Proof.
  unfold get_nodes_in_directed_paths. destruct (is_acyclic g); [apply dag_branch_spec|].
  unfold nodes_in_directed_paths_cyclic. rewrite In_dedup, in_flat_map. split.
  - intros [s [Hs H]]. apply in_flat_map in H. destruct H as [t [Ht H]]. apply in_concat in H. destruct H as [p [Hp Hn]]. exists s, t, p. auto.
  - intros [s [t [p [Hs [Ht [Hp Hn]]]]]]. exists s. split; [exact Hs|]. apply in_flat_map. exists t. split; [exact Ht|]. apply in_concat. eauto.
Qed.

Theorem C14_enumerated_directed_paths_are_paths (g : mg nat) s t p : In p (all_simple_paths_dir (nodes g) (dir g) s t) ->
  (exists rest, p = s :: rest) /\ last_is t p /\ chainA (out_adj (dir g)) p.
Proof. exact (enumerated_paths_are_simple g s t p). Qed.

Theorem C14_simple_directed_paths_are_enumerated (g : mg nat) s t p : simple_path g s t p -> length p <= S (length (nodes g)) ->
  In p (all_simple_paths_dir (nodes g) (dir g) s t).
Proof. exact (simple_paths_are_enumerated g s t p). Qed.

Print Assumptions C14_subgraph.
Print Assumptions C14_nodes_in_directed_paths.
Print Assumptions C14_enumerated_directed_paths_are_paths.
Print Assumptions C14_simple_directed_paths_are_enumerated.
Print Assumptions C14_remove_in_edges.
Print Assumptions C14_remove_out_edges.
Print Assumptions C14_remove_nodes_from.
Print Assumptions C14_results_well_formed.
Print Assumptions C14_ancestors_inclusive.
Print Assumptions C14_descendants_inclusive.
Print Assumptions C14_districts_partition.
Print Assumptions C14_districts_within_nodes.
Print Assumptions C14_markov_pillow.
Print Assumptions C14_markov_blanket.
Print Assumptions C14_moralize.
Print Assumptions C14_pre.
Print Assumptions C14_is_topo.
Print Assumptions C14_topological_sort_is_sound.
Print Assumptions C14_acyclicity_test_rejects_short_cycles.
Print Assumptions C14_remove_in_edges_old_refuted.
