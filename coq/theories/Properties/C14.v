(* C14 - Mixed-graph surgery operations meet their set-theoretic definitions.
   This file contains only statements closed by [exact]; the proofs live in Proofs/. *)
From Coq Require Import List Relations.
From Coq Require Import Permutation.
From Y0 Require Import Base.ListSet Graph.Closure Graph.MixedGraph Proofs.ClosureP Proofs.SurgeryP Proofs.DistrictsP Proofs.KahnP Proofs.KahnSoundP.
Import ListNotations.

Section C14.
  Context {A : Type} `{EqB A}.
  Notation mg := (mg A).

  Theorem C14_subgraph (g : mg) S :
    (forall v, In v (nodes (subgraph g S)) <-> In v S) /\
    (forall u v, In (u, v) (dir (subgraph g S)) <-> In (u, v) (dir g) /\ In u S /\ In v S) /\
    (forall u v, In (u, v) (bid (subgraph g S)) <-> In (u, v) (bid g) /\ In u S /\ In v S).
  Proof. exact (conj (subgraph_nodes g S) (conj (subgraph_dir g S) (subgraph_bid g S))). Qed.

  Theorem C14_remove_in_edges (g : mg) S : wf g ->
    (forall v, In v (nodes (remove_in_edges g S)) <-> In v (nodes g)) /\
    (forall u v, In (u, v) (dir (remove_in_edges g S)) <-> In (u, v) (dir g) /\ ~ In v S) /\
    (forall u v, In (u, v) (bid (remove_in_edges g S)) <-> In (u, v) (bid g) /\ ~ In u S /\ ~ In v S).
  Proof.
    exact (fun W => conj (fun v => remove_in_edges_nodes g S v W)
                         (conj (remove_in_edges_dir g S) (remove_in_edges_bid g S))).
  Qed.

  Theorem C14_remove_out_edges (g : mg) S : wf g ->
    (forall v, In v (nodes (remove_out_edges g S)) <-> In v (nodes g)) /\
    (forall u v, In (u, v) (dir (remove_out_edges g S)) <-> In (u, v) (dir g) /\ ~ In u S) /\
    (forall e, In e (bid (remove_out_edges g S)) <-> In e (bid g)).
  Proof.
    exact (fun W => conj (fun v => remove_out_edges_nodes g S v W)
                         (conj (remove_out_edges_dir g S) (remove_out_edges_bid g S))).
  Qed.

  Theorem C14_remove_nodes_from (g : mg) S : wf g ->
    (forall v, In v (nodes (remove_nodes_from g S)) <-> In v (nodes g) /\ ~ In v S) /\
    (forall u v, In (u, v) (dir (remove_nodes_from g S)) <-> In (u, v) (dir g) /\ ~ In u S /\ ~ In v S) /\
    (forall u v, In (u, v) (bid (remove_nodes_from g S)) <-> In (u, v) (bid g) /\ ~ In u S /\ ~ In v S).
  Proof.
    exact (fun W => conj (fun v => remove_nodes_from_nodes g S v W)
                         (conj (remove_nodes_from_dir g S) (remove_nodes_from_bid g S))).
  Qed.

  Theorem C14_results_well_formed (g : mg) S :
    wf (subgraph g S) /\ wf (remove_in_edges g S) /\ wf (remove_out_edges g S) /\ wf (remove_nodes_from g S).
  Proof. exact (conj (wf_from_edges _ _ _) (conj (wf_from_edges _ _ _) (conj (wf_from_edges _ _ _) (wf_from_edges _ _ _)))). Qed.

  Theorem C14_ancestors_inclusive (g : mg) S v :
    In v (ancestors_inclusive g S) <-> exists s, In s S /\ clos_refl_trans A (fun a b => In (a, b) (dir g)) v s.
  Proof. exact (ancestors_inclusive_spec g S v). Qed.

  Theorem C14_descendants_inclusive (g : mg) S v :
    In v (descendants_inclusive g S) <-> exists s, In s S /\ clos_refl_trans A (fun a b => In (a, b) (dir g)) s v.
  Proof. exact (descendants_inclusive_spec g S v). Qed.

  Theorem C14_districts_partition (g : mg) :
    (forall v, In v (nodes g) -> exists D, In D (districts g) /\ In v D) /\
    ForallOrdPairs (fun D1 D2 => forall v, In v D1 -> ~ In v D2) (districts g) /\
    (forall D u v, In D (districts g) -> In u D ->
       (In v D <-> clos_refl_trans A (fun a b => In (a, b) (bid g) \/ In (b, a) (bid g)) u v)).
  Proof.
    exact (districts_partition g).
  Qed.

  Theorem C14_districts_within_nodes (g : mg) D : wf g -> In D (districts g) -> incl D (nodes g).
  Proof. exact (districts_within_nodes g D). Qed.

  Theorem C14_markov_pillow (g : mg) S u :
    In u (get_markov_pillow g S) <-> (exists s, In s S /\ In (u, s) (dir g)) /\ ~ In u S.
  Proof. exact (get_markov_pillow_spec g S u). Qed.

  Theorem C14_markov_blanket (g : mg) S u :
    In u (get_markov_blanket g S) <->
    (exists s, In s S /\ (In (u, s) (dir g) \/ In (s, u) (dir g) \/ exists c, In (s, c) (dir g) /\ In (u, c) (dir g)))
    /\ ~ In u S.
  Proof. exact (get_markov_blanket_spec g S u). Qed.

  Theorem C14_moralize (g : mg) :
    nodes (moralize g) = nodes g /\ dir (moralize g) = dir g /\
    (forall e, In e (bid g) -> In e (bid (moralize g))) /\
    (forall u v, In (u, v) (bid (moralize g)) ->
       In (u, v) (bid g) \/ exists c, In c (nodes g) /\ In (u, c) (dir g) /\ In (v, c) (dir g)) /\
    (forall u v c, In c (nodes g) -> In (u, c) (dir g) -> In (v, c) (dir g) -> u <> v ->
       In (u, v) (bid (moralize g)) \/ In (v, u) (bid (moralize g))).
  Proof.
    exact (conj eq_refl (conj eq_refl (conj (moralize_keeps_bid g) (conj (moralize_bid_sound g) (moralize_bid_complete g))))).
  Qed.

  Theorem C14_pre (order S : list A) :
    exists rest, order = pre_of order S ++ rest /\ (forall x, In x (pre_of order S) -> ~ In x S) /\
                 (rest = [] \/ exists h t, rest = h :: t /\ In h S).
  Proof. exact (pre_of_spec order S). Qed.

  Theorem C14_is_topo (g : mg) order :
    is_topo g order = true <->
    NoDup order /\ set_equiv order (nodes g) /\
    forall u v, In (u, v) (dir g) -> exists i j, index_of u order = Some i /\ index_of v order = Some j /\ i < j.
  Proof. exact (is_topo_spec g order). Qed.

  (* the model's own topological sort (Kahn): an answer enumerates the nodes once each with every edge pointing forward;
     a graph with a self-loop or a 2-cycle gets no answer *)
  Theorem C14_topological_sort_is_sound (g : mg) o :
    NoDup (nodes g) -> topological_sort g = Some o ->
    Permutation (nodes g) o /\ forall u v, In (u, v) (dir g) -> In u (nodes g) -> In v (nodes g) -> before o u v.
  Proof. exact (topological_sort_sound g o). Qed.

  Theorem C14_acyclicity_test_rejects_short_cycles (g : mg) :
    wf g -> is_acyclic g = true -> forall u v, In (u, v) (dir g) -> ~ In (v, u) (dir g).
  Proof. exact (acyclic_no_2cycle g). Qed.
End C14.

(* the pinned tree before the repair violated the node clause *)
Theorem C14_remove_in_edges_old_refuted :
  exists (g : mg nat) S v, wf g /\ In v (nodes g) /\ ~ In v (nodes (remove_in_edges_old g S)).
Proof. exact remove_in_edges_old_refuted. Qed.

Print Assumptions C14_subgraph.
Print Assumptions C14_remove_in_edges.
Print Assumptions C14_remove_out_edges.
Print Assumptions C14_remove_nodes_from.
Print Assumptions C14_results_well_formed.
Print Assumptions C14_ancestors_inclusive.
Print Assumptions C14_descendants_inclusive.
Print Assumptions C14_districts_partition.
Print Assumptions C14_districts_within_nodes.
Print Assumptions C14_markov_pillow.
Print Assumptions C14_markov_blanket.
Print Assumptions C14_moralize.
Print Assumptions C14_pre.
Print Assumptions C14_is_topo.
Print Assumptions C14_topological_sort_is_sound.
Print Assumptions C14_acyclicity_test_rejects_short_cycles.
Print Assumptions C14_remove_in_edges_old_refuted.
