(* C07 - ID-star estimands equal the probability of the counterfactual event. *)
From Coq Require Import List Bool.
From Y0 Require Import Base.ListSet Graph.MixedGraph Dsl.Syntax Dsl.Build Alg.Id Alg.Cg Alg.IdStar Proofs.CfP.
Import ListNotations.

(* The property is VIOLATED by the pinned implementation (known findings C07/*, DESIGN.md section 6): the faithful
   model reproduces the wrong values the oracle finds. A Coq refutation needs the functional-SCM semantics (planned).
   Proved on the model so far: the entry cases. *)
Theorem C07_empty_event_has_probability_one g topo fuel : id_star g topo (S fuel) [] = [IdOk EOne].
Proof. exact (id_star_empty_event g topo fuel). Qed.

Theorem C07_zero_for_events_violating_effectiveness g topo fuel ev :
  ev <> [] -> violates_axiom_of_effectiveness ev = true -> id_star g topo (S fuel) ev = [IdOk EZero].
Proof. exact (id_star_effectiveness_gives_zero g topo fuel ev). Qed.

Print Assumptions C07_empty_event_has_probability_one.
Print Assumptions C07_zero_for_events_violating_effectiveness.
