(* C07 - ID-star estimands equal the probability of the counterfactual event. *)
From Coq Require Import List Bool Arith.
From Y0 Require Import Base.ListSet Graph.MixedGraph Dsl.Syntax Dsl.Build Alg.Id Alg.Cg Alg.IdStar Proofs.CfP
  Sem.Scm Sem.CfSem Proofs.CgSemP Proofs.CgSem5P Proofs.StarSemP.
Import ListNotations.

(* The property is VIOLATED by the pinned implementation (known findings C07/*, DESIGN.md section 6): the faithful model reproduces the wrong
   answers the oracle finds. The clause 'it returns zero only for events that have probability zero in every compatible model' is REFUTED below by a
   machine-checked counter-model (semantics: Sem/Scm.v). What IS sound, and is proved against the same semantics for every input: the three places
   where ID* answers zero or drops a conjunct before the recursion over districts. *)
Theorem C07_zero_only_for_impossible_events_refuted :
  exists (g0 : mg nat) (topo : list nat) (ev : event) (f : nat -> (nat -> bool) -> unit -> bool) (rho : nat * bool -> bool),
    local g0 unit f /\ is_topo g0 topo = true /\ (forall n, rho (n, false) <> rho (n, true)) /\
    id_star g0 topo (S (4 * length (nodes g0))) ev = [IdOk EZero] /\ event_true unit f rho topo ev tt = true.
Proof.
  (* C -> B, C -> A, B -> A, A <-> B; event { B = +b, A_{B = -b} = -a }; model B := +b, A := B *)
  exists (MG [2; 1; 0] [(2, 1); (2, 0); (1, 0)] [(0, 1)]), [2; 1; 0], [(V 1, (1, true)); (mkVar KCf 0 None [(1, false)], (0, false))],
         (fun v x _ => match v with 1 => true | 0 => x 1 | _ => false end), (fun i => snd i).
  split; [|split; [vm_compute; reflexivity|split; [intros n; cbn; discriminate|split; vm_compute; reflexivity]]].
  intros v x x' u Hp. destruct v as [|[|v]]; try reflexivity. apply Hp. vm_compute. auto.
Qed.

(* line 2: an event one of whose conjuncts contradicts its own subscript is true at no exogenous state of any model *)
Theorem C07_events_violating_effectiveness_have_probability_zero (g0 : mg nat) (D : Type) `{EqB D} (U : Type) (f : nat -> (nat -> D) -> U -> D)
  (rho : nat * bool -> D) (order : list nat) ev u :
  (forall n, rho (n, false) <> rho (n, true)) -> local g0 U f -> is_topo g0 order = true -> event_ok g0 ev ->
  violates_axiom_of_effectiveness ev = true -> event_true U f rho order ev u = false.
Proof. intros Hr Hl Ho. exact (effectiveness_violation_never g0 U f rho Hr Hl order Ho ev u). Qed.

(* line 3: the conjuncts ID* drops (Y_{..y..} = y) are true at every state: the event keeps its truth everywhere *)
Theorem C07_dropped_conjuncts_hold_everywhere (g0 : mg nat) (D : Type) `{EqB D} (U : Type) (f : nat -> (nat -> D) -> U -> D)
  (rho : nat * bool -> D) (order : list nat) ev u :
  local g0 U f -> is_topo g0 order = true -> event_ok g0 ev ->
  event_true U f rho order (remove_event_tautologies ev) u = event_true U f rho order ev u.
Proof. intros Hl Ho. exact (tautologies_hold_everywhere g0 U f rho Hl order Ho ev u). Qed.

(* line 5: when make-cg reports an inconsistency (for whatever order of the worlds) the event is true at no state (C18) *)
Theorem C07_inconsistent_counterfactual_graph_means_probability_zero (g0 : mg nat) (D : Type) `{EqB D} (U : Type) (f : nat -> (nat -> D) -> U -> D)
  (rho : nat * bool -> D) (order : list nat) ev cf u :
  (forall n, rho (n, false) <> rho (n, true)) -> local g0 U f -> is_topo g0 order = true -> wf g0 -> (forall x, ~ In (x, x) (bid g0)) -> event_ok g0 ev ->
  In (cf, None) (make_counterfactual_graph_all (gv g0) ev (map V order)) -> event_true U f rho order ev u = false.
Proof. intros Hr Hl Ho Hw Hn He Hin. exact (cg_all_same_truth g0 U f rho Hr Hl order Ho Hw Hn ev cf None He Hin u). Qed.

(* Entry cases on the model: *)
Theorem C07_empty_event_has_probability_one g topo fuel : id_star g topo (S fuel) [] = [IdOk EOne].
Proof. exact (id_star_empty_event g topo fuel). Qed.

Theorem C07_zero_for_events_violating_effectiveness g topo fuel ev :
  ev <> [] -> violates_axiom_of_effectiveness ev = true -> id_star g topo (S fuel) ev = [IdOk EZero].
Proof. exact (id_star_effectiveness_gives_zero g topo fuel ev). Qed.

Print Assumptions C07_zero_only_for_impossible_events_refuted.
Print Assumptions C07_events_violating_effectiveness_have_probability_zero.
Print Assumptions C07_dropped_conjuncts_hold_everywhere.
Print Assumptions C07_inconsistent_counterfactual_graph_means_probability_zero.
Print Assumptions C07_empty_event_has_probability_one.
Print Assumptions C07_zero_for_events_violating_effectiveness.
