(* C09 - Counterfactual transport (ctfTRu / ctfTR) answers are correct. *)
From Coq Require Import List Bool.
From Y0 Require Import Base.ListSet Graph.MixedGraph Dsl.Syntax Dsl.Build Alg.Id Alg.Tian Alg.Cg Alg.CtfAnc Alg.CtfTr Proofs.CtfTrP
  Sem.Scm Sem.CfSem Proofs.SimplifySemP.
Import ListNotations.

(* Soundness is not proved, and the pinned implementation violates the property on some inputs (known findings
   C09/wrong-value, C09/crash/KeyError). Proved on the model for all inputs: *)
Theorem C09_unconditional_zero_exactly_when_SIMPLIFY_fails ev target domains :
  (exists e, transport_unconditional ev target domains = CftOk e None) <-> simplify ev target = SNone.
Proof. exact (uncond_zero_iff_simplify_fails ev target domains). Qed.

Theorem C09_unconditional_answer_without_event_is_zero ev target domains e :
  transport_unconditional ev target domains = CftOk e None -> e = EZero.
Proof. exact (uncond_zero_answer_is_zero ev target domains e). Qed.

(* 'it returns zero only for impossible events', against the formal SCM semantics (Sem/Scm.v), for events none of whose minimised variables is
   reflexive: when ctfTRu answers 'zero, no event', the queried event is true at no exogenous state of any functional SCM over the target graph -
   probability zero in every compatible target model. (With a reflexive conjunct Y_y the clause fails with SIMPLIFY: known finding, C19.) *)
Theorem C09_unconditional_zero_only_for_impossible_events (target : mg nat) (D : Type) `{EqB D} (U : Type) (f : nat -> (nat -> D) -> U -> D)
  (rho : nat * bool -> D) (order : list nat) (ev m : cevent) domains e u :
  (forall n, rho (n, false) <> rho (n, true)) -> local target U f -> is_topo target order = true ->
  minimized_of target ev = Some m -> (forall p, In p ev -> In (vn (fst p)) (nodes target)) -> (forall p, In p m -> is_reflexive (fst p) = false) -> cnamed ev ->
  transport_unconditional ev target domains = CftOk e None -> cevent_true U f rho order ev u = false.
Proof.
  intros Hd Hl Ho Hm Hn Hr Hc Ht. apply (simplify_impossible_never target U f rho Hd Hl order Ho u ev m Hm Hn Hr Hc).
  apply (proj1 (uncond_zero_iff_simplify_fails ev target domains)). exists e. exact Ht.
Qed.

Print Assumptions C09_unconditional_zero_exactly_when_SIMPLIFY_fails.
Print Assumptions C09_unconditional_zero_only_for_impossible_events.
Print Assumptions C09_unconditional_answer_without_event_is_zero.
