(* C09 - Counterfactual transport (ctfTRu / ctfTR) answers are correct. *)
From Coq Require Import List Bool.
From Y0 Require Import Base.ListSet Graph.MixedGraph Dsl.Syntax Dsl.Build Alg.Id Alg.Tian Alg.Cg Alg.CtfAnc Alg.CtfTr Proofs.CtfTrP.
Import ListNotations.

(* Soundness is not proved, and the pinned implementation violates the property on some inputs (known findings
   C09/wrong-value, C09/crash/KeyError). Proved on the model for all inputs: *)
Theorem C09_unconditional_zero_exactly_when_SIMPLIFY_fails ev target domains :
  (exists e, transport_unconditional ev target domains = CftOk e None) <-> simplify ev target = SNone.
Proof. exact (uncond_zero_iff_simplify_fails ev target domains). Qed.

Theorem C09_unconditional_answer_without_event_is_zero ev target domains e :
  transport_unconditional ev target domains = CftOk e None -> e = EZero.
Proof. exact (uncond_zero_answer_is_zero ev target domains e). Qed.

Print Assumptions C09_unconditional_zero_exactly_when_SIMPLIFY_fails.
Print Assumptions C09_unconditional_answer_without_event_is_zero.
