(* C01 - ID estimands equal the true interventional distribution. *)
From Coq Require Import List Bool.
From Y0 Require Import Base.ListSet Graph.MixedGraph Dsl.Syntax Dsl.Build Alg.Id Proofs.IdP Sem.Scm Proofs.IdSemP.
Import ListNotations.

(* The full soundness statement (the estimand evaluates to P(y | do(x)) in every compatible model) is NOT a theorem here: it needs a
   probabilistic semantics of expressions over SCMs and the c-component factorisation (DESIGN.md section 5 C01); it is checked on generated
   cases by an exact SCM oracle. Proved for all inputs: line 1 on the model, and - against the formal SCM semantics of Sem/Scm.v - the facts
   about the interventional values that lines 2 and 3 rely on. They are pointwise in the exogenous state u, hence hold for every distribution
   of u, i.e. for P(y | do(x)) in every structural causal model over the graph. *)
Theorem C01_line1_returns_the_marginal topo fuel g Y est :
  identify false topo (S fuel) (mkIdent g [] Y est) = IdOk (sum_safe est (Vs (diff (nodes g) Y)) false).
Proof. exact (identify_without_treatments false topo fuel g Y est). Qed.

Print Assumptions C01_line1_returns_the_marginal.

(* Line 2: in every functional SCM over the graph, at every exogenous state, the outcomes take under do(ivs) the values they take in the model
   restricted to G[An(Y)] (the graph line 2 passes on) under the treatments that lie in An(Y) (the treatments line 2 passes on). *)
Theorem C01_line2_restricts_the_model_to_the_ancestors_of_the_outcomes
  (I : ident) {D : Type} (U : Type) (f : nat -> (nat -> D) -> U -> D) (rho : nat * bool -> D) order :
  local (ig I) U f -> is_topo (ig I) order = true ->
  forall ivs u x x',
    solution (ig I) U f rho ivs u x ->
    solution (ig (line_2 I)) U f rho (restrict_ivs (ancestors_inclusive (ig I) (iout I)) ivs) u x' ->
    forall y, In y (iout I) -> In y (nodes (ig I)) -> x y = x' y.
Proof.
  intros Hl Ho ivs u x x' Hs Hs' y Hy Hn.
  exact (line2_same_values (ig I) U f rho Hl order Ho (iout I) ivs u x x' Hs Hs' y Hn (outcomes_in_their_ancestors (ig I) (iout I) y Hy)).
Qed.

Theorem C01_line2_passes_on_the_treatments_among_the_ancestors (I : ident) ivs v :
  (forall w, In w (map fst ivs) <-> In w (itr I)) ->
  (In v (map fst (restrict_ivs (ancestors_inclusive (ig I) (iout I)) ivs)) <-> In v (itr (line_2 I))).
Proof.
  intros H. rewrite restrict_ivs_names. cbn [line_2 itr]. rewrite !In_inter. rewrite H. tauto.
Qed.

(* Line 3: the nodes it adds to the treatments (no ancestors of the outcomes once the edges into the treatments are cut) may be set to any
   values without changing the value of any outcome at any exogenous state. *)
Theorem C01_line3_adds_treatments_without_effect_on_the_outcomes
  (I : ident) {D : Type} (U : Type) (f : nat -> (nat -> D) -> U -> D) (rho : nat * bool -> D) order :
  local (ig I) U f -> is_topo (ig I) order = true ->
  forall ivs extra u x x',
    (forall v, In v (itr I) -> In v (map fst ivs)) ->
    (forall i, In i extra -> In (fst i) (get_no_effect_on_outcomes (ig I) (itr I) (iout I))) ->
    solution (ig I) U f rho ivs u x ->
    solution (ig I) U f rho (ivs ++ extra) u x' ->
    forall y, In y (iout I) -> In y (nodes (ig I)) -> x y = x' y.
Proof.
  intros Hl Ho ivs extra u x x' HX He Hs Hs' y Hy Hn.
  exact (line3_same_values (ig I) U f rho Hl order Ho (itr I) (iout I) ivs extra u x x' HX He Hs Hs' y Hn
           (outcomes_in_their_ancestors _ (iout I) y Hy)).
Qed.

Theorem C01_line3_treatments (I : ident) :
  itr (line_3 I) = union (itr I) (get_no_effect_on_outcomes (ig I) (itr I) (iout I)) /\ ig (line_3 I) = ig I /\ iout (line_3 I) = iout I.
Proof. repeat split. Qed.

(* not vacuous: Z -> X -> Y with do(X): line 3 adds Z, and in the model X := Z, Y := X, Z := u the outcome ignores do(Z) *)
Example C01_line3_not_vacuous :
  let g := MG [0; 1; 2] [(2, 0); (0, 1)] [] in
  let f := fun (v : nat) (x : nat -> bool) (u : bool) => match v with 0 => x 2 | 1 => x 0 | _ => u end in
  let rho := fun i : nat * bool => snd i in
  get_no_effect_on_outcomes g [0] [1] = [2] /\ is_topo g [2; 0; 1] = true /\ local g bool f /\
  forall u, solve bool f rho [2; 0; 1] [(0, false)] u 1 = solve bool f rho [2; 0; 1] ([(0, false)] ++ [(2, true)]) u 1.
Proof.
  intros g f rho.
  assert (Hl : local g bool f).
  { intros v x x' u H. destruct v as [|[|v]]; cbn; [apply H; cbn; auto|apply H; cbn; auto|reflexivity]. }
  split; [reflexivity|split; [reflexivity|split; [exact Hl|]]]. intros u.
  apply (line3_same_outcomes g bool f rho Hl [2; 0; 1] eq_refl [0] [1] [(0, false)] [(2, true)] u 1).
  - intros v [<-|[]]. left. reflexivity.
  - intros i [<-|[]]. left. reflexivity.
  - left. reflexivity.
  - right. left. reflexivity.
Qed.

Print Assumptions C01_line2_restricts_the_model_to_the_ancestors_of_the_outcomes.
Print Assumptions C01_line2_passes_on_the_treatments_among_the_ancestors.
Print Assumptions C01_line3_adds_treatments_without_effect_on_the_outcomes.
Print Assumptions C01_line3_treatments.
Print Assumptions C01_line3_not_vacuous.
