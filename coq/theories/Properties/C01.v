(* C01 - ID estimands equal the true interventional distribution. *)
From Coq Require Import List Bool.
From Y0 Require Import Base.ListSet Graph.MixedGraph Dsl.Syntax Dsl.Build Alg.Id Proofs.IdP.
Import ListNotations.

(* The soundness statement needs the SCM semantics (planned Sem/Scm.v, DESIGN.md section 5 C01). Proved so far on
   the model: line 1 (no treatments) returns the marginal of the carried distribution for every graph. *)
Theorem C01_line1_returns_the_marginal topo fuel g Y est :
  identify false topo (S fuel) (mkIdent g [] Y est) = IdOk (sum_safe est (Vs (diff (nodes g) Y)) false).
Proof. exact (identify_without_treatments false topo fuel g Y est). Qed.

Print Assumptions C01_line1_returns_the_marginal.
