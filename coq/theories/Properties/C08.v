(* C08 - IDC-star estimands equal the conditional counterfactual probability. *)
From Coq Require Import List Bool Arith.
From Y0 Require Import Base.ListSet Graph.MixedGraph Dsl.Syntax Dsl.Build Alg.Id Alg.Cg Alg.IdStar Proofs.CfP
  Sem.Scm Sem.CfSem Proofs.CgSemP Proofs.CgSem5P Proofs.StarSemP.
Import ListNotations.

(* VIOLATED by the pinned implementation through C07 and through conditional() (known findings). Proved on the model: *)
Theorem C08_impossible_conditioning_event_is_rejected g topo fuel outcomes conditions :
  id_star g topo (S (4 * List.length (nodes g))) conditions = [IdOk EZero] ->
  idc_star g topo (S fuel) outcomes conditions = [IdCrash ValueError].
Proof. exact (idc_star_rejects_impossible_conditions g topo fuel outcomes conditions). Qed.

(* a conditioning event that contradicts one of its own subscripts is rejected, and rightly so: it is true at no exogenous state of any
   functional SCM over the graph (formal semantics Sem/Scm.v) *)
Theorem C08_self_contradicting_conditions_are_rejected_and_impossible (g0 : mg nat) (D : Type) `{EqB D} (U : Type) (f : nat -> (nat -> D) -> U -> D)
  (rho : nat * bool -> D) (order : list nat) fuel outcomes conditions u :
  (forall n, rho (n, false) <> rho (n, true)) -> local g0 U f -> is_topo g0 order = true -> event_ok g0 conditions ->
  conditions <> [] -> violates_axiom_of_effectiveness conditions = true ->
  idc_star g0 order (S fuel) outcomes conditions = [IdCrash ValueError] /\ event_true U f rho order conditions u = false.
Proof.
  intros Hr Hl Ho He Hne Hv. split.
  - apply idc_star_rejects_impossible_conditions. apply id_star_effectiveness_gives_zero; assumption.
  - exact (effectiveness_violation_never g0 U f rho Hr Hl order Ho conditions u He Hv).
Qed.

(* 'rejects a conditioning event only when it is impossible' is FALSE of the code (known finding C08/rejects-possible-conditions):
   A -> B, C -> A, A <-> B; conditions { B_{+a} = -b, A_{-b} = +a } are true in the model A := +a, B := -b, yet every run of IDC* raises ValueError *)
Theorem C08_rejects_only_impossible_conditions_refuted :
  exists (g0 : mg nat) (topo : list nat) (outcomes conditions : event) (f : nat -> (nat -> bool) -> unit -> bool) (rho : nat * bool -> bool),
    local g0 unit f /\ is_topo g0 topo = true /\ (forall n, rho (n, false) <> rho (n, true)) /\
    idc_star g0 topo 5 outcomes conditions <> [] /\ (forall r, In r (idc_star g0 topo 5 outcomes conditions) -> r = IdCrash ValueError) /\
    event_true unit f rho topo conditions tt = true.
Proof.
  exists (MG [2; 0; 1] [(0, 1); (2, 0)] [(0, 1)]), [2; 0; 1], [(mkVar KCf 2 None [(1, true)], (2, true))],
         [(mkVar KCf 1 None [(0, true)], (1, false)); (mkVar KCf 0 None [(1, false)], (0, true))],
         (fun v _ _ => match v with 0 => true | _ => false end), (fun i => snd i).
  split; [intros v x x' u _; reflexivity|]. split; [vm_compute; reflexivity|]. split; [intros n; cbn; discriminate|].
  split; [vm_compute; discriminate|]. split; [|vm_compute; reflexivity].
  vm_compute. intros r [<-|[<-|[]]]; reflexivity.
Qed.

Print Assumptions C08_impossible_conditioning_event_is_rejected.
Print Assumptions C08_self_contradicting_conditions_are_rejected_and_impossible.
Print Assumptions C08_rejects_only_impossible_conditions_refuted.
