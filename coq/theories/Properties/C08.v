(* C08 - IDC-star estimands equal the conditional counterfactual probability. *)
From Coq Require Import List Bool.
From Y0 Require Import Base.ListSet Graph.MixedGraph Dsl.Syntax Dsl.Build Alg.Id Alg.Cg Alg.IdStar Proofs.CfP.
Import ListNotations.

(* VIOLATED by the pinned implementation through C07 and through conditional() (known findings). Proved on the model: *)
Theorem C08_impossible_conditioning_event_is_rejected g topo fuel outcomes conditions :
  id_star g topo (S (4 * List.length (nodes g))) conditions = [IdOk EZero] ->
  idc_star g topo (S fuel) outcomes conditions = [IdCrash ValueError].
Proof. exact (idc_star_rejects_impossible_conditions g topo fuel outcomes conditions). Qed.

Print Assumptions C08_impossible_conditioning_event_is_rejected.
