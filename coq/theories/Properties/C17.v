(* C17 - Tian-Pearl c-factor identification returns the true c-factor. *)
From Coq Require Import List Bool.
From Y0 Require Import Base.ListSet Graph.MixedGraph Dsl.Syntax Dsl.Build Alg.Id Alg.Tian Proofs.TianP.
Import ListNotations.

(* Soundness (value = Q[C] in every compatible model) is not yet proved: it needs Sem/Scm.v and the c-factor
   lemmas (DESIGN.md 5/C17). Proved on the model for all inputs: failure is reported only under Tian & Pearl's
   FAIL condition, at a district nested inside the input district. *)
Theorem C17_failure_only_when_the_ancestral_set_is_the_whole_district fuel g C T q topo :
  identify_district_variables fuel g C T q topo = TFail ->
  exists T', incl T' T /\
             set_eqb (ancestors_inclusive (subgraph g T') C) T' = true /\
             set_eqb (ancestors_inclusive (subgraph g T') C) C = false.
Proof. exact (tian_fail_only_when_ancestral_set_is_whole_district fuel g C T q topo). Qed.

Print Assumptions C17_failure_only_when_the_ancestral_set_is_the_whole_district.
