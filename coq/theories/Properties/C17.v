(* C17 - Tian-Pearl c-factor identification returns the true c-factor. *)
From Coq Require Import List Bool Arith.
From Y0 Require Import Base.ListSet Graph.MixedGraph Dsl.Syntax Dsl.Build Alg.Id Alg.Tian Proofs.TianP Proofs.TianTotalP.
Import ListNotations.

(* Soundness (value = Q[C] in every compatible model) is not yet proved: it needs Sem/Scm.v and the c-factor
   lemmas (DESIGN.md 5/C17). Proved on the model for all inputs: failure is reported only under Tian & Pearl's
   FAIL condition, at a district nested inside the input district. *)
Theorem C17_failure_only_when_the_ancestral_set_is_the_whole_district fuel g C T q topo :
  identify_district_variables fuel g C T q topo = TFail ->
  exists T', incl T' T /\
             set_eqb (ancestors_inclusive (subgraph g T') C) T' = true /\
             set_eqb (ancestors_inclusive (subgraph g T') C) C = false.
Proof. exact (tian_fail_only_when_ancestral_set_is_whole_district fuel g C T q topo). Qed.

(* 'returns an expression ... or reports failure': on every valid input - C non-empty inside T, both listed in the order, G_T one district, G_C one
   district (the precondition of IDENTIFY), Q[T] a probability term or a sum / product / fraction - the routine answers with an expression or with
   failure, never with another error, within |T| + 1 recursion steps *)
Theorem C17_identify_answers_or_fails_on_every_valid_input g C T q topo :
  C <> [] -> incl C T -> incl T topo ->
  length (districts (subgraph g T)) <= 1 -> length (districts (subgraph g C)) = 1 -> is_spf q || is_prob q = true ->
  identify_district_variables (S (length T)) g C T q topo = TFail \/ exists e, identify_district_variables (S (length T)) g C T q topo = TOk e.
Proof. intros H1 H2 H3 H4 H5 H6. apply tian_total; [apply Nat.lt_succ_diag_r|repeat split; assumption]. Qed.

(* not vacuous: Tian & Pearl's example shape - T = {1,2,3,4} one district, C = {1,3} *)
Example C17_valid_input_exists :
  let g := MG [0; 1; 2; 3; 4] [(0, 1); (1, 3); (2, 3); (3, 4)] [(1, 3); (2, 4); (3, 4)] in
  length (districts (subgraph g [1; 2; 3; 4])) <= 1 /\ length (districts (subgraph g [1; 3])) = 1 /\
  exists e, identify_district_variables 5 g [1; 3] [1; 2; 3; 4] (EProb None [V 1; V 2; V 3; V 4] [V 0]) [0; 1; 2; 3; 4] = TOk e.
Proof. vm_compute. split; [auto|]. split; [reflexivity|]. eexists. reflexivity. Qed.

Print Assumptions C17_failure_only_when_the_ancestral_set_is_the_whole_district.
Print Assumptions C17_identify_answers_or_fails_on_every_valid_input.
