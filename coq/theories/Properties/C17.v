(* C17 - Tian-Pearl c-factor identification returns the true c-factor. *)
From Coq Require Import List Bool Arith.
From Y0 Require Import Base.ListSet Graph.MixedGraph Dsl.Syntax Dsl.Build Alg.Id Alg.Tian Proofs.TianP Proofs.TianTotalP Sem.Scm Proofs.IdSemP.
Import ListNotations.

(* Soundness (value = Q[C] in every compatible model) is not proved: it needs a probabilistic semantics of expressions and the c-factor
   lemmas (DESIGN.md 5/C17); the step the recursion rests on (Lemma 3) is proved in functional form at the end of this file. Proved on the model for all inputs: failure is reported only under Tian & Pearl's
   FAIL condition, at a district nested inside the input district. *)
Theorem C17_failure_only_when_the_ancestral_set_is_the_whole_district fuel g C T q topo :
  identify_district_variables fuel g C T q topo = TFail ->
  exists T', incl T' T /\
             set_eqb (ancestors_inclusive (subgraph g T') C) T' = true /\
             set_eqb (ancestors_inclusive (subgraph g T') C) C = false.
Proof. exact (tian_fail_only_when_ancestral_set_is_whole_district fuel g C T q topo). Qed.

(* 'returns an expression ... or reports failure': on every valid input - C non-empty inside T, both listed in the order, G_T one district, G_C one
   district (the precondition of IDENTIFY), Q[T] a probability term or a sum / product / fraction - the routine answers with an expression or with
   failure, never with another error, within |T| + 1 recursion steps *)
Theorem C17_identify_answers_or_fails_on_every_valid_input g C T q topo :
  C <> [] -> incl C T -> incl T topo ->
  length (districts (subgraph g T)) <= 1 -> length (districts (subgraph g C)) = 1 -> is_spf q || is_prob q = true ->
  identify_district_variables (S (length T)) g C T q topo = TFail \/ exists e, identify_district_variables (S (length T)) g C T q topo = TOk e.
Proof. intros H1 H2 H3 H4 H5 H6. apply tian_total; [apply Nat.lt_succ_diag_r|repeat split; assumption]. Qed.

(* not vacuous: Tian & Pearl's example shape - T = {1,2,3,4} one district, C = {1,3} *)
Example C17_valid_input_exists :
  let g := MG [0; 1; 2; 3; 4] [(0, 1); (1, 3); (2, 3); (3, 4)] [(1, 3); (2, 4); (3, 4)] in
  length (districts (subgraph g [1; 2; 3; 4])) <= 1 /\ length (districts (subgraph g [1; 3])) = 1 /\
  exists e, identify_district_variables 5 g [1; 3] [1; 2; 3; 4] (EProb None [V 1; V 2; V 3; V 4] [V 0]) [0; 1; 2; 3; 4] = TOk e.
Proof. vm_compute. split; [auto|]. split; [reflexivity|]. eexists. reflexivity. Qed.

Print Assumptions C17_failure_only_when_the_ancestral_set_is_the_whole_district.
Print Assumptions C17_identify_answers_or_fails_on_every_valid_input.

(* Tian & Pearl's Lemma 3, on which the recursive step rests (Q[A] = sum over T \ A of Q[T] for A = An(C) in G_T, the set the routine computes),
   against the formal SCM semantics, state by state: with every node outside T held fixed (Q[T] is the distribution of T under do(V \ T)), whatever
   is done in addition to nodes outside A changes the value of no node of A - so the distribution of A under do(V \ A) is the A-marginal of Q[T]
   in every structural causal model over the graph. *)
Theorem C17_lemma3_the_ancestral_set_ignores_the_rest_of_the_district
  (g : mg nat) {D : Type} (U : Type) (f : nat -> (nat -> D) -> U -> D) (rho : nat * bool -> D) order :
  local g U f -> is_topo g order = true ->
  forall (T C : list nat) ivs extra u x x',
    (forall v, In v (nodes g) -> ~ In v T -> In v (map fst ivs)) ->
    (forall i, In i extra -> ~ In (fst i) (ancestors_inclusive (subgraph g T) C)) ->
    solution g U f rho ivs u x -> solution g U f rho (ivs ++ extra) u x' ->
    forall v, In v (nodes g) -> In v (ancestors_inclusive (subgraph g T) C) -> x v = x' v.
Proof. intros Hl Ho T C ivs extra u x x'. exact (lemma3_same_values g U f rho Hl order Ho T C ivs extra u x x'). Qed.

(* not vacuous: 0 -> 1 -> 2, T = {1, 2}, C = {1}: A = {1}; doing something to 2 leaves 1 as it is *)
Example C17_lemma3_not_vacuous :
  let g := MG [0; 1; 2] [(0, 1); (1, 2)] [(1, 2)] in
  let f := fun (v : nat) (x : nat -> bool) (u : bool) => match v with 1 => xorb (x 0) u | 2 => x 1 | _ => u end in
  let rho := fun i : nat * bool => snd i in
  ancestors_inclusive (subgraph g [1; 2]) [1] = [1] /\ is_topo g [0; 1; 2] = true /\ local g bool f /\
  forall u, solve bool f rho [0; 1; 2] [(0, true)] u 1 = solve bool f rho [0; 1; 2] ([(0, true)] ++ [(2, false)]) u 1.
Proof.
  intros g f rho.
  assert (Hl : local g bool f).
  { intros v x x' u H. destruct v as [|[|[|v]]]; cbn; [reflexivity|f_equal; apply H; cbn; auto|apply H; cbn; auto|reflexivity]. }
  split; [reflexivity|split; [reflexivity|split; [exact Hl|]]]. intros u.
  apply (lemma3_same_values g bool f rho Hl [0; 1; 2] eq_refl [1; 2] [1] [(0, true)] [(2, false)] u).
  - intros v [<-|[<-|[<-|[]]]] Hn; [left; reflexivity|exfalso; apply Hn; left; reflexivity|exfalso; apply Hn; right; left; reflexivity].
  - intros i [<-|[]]. change (~ In 2 [1]). intros [E|[]]. discriminate.
  - apply (ScmP.solution_exists g bool f rho Hl [0; 1; 2] eq_refl).
  - apply (ScmP.solution_exists g bool f rho Hl [0; 1; 2] eq_refl).
  - right. left. reflexivity.
  - left. reflexivity.
Qed.

Print Assumptions C17_lemma3_the_ancestral_set_ignores_the_rest_of_the_district.
Print Assumptions C17_lemma3_not_vacuous.
