(* C10 - Canonicalisation never changes what an expression means. *)
From Coq Require Import List Bool.
From Y0 Require Import Base.ListSet Dsl.Syntax Dsl.Build Dsl.Canon Proofs.DslP.
Import ListNotations.

(* The semantic statement needs the denotation of expressions (planned in Dsl/Sem.v; see DESIGN.md). Proved so far:
   the decision made by canonical_expr_equal is exactly identity of the canonical forms, and the pre-repair
   Sum.simplify is shown to drop ranges. The meaning clause is checked on every run by the exact-arithmetic oracle. *)
Theorem C10_canonical_equality_is_identity_of_canonical_forms a b :
  canonical_expr_equal a b = true <->
  let o := sorted_variables (dedup (iter_variables a ++ iter_variables b)) in
  canonicalize false o a = canonicalize false o b.
Proof. exact (canonical_expr_equal_spec a b). Qed.

Theorem C10_old_sum_simplify_dropped_ranges_refuted :
  sum_simplify_gen true (EProb None [V 0; V 1] []) [V 0; V 1; V 2] = EOne /\
  sum_simplify_gen false (EProb None [V 0; V 1] []) [V 0; V 1; V 2] = ESum EOne [V 2].
Proof. exact sum_simplify_old_drops_ranges. Qed.

Print Assumptions C10_canonical_equality_is_identity_of_canonical_forms.
Print Assumptions C10_old_sum_simplify_dropped_ranges_refuted.
