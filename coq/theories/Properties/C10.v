(* C10 - Canonicalisation never changes what an expression means.
   Meaning: [eval m e r] (Dsl/Sem.v) - the number the expression denotes in model m (a value for every probability term,
   a finite range for every variable) under the value assignment r. The theorems hold for EVERY model satisfying the
   laws of probability listed in Dsl/Laws.v [lawful], i.e. for every distribution.
   Scope [wfe]: probability terms over simple variables (no intervention subscripts; value marks allowed) with distinct
   names, sums over distinct bare variables, no Zero, no Q factor (canonicalize rejects Q factors). *)
From Coq Require Import List Bool QArith.
From Y0 Require Import Base.ListSet Dsl.Syntax Dsl.Build Dsl.Canon Dsl.Sem Dsl.Laws
  Proofs.DslP Proofs.SumSimpP Proofs.CanonSemP.
Import ListNotations.
Open Scope Q_scope.

Theorem C10_canonical_form_denotes_the_same_function (m : model) (ordering : list var) (e : expr) :
  lawful m -> wfe e = true -> is_err (canonicalize false ordering e) = false ->
  forall r, eval m (canonicalize false ordering e) r == eval m e r.
Proof. exact (fun Hl => canonicalize_sound m Hl ordering e). Qed.

Theorem C10_canonically_equal_expressions_are_semantically_equal (m : model) (a b : expr) :
  lawful m -> wfe a = true -> wfe b = true ->
  canonical_expr_equal a b = true ->
  is_err (canonicalize false (sorted_variables (dedup (iter_variables a ++ iter_variables b))) a) = false ->
  forall r, eval m a r == eval m b r.
Proof. exact (fun Hl => canonical_expr_equal_sound m Hl a b). Qed.

(* the laws are consistent: independent fair coins satisfy them *)
Theorem C10_the_laws_have_a_model : lawful uniform.
Proof. exact uniform_lawful. Qed.

Theorem C10_canonical_equality_is_identity_of_canonical_forms a b :
  canonical_expr_equal a b = true <->
  let o := sorted_variables (dedup (iter_variables a ++ iter_variables b)) in
  canonicalize false o a = canonicalize false o b.
Proof. exact (canonical_expr_equal_spec a b). Qed.

Theorem C10_old_sum_simplify_dropped_ranges_refuted :
  sum_simplify_gen true (EProb None [V 0; V 1] []) [V 0; V 1; V 2] = EOne /\
  sum_simplify_gen false (EProb None [V 0; V 1] []) [V 0; V 1; V 2] = ESum EOne [V 2].
Proof. exact sum_simplify_old_drops_ranges. Qed.

(* the hypotheses are met by a non-trivial expression: Sum[B](P(B, A) * P(C | A)) / P(A), whose canonical form differs from it *)
Example C10_not_vacuous :
  let e := EFrac (ESum (EProd [EProb None [V 1; V 0] []; EProb None [V 2] [V 0]]) [V 1]) (EProb None [V 0] []) in
  let o := [V 0; V 1; V 2] in
  wfe e = true /\ is_err (canonicalize false o e) = false /\ expr_eqb (canonicalize false o e) e = false.
Proof. vm_compute. auto. Qed.

Print Assumptions C10_canonical_form_denotes_the_same_function.
Print Assumptions C10_canonically_equal_expressions_are_semantically_equal.
Print Assumptions C10_the_laws_have_a_model.
Print Assumptions C10_canonical_equality_is_identity_of_canonical_forms.
Print Assumptions C10_old_sum_simplify_dropped_ranges_refuted.
