(* C15 - Implied conditional independencies are enumerated exactly. The first group of theorems is relative to the
   modelled test are_d_separated; the second group restates them for true m-separation (no active walk, Graph/MSep.v)
   through the correctness theorem of C04. *)
From Coq Require Import List Bool Arith.
From Y0 Require Import Base.ListSet Graph.MixedGraph Graph.DSep Graph.MSep Graph.CondInd Proofs.CondIndP Proofs.CondIndSemP.
Import ListNotations.

Section C15.
  Context {A : Type} `{EqB A}.
  Notation mg := (mg A).

  (* vs: the order in which the vertex set happens to be iterated (hash-seed dependent) *)
  Theorem C15_listed_judgements_are_minimum_separations (g : mg) vs mc a b C :
    In (a, b, C) (d_separations g vs mc) ->
    In (a, b) (pairs vs) /\
    sublist C (rest_of vs a b) /\ length C < stop_of mc (length (rest_of vs a b)) /\
    are_d_separated g a b C = DOk true /\
    (forall C', sublist C' (rest_of vs a b) -> length C' < length C -> are_d_separated g a b C' <> DOk true).
  Proof.
    exact (fun Hin => conj (proj1 (proj1 (d_separations_spec g vs mc a b C) Hin))
                           (first_separator_sound g vs mc a b C (proj2 (proj1 (d_separations_spec g vs mc a b C) Hin)))).
  Qed.

  Theorem C15_every_separable_pair_is_listed (g : mg) vs mc a b :
    In (a, b) (pairs vs) ->
    (exists C', sublist C' (rest_of vs a b) /\ length C' < stop_of mc (length (rest_of vs a b)) /\
                are_d_separated g a b C' = DOk true) ->
    exists C, In (a, b, C) (d_separations g vs mc).
  Proof.
    exact (fun Hp Hex => match first_separator_complete g vs mc a b Hex with
                         | ex_intro _ C HC => ex_intro _ C (proj2 (d_separations_spec g vs mc a b C) (conj Hp HC))
                         end).
  Qed.

  Theorem C15_exactly_one_judgement_per_unordered_pair (g : mg) vs mc :
    NoDup vs ->
    NoDup (map fst (d_separations g vs mc)) /\
    (forall a b C C', In (a, b, C) (d_separations g vs mc) -> ~ In (b, a, C') (d_separations g vs mc)).
  Proof. exact (d_separations_one_per_pair g vs mc). Qed.

  (* the size limit: with max_conditions = Some k exactly the sets of size <= k are tried (repaired code) *)
  Theorem C15_size_limit (k n : nat) (c : list A) : length c < stop_of (Some k) n <-> length c <= k.
  Proof. exact (Nat.lt_succ_r (length c) k). Qed.

  Theorem C15_no_limit_tries_every_subset (l c : list A) : sublist c l -> length c < stop_of None (length l).
  Proof.
    exact (fun Hs => proj2 (Nat.lt_succ_r _ _) (NoDup_incl_length_sublist l c Hs)).
  Qed.

  (* ---- in terms of true separation; vs enumerates the node set ---- *)
  Theorem C15_listed_judgements_are_true_separations_of_minimum_size (g : mg) vs mc a b C :
    (forall x, In x vs <-> In x (nodes g)) ->
    In (a, b, C) (d_separations g vs mc) ->
    ~ m_connected g C a b /\
    (forall C', sublist C' (rest_of vs a b) -> length C' < length C -> m_connected g C' a b).
  Proof. exact (listed_is_minimum_m_separation g vs mc a b C). Qed.

  Theorem C15_every_truly_separable_pair_is_listed (g : mg) vs mc a b :
    (forall x, In x vs <-> In x (nodes g)) ->
    In (a, b) (pairs vs) ->
    (exists C', sublist C' (rest_of vs a b) /\ length C' < stop_of mc (length (rest_of vs a b)) /\ ~ m_connected g C' a b) ->
    exists C, In (a, b, C) (d_separations g vs mc).
  Proof. exact (m_separable_pair_is_listed g vs mc a b). Qed.
End C15.

Print Assumptions C15_listed_judgements_are_minimum_separations.
Print Assumptions C15_every_separable_pair_is_listed.
Print Assumptions C15_exactly_one_judgement_per_unordered_pair.
Print Assumptions C15_size_limit.
Print Assumptions C15_no_limit_tries_every_subset.
Print Assumptions C15_listed_judgements_are_true_separations_of_minimum_size.
Print Assumptions C15_every_truly_separable_pair_is_listed.
