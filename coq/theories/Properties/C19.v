(* C19 - Counterfactual event simplification and factorisation preserve probability. *)
From Coq Require Import List Bool.
From Y0 Require Import Base.ListSet Graph.MixedGraph Dsl.Syntax Dsl.Build Alg.Id Alg.Cg Alg.CtfAnc Proofs.CtfP.
Import ListNotations.

(* The semantic clauses are not proved; SIMPLIFY is known to violate them for reflexive subscripts (known findings).
   Proved on the model for every variable and graph: *)
Theorem C19_minimisation_is_total_well_formed_and_keeps_exactly_the_relevant_subscripts (v : var) (g : mg nat) :
  exists v', minimize_counterfactual v g = Some v' /\ vn v' = vn v /\ vs v' = vs v /\
             (is_cf v' = true -> vi v' <> []) /\
             (is_cf v = true ->
              forall i, In i (vi v') <->
                        In i (vi v) /\ In (fst i) (ancestors_inclusive (remove_in_edges g (iv_names v)) [vn v]) /\ In (fst i) (iv_names v)).
Proof. exact (minimize_total_and_exact v g). Qed.

Theorem C19_old_minimisation_raised_refuted : exists v g, minimize_counterfactual_gen true v g = None.
Proof. exact minimize_old_raises. Qed.

Theorem C19_old_components_merged_through_outside_edges_refuted :
  let g := MG [0; 1; 2; 3] [] [(0, 2); (1, 3)] in
  get_ancestral_components_gen true [] [V 0; V 1] g = Some [[V 0; V 1]] /\
  get_ancestral_components_gen false [] [V 0; V 1] g = Some [[V 0]; [V 1]].
Proof. exact components_old_merges_through_outside_edges. Qed.

Print Assumptions C19_minimisation_is_total_well_formed_and_keeps_exactly_the_relevant_subscripts.
Print Assumptions C19_old_minimisation_raised_refuted.
Print Assumptions C19_old_components_merged_through_outside_edges_refuted.
