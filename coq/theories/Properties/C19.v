(* C19 - Counterfactual event simplification and factorisation preserve probability. *)
From Coq Require Import List Bool.
From Y0 Require Import Base.ListSet Graph.MixedGraph Dsl.Syntax Dsl.Build Alg.Id Alg.Cg Alg.CtfAnc Proofs.CtfP Sem.Scm Sem.CfSem Proofs.ScmP Proofs.MinimizeSemP Proofs.CgSemP Proofs.AncSemP Proofs.SimplifySemP Proofs.ComponentsP Proofs.AncCompP.
Import ListNotations.

(* FIRST CLAUSE, in full: 'minimising a counterfactual variable yields the same random variable in every compatible model'.
   For every graph with a topological order (i.e. acyclic), every functional SCM over it (structural functions that read their parents only,
   any value type D, any exogenous space U, any two named values rho (n, false) / rho (n, true) per variable), every variable Y_x of the graph and every exogenous state u: every solution of the submodel
   M_x and every solution of the submodel of the minimised variable give Y the same value. The statement is pointwise in u, so it holds for every
   distribution of u - every structural causal model compatible with the graph, whatever its bidirected part. *)
Theorem C19_minimised_variable_is_the_same_random_variable (g : mg nat) (D : Type) `{EqB D} (U : Type) (f : nat -> (nat -> D) -> U -> D) (rho : nat * bool -> D)
  (order : list nat) (v v' : var) :
  local g U f -> is_topo g order = true -> minimize_counterfactual v g = Some v' -> In (vn v) (nodes g) ->
  forall u x x', solution g U f rho (var_ivs v) u x -> solution g U f rho (var_ivs v') u x' -> x (vn v) = x' (vn v').
Proof. intros Hl Ho. exact (minimize_same_variable g U f rho Hl order Ho v v'). Qed.

(* the semantics is not vacuous: every submodel has a solution (computed along the order) and only one *)
Theorem C19_every_submodel_has_exactly_one_solution (g : mg nat) (D : Type) `{EqB D} (U : Type) (f : nat -> (nat -> D) -> U -> D) (rho : nat * bool -> D) (order : list nat) ivs u :
  local g U f -> is_topo g order = true ->
  solution g U f rho ivs u (solve U f rho order ivs u) /\ forall x x', solution g U f rho ivs u x -> solution g U f rho ivs u x' -> forall v, In v (nodes g) -> x v = x' v.
Proof. intros Hl Ho. split; [exact (solution_exists g U f rho Hl order Ho ivs u)|exact (solution_unique g U f rho Hl order Ho ivs u)]. Qed.

(* SIMPLIFY's first step (minimise every variable of the event) changes the truth of the event at no exogenous state *)
Theorem C19_minimising_an_event_preserves_its_truth_everywhere (g : mg nat) (D : Type) `{EqB D} (U : Type) (f : nat -> (nat -> D) -> U -> D) (rho : nat * bool -> D)
  (order : list nat) (ev ev' : cevent) u :
  local g U f -> is_topo g order = true ->
  map_opt (fun p => option_map (fun v => (v, snd p)) (minimize_counterfactual (fst p) g)) ev = Some ev' ->
  (forall p, In p ev -> In (vn (fst p)) (nodes g)) ->
  cevent_true U f rho order ev u = cevent_true U f rho order ev' u.
Proof. intros Hl Ho. exact (minimize_event_same_truth g U f rho Hl order Ho ev ev' u). Qed.

(* Def. 2.1: every counterfactual ancestor W_z listed for Y_x is a variable of the graph and denotes the value W takes in the world of Y_x:
   in every model, at every exogenous state, W_z = W_x (the subscripts dropped from x are irrelevant to W) *)
Theorem C19_listed_ancestor_takes_the_value_it_has_in_that_world (g : mg nat) (D : Type) `{EqB D} (U : Type) (f : nat -> (nat -> D) -> U -> D)
  (rho : nat * bool -> D) (order : list nat) (v : var) anc a u :
  local g U f -> is_topo g order = true -> is_cf v = true -> clean v ->
  get_ancestors_of_counterfactual v g = Some anc -> In a anc ->
  In (vn a) (nodes g) /\ value U f rho order a u = solve U f rho order (vi v) u (vn a).
Proof. intros Hl Ho. exact (counterfactual_ancestor_same_value g U f rho Hl order Ho v anc a u). Qed.

(* SECOND CLAUSE ('SIMPLIFY returns an event with the same probability') is FALSE of the code as it stands (known finding C19/simplify-probability):
   on the one-node graph, SIMPLIFY turns the certain event Y_y = y into the factual Y = y; in the model Y := u the first is true at
   both states, the second at one. *)
Theorem C19_simplify_preserves_probability_refuted :
  exists (g : mg nat) (ev ev' : cevent) (f : nat -> (nat -> bool) -> bool -> bool) (rho : nat * bool -> bool) (order : list nat) (u : bool),
    local g bool f /\ is_topo g order = true /\ simplify ev g = SEvent ev' /\ cevent_true bool f rho order ev u = true /\ cevent_true bool f rho order ev' u = false.
Proof.
  exists (MG [0] [] []), [(mkVar KCf 0 None [(0, false)], Some (0, false))], [(V 0, Some (0, false))],
         (fun _ _ u => u), (fun i => negb (snd i)), [0], false.
  split; [intros v x x' u _; reflexivity|]. vm_compute. auto.
Qed.

(* ... and the part of the second clause that HOLDS: when no variable of the minimised event is reflexive (no Y_y), SIMPLIFY keeps the truth of the
   event at every exogenous state of every model, and answers 'impossible' only for events that are true at no state. *)
Theorem C19_simplify_without_reflexive_conjuncts_preserves_truth (g : mg nat) (D : Type) `{EqB D} (U : Type) (f : nat -> (nat -> D) -> U -> D)
  (rho : nat * bool -> D) (order : list nat) (ev m ev' : cevent) u :
  local g U f -> is_topo g order = true ->
  minimized_of g ev = Some m -> (forall p, In p ev -> In (vn (fst p)) (nodes g)) -> (forall p, In p m -> is_reflexive (fst p) = false) ->
  simplify ev g = SEvent ev' -> cevent_true U f rho order ev u = cevent_true U f rho order ev' u.
Proof. intros Hl Ho Hm Hn Hr. exact (simplify_same_truth g U f rho Hl order Ho u ev m Hm Hn Hr ev'). Qed.

Theorem C19_simplify_without_reflexive_conjuncts_impossible_only_if_never_true (g : mg nat) (D : Type) `{EqB D} (U : Type) (f : nat -> (nat -> D) -> U -> D)
  (rho : nat * bool -> D) (order : list nat) (ev m : cevent) u :
  (forall n, rho (n, false) <> rho (n, true)) -> local g U f -> is_topo g order = true ->
  minimized_of g ev = Some m -> (forall p, In p ev -> In (vn (fst p)) (nodes g)) -> (forall p, In p m -> is_reflexive (fst p) = false) ->
  cnamed ev -> simplify ev g = SNone -> cevent_true U f rho order ev u = false.
Proof. intros Hd Hl Ho Hm Hn Hr. exact (simplify_impossible_never g U f rho Hd Hl order Ho u ev m Hm Hn Hr). Qed.

(* not vacuous: X -> Y, {Y_x = y, Y_x = y (again), X = x} simplifies to two conjuncts; {Y_x = y, Y_x = y'} is impossible *)
Example C19_simplify_clause_not_vacuous :
  let g := MG [0; 1] [(0, 1)] [] in
  let yx := mkVar KCf 1 None [(0, false)] in
  simplify [(yx, Some (1, false)); (yx, Some (1, false)); (V 0, Some (0, true))] g = SEvent [(yx, Some (1, false)); (V 0, Some (0, true))] /\
  simplify [(yx, Some (1, false)); (yx, Some (1, true))] g = SNone /\
  minimized_of g [(yx, Some (1, false)); (yx, Some (1, true))] = Some [(yx, Some (1, false)); (yx, Some (1, true))].
Proof. vm_compute. auto. Qed.

(* Def. 4.2, 'the ancestral components are exactly those of their published definition': the components returned for the roots' ancestral sets
   (a) cover exactly the variables of those sets, (b) each contain every ancestral set they meet, (c) are SEPARATED - two different components share
   no vertex of the graph and no bidirected edge joins a vertex of one to a vertex of the other - and (d) are CONNECTED - each component is the
   union of a family of ancestral sets any two of which are joined by a chain of ancestral sets whose consecutive members share a vertex or
   have a bidirected edge between their vertices. (a)-(d) say that the result is the partition into the classes of that relation. *)
Theorem C19_ancestral_components_cover_contain_and_are_separated conds roots (g : mg nat) comps :
  get_ancestral_components conds roots g = Some comps ->
  exists sets, map_opt (fun r => get_ancestral_set_after_intervening conds r g) roots = Some sets /\
    (forall v, In v (concat comps) <-> In v (concat sets)) /\
    (forall A, In A sets -> exists C, In C comps /\ incl A C) /\
    (forall i j Ci Cj, i < j -> nth_error comps i = Some Ci -> nth_error comps j = Some Cj ->
       (forall n, In n (bases_of Ci) -> ~ In n (bases_of Cj)) /\
       (forall x y, In x (bases_of Ci) -> In y (bases_of Cj) -> ~ In (x, y) (bid g) /\ ~ In (y, x) (bid g))).
Proof. exact (ancestral_components_spec conds roots g comps). Qed.

Theorem C19_ancestral_components_are_connected conds roots (g : mg nat) comps sets :
  map_opt (fun r => get_ancestral_set_after_intervening conds r g) roots = Some sets ->
  get_ancestral_components conds roots g = Some comps ->
  forall C, In C comps -> exists F : list var -> Prop,
    (forall A, F A -> In A (distinct_sets sets)) /\
    (forall v, In v C <-> exists A, F A /\ In v A) /\
    (forall A B, F A -> F B -> chainL g (distinct_sets sets) A B).
Proof. exact (ancestral_components_connected conds roots g comps sets). Qed.

(* Proved on the model for every variable and graph: *)
Theorem C19_minimisation_is_total_well_formed_and_keeps_exactly_the_relevant_subscripts (v : var) (g : mg nat) :
  exists v', minimize_counterfactual v g = Some v' /\ vn v' = vn v /\ vs v' = vs v /\
             (is_cf v' = true -> vi v' <> []) /\
             (is_cf v = true ->
              forall i, In i (vi v') <->
                        In i (vi v) /\ In (fst i) (ancestors_inclusive (remove_in_edges g (iv_names v)) [vn v]) /\ In (fst i) (iv_names v)).
Proof. exact (minimize_total_and_exact v g). Qed.

Theorem C19_old_minimisation_raised_refuted : exists v g, minimize_counterfactual_gen true v g = None.
Proof. exact minimize_old_raises. Qed.

Theorem C19_old_components_merged_through_outside_edges_refuted :
  let g := MG [0; 1; 2; 3] [] [(0, 2); (1, 3)] in
  get_ancestral_components_gen true [] [V 0; V 1] g = Some [[V 0; V 1]] /\
  get_ancestral_components_gen false [] [V 0; V 1] g = Some [[V 0]; [V 1]].
Proof. exact components_old_merges_through_outside_edges. Qed.

Print Assumptions C19_minimised_variable_is_the_same_random_variable.
Print Assumptions C19_every_submodel_has_exactly_one_solution.
Print Assumptions C19_minimising_an_event_preserves_its_truth_everywhere.
Print Assumptions C19_listed_ancestor_takes_the_value_it_has_in_that_world.
Print Assumptions C19_ancestral_components_cover_contain_and_are_separated.
Print Assumptions C19_ancestral_components_are_connected.
Print Assumptions C19_simplify_preserves_probability_refuted.
Print Assumptions C19_simplify_without_reflexive_conjuncts_preserves_truth.
Print Assumptions C19_simplify_without_reflexive_conjuncts_impossible_only_if_never_true.
Print Assumptions C19_minimisation_is_total_well_formed_and_keeps_exactly_the_relevant_subscripts.
Print Assumptions C19_old_minimisation_raised_refuted.
Print Assumptions C19_old_components_merged_through_outside_edges_refuted.
