(* C18 - Counterfactual-graph construction preserves the event's probability. *)
From Coq Require Import List Bool Relations.
From Y0 Require Import Base.ListSet Graph.MixedGraph Dsl.Syntax Dsl.Build Alg.Cg Proofs.SurgeryP Proofs.CfP Proofs.CgAcyclicP.
Import ListNotations.

(* The semantic clauses (same probability; inconsistent => probability zero) rest on Lemmas 24/25 of Shpitser & Pearl
   about the implemented predicates and are not proved; they are checked on every run by the functional-SCM oracle.
   Structural clauses proved on the model for every graph, event, topological order and world order: *)
Theorem C18_result_graph_is_the_ancestral_set_of_the_relabelled_event g ev topo worlds cf' ev' :
  make_counterfactual_graph g ev topo worlds = (cf', Some ev') ->
  exists cf, cf' = subgraph cf (ancestors_inclusive cf (ev_keys ev')) /\
             (forall v, In v (nodes cf') <-> exists k, In k (ev_keys ev') /\ dpath cf v k) /\
             (forall k, In k (ev_keys ev') -> In k (nodes cf')).
Proof. exact (cg_result_is_ancestral g ev topo worlds cf' ev'). Qed.

Theorem C18_event_contradicting_its_own_subscript_is_inconsistent g ev topo worlds :
  violates_effectiveness ev = true -> snd (make_counterfactual_graph g ev topo worlds) = None.
Proof. exact (cg_effectiveness_violation_is_inconsistent g ev topo worlds). Qed.

(* the produced graph is acyclic: for any ranking r of variable names that the edges of the input graph respect (a topological
   order of the input graph is one), every edge of the counterfactual graph goes upward in r; hence there is no directed
   cycle - for every event, every order of the worlds, and whether or not an inconsistency is reported *)
Theorem C18_counterfactual_graph_is_acyclic (r : nat -> nat) g ev topo worlds :
  (forall a b, In (a, b) (dir g) -> r (vn a) < r (vn b)) ->
  forall v, ~ clos_trans var (fun a b => In (a, b) (dir (fst (make_counterfactual_graph g ev topo worlds)))) v v.
Proof. exact (counterfactual_graph_acyclic r g ev topo worlds). Qed.

Print Assumptions C18_counterfactual_graph_is_acyclic.
Print Assumptions C18_result_graph_is_the_ancestral_set_of_the_relabelled_event.
Print Assumptions C18_event_contradicting_its_own_subscript_is_inconsistent.
