(* C18 - Counterfactual-graph construction preserves the event's probability. *)
From Coq Require Import List Bool Arith Relations.
From Y0 Require Import Base.ListSet Graph.MixedGraph Dsl.Syntax Dsl.Build Alg.Cg Alg.IdStar Proofs.SurgeryP Proofs.CfP Proofs.CgAcyclicP
  Sem.Scm Sem.CfSem Proofs.ScmP Proofs.CgSemP Proofs.CgSem5P.
Import ListNotations.

(* THE SEMANTIC CLAUSES, for every input: 'the relabelled event has the same probability as the original in every compatible structural causal
   model; inconsistent is reported only for events of probability zero in every compatible model'.
   Semantics (Sem/Scm.v, Sem/CfSem.v): a functional SCM over the graph g0 - one structural function per node reading its parents only, any value type D, any exogenous
   space U whose state u is shared by all worlds, two distinct named values rho (n, false) and rho (n, true) per variable; Y_x at u is the value of Y in the unique solution
   of the submodel M_x at u. For EVERY well-formed acyclic ADMG without bidirected self-loops, every event that is a dict over variables of the graph
   in y0's normal form (event_ok), every such model, EVERY visiting order of the worlds and EVERY exogenous state u: the relabelled event is true at u
   exactly when the original is, and when make-cg answers 'inconsistent' the original is true at no state. Truth at the same states gives the same
   probability under every distribution of u - every SCM compatible with the graph, whatever its latent structure.
   Proof (Proofs/CgSem*P.v): Lemma 24 for the implemented predicates (two nodes passing the test take the same value wherever the event holds of the
   variables standing before them: merge_equality), the invariant of the merging loop (every free node has, for each parent in g0, exactly one
   graph parent of that name, whose value is the parent's value in the node's world: InvG), Lemma 25 (update of the event: transfer_holds). *)
Theorem C18_relabelled_event_is_true_at_exactly_the_same_states (g0 : mg nat) (D : Type) `{EqB D} (U : Type) (f : nat -> (nat -> D) -> U -> D) (rho : nat * bool -> D)
  (order : list nat) (ev0 : event) cf r :
  (forall n, rho (n, false) <> rho (n, true)) -> local g0 U f -> is_topo g0 order = true -> wf g0 -> (forall x, ~ In (x, x) (bid g0)) -> event_ok g0 ev0 ->
  In (cf, r) (make_counterfactual_graph_all (gv g0) ev0 (map V order)) ->
  forall u, match r with
            | Some ev' => event_true U f rho order ev0 u = event_true U f rho order ev' u
            | None => event_true U f rho order ev0 u = false
            end.
Proof. intros Hr Hl Ho Hw Hn. exact (cg_all_same_truth g0 U f rho Hr Hl order Ho Hw Hn ev0 cf r). Qed.

(* the same for any given list of worlds (any order, any superset of the event's worlds) *)
Theorem C18_relabelled_event_same_truth_for_given_worlds (g0 : mg nat) (D : Type) `{EqB D} (U : Type) (f : nat -> (nat -> D) -> U -> D) (rho : nat * bool -> D)
  (order : list nat) (worlds : list world) (ev0 : event) cf r :
  (forall n, rho (n, false) <> rho (n, true)) -> local g0 U f -> is_topo g0 order = true -> wf g0 -> (forall x, ~ In (x, x) (bid g0)) ->
  (forall w, In w worlds -> NoDup (map fst (norm_ivs w))) -> NoDup (map norm_ivs worlds) ->
  NoDup (map fst ev0) -> wnamed ev0 -> (forall p, In p ev0 -> clean (fst p) /\ In (vn (fst p)) (nodes g0)) ->
  make_counterfactual_graph (gv g0) ev0 (map V order) worlds = (cf, r) ->
  forall u, match r with
            | Some ev' => event_true U f rho order ev0 u = event_true U f rho order ev' u
            | None => event_true U f rho order ev0 u = false
            end.
Proof. intros Hr Hl Ho Hw Hn. exact (cg_same_truth g0 U f rho Hr Hl order Ho Hw Hn worlds ev0 cf r). Qed.

(* not vacuous: on X -> Y the event {X = x, Y_x = y} is well formed and is relabelled to {X = x, Y = y} (a merge happens);
   {Y = y', Y_x = y, X = x} is reported inconsistent *)
Example C18_semantic_clause_not_vacuous :
  let g0 := MG [0; 1] [(0, 1)] [] in
  let ev1 := [(V 0, (0, false)); (mkVar KCf 1 None [(0, false)], (1, false))] in
  let ev2 := [(V 1, (1, true)); (mkVar KCf 1 None [(0, false)], (1, false)); (V 0, (0, false))] in
  event_ok g0 ev1 /\ event_ok g0 ev2 /\ is_topo g0 [0; 1] = true /\
  map snd (make_counterfactual_graph_all (gv g0) ev1 [V 0; V 1]) = [Some [(V 0, (0, false)); (V 1, (1, false))]] /\
  map snd (make_counterfactual_graph_all (gv g0) ev2 [V 0; V 1]) = [None].
Proof.
  cbv zeta.
  assert (Hok : forall ev, (forallb (fun p => Nat.eqb (fst (snd p)) (vn (fst p)) && mem (vn (fst p)) [0; 1]
                                  && nodupb (map fst (var_ivs (fst p))) && (negb (is_cf (fst p)) || eqb (norm_ivs (vi (fst p))) (vi (fst p)))) ev
                            && nodupb (map fst ev)) = true -> event_ok (MG [0; 1] [(0, 1)] []) ev).
  { intros ev H. apply andb_true_iff in H. destruct H as [H Hk]. rewrite forallb_forall in H. split; [apply nodupb_NoDup; exact Hk|]. split.
    - intros p Hp. specialize (H p Hp). rewrite !andb_true_iff in H. destruct H as [[[H _] _] _]. apply Nat.eqb_eq in H. exact H.
    - intros p Hp. specialize (H p Hp). rewrite !andb_true_iff in H. destruct H as [[[_ H1] H2] H3]. split; [apply nodupb_NoDup; exact H2|]. split; [apply mem_In in H1; exact H1|].
      intros Ec. rewrite Ec in H3. cbn [negb orb] in H3. apply eqb_true in H3. exact H3. }
  split; [apply Hok; vm_compute; reflexivity|]. split; [apply Hok; vm_compute; reflexivity|]. vm_compute. auto.
Qed.

(* Structural clauses proved on the model for every graph, event, topological order and world order: *)
Theorem C18_result_graph_is_the_ancestral_set_of_the_relabelled_event g ev topo worlds cf' ev' :
  make_counterfactual_graph g ev topo worlds = (cf', Some ev') ->
  exists cf, cf' = subgraph cf (ancestors_inclusive cf (ev_keys ev')) /\
             (forall v, In v (nodes cf') <-> exists k, In k (ev_keys ev') /\ dpath cf v k) /\
             (forall k, In k (ev_keys ev') -> In k (nodes cf')).
Proof. exact (cg_result_is_ancestral g ev topo worlds cf' ev'). Qed.

Theorem C18_event_contradicting_its_own_subscript_is_inconsistent g ev topo worlds :
  violates_effectiveness ev = true -> snd (make_counterfactual_graph g ev topo worlds) = None.
Proof. exact (cg_effectiveness_violation_is_inconsistent g ev topo worlds). Qed.

(* the produced graph is acyclic: for any ranking r of variable names that the edges of the input graph respect (a topological
   order of the input graph is one), every edge of the counterfactual graph goes upward in r; hence there is no directed
   cycle - for every event, every order of the worlds, and whether or not an inconsistency is reported *)
Theorem C18_counterfactual_graph_is_acyclic (r : nat -> nat) g ev topo worlds :
  (forall a b, In (a, b) (dir g) -> r (vn a) < r (vn b)) ->
  forall v, ~ clos_trans var (fun a b => In (a, b) (dir (fst (make_counterfactual_graph g ev topo worlds)))) v v.
Proof. exact (counterfactual_graph_acyclic r g ev topo worlds). Qed.

Print Assumptions C18_relabelled_event_is_true_at_exactly_the_same_states.
Print Assumptions C18_relabelled_event_same_truth_for_given_worlds.
Print Assumptions C18_counterfactual_graph_is_acyclic.
Print Assumptions C18_result_graph_is_the_ancestral_set_of_the_relabelled_event.
Print Assumptions C18_event_contradicting_its_own_subscript_is_inconsistent.
