(* C13 - DSL operators and rewrite helpers are identities of probability calculus. *)
From Coq Require Import List Bool.
From Y0 Require Import Base.ListSet Dsl.Syntax Dsl.Build Dsl.Canon Proofs.DslP.
Import ListNotations.

(* Proved so far: the chain-rule expansion yields only single-child conditional factors, for every joint or
   conditional probability, every ordering and both reorder modes. The semantic identities are checked on every
   run by the exact-arithmetic oracle; their proofs need Dsl/Sem.v (planned). *)
Theorem C13_chain_expansion_yields_single_child_factors pop ch pa reorder ordering :
  ch <> [] ->
  match chain_expand (EProb pop ch pa) reorder ordering with
  | EErr _ => True
  | r => has_markov_postcondition r = Some true
  end.
Proof. exact (chain_expand_single_children pop ch pa reorder ordering). Qed.

Print Assumptions C13_chain_expansion_yields_single_child_factors.
