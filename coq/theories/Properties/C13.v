From Coq Require Import List.
Theorem placeholder_c13 : True. Proof. exact I. Qed.
Print Assumptions placeholder_c13.
