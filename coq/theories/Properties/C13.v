(* C13 - DSL operators and rewrite helpers are identities of probability calculus.
   [eval m e r] is the value of expression e in model m under the value assignment r (Dsl/Sem.v); a model gives
   the value of every probability term, so the theorems hold for every distribution. Division is total on Q
   (x / 0 = 0); Fraction.simplify, which cancels factors, carries the hypothesis that the denominator is not zero. *)
From Coq Require Import List Bool QArith.
From Y0 Require Import Base.ListSet Dsl.Syntax Dsl.Build Dsl.Canon Dsl.Sem Dsl.Laws Proofs.DslP Proofs.SemP Proofs.LawP Proofs.SumSimpP Proofs.CanonSemP Proofs.ChainP Proofs.ContractP.
Import ListNotations.
Open Scope Q_scope.

Theorem C13_multiplication m r a b : eval m (mul a b) r == eval m a r * eval m b r.
Proof. exact (eval_mul m r a b). Qed.

Theorem C13_division m r a b : eval m (truediv a b) r == eval m a r / eval m b r.
Proof. exact (eval_truediv m r b a). Qed.

Theorem C13_product_constructor m r es : eval m (prod_safe es) r == qprod (eval_list m es r).
Proof. exact (eval_prod_safe m r es). Qed.

Theorem C13_sum_constructor m e rs r :
  existsb bad_range (upgrade_ordering rs) = false ->
  eval m (sum_safe e rs false) r == sum_over m (map vn (upgrade_ordering rs)) (eval m e) r.
Proof. exact (eval_sum_safe m e rs r). Qed.

Theorem C13_marginalisation m e rs r :
  existsb bad_range (upgrade_ordering (map get_base rs)) = false ->
  eval m (marginalize e rs) r == sum_over m (map vn (upgrade_ordering (map get_base rs))) (eval m e) r.
Proof. exact (eval_marginalize m e rs r). Qed.

Theorem C13_normalised_marginalisation m e rs r :
  existsb bad_range (upgrade_ordering (map get_base rs)) = false ->
  eval m (normalize_marginalize e rs) r == eval m e r / sum_over m (map vn (upgrade_ordering (map get_base rs))) (eval m e) r.
Proof. exact (eval_normalize_marginalize m e rs r). Qed.

Theorem C13_fraction_simplification m r n d :
  ~ eval m d r == 0 -> eval m (frac_simplify (EFrac n d)) r == eval m n r / eval m d r.
Proof. exact (eval_frac_simplify m r n d). Qed.

(* Sum.simplify uses probability calculus (marginal consistency): it holds in every LAWFUL model (Dsl/Laws.v), for a joint
   over simple variables with distinct names summed over distinct bare variables *)
Theorem C13_sum_simplification m pop ch rs r :
  lawful m -> Aok pop ch [] = true -> forallb plain rs = true -> NoDup rs ->
  is_err (sum_simplify (EProb pop ch []) rs) = false ->
  eval m (sum_simplify (EProb pop ch []) rs) r == sum_over m (names rs) (eval m (EProb pop ch [])) r.
Proof. exact (fun Hl Ha Hp Hn => eval_sum_simplify_joint m Hl pop ch rs Ha Hp Hn r). Qed.

(* Sum.safe(..., simplify=True) of any well-formed summand *)
Theorem C13_sum_constructor_with_simplification m c rs r :
  lawful m -> okp c = true -> forallb plain rs = true ->
  is_err (sum_safe_gen false c rs true) = false ->
  eval m (sum_safe_gen false c rs true) r == sum_over m (names (upgrade_ordering rs)) (eval m c) r.
Proof. exact (fun Hl => eval_sum_safe_simplify m Hl c rs r). Qed.

(* finite sums commute: the order in which range variables are listed is immaterial *)
Theorem C13_order_of_summation_is_immaterial m ns ns' f r :
  Permutation.Permutation ns ns' -> ext_fun f -> sum_over m ns f r == sum_over m ns' f r.
Proof. exact (fun Hp => sum_over_perm m ns ns' Hp f r). Qed.

(* chain rule: the product of the single-child conditionals is the original conditional probability *)
Theorem C13_chain_expansion m pop ch pa reorder ordering r :
  lawful m -> NoDup (ch ++ pa) -> ch <> [] ->
  is_err (chain_expand (EProb pop ch pa) reorder ordering) = false ->
  eval m (chain_expand (EProb pop ch pa) reorder ordering) r == atom m pop ch pa r.
Proof. exact (fun Hl => eval_chain_expand m Hl pop ch pa reorder ordering r). Qed.

Theorem C13_fraction_expansion m pop ch pa r :
  lawful m -> NoDup pa -> ch <> [] -> eval m (fraction_expand (EProb pop ch pa)) r == atom m pop ch pa r.
Proof. exact (fun Hl => eval_fraction_expand m Hl pop ch pa r). Qed.

Theorem C13_bayes_expansion m pop ch pa r :
  lawful m -> NoDup (names (ch ++ pa)) -> ch <> [] -> eval m (bayes_expand (EProb pop ch pa)) r == atom m pop ch pa r.
Proof. exact (fun Hl => eval_bayes_expand m Hl pop ch pa r). Qed.

(* contraction (repaired code: both probabilities of the same kind and population) *)
Theorem C13_contraction m pop nch dch r :
  lawful m -> NoDup nch -> NoDup dch -> dch <> [] ->
  is_err (contract (EFrac (EProb pop nch []) (EProb pop dch []))) = false ->
  eval m (contract (EFrac (EProb pop nch []) (EProb pop dch []))) r == atom m pop nch [] r / atom m pop dch [] r.
Proof. exact (fun Hl => eval_contract m Hl pop nch dch r). Qed.

(* the traversal: contracting every quotient of two joint terms inside sums and products leaves the meaning unchanged *)
Theorem C13_recursive_contraction m e :
  lawful m -> wfc e = true -> is_err (recursive_contract e) = false ->
  forall r, eval m (recursive_contract e) r == eval m e r.
Proof. exact (fun Hl => eval_recursive_contract m Hl e). Qed.

(* the code before the repair contracted across populations: PP[S](A, B) / P(B) became PP[S](A | B) *)
Theorem C13_old_contraction_ignored_the_population :
  contract_old (EFrac (EProb (Some (V 17)) [V 0; V 1] []) (EProb None [V 1] [])) = EProb (Some (V 17)) [V 0] [V 1] /\
  contract (EFrac (EProb (Some (V 17)) [V 0; V 1] []) (EProb None [V 1] [])) = EFrac (EProb (Some (V 17)) [V 0; V 1] []) (EProb None [V 1] []).
Proof. vm_compute. auto. Qed.

(* the marginalisation law needs distinct names and a summed name that is not an intervention value; the code before the
   repairs simplified regardless (Y=22, X=21, Z=23):  Sum[Y](P(Y@+X, Y@-X)) -> One,  Sum[Y](P(Y@-X, Z@-Y)) -> P[Y](Z) *)
Theorem C13_old_sum_simplification_ignored_the_side_conditions :
  let yx (s : bool) := mkVar KCf 22 None [(21%nat, s)] in let zy := mkVar KCf 23 None [(22%nat, false)] in
  sum_simplify_gen true (EProb None [yx true; yx false] []) [V 22] = EOne /\
  sum_simplify_gen false (EProb None [yx true; yx false] []) [V 22] = ESum (EProb None [yx true; yx false] []) [V 22] /\
  sum_simplify_gen true (EProb None [yx false; zy] []) [V 22] = EProb None [zy] [] /\
  sum_simplify_gen false (EProb None [yx false; zy] []) [V 22] = ESum (EProb None [yx false; zy] []) [V 22].
Proof. vm_compute. auto. Qed.

Theorem C13_chain_expansion_yields_single_child_factors pop ch pa reorder ordering :
  ch <> [] ->
  match chain_expand (EProb pop ch pa) reorder ordering with
  | EErr _ => True
  | r => has_markov_postcondition r = Some true
  end.
Proof. exact (chain_expand_single_children pop ch pa reorder ordering). Qed.

Print Assumptions C13_multiplication.
Print Assumptions C13_division.
Print Assumptions C13_product_constructor.
Print Assumptions C13_sum_constructor.
Print Assumptions C13_marginalisation.
Print Assumptions C13_normalised_marginalisation.
Print Assumptions C13_fraction_simplification.
Print Assumptions C13_sum_simplification.
Print Assumptions C13_sum_constructor_with_simplification.
Print Assumptions C13_order_of_summation_is_immaterial.
Print Assumptions C13_chain_expansion.
Print Assumptions C13_fraction_expansion.
Print Assumptions C13_bayes_expansion.
Print Assumptions C13_contraction.
Print Assumptions C13_recursive_contraction.
Print Assumptions C13_old_contraction_ignored_the_population.
Print Assumptions C13_old_sum_simplification_ignored_the_side_conditions.
Print Assumptions C13_chain_expansion_yields_single_child_factors.
