(* C13 - DSL operators and rewrite helpers are identities of probability calculus.
   [eval m e r] is the value of expression e in model m under the value assignment r (Dsl/Sem.v); a model gives
   the value of every probability term, so the theorems hold for every distribution. Division is total on Q
   (x / 0 = 0); Fraction.simplify, which cancels factors, carries the hypothesis that the denominator is not zero. *)
From Coq Require Import List Bool QArith.
From Y0 Require Import Base.ListSet Dsl.Syntax Dsl.Build Dsl.Canon Dsl.Sem Proofs.DslP Proofs.SemP.
Import ListNotations.
Open Scope Q_scope.

Theorem C13_multiplication m r a b : eval m (mul a b) r == eval m a r * eval m b r.
Proof. exact (eval_mul m r a b). Qed.

Theorem C13_division m r a b : eval m (truediv a b) r == eval m a r / eval m b r.
Proof. exact (eval_truediv m r b a). Qed.

Theorem C13_product_constructor m r es : eval m (prod_safe es) r == qprod (eval_list m es r).
Proof. exact (eval_prod_safe m r es). Qed.

Theorem C13_sum_constructor m e rs r :
  existsb bad_range (upgrade_ordering rs) = false ->
  eval m (sum_safe e rs false) r == sum_over m (map vn (upgrade_ordering rs)) (eval m e) r.
Proof. exact (eval_sum_safe m e rs r). Qed.

Theorem C13_marginalisation m e rs r :
  existsb bad_range (upgrade_ordering (map get_base rs)) = false ->
  eval m (marginalize e rs) r == sum_over m (map vn (upgrade_ordering (map get_base rs))) (eval m e) r.
Proof. exact (eval_marginalize m e rs r). Qed.

Theorem C13_normalised_marginalisation m e rs r :
  existsb bad_range (upgrade_ordering (map get_base rs)) = false ->
  eval m (normalize_marginalize e rs) r == eval m e r / sum_over m (map vn (upgrade_ordering (map get_base rs))) (eval m e) r.
Proof. exact (eval_normalize_marginalize m e rs r). Qed.

Theorem C13_fraction_simplification m r n d :
  ~ eval m d r == 0 -> eval m (frac_simplify (EFrac n d)) r == eval m n r / eval m d r.
Proof. exact (eval_frac_simplify m r n d). Qed.

Theorem C13_chain_expansion_yields_single_child_factors pop ch pa reorder ordering :
  ch <> [] ->
  match chain_expand (EProb pop ch pa) reorder ordering with
  | EErr _ => True
  | r => has_markov_postcondition r = Some true
  end.
Proof. exact (chain_expand_single_children pop ch pa reorder ordering). Qed.

Print Assumptions C13_multiplication.
Print Assumptions C13_division.
Print Assumptions C13_product_constructor.
Print Assumptions C13_sum_constructor.
Print Assumptions C13_marginalisation.
Print Assumptions C13_normalised_marginalisation.
Print Assumptions C13_fraction_simplification.
Print Assumptions C13_chain_expansion_yields_single_child_factors.
