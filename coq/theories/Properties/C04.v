(* C04 - d-separation verdicts equal true m-separation in the mixed graph.
   Model: Graph/DSep.v [are_d_separated] (moralisation of the ancestral graph, as conditional_independencies.py does it).
   Specifications: Graph/DSep.v [d_separated_spec] - textbook, path form: no simple path in the skeleton of the DAG that
   replaces every bidirected edge by an unobserved common parent is active (collider = ancestor of C, non-collider
   outside C); Graph/MSep.v [m_connected] - walk form, for any mixed graph. *)
From Coq Require Import List Bool.
From Y0 Require Import Base.ListSet Graph.MixedGraph Graph.DSep Graph.MSep
  Proofs.DSepP Proofs.MSepP Proofs.MSepSymP Proofs.MSepLatP Proofs.DSepFullP.
Import ListNotations.

(* The full statement of the property, proved: on every well-formed acyclic directed mixed graph, for all nodes a, b
   outside the conditioning set C, the verdict is the textbook d-separation in the latent DAG. *)
Theorem C04_verdict_is_textbook_d_separation_in_the_latent_dag (g : mg nat) a b C :
  wf g -> is_acyclic g = true ->
  In a (nodes g) -> In b (nodes g) -> incl C (nodes g) -> ~ In a C -> ~ In b C ->
  are_d_separated g a b C = DOk (d_separated_spec g a b C).
Proof. exact (dsep_equals_textbook g a b C). Qed.

(* For every mixed graph, cyclic ones included: 'separated' exactly when no active walk joins a and b given C. *)
Theorem C04_verdict_is_m_separation (g : mg nat) a b C :
  In a (nodes g) -> In b (nodes g) -> incl C (nodes g) -> ~ In a C -> ~ In b C ->
  exists s, are_d_separated g a b C = DOk s /\ (s = true <-> ~ m_connected g C a b).
Proof. exact (are_d_separated_correct g a b C). Qed.

(* m-connection in the mixed graph is d-connection in the DAG with one unobserved common parent per bidirected edge *)
Theorem C04_m_connection_is_d_connection_in_the_latent_dag (g : mg nat) a b C :
  wf g -> In a (nodes g) -> incl C (nodes g) -> In b (nodes g) ->
  (m_connected g C a b <-> m_connected (lat g) C a b).
Proof. intros Hw Ha HC Hb. exact (m_connected_lat g Hw a C Ha HC b Hb). Qed.

(* the verdict, errors included, is symmetric in the two nodes - every graph, every input *)
Theorem C04_symmetric (g : mg nat) a b C : are_d_separated g a b C = are_d_separated g b a C.
Proof. exact (are_d_separated_sym g a b C). Qed.

(* the verdict depends only on the SETS of nodes, directed edges, bidirected edges (either orientation) and conditions:
   not on the order of insertion *)
Theorem C04_independent_of_insertion_order (g h : mg nat) a b C C' :
  same_graph g h -> (forall v, In v C <-> In v C') -> are_d_separated g a b C = are_d_separated h a b C'.
Proof. exact (are_d_separated_same g h a b C C'). Qed.

Theorem C04_keyerror_exactly_on_unknown_nodes (g : mg nat) a b C :
  are_d_separated g a b C = DKeyError <-> ~ (In a (nodes g) /\ In b (nodes g) /\ incl C (nodes g)).
Proof. exact (dsep_keyerror g a b C). Qed.

Theorem C04_total_on_valid_input (g : mg nat) a b C :
  In a (nodes g) -> In b (nodes g) -> incl C (nodes g) -> ~ In a C -> ~ In b C ->
  exists s, are_d_separated g a b C = DOk s.
Proof. exact (dsep_total g a b C). Qed.

(* the code before the repair violates the statement *)
Theorem C04_old_code_refuted :
  exists (g : mg nat) a b C,
    is_acyclic g = true /\ are_d_separated_old g a b C = DOk true /\ d_separated_spec g a b C = false.
Proof. exact dsep_old_refuted. Qed.

(* the hypotheses are satisfiable and both verdicts occur: Z -> X -> Y with X <-> Y (Z=0, X=1, Y=2) *)
Example C04_not_vacuous :
  let g := MG [0; 1; 2] [(0, 1); (1, 2)] [(1, 2)] in
  wfb g = true /\ is_acyclic g = true /\
  are_d_separated g 0 2 [1] = DOk false /\ are_d_separated (MG [0; 1; 2] [(0, 1); (1, 2)] []) 0 2 [1] = DOk true.
Proof. vm_compute. auto. Qed.

Print Assumptions C04_verdict_is_textbook_d_separation_in_the_latent_dag.
Print Assumptions C04_verdict_is_m_separation.
Print Assumptions C04_m_connection_is_d_connection_in_the_latent_dag.
Print Assumptions C04_symmetric.
Print Assumptions C04_independent_of_insertion_order.
Print Assumptions C04_keyerror_exactly_on_unknown_nodes.
Print Assumptions C04_total_on_valid_input.
Print Assumptions C04_old_code_refuted.
