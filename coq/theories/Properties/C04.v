(* C04 - d-separation verdicts equal true m-separation in the mixed graph. *)
From Coq Require Import List Bool.
From Y0 Require Import Base.ListSet Graph.MixedGraph Graph.DSep Proofs.DSepP.
Import ListNotations.

(* Full statement of the property (kept visible; see DESIGN.md for what is proved of it). *)
Definition C04_statement : Prop :=
  forall (g : mg nat) a b C, wf g -> is_acyclic g = true ->
    In a (nodes g) -> In b (nodes g) -> a <> b -> incl C (nodes g) -> ~ In a C -> ~ In b C ->
    are_d_separated g a b C = DOk (d_separated_spec g a b C) /\
    are_d_separated g a b C = are_d_separated g b a C.

Theorem C04_keyerror_exactly_on_unknown_nodes (g : mg nat) a b C :
  are_d_separated g a b C = DKeyError <-> ~ (In a (nodes g) /\ In b (nodes g) /\ incl C (nodes g)).
Proof. exact (dsep_keyerror g a b C). Qed.

Theorem C04_total_on_valid_input (g : mg nat) a b C :
  In a (nodes g) -> In b (nodes g) -> incl C (nodes g) -> ~ In a C -> ~ In b C ->
  exists s, are_d_separated g a b C = DOk s.
Proof. exact (dsep_total g a b C). Qed.

(* the code before the repair violates the statement *)
Theorem C04_old_code_refuted :
  exists (g : mg nat) a b C,
    is_acyclic g = true /\ are_d_separated_old g a b C = DOk true /\ d_separated_spec g a b C = false.
Proof. exact dsep_old_refuted. Qed.

(* bounded instance of the statement: all 512 edge configurations on three nodes *)
Theorem C04_partial_bounded_3_nodes :
  forall g t, In g small_graphs -> is_acyclic g = true -> In t triples3 -> agrees g t = true.
Proof. exact dsep_agrees_bounded_3. Qed.

Print Assumptions C04_keyerror_exactly_on_unknown_nodes.
Print Assumptions C04_total_on_valid_input.
Print Assumptions C04_old_code_refuted.
Print Assumptions C04_partial_bounded_3_nodes.
