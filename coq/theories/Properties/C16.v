(* C16 - LV-DAG conversion round-trips; Evans simplification keeps the observed model. *)
From Coq Require Import List Bool Arith.
From Y0 Require Import Base.ListSet Graph.MixedGraph Graph.LatentDag Proofs.LatentDagP.
Import ListNotations.

(* Full statement for the simplification (kept visible). Proved so far: the observed-node clause
   and the round trip; idempotence and projection equality are checked on every generated case
   inside Coq (Corr/C16.v) but not yet proved for all inputs. *)
Definition C16_simplification_statement : Prop :=
  forall d : lv, (forall L, In L (llat d) -> ~ In (prime L) (lnodes d)) ->
    is_acyclic (MG (lnodes d) (ledges d) []) = true ->
    lv_eqb (simplify_latent_dag (simplify_latent_dag d)) (simplify_latent_dag d) = true /\
    mg_eqb (from_lv (simplify_latent_dag d)) (latent_projection d) = true.

Theorem C16_round_trip (g : mg nat) :
  wf g -> (forall u, ~ In (u, u) (bid g)) ->
  (forall v, In v (nodes (from_lv (to_lv g))) <-> In v (nodes g)) /\
  (forall u c, In (u, c) (dir (from_lv (to_lv g))) <-> In (u, c) (dir g)) /\
  (forall a b, In (a, b) (bid (from_lv (to_lv g))) <-> In (a, b) (bid g)).
Proof.
  exact (fun W N => conj (round_trip_nodes g W N) (conj (round_trip_dir g W) (round_trip_bid g W N))).
Qed.

Theorem C16_simplification_keeps_observed_nodes (d : lv) :
  (forall L, In L (llat d) -> ~ In (prime L) (lnodes d)) ->
  forall v, In v (observed (simplify_latent_dag d)) <-> In v (observed d).
Proof. exact (simplify_keeps_observed d). Qed.

(* the pinned tree before the repair *)
Theorem C16_old_simplification_not_idempotent_refuted :
  exists d, lv_eqb (simplify_latent_dag_old (simplify_latent_dag_old d)) (simplify_latent_dag_old d) = false.
Proof. exact simplify_old_not_idempotent. Qed.

Print Assumptions C16_round_trip.
Print Assumptions C16_simplification_keeps_observed_nodes.
Print Assumptions C16_old_simplification_not_idempotent_refuted.
