(* C16 - LV-DAG conversion round-trips; Evans simplification keeps the observed model.
   Model: Graph/LatentDag.v (to/from_latent_variable_dag, the four rules of simplify_latent.py in the implemented order).
   Specification: [latent_projection] - a directed edge for every directed path through latents only, a bidirected edge
   for every pair of observed nodes reachable through latents only from a common latent. *)
From Coq Require Import List Bool Arith.
From Y0 Require Import Base.ListSet Graph.MixedGraph Graph.LatentDag
  Proofs.LatentDagP Proofs.LvProjP Proofs.LvFinalP Proofs.LvIdemP.
Import ListNotations.

(* well-formed input: edges join nodes, latents are nodes, node list without repetition, the name of a transformed latent
   ("<name>_prime") is not in use, no directed cycle (the model's acyclicity test) *)
Definition lv_ok (d : lv) : Prop :=
  lwf d /\ NoDup (lnodes d) /\ (forall K, In K (llat d) -> ~ In (prime K) (lnodes d)) /\
  is_acyclic (MG (lnodes d) (ledges d) []) = true.

Theorem C16_round_trip (g : mg nat) :
  wf g -> (forall u, ~ In (u, u) (bid g)) ->
  (forall v, In v (nodes (from_lv (to_lv g))) <-> In v (nodes g)) /\
  (forall u c, In (u, c) (dir (from_lv (to_lv g))) <-> In (u, c) (dir g)) /\
  (forall a b, In (a, b) (bid (from_lv (to_lv g))) <-> In (a, b) (bid g)).
Proof.
  exact (fun W N => conj (round_trip_nodes g W N) (conj (round_trip_dir g W) (round_trip_bid g W N))).
Qed.

(* the mixed graph read off the simplified DAG is exactly the latent projection of the original DAG *)
Theorem C16_simplified_dag_reads_off_the_latent_projection (d : lv) :
  lv_ok d -> mg_eqb (from_lv (simplify_latent_dag d)) (latent_projection d) = true.
Proof.
  exact (fun H => simplification_is_the_latent_projection d (proj1 H) (proj1 (proj2 H)) (proj1 (proj2 (proj2 H))) (proj2 (proj2 (proj2 H)))).
Qed.

(* simplifying again changes nothing - the very same nodes, edges and latent tags *)
Theorem C16_simplification_is_idempotent (d : lv) :
  lv_ok d -> simplify_latent_dag (simplify_latent_dag d) = simplify_latent_dag d.
Proof.
  exact (fun H => simplification_is_idempotent d (proj1 H) (proj1 (proj2 H)) (proj1 (proj2 (proj2 H))) (proj2 (proj2 (proj2 H)))).
Qed.

Theorem C16_simplification_keeps_observed_nodes (d : lv) :
  (forall L, In L (llat d) -> ~ In (prime L) (lnodes d)) ->
  forall v, In v (observed (simplify_latent_dag d)) <-> In v (observed d).
Proof. exact (simplify_keeps_observed d). Qed.

(* the pinned tree before the repair *)
Theorem C16_old_simplification_not_idempotent_refuted :
  exists d, lv_eqb (simplify_latent_dag_old (simplify_latent_dag_old d)) (simplify_latent_dag_old d) = false.
Proof. exact simplify_old_not_idempotent. Qed.

(* the hypotheses hold for a DAG with a chain of three latents (U1 -> U2 -> U3 -> A, U1 -> C, Z -> C -> A; even numbers,
   primes are the odd successors) and the simplification really changes it *)
Example C16_not_vacuous :
  let d := LV [0; 2; 4; 6; 8; 10] [(0, 2); (2, 4); (4, 6); (0, 8); (10, 8); (8, 6)] [0; 2; 4] in
  wfb (MG (lnodes d) (ledges d) []) = true /\ is_acyclic (MG (lnodes d) (ledges d) []) = true /\
  lv_eqb (simplify_latent_dag d) d = false /\ bid (from_lv (simplify_latent_dag d)) <> [].
Proof. vm_compute. repeat split; discriminate. Qed.

Print Assumptions C16_round_trip.
Print Assumptions C16_simplified_dag_reads_off_the_latent_projection.
Print Assumptions C16_simplification_is_idempotent.
Print Assumptions C16_simplification_keeps_observed_nodes.
Print Assumptions C16_old_simplification_not_idempotent_refuted.
