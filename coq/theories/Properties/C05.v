(* C05 - Surrogate-outcome / transport (TRSO) estimands equal the target effect. *)
From Coq Require Import List Bool.
From Y0 Require Import Base.ListSet Graph.MixedGraph Graph.Closure Dsl.Syntax Dsl.Build Dsl.Canon Alg.Id Alg.Trso Proofs.TrsoP Proofs.IdTotalP Proofs.TrsoIdP Sem.Scm Proofs.IdSemP.
Import ListNotations.

(* Soundness over multi-domain SCM families is not yet proved (DESIGN.md 5/C05). Proved on the model: *)
Theorem C05_without_target_interventions_the_answer_is_the_marginal topo fuel Y e act dom graphs surr g :
  lookup dom graphs = Some g ->
  trso topo (S fuel) (mkTq [] Y e act dom graphs surr) =
  ok_expr (canon (sum_safe e (Vs (diff (get_regular_nodes g) Y)) false)).
Proof. exact (trso_without_interventions topo fuel Y e act dom graphs surr g). Qed.

Theorem C05_queries_naming_unknown_nodes_are_rejected topo g Y X domains :
  subset Y (nodes g) && subset X (nodes g) && subset (flat_map (fun d => snd (fst d) ++ snd d) domains) (nodes g) = false ->
  identify_target_outcomes topo g Y X domains = RCrash ValueError.
Proof. exact (trso_input_checks topo g Y X domains). Qed.

Theorem C05_overlapping_outcomes_and_interventions_are_rejected topo g Y X domains :
  subset Y (nodes g) && subset X (nodes g) && subset (flat_map (fun d => snd (fst d) ++ snd d) domains) (nodes g) = true ->
  inter Y X <> [] ->
  identify_target_outcomes topo g Y X domains = RCrash ValueError.
Proof. exact (trso_rejects_overlapping_query topo g Y X domains). Qed.

(* 'When no surrogate experiment is usable it returns an estimand exactly when ID does' - for queries WITHOUT source domains:
   on every valid query over a well-formed acyclic graph of regular nodes, the verdicts (estimand / no estimand) of
   identify_target_outcomes and identify_outcomes coincide unless one of the two raises; with a valid topological-order oracle ID
   never raises (C02), so TRSO either raises or gives ID's verdict. Proved by following the two recursions step by step (lines 1-4,
   the hedge test, line 9 / line 6, line 10 / line 7) under one fuel budget. Not covered: declared domains none of which is usable. *)
Theorem C05_without_domains_trso_and_id_agree topo (g : mg nat) X Y :
  wf g -> acyclicP g -> incl X (nodes g) -> incl Y (nodes g) -> Y <> [] -> (forall v, In v X -> ~ In v Y) ->
  (forall n, In n (nodes g) -> is_transport_node n = false) ->
  agree (v_tr (identify_target_outcomes topo g Y X [])) (v_id (identify_outcomes false topo g X Y)).
Proof. exact (trso_agrees_with_id_without_domains topo g X Y). Qed.

Theorem C05_without_domains_trso_gives_ids_verdict_or_raises topo
  (topo_ok : forall h, wf h -> acyclicP h -> exists o, topo h = Some o /\ is_topo h o = true) (g : mg nat) X Y :
  wf g -> acyclicP g -> incl X (nodes g) -> incl Y (nodes g) -> Y <> [] -> (forall v, In v X -> ~ In v Y) ->
  (forall n, In n (nodes g) -> is_transport_node n = false) ->
  v_tr (identify_target_outcomes topo g Y X []) = None \/
  v_tr (identify_target_outcomes topo g Y X []) = v_id (identify_outcomes false topo g X Y).
Proof. exact (trso_verdict_is_ids_verdict topo topo_ok g X Y). Qed.

(* not vacuous: the front-door graph, both give an estimand; the bow graph, both refuse *)
Example C05_agreement_not_vacuous :
  v_tr (identify_target_outcomes topological_sort (MG [100; 101; 102] [(100, 101); (101, 102)] [(100, 102)]) [102] [100] []) = Some true /\
  v_id (identify_outcomes false topological_sort (MG [100; 101; 102] [(100, 101); (101, 102)] [(100, 102)]) [100] [102]) = Some true /\
  v_tr (identify_target_outcomes topological_sort (MG [100; 101] [(100, 101)] [(100, 101)]) [101] [100] []) = Some false /\
  v_id (identify_outcomes false topological_sort (MG [100; 101] [(100, 101)] [(100, 101)]) [100] [101]) = Some false.
Proof. vm_compute. auto. Qed.

Print Assumptions C05_without_domains_trso_and_id_agree.
Print Assumptions C05_without_domains_trso_gives_ids_verdict_or_raises.
Print Assumptions C05_without_target_interventions_the_answer_is_the_marginal.
Print Assumptions C05_queries_naming_unknown_nodes_are_rejected.
Print Assumptions C05_overlapping_outcomes_and_interventions_are_rejected.

(* Lines 2 and 3 of TRSO use, in the current domain's selection diagram g, the sets ID uses (anc = An(Y)_g; add = the nodes that are no ancestors
   of Y once the edges into X are cut). Against the formal SCM semantics (Sem/Scm.v; a transport node is an ordinary parentless node of g) they
   are justified state by state, hence in every SCM of that domain over g: *)
Theorem C05_line2_the_outcomes_depend_on_their_ancestral_model_only
  (g : mg nat) {D : Type} (U : Type) (f : nat -> (nat -> D) -> U -> D) (rho : nat * bool -> D) order :
  local g U f -> is_topo g order = true ->
  forall Y ivs u x x',
    solution g U f rho ivs u x ->
    solution (subgraph g (ancestors_inclusive g Y)) U f rho (restrict_ivs (ancestors_inclusive g Y) ivs) u x' ->
    forall y, In y Y -> In y (nodes g) -> x y = x' y.
Proof.
  intros Hl Ho Y ivs u x x' Hs Hs' y Hy Hn.
  exact (line2_same_values g U f rho Hl order Ho Y ivs u x x' Hs Hs' y Hn (outcomes_in_their_ancestors g Y y Hy)).
Qed.

Theorem C05_line3_adds_treatments_without_effect_on_the_outcomes
  (g : mg nat) {D : Type} (U : Type) (f : nat -> (nat -> D) -> U -> D) (rho : nat * bool -> D) order :
  local g U f -> is_topo g order = true ->
  forall X Y ivs extra u x x',
    (forall v, In v X -> In v (map fst ivs)) ->
    (forall i, In i extra -> In (fst i) (get_no_effect_on_outcomes g X Y)) ->
    solution g U f rho ivs u x -> solution g U f rho (ivs ++ extra) u x' ->
    forall y, In y Y -> In y (nodes g) -> x y = x' y.
Proof.
  intros Hl Ho X Y ivs extra u x x' HX He Hs Hs' y Hy Hn.
  exact (line3_same_values g U f rho Hl order Ho X Y ivs extra u x x' HX He Hs Hs' y Hn (outcomes_in_their_ancestors _ Y y Hy)).
Qed.

Print Assumptions C05_line2_the_outcomes_depend_on_their_ancestral_model_only.
Print Assumptions C05_line3_adds_treatments_without_effect_on_the_outcomes.
