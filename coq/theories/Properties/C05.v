(* C05 - Surrogate-outcome / transport (TRSO) estimands equal the target effect. *)
From Coq Require Import List Bool.
From Y0 Require Import Base.ListSet Graph.MixedGraph Graph.Closure Dsl.Syntax Dsl.Build Dsl.Canon Alg.Id Alg.Trso Proofs.TrsoP Proofs.IdTotalP Proofs.TrsoIdP.
Import ListNotations.

(* Soundness over multi-domain SCM families is not yet proved (DESIGN.md 5/C05). Proved on the model: *)
Theorem C05_without_target_interventions_the_answer_is_the_marginal topo fuel Y e act dom graphs surr g :
  lookup dom graphs = Some g ->
  trso topo (S fuel) (mkTq [] Y e act dom graphs surr) =
  ok_expr (canon (sum_safe e (Vs (diff (get_regular_nodes g) Y)) false)).
Proof. exact (trso_without_interventions topo fuel Y e act dom graphs surr g). Qed.

Theorem C05_queries_naming_unknown_nodes_are_rejected topo g Y X domains :
  subset Y (nodes g) && subset X (nodes g) && subset (flat_map (fun d => snd (fst d) ++ snd d) domains) (nodes g) = false ->
  identify_target_outcomes topo g Y X domains = RCrash ValueError.
Proof. exact (trso_input_checks topo g Y X domains). Qed.

Theorem C05_overlapping_outcomes_and_interventions_are_rejected topo g Y X domains :
  subset Y (nodes g) && subset X (nodes g) && subset (flat_map (fun d => snd (fst d) ++ snd d) domains) (nodes g) = true ->
  inter Y X <> [] ->
  identify_target_outcomes topo g Y X domains = RCrash ValueError.
Proof. exact (trso_rejects_overlapping_query topo g Y X domains). Qed.

(* 'When no surrogate experiment is usable it returns an estimand exactly when ID does' - for queries WITHOUT source domains:
   on every valid query over a well-formed acyclic graph of regular nodes, the verdicts (estimand / no estimand) of
   identify_target_outcomes and identify_outcomes coincide unless one of the two raises; with a valid topological-order oracle ID
   never raises (C02), so TRSO either raises or gives ID's verdict. Proved by following the two recursions step by step (lines 1-4,
   the hedge test, line 9 / line 6, line 10 / line 7) under one fuel budget. Not covered: declared domains none of which is usable. *)
Theorem C05_without_domains_trso_and_id_agree topo (g : mg nat) X Y :
  wf g -> acyclicP g -> incl X (nodes g) -> incl Y (nodes g) -> Y <> [] -> (forall v, In v X -> ~ In v Y) ->
  (forall n, In n (nodes g) -> is_transport_node n = false) ->
  agree (v_tr (identify_target_outcomes topo g Y X [])) (v_id (identify_outcomes false topo g X Y)).
Proof. exact (trso_agrees_with_id_without_domains topo g X Y). Qed.

Theorem C05_without_domains_trso_gives_ids_verdict_or_raises topo
  (topo_ok : forall h, wf h -> acyclicP h -> exists o, topo h = Some o /\ is_topo h o = true) (g : mg nat) X Y :
  wf g -> acyclicP g -> incl X (nodes g) -> incl Y (nodes g) -> Y <> [] -> (forall v, In v X -> ~ In v Y) ->
  (forall n, In n (nodes g) -> is_transport_node n = false) ->
  v_tr (identify_target_outcomes topo g Y X []) = None \/
  v_tr (identify_target_outcomes topo g Y X []) = v_id (identify_outcomes false topo g X Y).
Proof. exact (trso_verdict_is_ids_verdict topo topo_ok g X Y). Qed.

(* not vacuous: the front-door graph, both give an estimand; the bow graph, both refuse *)
Example C05_agreement_not_vacuous :
  v_tr (identify_target_outcomes topological_sort (MG [100; 101; 102] [(100, 101); (101, 102)] [(100, 102)]) [102] [100] []) = Some true /\
  v_id (identify_outcomes false topological_sort (MG [100; 101; 102] [(100, 101); (101, 102)] [(100, 102)]) [100] [102]) = Some true /\
  v_tr (identify_target_outcomes topological_sort (MG [100; 101] [(100, 101)] [(100, 101)]) [101] [100] []) = Some false /\
  v_id (identify_outcomes false topological_sort (MG [100; 101] [(100, 101)] [(100, 101)]) [100] [101]) = Some false.
Proof. vm_compute. auto. Qed.

Print Assumptions C05_without_domains_trso_and_id_agree.
Print Assumptions C05_without_domains_trso_gives_ids_verdict_or_raises.
Print Assumptions C05_without_target_interventions_the_answer_is_the_marginal.
Print Assumptions C05_queries_naming_unknown_nodes_are_rejected.
Print Assumptions C05_overlapping_outcomes_and_interventions_are_rejected.
