(* C05 - Surrogate-outcome / transport (TRSO) estimands equal the target effect. *)
From Coq Require Import List Bool.
From Y0 Require Import Base.ListSet Graph.MixedGraph Dsl.Syntax Dsl.Build Dsl.Canon Alg.Id Alg.Trso Proofs.TrsoP.
Import ListNotations.

(* Soundness over multi-domain SCM families is not yet proved (DESIGN.md 5/C05). Proved on the model: *)
Theorem C05_without_target_interventions_the_answer_is_the_marginal topo fuel Y e act dom graphs surr g :
  lookup dom graphs = Some g ->
  trso topo (S fuel) (mkTq [] Y e act dom graphs surr) =
  ok_expr (canon (sum_safe e (Vs (diff (get_regular_nodes g) Y)) false)).
Proof. exact (trso_without_interventions topo fuel Y e act dom graphs surr g). Qed.

Theorem C05_queries_naming_unknown_nodes_are_rejected topo g Y X domains :
  subset Y (nodes g) && subset X (nodes g) && subset (flat_map (fun d => snd (fst d) ++ snd d) domains) (nodes g) = false ->
  identify_target_outcomes topo g Y X domains = RCrash ValueError.
Proof. exact (trso_input_checks topo g Y X domains). Qed.

Theorem C05_overlapping_outcomes_and_interventions_are_rejected topo g Y X domains :
  subset Y (nodes g) && subset X (nodes g) && subset (flat_map (fun d => snd (fst d) ++ snd d) domains) (nodes g) = true ->
  inter Y X <> [] ->
  identify_target_outcomes topo g Y X domains = RCrash ValueError.
Proof. exact (trso_rejects_overlapping_query topo g Y X domains). Qed.

Print Assumptions C05_without_target_interventions_the_answer_is_the_marginal.
Print Assumptions C05_queries_naming_unknown_nodes_are_rejected.
Print Assumptions C05_overlapping_outcomes_and_interventions_are_rejected.
