(* Finite sets as lists over a type with decidable boolean equality. Stdlib only. *)
From Coq Require Import List Bool Arith Lia.
Import ListNotations.

Class EqB (A : Type) := { eqb : A -> A -> bool; eqb_eq : forall x y, eqb x y = true <-> x = y }.

#[export] Instance EqB_nat : EqB nat := {| eqb := Nat.eqb; eqb_eq := Nat.eqb_eq |}.

#[export] Program Instance EqB_bool : EqB bool := {| eqb := Bool.eqb |}.
Next Obligation. destruct x, y; simpl; split; congruence. Qed.

Definition is_nil {T} (l : list T) : bool := match l with [] => true | _ => false end.

Section Pair.
  Context {A B : Type} `{EqB A} `{EqB B}.
  Definition pair_eqb (p q : A * B) : bool := eqb (fst p) (fst q) && eqb (snd p) (snd q).
  Lemma pair_eqb_eq p q : pair_eqb p q = true <-> p = q.
  Proof.
    destruct p as [a b], q as [c d]; unfold pair_eqb; simpl.
    rewrite andb_true_iff, !eqb_eq. split; [intros [-> ->]; reflexivity | intros E; inversion E; auto].
  Qed.
  #[export] Instance EqB_pair : EqB (A * B) := {| eqb := pair_eqb; eqb_eq := pair_eqb_eq |}.
End Pair.

Section Opt.
  Context {A : Type} `{EqB A}.
  Definition opt_eqb (p q : option A) : bool :=
    match p, q with Some a, Some b => eqb a b | None, None => true | _, _ => false end.
  Lemma opt_eqb_eq p q : opt_eqb p q = true <-> p = q.
  Proof.
    destruct p, q; simpl; try (split; congruence).
    rewrite eqb_eq. split; congruence.
  Qed.
  #[export] Instance EqB_opt : EqB (option A) := {| eqb := opt_eqb; eqb_eq := opt_eqb_eq |}.
End Opt.

Section Sets.
  Context {A : Type} `{EqB A}.

  Lemma eqb_true (x y : A) : eqb x y = true -> x = y.
  Proof. apply (proj1 (eqb_eq x y)). Qed.

  Lemma eqb_refl (x : A) : eqb x x = true.
  Proof. apply (proj2 (eqb_eq x x)); reflexivity. Qed.

  Lemma eqb_neq (x y : A) : eqb x y = false <-> x <> y.
  Proof.
    split.
    - intros E F. subst. rewrite eqb_refl in E. discriminate.
    - intros N. destruct (eqb x y) eqn:E; [apply eqb_true in E; contradiction | reflexivity].
  Qed.

  Lemma eqb_sym (x y : A) : eqb x y = eqb y x.
  Proof.
    destruct (eqb x y) eqn:E.
    - apply eqb_true in E; subst. symmetry; apply eqb_refl.
    - symmetry. apply eqb_neq. apply eqb_neq in E. congruence.
  Qed.

  Definition eq_dec_of (x y : A) : {x = y} + {x <> y}.
  Proof. destruct (eqb x y) eqn:E; [left; apply eqb_true; exact E | right; apply eqb_neq; exact E]. Defined.

  Definition mem (x : A) (l : list A) : bool := existsb (eqb x) l.

  Lemma mem_In x l : mem x l = true <-> In x l.
  Proof.
    unfold mem. rewrite existsb_exists. split.
    - intros [y [Hy E]]. apply eqb_true in E. subst. exact Hy.
    - intros Hx. exists x. split; [exact Hx | apply eqb_refl].
  Qed.

  Lemma mem_false x l : mem x l = false <-> ~ In x l.
  Proof.
    split.
    - intros E F. apply mem_In in F. congruence.
    - intros N. destruct (mem x l) eqn:E; [apply mem_In in E; contradiction | reflexivity].
  Qed.

  Lemma mem_app x l1 l2 : mem x (l1 ++ l2) = mem x l1 || mem x l2.
  Proof. unfold mem. apply existsb_app. Qed.

  Definition subset (l1 l2 : list A) : bool := forallb (fun x => mem x l2) l1.

  Lemma subset_incl l1 l2 : subset l1 l2 = true <-> incl l1 l2.
  Proof.
    unfold subset, incl. rewrite forallb_forall. split; intros Hx a Ha.
    - apply mem_In. apply Hx. exact Ha.
    - apply mem_In. apply Hx. exact Ha.
  Qed.

  Definition set_eqb (l1 l2 : list A) : bool := subset l1 l2 && subset l2 l1.

  Definition set_equiv (l1 l2 : list A) : Prop := forall x, In x l1 <-> In x l2.

  Lemma set_eqb_equiv l1 l2 : set_eqb l1 l2 = true <-> set_equiv l1 l2.
  Proof.
    unfold set_eqb, set_equiv. rewrite andb_true_iff, !subset_incl. unfold incl. firstorder.
  Qed.

  Definition inter (l1 l2 : list A) : list A := filter (fun x => mem x l2) l1.
  Definition diff (l1 l2 : list A) : list A := filter (fun x => negb (mem x l2)) l1.

  Lemma In_inter x l1 l2 : In x (inter l1 l2) <-> In x l1 /\ In x l2.
  Proof. unfold inter. rewrite filter_In, mem_In. tauto. Qed.

  Lemma In_diff x l1 l2 : In x (diff l1 l2) <-> In x l1 /\ ~ In x l2.
  Proof. unfold diff. rewrite filter_In, negb_true_iff, mem_false. tauto. Qed.

  (* insertion-ordered duplicate removal (first occurrence kept), as dict/set-from-iterable *)
  Fixpoint dedup_acc (acc l : list A) : list A :=
    match l with
    | [] => acc
    | x :: t => if mem x acc then dedup_acc acc t else dedup_acc (acc ++ [x]) t
    end.
  Definition dedup (l : list A) : list A := dedup_acc [] l.
  Definition union (l1 l2 : list A) : list A := dedup_acc l1 l2.

  Lemma In_dedup_acc l : forall acc x, In x (dedup_acc acc l) <-> In x acc \/ In x l.
  Proof.
    induction l as [|y t IH]; intros acc x; simpl.
    - tauto.
    - destruct (mem y acc) eqn:E.
      + rewrite IH. apply mem_In in E. split; [tauto|]. intros [?|[?|?]]; subst; auto.
      + rewrite IH, in_app_iff. simpl. tauto.
  Qed.

  Lemma NoDup_snoc (l : list A) x : NoDup l -> ~ In x l -> NoDup (l ++ [x]).
  Proof.
    induction l as [|y t IH]; intros Hn Hx; simpl.
    - constructor; [intros []|constructor].
    - inversion Hn as [|? ? Hy Ht]; subst. constructor.
      + rewrite in_app_iff. simpl. intros [?|[?|[]]]; [contradiction|subst; apply Hx; left; reflexivity].
      + apply IH; [exact Ht|]. intros F. apply Hx. right. exact F.
  Qed.

  Lemma NoDup_dedup_acc l : forall acc, NoDup acc -> NoDup (dedup_acc acc l).
  Proof.
    induction l as [|y t IH]; intros acc Hn; simpl; [exact Hn|].
    destruct (mem y acc) eqn:E; [apply IH; exact Hn|].
    apply IH. apply mem_false in E.
    apply NoDup_snoc; assumption.
  Qed.
End Sets.

Section ListEq.
  Context {A : Type} `{EqB A}.
  Fixpoint list_eqb (l1 l2 : list A) : bool :=
    match l1, l2 with
    | [], [] => true
    | x :: t, y :: u => eqb x y && list_eqb t u
    | _, _ => false
    end.
  Lemma list_eqb_eq l1 : forall l2, list_eqb l1 l2 = true <-> l1 = l2.
  Proof.
    induction l1 as [|x t IH]; intros [|y u]; simpl; try (split; congruence).
    rewrite andb_true_iff, IH. split.
    - intros [E ->]. apply eqb_true in E. subst. reflexivity.
    - intros E. inversion E; subst. split; [apply eqb_refl|reflexivity].
  Qed.
  #[export] Instance EqB_list : EqB (list A) := {| eqb := list_eqb; eqb_eq := list_eqb_eq |}.
End ListEq.

(* stable insertion sort: the unique stable arrangement for a strict weak order [lt] *)
Section Sort.
  Context {A : Type}.
  Variable lt : A -> A -> bool.
  Fixpoint insert_sorted (x : A) (l : list A) : list A :=
    match l with
    | [] => [x]
    | y :: t => if lt x y then x :: y :: t else y :: insert_sorted x t
    end.
  Definition stable_sort (l : list A) : list A := fold_left (fun acc x => insert_sorted x acc) l [].
End Sort.
