From Coq Require Import List Bool Arith.
From Y0 Require Import Base.ListSet Graph.MixedGraph Dsl.Syntax Dsl.Build Alg.Id Corr.Common.
Import ListNotations.

(* recorded topological orders: node set -> order *)
Definition topo_of (tbl : list (list nat * list nat)) (g : mg nat) : option (list nat) :=
  match find (fun p => set_eqb (fst p) (nodes g)) tbl with
  | Some p => Some (snd p)
  | None => topological_sort g       (* never sorted by the implementation: any valid order will do *)
  end.

(* out: 0 = estimand (given), 1 = None (unidentifiable), 2+ = exception code *)
Inductive case := CId (g : mg nat) (X Y : list nat) (tbl : list (list nat * list nat)) (code : nat) (out : expr).

Definition check (c : case) : bool :=
  match c with
  | CId g X Y tbl code out =>
      match identify_outcomes false (topo_of tbl) g X Y, code with
      | IdOk e, 0 => expr_eqb e out
      | IdUnident, 1 => true
      | IdCrash k, S (S _) => true
      | _, _ => false
      end
  end.
