From Coq Require Import List Bool Arith.
From Y0 Require Import Base.ListSet Graph.MixedGraph Dsl.Syntax Dsl.Build Alg.Id Alg.Idc Corr.Common Corr.Id.
Import ListNotations.

Inductive case := CIdc (g : mg nat) (X Y Z : list nat) (tbl : list (list nat * list nat)) (code : nat) (out : expr).

Definition matches (code : nat) (out : expr) (r : id_result) : bool :=
  match r, code with
  | IdOk e, 0 => expr_eqb e out
  | IdUnident, 1 => true
  | IdCrash k, S (S _) => true
  | _, _ => false
  end.

Definition check (c : case) : bool :=
  match c with
  | CIdc g X Y Z tbl code out => existsb (matches code out) (idc false (topo_of tbl) g X Y Z)
  end.
