From Coq Require Import List Bool Arith.
From Y0 Require Import Base.ListSet Graph.MixedGraph Graph.DSep Graph.Sigma Corr.Common.
Import ListNotations.

Inductive case := CSigma (g : mg nat) (a b : nat) (C : list nat) (out_ab out_ba : bool).

Definition check (c : case) : bool :=
  match c with
  | CSigma g a b C o1 o2 =>
      Bool.eqb (are_sigma_separated false g a b C) o1 && Bool.eqb (are_sigma_separated false g b a C) o2
      (* the model against the specification on this input: agreement with d-separation on ADMGs *)
      && (if is_acyclic g && negb (Nat.eqb a b) then Bool.eqb (are_sigma_separated false g a b C) (d_separated_spec g a b C) else true)
  end.
