From Coq Require Import List Bool Arith.
From Y0 Require Import Base.ListSet Graph.MixedGraph Graph.LatentDag Corr.Common.
Import ListNotations.

Inductive case :=
| CRound (g : mg nat) (out_lv : lv) (out_back : mg nat)
| CSimp (d : lv) (out : lv) (out_admg : mg nat).

Definition check (c : case) : bool :=
  match c with
  | CRound g out_lv out_back =>
      lv_equiv_upto_latent_names (to_lv g) out_lv && mg_eqb g out_back && mg_eqb (from_lv (to_lv g)) out_back
  | CSimp d out out_admg =>
      let s := simplify_latent_dag d in
      lv_eqb s out && mg_eqb (from_lv s) out_admg
      (* the model itself against the specification, on this input *)
      && lv_eqb (simplify_latent_dag s) s
      && mg_eqb (from_lv s) (latent_projection d)
      && subset (observed d) (lnodes s)
  end.
