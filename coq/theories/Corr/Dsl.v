(* Correspondence cases for the DSL layer (C10, C11, C12, C13): verbatim structural comparison. *)
From Coq Require Import List Bool Arith String.
From Y0 Require Import Base.ListSet Dsl.Syntax Dsl.Text Dsl.Build Dsl.Canon Dsl.Print Dsl.Parse Corr.Common.
Import ListNotations.

Inductive case :=
| COp (op : nat) (a b : expr) (out : expr)                 (* 0 __mul__, 1 __truediv__ *)
| CMarg (kind : nat) (a : expr) (rs : list var) (out : expr)
    (* 0 marginalize, 1 conditional, 2 normalize_marginalize, 3 Sum.safe, 4 Sum.safe(simplify=True) *)
| CUn (kind : nat) (a : expr) (out : expr)
    (* 0 Fraction.simplify, 1 Sum.simplify, 2 fraction_expand, 3 bayes_expand, 4 contract, 5 recursive_contract *)
| CChain (p : expr) (reorder : bool) (ordering : option (list var)) (out : expr)
| CMarkov (e : expr) (out : nat)                           (* 0 False, 1 True, 2 TypeError *)
| CCanon (e : expr) (ordering : option (list var)) (out out2 : expr) (* canonicalize; and canonicalize of the result *)
| CCanonEq (a b : expr) (out : bool)
| CPrint (e : expr) (out : string)
| CParse (s : string) (out : expr)
| CRound (e : expr) (txt : string) (parsed : expr) (txt2 : string).

Definition sum_simplify_method (e : expr) : expr :=
  match e with ESum e' rs => sum_simplify e' rs | _ => EErr 9 end.

Definition markov_code (e : expr) : nat :=
  match has_markov_postcondition e with Some false => 0 | Some true => 1 | None => 2 end.

Definition check (c : case) : bool :=
  match c with
  | COp 0 a b out => expr_eqb (mul a b) out
  | COp _ a b out => expr_eqb (truediv a b) out
  | CMarg 0 a rs out => expr_eqb (marginalize a rs) out
  | CMarg 1 a rs out => expr_eqb (conditional a rs) out
  | CMarg 2 a rs out => expr_eqb (normalize_marginalize a rs) out
  | CMarg 3 a rs out => expr_eqb (sum_safe a rs false) out
  | CMarg _ a rs out => expr_eqb (sum_safe a rs true) out
  | CUn 0 a out => expr_eqb (frac_simplify a) out
  | CUn 1 a out => expr_eqb (sum_simplify_method a) out
  | CUn 2 a out => expr_eqb (fraction_expand a) out
  | CUn 3 a out => expr_eqb (bayes_expand a) out
  | CUn 4 a out => expr_eqb (contract a) out
  | CUn _ a out => expr_eqb (recursive_contract a) out
  | CChain p r o out => expr_eqb (chain_expand p r o) out
  | CMarkov e out => Nat.eqb (markov_code e) out
  | CCanon e o out out2 =>
      let c1 := canonicalize_top false e o in
      expr_eqb c1 out && expr_eqb (canonicalize_top false c1 o) out2
  | CCanonEq a b out => Bool.eqb (canonical_expr_equal a b) out
  | CPrint e out => String.eqb (to_y0 e) out
  | CParse s out => expr_eqb (parse_y0 s) out
  | CRound e txt parsed txt2 =>
      String.eqb (to_y0 e) txt && expr_eqb (parse_y0 txt) parsed
      && (if is_err parsed then true else String.eqb (to_y0 parsed) txt2)
  end.
