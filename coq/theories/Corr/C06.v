From Coq Require Import List Bool Arith.
From Y0 Require Import Base.ListSet Dsl.Syntax Dsl.Build Alg.Vocab Corr.Common.
Import ListNotations.

(* kind: 0 ID/IDC estimand, 1 TRSO estimand, 2 ID*/IDC* estimand *)
Inductive case := CVocab (kind : nat) (N : list nat) (doms : list (nat * list nat)) (e : expr).

Definition check (c : case) : bool :=
  match c with
  | CVocab 0 N _ e => plain_obs N e
  | CVocab 1 N doms e => trso_vocab N 200 doms e
  | CVocab _ _ _ e => single_world e
  end.
