(* Correspondence plumbing: indices of the cases on which model and implementation differ. *)
From Coq Require Import List Bool Arith.
From Y0 Require Import Base.ListSet.
Import ListNotations.

Fixpoint mismatches_from {C} (check : C -> bool) (i : nat) (cs : list C) : list nat :=
  match cs with
  | [] => []
  | c :: t => if check c then mismatches_from check (S i) t else i :: mismatches_from check (S i) t
  end.
Definition mismatches {C} (check : C -> bool) (cs : list C) : list nat := mismatches_from check 0 cs.

(* set of sets *)
Definition sets_eqb {A} `{EqB A} (l1 l2 : list (list A)) : bool :=
  forallb (fun a => existsb (set_eqb a) l2) l1 && forallb (fun b => existsb (set_eqb b) l1) l2.

(* comparator self-test: these must differ / agree *)
Example cmp_selftest_1 : mismatches (fun p => set_eqb (fst p) (snd p)) [([1;2],[2;1]); ([1],[2]); ([1;1],[1])] = [1].
Proof. reflexivity. Qed.
