From Coq Require Import List Bool Arith.
From Y0 Require Import Base.ListSet Graph.MixedGraph Dsl.Syntax Dsl.Build Alg.Id Alg.Tian Corr.Common.
Import ListNotations.

(* parents of population-tagged atoms are compared as sets (tuple(set) in the implementation) *)
Fixpoint norm_pp (e : expr) : expr :=
  match e with
  | EProb (Some p) ch pa => EProb (Some p) ch (sorted_variables pa)
  | EProd es => EProd (map norm_pp es)
  | ESum e' rs => ESum (norm_pp e') rs
  | EFrac n d => EFrac (norm_pp n) (norm_pp d)
  | _ => e
  end.

(* code: 0 expression, 1 None, 2+ exception *)
Inductive case :=
| CCFactor (district sub_vars : list nat) (q : expr) (topo : list nat) (out : expr)
| CTian (g : mg nat) (C T : list nat) (q : expr) (topo : list nat) (code : nat) (out : expr).

Definition check (c : case) : bool :=
  match c with
  | CCFactor d sv q topo out => expr_eqb (norm_pp (compute_c_factor d sv q topo)) (norm_pp out)
  | CTian g C T q topo code out =>
      match identify_district_variables (S (List.length T)) g C T q topo, code with
      | TOk e, 0 => expr_eqb (norm_pp e) (norm_pp out)
      | TFail, 1 => true
      | TExc k, S (S _) => true
      | _, _ => false
      end
  end.
