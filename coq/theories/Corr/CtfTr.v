From Coq Require Import List Bool Arith.
From Y0 Require Import Base.ListSet Graph.MixedGraph Dsl.Syntax Dsl.Build Alg.Id Alg.Tian Alg.Cg Alg.CtfAnc Alg.CtfTr
  Corr.Common Corr.Tian Corr.Ctf.
Import ListNotations.

(* code: 0 result (expression, event or None), 1 FAIL (None), 2+ exception *)
Inductive case :=
| CUncond (ev : cevent) (target : mg nat) (domains : list cft_domain) (code : nat) (out : expr) (out_ev : option cevent)
| CCond (outcomes conditions : list (var * (nat * bool))) (target : mg nat) (domains : list cft_domain)
        (code : nat) (out : expr) (out_ev : option cevent).

Definition opt_cev_eqb (a b : option cevent) : bool :=
  match a, b with Some x, Some y => cevent_eqb x y | None, None => true | _, _ => false end.

Definition matches (r : cft_result) (code : nat) (out : expr) (out_ev : option cevent) : bool :=
  match r, code with
  | CftOk e ev, 0 => expr_eqb (norm_pp e) (norm_pp out) && opt_cev_eqb ev out_ev
  | CftFail, 1 => true
  | CftExc _, S (S _) => true
  | _, _ => false
  end.

Definition check (c : case) : bool :=
  match c with
  | CUncond ev target domains code out out_ev => matches (transport_unconditional ev target domains) code out out_ev
  | CCond o cnd target domains code out out_ev => matches (transport_conditional o cnd target domains) code out out_ev
  end.
