From Coq Require Import List Bool Arith.
From Y0 Require Import Base.ListSet Graph.MixedGraph Dsl.Syntax Dsl.Build Alg.Id Alg.Cg Alg.CtfAnc Corr.Common.
Import ListNotations.

Definition cevent_eqb (a b : cevent) : bool := set_eqb a b.

Inductive case :=
| CMin (v : var) (g : mg nat) (out : option var)
| CAnc (v : var) (g : mg nat) (out : option (list var))
| CComp (conds roots : list var) (g : mg nat) (out : option (list (list var)))
| CSimp (ev : cevent) (g : mg nat) (code : nat) (out : cevent)      (* 0 event, 1 None, 2+ exception *)
| CFact (vars : cevent) (g : mg nat) (ok : bool) (out_e : expr) (out_ev : cevent).

Definition opt_set_eqb (a b : option (list var)) : bool :=
  match a, b with Some x, Some y => set_eqb x y | None, None => true | _, _ => false end.

Definition check (c : case) : bool :=
  match c with
  | CMin v g out => eqb (minimize_counterfactual v g) out
  | CAnc v g out => opt_set_eqb (get_ancestors_of_counterfactual v g) out
  | CComp conds roots g out =>
      match get_ancestral_components conds roots g, out with
      | Some a, Some b => sets_eqb a b
      | None, None => true
      | _, _ => false
      end
  | CSimp ev g code out =>
      match simplify ev g, code with
      | SEvent e, 0 => cevent_eqb e out
      | SNone, 1 => true
      | SExc _, S (S _) => true
      | _, _ => false
      end
  | CFact vars g ok out_e out_ev =>
      match do_counterfactual_factor_factorization vars g, ok with
      | Some (e, ev), true => expr_eqb e out_e && cevent_eqb ev out_ev
      | None, false => true
      | _, _ => false
      end
  end.
