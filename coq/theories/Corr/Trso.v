From Coq Require Import List Bool Arith.
From Y0 Require Import Base.ListSet Graph.MixedGraph Dsl.Syntax Dsl.Build Alg.Id Alg.Trso Corr.Common Corr.Id Corr.Tian.
Import ListNotations.

(* code: 0 estimand, 1 None, 2+ exception *)
Inductive case := CTrso (g : mg nat) (Y X : list nat) (domains : list (nat * list nat * list nat))
                        (tbl : list (list nat * list nat)) (code : nat) (out : expr).

Definition check (c : case) : bool :=
  match c with
  | CTrso g Y X domains tbl code out =>
      match identify_target_outcomes (topo_of tbl) g Y X domains, code with
      | ROk (Some e), 0 => expr_eqb (norm_pp e) (norm_pp out)
      | ROk None, 1 => true
      | RCrash _, S (S _) => true
      | RAmbiguous, S _ => true
      | _, _ => false
      end
  end.
