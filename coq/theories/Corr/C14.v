(* C14 correspondence: implementation results (serialised by the harness) against the model. *)
From Coq Require Import List Bool Arith.
From Y0 Require Import Base.ListSet Graph.Closure Graph.Paths Graph.MixedGraph Corr.Common.
Import ListNotations.

Notation G := (mg nat).

Inductive case :=
| CSubgraph (g : G) (S : list nat) (out : G)
| CRemoveIn (g : G) (S : list nat) (out : G)
| CRemoveOut (g : G) (S : list nat) (out : G)
| CRemoveNodes (g : G) (S : list nat) (out : G)
| CAnc (g : G) (S : list nat) (out : option (list nat))
| CDesc (g : G) (S : list nat) (out : option (list nat))
| CDistricts (g : G) (out : list (list nat))
| CPillow (g : G) (S : list nat) (out : list nat)
| CBlanket (g : G) (S : list nat) (out : list nat)
| CMoralize (g : G) (out : G)
| CDisorient (g : G) (out : list nat * list (nat * nat))
| CPre (g : G) (order S : list nat) (out : list nat)
| CTopo (g : G) (out : option (list nat))
| CPaths (g : G) (srcs tgts : list nat) (out : list nat).

Definition opt_set_eqb (a b : option (list nat)) : bool :=
  match a, b with Some x, Some y => set_eqb x y | None, None => true | _, _ => false end.


Fixpoint lnat_eqb (a b : list nat) : bool :=
  match a, b with [] , [] => true | x :: s, y :: t => Nat.eqb x y && lnat_eqb s t | _, _ => false end.

Definition check (c : case) : bool :=
  match c with
  | CSubgraph g X out => mg_eqb (subgraph g X) out
  | CRemoveIn g X out => mg_eqb (remove_in_edges g X) out
  | CRemoveOut g X out => mg_eqb (remove_out_edges g X) out
  | CRemoveNodes g X out => mg_eqb (remove_nodes_from g X) out
  | CAnc g X out => opt_set_eqb (if ancestors_ok g X then Some (ancestors_inclusive g X) else None) out
  | CDesc g X out => opt_set_eqb (if ancestors_ok g X then Some (descendants_inclusive g X) else None) out
  | CDistricts g out => sets_eqb (districts g) out
  | CPillow g X out => set_eqb (get_markov_pillow g X) out
  | CBlanket g X out => set_eqb (get_markov_blanket g X) out
  | CMoralize g out => mg_eqb (moralize g) out
  | CDisorient g out =>
      set_eqb (fst (disorient g)) (fst out) && usubset (snd (disorient g)) (snd out) && usubset (snd out) (snd (disorient g))
  | CPre g order X out => lnat_eqb (pre_of order X) out
  | CTopo g out => match out with
                   | Some order => is_topo g order && is_acyclic g
                   | None => negb (is_acyclic g)     (* NetworkXUnfeasible on a cyclic graph *)
                   end
  | CPaths g srcs tgts out => set_eqb (get_nodes_in_directed_paths g srcs tgts) out
  end.
