From Coq Require Import List Bool Arith.
From Y0 Require Import Base.ListSet Graph.MixedGraph Graph.DSep Corr.Common.
Import ListNotations.

(* out: 0 = connected, 1 = separated, 2 = KeyError, 3 = NetworkX NodeNotFound *)
Inductive case := CDsep (g : mg nat) (a b : nat) (C : list nat) (out_ab out_ba : nat).

Definition code (r : dsep_result) : nat :=
  match r with DOk false => 0 | DOk true => 1 | DKeyError => 2 | DNodeNotFound => 3 end.

Definition valid (g : mg nat) a b C : bool :=
  mem a (nodes g) && mem b (nodes g) && subset C (nodes g) && negb (mem a C) && negb (mem b C) && negb (Nat.eqb a b).

Definition check (c : case) : bool :=
  match c with
  | CDsep g a b C o1 o2 =>
      Nat.eqb (code (are_d_separated g a b C)) o1 && Nat.eqb (code (are_d_separated g b a C)) o2
      (* the model itself is checked against the textbook specification on every valid case *)
      && (if valid g a b C && is_acyclic g
          then Bool.eqb (d_separated_spec g a b C) (Nat.eqb o1 1) && Nat.eqb o1 o2 else true)
  end.
