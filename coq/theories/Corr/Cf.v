From Coq Require Import List Bool Arith.
From Y0 Require Import Base.ListSet Graph.MixedGraph Dsl.Syntax Dsl.Build Alg.Id Alg.Cg Alg.IdStar Corr.Common.
Import ListNotations.

(* code: 0 expression, 1 Unidentifiable, 2+ exception *)
Inductive case :=
| CCg (g : mg nat) (ev : event) (topo : list nat) (out_g : mg var) (out_ev : option event)
| CIdStar (g : mg nat) (ev : event) (topo : list nat) (code : nat) (out : expr)
| CIdcStar (g : mg nat) (outcomes conditions : event) (topo : list nat) (code : nat) (out : expr).

Definition opt_ev_eqb (a b : option event) : bool :=
  match a, b with Some x, Some y => ev_eqb x y | None, None => true | _, _ => false end.

Definition matches (code : nat) (out : expr) (r : id_result) : bool :=
  match r, code with
  | IdOk e, 0 => expr_eqb e out
  | IdUnident, 1 => true
  | IdCrash k, S (S _) => true
  | _, _ => false
  end.

Definition check (c : case) : bool :=
  match c with
  | CCg g ev topo out_g out_ev =>
      existsb (fun r => mg_eqb (fst r) out_g && opt_ev_eqb (snd r) out_ev)
              (make_counterfactual_graph_all (gv g) ev (map V topo))
  | CIdStar g ev topo code out => existsb (matches code out) (id_star g topo (S (4 * List.length (nodes g))) ev)
  | CIdcStar g o c topo code out => existsb (matches code out) (idc_star g topo (S (List.length c)) o c)
  end.
