From Coq Require Import List Bool Arith.
From Y0 Require Import Base.ListSet Graph.MixedGraph Dsl.Syntax Dsl.Build Alg.Id Alg.Cg Alg.IdStar Sem.Scm Sem.CfSem Corr.Common.
Import ListNotations.

(* code: 0 expression, 1 Unidentifiable, 2+ exception *)
Inductive case :=
| CCg (g : mg nat) (ev : event) (topo : list nat) (out_g : mg var) (out_ev : option event)
| CIdStar (g : mg nat) (ev : event) (topo : list nat) (code : nat) (out : expr)
| CIdcStar (g : mg nat) (outcomes conditions : event) (topo : list nat) (code : nat) (out : expr)
(* the Python functional-SCM oracle against the formal semantics Sem/Scm.v: [tabs] gives, for each sampled exogenous state, every node's parents and
   its response table at that state (rows: values of the parents -> value); [base] the base assignment; [expected] the oracle's verdict
   'the event is true at this state' for each state *)
| CSem (order : list nat) (tabs : list (list (nat * (list nat * list (list bool * bool))))) (base : list (nat * bool)) (ev : event) (expected : list bool).

Definition opt_ev_eqb (a b : option event) : bool :=
  match a, b with Some x, Some y => ev_eqb x y | None, None => true | _, _ => false end.

Definition matches (code : nat) (out : expr) (r : id_result) : bool :=
  match r, code with
  | IdOk e, 0 => expr_eqb e out
  | IdUnident, 1 => true
  | IdCrash k, S (S _) => true
  | _, _ => false
  end.

Definition lookup_row (rows : list (list bool * bool)) (key : list bool) : bool :=
  match find (fun r => eqb (fst r) key) rows with Some r => snd r | None => false end.
Definition sem_f (tabs : list (list (nat * (list nat * list (list bool * bool))))) (v : nat) (x : nat -> bool) (s : nat) : bool :=
  match find (fun e => Nat.eqb (fst e) v) (nth s tabs []) with
  | Some e => lookup_row (snd (snd e)) (map x (fst (snd e)))
  | None => false
  end.
Definition sem_rho (base : list (nat * bool)) (i : nat * bool) : bool :=
  xorb (match find (fun e => Nat.eqb (fst e) (fst i)) base with Some e => snd e | None => false end) (snd i).

Definition check (c : case) : bool :=
  match c with
  | CCg g ev topo out_g out_ev =>
      existsb (fun r => mg_eqb (fst r) out_g && opt_ev_eqb (snd r) out_ev)
              (make_counterfactual_graph_all (gv g) ev (map V topo))
  | CIdStar g ev topo code out => existsb (matches code out) (id_star g topo (S (4 * List.length (nodes g))) ev)
  | CIdcStar g o c topo code out => existsb (matches code out) (idc_star g topo (S (List.length c)) o c)
  | CSem order tabs base ev expected =>
      eqb (map (fun s => event_true nat (sem_f tabs) (sem_rho base) order ev s) (seq 0 (List.length tabs))) expected
  end.
