From Coq Require Import List Bool Arith.
From Y0 Require Import Base.ListSet Graph.MixedGraph Graph.DSep Graph.CondInd Corr.Common.
Import ListNotations.

(* judgement as returned by y0: (left, right, conditions, separated) *)
Inductive case := CCI (g : mg nat) (sorted_nodes : list nat) (mc : option nat)
                      (out : list (nat * nat * list nat * bool)).

Fixpoint ascending (l : list nat) : bool :=
  match l with x :: t => match t with y :: _ => Nat.ltb x y && ascending t | [] => true end | [] => true end.

Definition jpair (j : nat * nat * list nat * bool) : nat * nat := (fst (fst (fst j)), snd (fst (fst j))).
Definition jconds (j : nat * nat * list nat * bool) : list nat := snd (fst j).

Definition check (c : case) : bool :=
  match c with
  | CCI g vs mc out =>
      ascending vs && set_eqb vs (nodes g) &&
      forallb (fun j =>
                 let '(l, r) := jpair j in
                 Nat.ltb l r && ascending (jconds j) && snd j
                 && is_sep (are_d_separated g l r (jconds j))
                 && match first_separator g vs mc l r with
                    | Some C => Nat.eqb (length C) (length (jconds j))
                    | None => false
                    end) out
      && forallb (fun p =>
                    let n := length (filter (fun j => eqb (jpair j) p) out) in
                    match first_separator g vs mc (fst p) (snd p) with
                    | Some _ => Nat.eqb n 1
                    | None => Nat.eqb n 0
                    end) (pairs vs)
      && Nat.eqb (length out) (length (d_separations g vs mc))
  end.
