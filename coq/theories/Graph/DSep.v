(* Model of y0.algorithm.conditional_independencies.are_d_separated (with the repaired treatment
   of bidirected edges) and, separately, the textbook specification: d-connection by an active
   path in the DAG obtained by replacing every bidirected edge with a latent common parent. *)
From Coq Require Import List Bool Arith.
From Y0 Require Import Base.ListSet Graph.Closure Graph.Paths Graph.MixedGraph.
Import ListNotations.

Inductive dsep_result := DOk (separated : bool) | DKeyError | DNodeNotFound.

Section DSepGeneric.
  Context {A : Type} `{EqB A}.
  Notation mg := (mg A).

  (* cliques added by the repaired code: each district of the ancestral graph with its parents *)
  Definition collider_links (ag : mg) : list (A * A) :=
    flat_map (fun D => pairs (union D (get_markov_pillow ag D))) (districts ag).

  Definition evidence_graph (g : mg) (named conds : list A) : list A * list (A * A) :=
    let keep := ancestors_inclusive g named in
    let ag := subgraph g keep in
    let ug := disorient (moralize ag) in
    let ug' := (fst ug, snd ug ++ collider_links ag) in
    ug_subgraph ug' (diff (fst ug') conds).

  Definition are_d_separated (g : mg) (a b : A) (conds : list A) : dsep_result :=
    if negb (mem a (nodes g) && mem b (nodes g) && subset conds (nodes g)) then DKeyError
    else if mem a conds || mem b conds then DNodeNotFound
    else DOk (negb (ug_has_path (evidence_graph g (a :: b :: conds) conds) a b)).

  (* the pinned tree before the repair: only directed co-parents are married *)
  Definition are_d_separated_old (g : mg) (a b : A) (conds : list A) : dsep_result :=
    if negb (mem a (nodes g) && mem b (nodes g) && subset conds (nodes g)) then DKeyError
    else if mem a conds || mem b conds then DNodeNotFound
    else let keep := ancestors_inclusive g (a :: b :: conds) in
         let ug := disorient (moralize (subgraph g keep)) in
         DOk (negb (ug_has_path (ug_subgraph ug (diff (fst ug) conds)) a b)).
End DSepGeneric.

(* ---- specification over nat-labelled graphs ---- *)
Definition fresh (g : mg nat) : nat := S (fold_right Nat.max 0 (nodes g)).

Fixpoint latent_edges (base k : nat) (bs : list (nat * nat)) : list (nat * nat) :=
  match bs with
  | [] => []
  | (u, v) :: t => (base + k, u) :: (base + k, v) :: latent_edges base (S k) t
  end.

(* the latent DAG: one fresh parent per bidirected edge *)
Definition lat (g : mg nat) : mg nat :=
  let es := dir g ++ latent_edges (fresh g) 0 (bid g) in
  MG (nodes g ++ seq (fresh g) (length (bid g))) es [].

Definition is_collider (es : list (nat * nat)) (x y z : nat) : bool := mem (x, y) es && mem (z, y) es.

Fixpoint triples_ok (es : list (nat * nat)) (anC C : list nat) (p : list nat) : bool :=
  match p with
  | x :: t =>
      match t with
      | y :: z :: _ => (if is_collider es x y z then mem y anC else negb (mem y C)) && triples_ok es anC C t
      | _ => true
      end
  | [] => true
  end.

(* some simple path between a and b in the skeleton of the latent DAG is active given C *)
Definition d_connected_spec (g : mg nat) (a b : nat) (C : list nat) : bool :=
  let L := lat g in
  existsb (triples_ok (dir L) (ancestors_inclusive L C) C) (all_simple_paths_und (nodes L) (dir L) a b).

Definition d_separated_spec (g : mg nat) (a b : nat) (C : list nat) : bool := negb (d_connected_spec g a b C).
