(* Model of y0.graph.NxMixedGraph and its surgery operations (graph.py).
   Set-level model: node and edge containers are lists read as sets; y0's own __eq__
   compares node sets and edge sets (undirected edges unordered), and so does [mg_eqb].
   Function names follow graph.py. *)
From Coq Require Import List Bool Arith Lia.
From Y0 Require Import Base.ListSet Graph.Closure Graph.Paths.
Import ListNotations.

Section MG.
  Context {A : Type} `{EqB A}.

  Record mg := MG { nodes : list A; dir : list (A * A); bid : list (A * A) }.

  Definition endpoints (es : list (A * A)) : list A := flat_map (fun e => [fst e; snd e]) es.

  (* NxMixedGraph.from_edges: explicit nodes first, then endpoints of every edge *)
  Definition from_edges (ns : list A) (ds bs : list (A * A)) : mg :=
    MG (dedup (ns ++ endpoints ds ++ endpoints bs)) ds bs.

  Definition swap (e : A * A) : A * A := (snd e, fst e).
  Definition sym (es : list (A * A)) : list (A * A) := es ++ map swap es.

  (* membership in an undirected edge container *)
  Definition umem (e : A * A) (es : list (A * A)) : bool := mem e es || mem (swap e) es.

  Definition usubset (e1 e2 : list (A * A)) : bool := forallb (fun e => umem e e2) e1.

  (* NxMixedGraph.__eq__ *)
  Definition mg_eqb (g h : mg) : bool :=
    set_eqb (nodes g) (nodes h) && set_eqb (dir g) (dir h)
    && usubset (bid g) (bid h) && usubset (bid h) (bid g).

  (* well-formedness that every graph built by from_edges satisfies *)
  Definition wf (g : mg) : Prop :=
    (forall u v, In (u, v) (dir g) -> In u (nodes g) /\ In v (nodes g)) /\
    (forall u v, In (u, v) (bid g) -> In u (nodes g) /\ In v (nodes g)).

  Definition wfb (g : mg) : bool :=
    forallb (fun e => mem (fst e) (nodes g) && mem (snd e) (nodes g)) (dir g)
    && forallb (fun e => mem (fst e) (nodes g) && mem (snd e) (nodes g)) (bid g).

  (* edge filters, graph.py:719-741 *)
  Definition include_adjacent (es : list (A * A)) (S : list A) :=
    filter (fun e => mem (fst e) S && mem (snd e) S) es.
  Definition exclude_source (es : list (A * A)) (S : list A) :=
    filter (fun e => negb (mem (fst e) S)) es.
  Definition exclude_target (es : list (A * A)) (S : list A) :=
    filter (fun e => negb (mem (snd e) S)) es.
  Definition exclude_adjacent (es : list (A * A)) (S : list A) :=
    filter (fun e => negb (mem (fst e) S) && negb (mem (snd e) S)) es.

  Definition subgraph (g : mg) (S : list A) : mg :=
    from_edges S (include_adjacent (dir g) S) (include_adjacent (bid g) S).

  (* as in the pinned tree BEFORE the repair: nodes=vertices *)
  Definition remove_in_edges_old (g : mg) (S : list A) : mg :=
    from_edges S (exclude_target (dir g) S) (exclude_adjacent (bid g) S).

  (* current code (after fix): nodes=self.nodes() *)
  Definition remove_in_edges (g : mg) (S : list A) : mg :=
    from_edges (nodes g) (exclude_target (dir g) S) (exclude_adjacent (bid g) S).

  Definition remove_nodes_from (g : mg) (S : list A) : mg :=
    from_edges (diff (nodes g) S) (exclude_adjacent (dir g) S) (exclude_adjacent (bid g) S).

  Definition remove_out_edges (g : mg) (S : list A) : mg :=
    from_edges (nodes g) (exclude_source (dir g) S) (bid g).

  (* closures; nx.ancestors raises NetworkXError for a source that is not a node *)
  Definition ancestors_inclusive (g : mg) (S : list A) : list A := reach (map swap (dir g)) S.
  Definition descendants_inclusive (g : mg) (S : list A) : list A := reach (dir g) S.
  Definition ancestors_ok (g : mg) (S : list A) : bool := subset S (nodes g).

  Definition parents (g : mg) (v : A) : list A := map fst (filter (fun e => eqb (snd e) v) (dir g)).
  Definition children (g : mg) (v : A) : list A := map snd (filter (fun e => eqb (fst e) v) (dir g)).

  (* districts: connected components of the undirected part, visiting nodes in order *)
  Definition district_of (g : mg) (v : A) : list A := reach (sym (bid g)) [v].
  Fixpoint districts_aux (g : mg) (todo : list A) (acc : list (list A)) : list (list A) :=
    match todo with
    | [] => acc
    | v :: t => if existsb (mem v) acc then districts_aux g t acc
                else districts_aux g t (acc ++ [district_of g v])
    end.
  Definition districts (g : mg) : list (list A) := districts_aux g (nodes g) [].

  (* get_district: KeyError when the node is in no district *)
  Definition get_district (g : mg) (v : A) : option (list A) := find (mem v) (districts g).

  Definition get_markov_pillow (g : mg) (S : list A) : list A :=
    diff (dedup (flat_map (parents g) S)) S.

  Definition get_markov_blanket (g : mg) (S : list A) : list A :=
    diff (dedup (flat_map (fun v => parents g v ++ flat_map (fun c => c :: parents g c) (children g v)) S)) S.

  (* all unordered pairs, itertools.combinations(l, 2) *)
  Fixpoint pairs (l : list A) : list (A * A) :=
    match l with [] => [] | x :: t => map (fun y => (x, y)) t ++ pairs t end.

  Definition iter_moral_links (g : mg) : list (A * A) :=
    flat_map (fun v => pairs (parents g v)) (nodes g).

  Definition moralize (g : mg) : mg := MG (nodes g) (dir g) (bid g ++ iter_moral_links g).

  (* disorient: flat undirected graph (nodes, undirected edges) *)
  Definition disorient (g : mg) : list A * list (A * A) := (nodes g, dir g ++ bid g).

  (* undirected simple graph helpers (nx.Graph) *)
  Definition ug_subgraph (ug : list A * list (A * A)) (S : list A) : list A * list (A * A) :=
    (inter (fst ug) S, include_adjacent (snd ug) S).
  Definition ug_has_path (ug : list A * list (A * A)) (a b : A) : bool :=
    mem b (reach (sym (snd ug)) [a]).

  (* pre: prefix of the order strictly before the first member of S *)
  Fixpoint pre_of (order : list A) (S : list A) : list A :=
    match order with [] => [] | v :: t => if mem v S then [] else v :: pre_of t S end.

  (* is_topo: order is a duplicate-free enumeration of the nodes and every directed edge goes forward *)
  Fixpoint index_of (v : A) (l : list A) : option nat :=
    match l with [] => None | x :: t => if eqb x v then Some 0 else option_map S (index_of v t) end.
  Definition edge_forward (order : list A) (e : A * A) : bool :=
    match index_of (fst e) order, index_of (snd e) order with
    | Some i, Some j => Nat.ltb i j | _, _ => false end.
  Fixpoint nodupb (l : list A) : bool :=
    match l with [] => true | x :: t => negb (mem x t) && nodupb t end.
  Definition is_topo (g : mg) (order : list A) : bool :=
    nodupb order && set_eqb order (nodes g) && forallb (edge_forward order) (dir g).

  (* Kahn's algorithm, used only when no recorded order is available *)
  Fixpoint kahn (fuel : nat) (remaining : list A) (es : list (A * A)) (acc : list A) : option (list A) :=
    match fuel with
    | 0 => match remaining with [] => Some acc | _ => None end
    | S f =>
      match find (fun v => negb (existsb (fun e => eqb (snd e) v) es)) remaining with
      | None => match remaining with [] => Some acc | _ => None end
      | Some v => kahn f (filter (fun x => negb (eqb x v)) remaining)
                       (filter (fun e => negb (eqb (fst e) v)) es) (acc ++ [v])
      end
    end.
  Definition topological_sort (g : mg) : option (list A) :=
    kahn (length (nodes g)) (nodes g) (dir g) [].
  Definition is_acyclic (g : mg) : bool := match topological_sort g with Some _ => true | None => false end.

  (* strict reachability: a path with at least one edge *)
  Definition strict_desc (g : mg) (v : A) : list A := reach (dir g) (children g v).

  Definition nodes_in_directed_paths_dag (g : mg) (srcs tgts : list A) : list A :=
    dedup (filter (fun n => existsb (fun s => existsb (fun t =>
                     mem n (strict_desc g s) && mem t (strict_desc g n)) tgts) srcs) (nodes g)
           ++ flat_map (fun s => flat_map (fun t => if mem t (strict_desc g s) then [s; t] else []) tgts) srcs).

  Definition nodes_in_directed_paths_cyclic (g : mg) (srcs tgts : list A) : list A :=
    dedup (flat_map (fun s => flat_map (fun t => concat (all_simple_paths_dir (nodes g) (dir g) s t)) tgts) srcs).

  (* get_nodes_in_directed_paths: the branch is chosen by nx.is_directed_acyclic_graph *)
  Definition get_nodes_in_directed_paths (g : mg) (srcs tgts : list A) : list A :=
    if is_acyclic g then nodes_in_directed_paths_dag g srcs tgts
    else nodes_in_directed_paths_cyclic g srcs tgts.
End MG.

Arguments mg A : clear implicits.
