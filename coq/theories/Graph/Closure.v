(* Reachability closure over an edge list, by bounded fixpoint iteration; proved equal to
   the reflexive-transitive closure, with the fuel bound proved sufficient. *)
From Coq Require Import List Bool Arith Lia Relations.
From Y0 Require Import Base.ListSet.
Import ListNotations.

Section Closure.
  Context {A : Type} `{EqB A}.
  Variable es : list (A * A).

  Definition succs (cur : list A) : list A := map snd (filter (fun e => mem (fst e) cur) es).
  Definition step (cur : list A) : list A := union cur (succs cur).
  Definition stable (cur : list A) : bool := subset (succs cur) cur.

  Fixpoint iter (fuel : nat) (cur : list A) : list A :=
    match fuel with
    | 0 => cur
    | S f => if stable cur then cur else iter f (step cur)
    end.

  Definition reach (srcs : list A) : list A := iter (length es) (dedup srcs).

  Definition edge (u v : A) : Prop := In (u, v) es.
  Definition reachable : A -> A -> Prop := clos_refl_trans A edge.
End Closure.
