(* Specification of m-connection in a mixed graph, in the walk form (Bayes-ball / reachability form):
   a walk from a is a sequence of edges; [mark] is the end mark an edge has at a node (arrowhead or tail).
   A walk is active given C when every interior node is either a collider (arrowheads on both sides) that lies in C,
   or a non-collider that does not lie in C. [mreach g C a x m]: some active walk from a ends at x with mark m at x.
   A bidirected edge has arrowheads at both ends, exactly as the pair of edges x <- u -> y through an unobserved
   common parent u that is never conditioned on. *)
From Coq Require Import List Bool.
From Y0 Require Import Base.ListSet Graph.MixedGraph.
Import ListNotations.

Inductive mark := Head | Tail.

Section MSep.
  Context {A : Type} `{EqB A}.
  Notation mg := (mg A).

  (* one edge traversal from x to y: the mark at x and the mark at y *)
  Inductive mstep (g : mg) : A -> mark -> mark -> A -> Prop :=
  | st_fwd x y : In (x, y) (dir g) -> mstep g x Tail Head y
  | st_bwd x y : In (y, x) (dir g) -> mstep g x Head Tail y
  | st_bi1 x y : In (x, y) (bid g) -> mstep g x Head Head y
  | st_bi2 x y : In (y, x) (bid g) -> mstep g x Head Head y.

  (* passing through x, entered with mark m_in and left with mark m_out *)
  Definition pass (C : list A) (x : A) (m_in m_out : mark) : Prop :=
    match m_in, m_out with Head, Head => In x C | _, _ => ~ In x C end.

  (* the start node counts as entered with a tail: any first edge may be taken (a is not in C) *)
  Inductive mreach (g : mg) (C : list A) (a : A) : A -> mark -> Prop :=
  | mr_start : mreach g C a a Tail
  | mr_step x m mx my y : mreach g C a x m -> mstep g x mx my y -> pass C x m mx -> mreach g C a y my.

  Definition m_connected (g : mg) (C : list A) (a b : A) : Prop := exists m, mreach g C a b m.
End MSep.
