(* Model of graph.py to_latent_variable_dag / from_latent_variable_dag and of
   algorithm/simplify_latent.py (Evans' rules as implemented, in the implemented order),
   together with the specification: the latent projection onto the observed nodes. *)
From Coq Require Import List Bool Arith.
From Y0 Require Import Base.ListSet Graph.Closure Graph.MixedGraph Graph.DSep.
Import ListNotations.

Record lv := LV { lnodes : list nat; ledges : list (nat * nat); llat : list nat }.

Definition lsuccs (d : lv) (v : nat) : list nat := dedup (map snd (filter (fun e => Nat.eqb (fst e) v) (ledges d))).
Definition lpreds (d : lv) (v : nat) : list nat := dedup (map fst (filter (fun e => Nat.eqb (snd e) v) (ledges d))).
Definition observed (d : lv) : list nat := diff (lnodes d) (llat d).

(* ADMG -> LV-DAG: one fresh latent per bidirected edge (names are not significant) *)
Definition to_lv (g : mg nat) : lv :=
  LV (nodes g ++ seq (fresh g) (length (bid g)))
     (dir g ++ latent_edges (fresh g) 0 (bid g))
     (seq (fresh g) (length (bid g))).

(* LV-DAG -> ADMG *)
Definition from_lv (d : lv) : mg nat :=
  from_edges (observed d)
             (flat_map (fun u => map (fun c => (u, c)) (lsuccs d u)) (observed d))
             (flat_map (fun l => pairs (lsuccs d l)) (filter (fun v => mem v (llat d)) (lnodes d))).

(* ---- simplification ---- *)
Definition prime (n : nat) : nat := S n.   (* the harness encodes "<name>_prime" as name+1 *)

Definition lv_remove_nodes (d : lv) (S : list nat) : lv :=
  LV (diff (lnodes d) S) (filter (fun e => negb (mem (fst e) S) && negb (mem (snd e) S)) (ledges d)) (diff (llat d) S).

Definition transform_one (d : lv) (L : nat) : lv :=
  let ps := lpreds d L in
  let cs := lsuccs d L in
  if is_nil ps || is_nil cs then d
  else let d' := lv_remove_nodes d [L] in
       LV (lnodes d' ++ [prime L])
          (ledges d' ++ flat_map (fun p => map (fun c => (p, c)) cs) ps ++ map (fun c => (prime L, c)) cs)
          (llat d' ++ [prime L]).

Definition lv_topo (d : lv) : list nat :=
  match topological_sort (MG (lnodes d) (ledges d) []) with Some o => o | None => lnodes d end.

Definition transform_latents_with_parents (d : lv) : lv :=
  fold_left (fun acc L => if mem L (llat acc) then transform_one acc L else acc) (lv_topo d) d.

Definition widows (d : lv) : list nat := filter (fun l => is_nil (lsuccs d l)) (llat d).

(* repaired code: repeat until no childless latent is left *)
Fixpoint remove_widow_latents_fuel (fuel : nat) (d : lv) : lv :=
  let w := widows d in
  if is_nil w then d else
  match fuel with 0 => d | S f => remove_widow_latents_fuel f (lv_remove_nodes d w) end.
Definition remove_widow_latents (d : lv) : lv := remove_widow_latents_fuel (length (llat d)) d.
(* pinned tree before the repair: a single pass *)
Definition remove_widow_latents_old (d : lv) : lv := lv_remove_nodes d (widows d).

Definition remove_unidirectional_latents (d : lv) : lv :=
  lv_remove_nodes d (filter (fun l => Nat.eqb (length (lsuccs d l)) 1) (llat d)).

Definition redundant (d : lv) : list nat :=
  filter (fun l => existsb (fun r =>
            let cl := lsuccs d l in let cr := lsuccs d r in
            (set_eqb cl cr && Nat.ltb r l) || (subset cl cr && negb (subset cr cl))) (llat d)) (llat d).
Definition remove_redundant_latents (d : lv) : lv := lv_remove_nodes d (redundant d).

Definition simplify_latent_dag (d : lv) : lv :=
  remove_redundant_latents (remove_unidirectional_latents (remove_widow_latents (transform_latents_with_parents d))).
Definition simplify_latent_dag_old (d : lv) : lv :=
  remove_redundant_latents (remove_unidirectional_latents (remove_widow_latents_old (transform_latents_with_parents d))).

(* ---- specification: latent projection ---- *)
(* nodes reachable from v by a directed path all of whose inner nodes are latent *)
Definition through_latents (d : lv) (v : nat) : list nat :=
  reach (filter (fun e => mem (fst e) (llat d)) (ledges d)) (lsuccs d v).

Definition latent_projection (d : lv) : mg nat :=
  let obs := observed d in
  from_edges obs
    (flat_map (fun u => map (fun c => (u, c)) (inter (through_latents d u) obs)) obs)
    (flat_map (fun l => pairs (inter (through_latents d l) obs)) (filter (fun v => mem v (llat d)) (lnodes d))).

(* ---- comparators ---- *)
Definition lv_eqb (a b : lv) : bool :=
  set_eqb (lnodes a) (lnodes b) && set_eqb (ledges a) (ledges b) && set_eqb (llat a) (llat b).

(* equality up to renaming of latents, for exogenous two-or-more-child latents *)
Definition lv_equiv_upto_latent_names (a b : lv) : bool :=
  set_eqb (observed a) (observed b)
  && set_eqb (filter (fun e => negb (mem (fst e) (llat a))) (ledges a)) (filter (fun e => negb (mem (fst e) (llat b))) (ledges b))
  && forallb (fun e => negb (mem (snd e) (llat a))) (ledges a) && forallb (fun e => negb (mem (snd e) (llat b))) (ledges b)
  && Nat.eqb (length (dedup (llat a))) (length (dedup (llat b)))
  && forallb (fun l => Nat.eqb (length (filter (fun l' => set_eqb (lsuccs a l) (lsuccs a l')) (dedup (llat a))))
                               (length (filter (fun r => set_eqb (lsuccs a l) (lsuccs b r)) (dedup (llat b))))) (dedup (llat a)).
