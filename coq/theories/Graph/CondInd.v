(* Model of conditional_independencies.d_separations / get_conditional_independencies and
   util.combinatorics.powerset (itertools.combinations order). *)
From Coq Require Import List Bool Arith.
From Y0 Require Import Base.ListSet Graph.MixedGraph Graph.DSep.
Import ListNotations.

Section CondInd.
  Context {A : Type} `{EqB A}.
  Notation mg := (mg A).

  (* itertools.combinations(l, r), in itertools order *)
  Fixpoint combinations (l : list A) (r : nat) : list (list A) :=
    match l with
    | [] => match r with 0 => [[]] | S _ => [] end
    | x :: t => match r with
                | 0 => [[]]
                | S r' => map (cons x) (combinations t r') ++ combinations t r
                end
    end.

  (* powerset(l, start=0, stop): chain of combinations(l, r) for r in range(0, stop) *)
  Definition powerset (l : list A) (stop : nat) : list (list A) := flat_map (combinations l) (seq 0 stop).

  Definition is_sep (r : dsep_result) : bool := match r with DOk true => true | _ => false end.

  Definition rest_of (vs : list A) (a b : A) : list A := filter (fun x => negb (eqb x a) && negb (eqb x b)) vs.

  (* stop as computed by the repaired d_separations: None -> n+1 (powerset default), Some k -> k+1 *)
  Definition stop_of (max_conditions : option nat) (n : nat) : nat :=
    match max_conditions with None => S n | Some k => S k end.

  Definition first_separator (g : mg) (vs : list A) (max_conditions : option nat) (a b : A) : option (list A) :=
    let rest := rest_of vs a b in
    find (fun C => is_sep (are_d_separated g a b C)) (powerset rest (stop_of max_conditions (length rest))).

  (* vs is the iteration order of set(graph.nodes()) - an oracle; theorems hold for every order *)
  Definition d_separations (g : mg) (vs : list A) (max_conditions : option nat) : list (A * A * list A) :=
    flat_map (fun p => match first_separator g vs max_conditions (fst p) (snd p) with
                       | Some C => [(fst p, snd p, C)]
                       | None => []
                       end) (pairs vs).
End CondInd.
