(* Model of algorithm/separation/sigma_separation.py (repaired code; the pre-repair predicates are
   kept as the [old] variants for the refutation theorem). *)
From Coq Require Import List Bool Arith.
From Y0 Require Import Base.ListSet Graph.Closure Graph.Paths Graph.MixedGraph.
Import ListNotations.

Section Sigma.
  Context {A : Type} `{EqB A}.
  Notation mg := (mg A).
  Variable old : bool.   (* true = pinned tree before the repair *)

  Definition has_either_edge (g : mg) (u v : A) : bool := mem (u, v) (dir g) || umem (u, v) (bid g).
  Definition only_directed_edge (g : mg) (u v : A) : bool :=
    mem (u, v) (dir g) && (if old then negb (umem (u, v) (bid g)) else true).

  Definition sigma_class (g : mg) (v : A) : list A :=
    inter (ancestors_inclusive g [v]) (descendants_inclusive g [v]).

  Definition is_collider (g : mg) (l m r : A) (C : list A) : bool :=
    has_either_edge g l m && has_either_edge g r m
    && (if old then mem m C else existsb (fun c => mem c (descendants_inclusive g [m])) C).

  Definition cond_or_class (g : mg) (m : A) (C : list A) (classes : list (list A)) : bool :=
    negb (mem m C) || forallb (mem m) classes.

  Definition is_non_collider_left_chain (g : mg) (l m r : A) (C : list A) : bool :=
    only_directed_edge g m l && has_either_edge g r m && cond_or_class g m C [sigma_class g l].
  Definition is_non_collider_right_chain (g : mg) (l m r : A) (C : list A) : bool :=
    has_either_edge g l m && only_directed_edge g m r && cond_or_class g m C [sigma_class g r].
  Definition is_non_collider_fork (g : mg) (l m r : A) (C : list A) : bool :=
    only_directed_edge g m l && only_directed_edge g m r && cond_or_class g m C [sigma_class g l; sigma_class g r].

  Definition triple_helper (g : mg) (l m r : A) (C : list A) : bool :=
    is_collider g l m r C || is_non_collider_left_chain g l m r C
    || is_non_collider_right_chain g l m r C || is_non_collider_fork g l m r C.

  Definition dis_neighbors (g : mg) (m : A) : list A :=
    filter (fun n => negb (eqb n m)) (und_adj (dir g ++ bid g) m).

  Definition triple_has_correct_form (g : mg) (l m r : A) (C : list A) : bool :=
    triple_helper g l m r C
    || existsb (fun n => triple_helper g l m n C && triple_helper g m n m C && triple_helper g n m r C)
               (dis_neighbors g m).

  Fixpoint triples_all (g : mg) (C : list A) (p : list A) : bool :=
    match p with
    | l :: t => match t with
                | m :: r :: _ => triple_has_correct_form g l m r C && triples_all g C t
                | _ => true
                end
    | [] => true
    end.

  Definition is_z_sigma_open (g : mg) (C : list A) (p : list A) : bool :=
    match p with
    | [] => false
    | a :: _ => negb (mem a C) && negb (mem (last p a) C) && triples_all g C p
    end.

  Definition are_sigma_separated (g : mg) (a b : A) (C : list A) : bool :=
    negb (existsb (is_z_sigma_open g C) (all_simple_paths_und (nodes g) (dir g ++ bid g) a b)).
End Sigma.
