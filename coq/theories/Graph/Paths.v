(* Simple-path enumeration as nx.all_simple_paths (networkx 3.x): depth-first, a path stops
   when it first reaches the target; source = target yields the trivial path. *)
From Coq Require Import List Bool Arith.
From Y0 Require Import Base.ListSet.
Import ListNotations.

Section Paths.
  Context {A : Type} `{EqB A}.

  Fixpoint spaths (fuel : nat) (adj : A -> list A) (path_rev : list A) (cur tgt : A) : list (list A) :=
    if eqb cur tgt then [rev (cur :: path_rev)] else
    match fuel with
    | 0 => []
    | S f => flat_map (fun n => if mem n (cur :: path_rev) then [] else spaths f adj (cur :: path_rev) n tgt)
                      (adj cur)
    end.

  Definition out_adj (es : list (A * A)) (v : A) : list A := map snd (filter (fun e => eqb (fst e) v) es).
  Definition und_adj (es : list (A * A)) (v : A) : list A :=
    dedup (flat_map (fun e => if eqb (fst e) v then [snd e] else if eqb (snd e) v then [fst e] else []) es).

  Definition all_simple_paths_dir (ns : list A) (es : list (A * A)) (s t : A) : list (list A) :=
    spaths (length ns) (out_adj es) [] s t.
  Definition all_simple_paths_und (ns : list A) (es : list (A * A)) (s t : A) : list (list A) :=
    spaths (length ns) (und_adj es) [] s t.
End Paths.
