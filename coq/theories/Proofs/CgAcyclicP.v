(* C18: the counterfactual graph is acyclic. Every directed edge of the parallel-worlds graph, and of every graph obtained
   from it by merging two copies of one variable, goes from a variable to a variable that comes later in any ranking of the
   variable NAMES that the input graph's edges respect (e.g. a topological order of the input graph). *)
From Coq Require Import List Bool Arith Lia Relations.
From Y0 Require Import Base.ListSet Graph.Closure Graph.MixedGraph Dsl.Syntax Dsl.Text Dsl.Build Alg.Cg Proofs.SurgeryP.
Import ListNotations.

Section Rank.
  Variable r : nat -> nat.
  Definition ranked (g : cgraph) : Prop := forall a b, In (a, b) (dir g) -> r (vn a) < r (vn b).

  Lemma ranked_from_edges ns ds bs : (forall a b, In (a, b) ds -> r (vn a) < r (vn b)) -> ranked (from_edges ns ds bs).
  Proof. intros H a b Hab. apply H. exact Hab. Qed.

  Lemma ranked_parallel_worlds g worlds : ranked g -> ranked (make_parallel_worlds_graph g worlds).
  Proof.
    intros Hg. unfold make_parallel_worlds_graph. apply ranked_from_edges. intros a b Hab. apply in_app_iff in Hab.
    destruct Hab as [Hab|Hab]; [apply Hg; exact Hab|]. apply in_flat_map in Hab. destruct Hab as [w [_ Hab]].
    apply in_flat_map in Hab. destruct Hab as [[u v] [Huv Hab]]. cbn [fst snd] in Hab.
    destruct (node_not_in_world w v); [|destruct Hab]. destruct Hab as [E|[]]. injection E as <- <-. cbn [at_world vn]. apply Hg. exact Huv.
  Qed.

  Lemma ranked_merge g n1 n2 : ranked g -> vn n1 = vn n2 -> ranked (fst (fst (merge_pw g n1 n2))).
  Proof.
    intros Hg Hn. unfold merge_pw.
    set (pr := if is_cf n1 && negb (is_cf n2) then (n2, n1) else if negb (is_cf n1) && is_cf n2 then (n1, n2)
               else if var_sort_lt n2 n1 then (n2, n1) else (n1, n2)).
    assert (Hpr : vn (fst pr) = vn (snd pr)).
    { unfold pr. destruct (is_cf n1 && negb (is_cf n2)); [cbn; congruence|]. destruct (negb (is_cf n1) && is_cf n2); [cbn; congruence|].
      destruct (var_sort_lt n2 n1); cbn; congruence. }
    destruct pr as [m1 m2]. cbn [fst snd] in Hpr. cbn [fst]. apply ranked_from_edges. intros a b Hab.
    apply (proj1 (In_dedup _ _)) in Hab. apply in_app_iff in Hab. destruct Hab as [Hab|Hab].
    - apply filter_In in Hab. apply Hg. apply Hab.
    - apply in_flat_map in Hab. destruct Hab as [[u v] [Huv Hab]]. cbn [fst snd] in Hab. destruct (eqb u m2) eqn:E; [|destruct Hab].
      destruct Hab as [E'|[]]. injection E' as <- <-. apply eqb_true in E. subst u. rewrite Hpr. apply Hg. exact Huv.
  Qed.

  Lemma ranked_try_merge st a b chk : ranked (fst (fst st)) -> ranked (fst (fst (try_merge st a b chk))).
  Proof.
    destruct st as [[g ev] stop]. cbn [fst]. intros Hg. unfold try_merge. destruct stop; [exact Hg|].
    destruct (lemma_24_holds g ev a b) eqn:E24; [|exact Hg].
    assert (Hn : vn a = vn b).
    { unfold lemma_24_holds, is_pw_equivalent, has_same_function in E24. rewrite !andb_true_iff in E24.
      destruct E24 as [_ [[[Hb _] _] _]]. apply eqb_true in Hb. unfold base in Hb. injection Hb as Hb. exact Hb. }
    pose proof (ranked_merge g a b Hg Hn) as Hm. destruct (merge_pw g a b) as [[g' pref] elim]. cbn [fst] in Hm.
    destruct (if chk then is_inconsistent ev a b else is_inconsistent ev pref elim); exact Hm.
  Qed.

  Lemma ranked_fold {T} (f : cg_state -> T -> cg_state) l :
    (forall st x, ranked (fst (fst st)) -> ranked (fst (fst (f st x)))) ->
    forall st, ranked (fst (fst st)) -> ranked (fst (fst (fold_left f l st))).
  Proof. intros Hf. induction l as [|x t IH]; intros st Hst; [exact Hst|]. cbn [fold_left]. apply IH. apply Hf. exact Hst. Qed.

  Theorem counterfactual_graph_ranked g ev topo worlds :
    ranked g -> ranked (fst (make_counterfactual_graph g ev topo worlds)).
  Proof.
    intros Hg. unfold make_counterfactual_graph.
    set (pw := make_parallel_worlds_graph g worlds).
    assert (H0 : ranked (from_edges (nodes pw) (dir pw) (bid pw))) by (apply ranked_from_edges; apply ranked_parallel_worlds; exact Hg).
    destruct (violates_effectiveness ev); [exact H0|].
    match goal with |- context [fold_left ?step topo ?st0] =>
      assert (Hf : ranked (fst (fst (fold_left step topo st0)))) end.
    { apply ranked_fold; [|exact H0]. intros st node Hst.
      match goal with |- ranked (fst (fst (if ?c then fold_left ?f2 ?l2 ?st1 else _))) =>
        assert (H1 : ranked (fst (fst st1))) by (apply ranked_fold; [intros s w Hs; apply ranked_try_merge; exact Hs|exact Hst]);
        destruct c; [apply ranked_fold; [intros s ww Hs; apply ranked_try_merge; exact Hs|exact H1]|exact H1] end. }
    match goal with |- context [fold_left ?step topo ?st0] => destruct (fold_left step topo st0) as [[cf ev'] stop] end.
    cbn [fst] in Hf. destruct stop; [exact Hf|].
    cbn [fst]. intros a b Hab. apply subgraph_dir in Hab. apply Hf. apply Hab.
  Qed.

  Corollary counterfactual_graph_acyclic g ev topo worlds :
    ranked g -> forall v, ~ clos_trans var (fun a b => In (a, b) (dir (fst (make_counterfactual_graph g ev topo worlds)))) v v.
  Proof.
    intros Hg v Hc. pose proof (counterfactual_graph_ranked g ev topo worlds Hg) as Hr.
    assert (Hlt : forall a b, clos_trans var (fun a b => In (a, b) (dir (fst (make_counterfactual_graph g ev topo worlds)))) a b -> r (vn a) < r (vn b)).
    { intros a b H. induction H as [a b Hab|a b c _ IH1 _ IH2]; [apply Hr; exact Hab|lia]. }
    specialize (Hlt v v Hc). lia.
  Qed.
End Rank.
