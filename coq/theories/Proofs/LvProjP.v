(* C16: Evans simplification preserves the latent projection. Part 1: the projection as relations on a latent-variable
   DAG, and its invariance under one application of rule 2 (a latent with parents is replaced by an exogenous copy and
   bypass edges). *)
From Coq Require Import List Bool Arith Lia.
From Y0 Require Import Base.ListSet Graph.Closure Graph.MixedGraph Graph.DSep Graph.LatentDag
  Proofs.SurgeryP Proofs.LatentDagP.
Import ListNotations.

Definition Ed (d : lv) (u v : nat) : Prop := In (u, v) (ledges d).
Definition latp (d : lv) (x : nat) : Prop := In x (llat d).
Definition obsp (d : lv) (x : nat) : Prop := In x (observed d).

(* a directed path all of whose inner nodes are latent *)
Inductive LPath (d : lv) : nat -> nat -> Prop :=
| lp_edge u v : Ed d u v -> LPath d u v
| lp_step u l v : Ed d u l -> latp d l -> LPath d l v -> LPath d u v.

Definition DirP (d : lv) (u c : nat) : Prop := obsp d u /\ obsp d c /\ LPath d u c.
Definition BidP (d : lv) (a b : nat) : Prop :=
  obsp d a /\ obsp d b /\ a <> b /\ exists l, latp d l /\ In l (lnodes d) /\ LPath d l a /\ LPath d l b.

Definition same_proj (d d' : lv) : Prop :=
  (forall x, obsp d x <-> obsp d' x) /\ (forall u c, DirP d u c <-> DirP d' u c) /\ (forall a b, BidP d a b <-> BidP d' a b).

Lemma same_proj_refl d : same_proj d d.
Proof. split; [intros x; tauto|split; intros; tauto]. Qed.

Lemma same_proj_trans d1 d2 d3 : same_proj d1 d2 -> same_proj d2 d3 -> same_proj d1 d3.
Proof.
  intros [A1 [B1 C1]] [A2 [B2 C2]]. split; [|split].
  - intros x. rewrite A1. apply A2.
  - intros u c. rewrite B1. apply B2.
  - intros a b. rewrite C1. apply C2.
Qed.

(* edges join nodes; latents are nodes *)
Definition lwf (d : lv) : Prop :=
  (forall u v, Ed d u v -> In u (lnodes d) /\ In v (lnodes d)) /\ incl (llat d) (lnodes d).

Lemma In_lsuccs' d v c : In c (lsuccs d v) <-> Ed d v c.
Proof.
  unfold lsuccs, Ed. rewrite In_dedup, in_map_iff. split.
  - intros [[a b] [E Hin]]. apply filter_In in Hin. cbn in *. destruct Hin as [Hin Ea]. apply Nat.eqb_eq in Ea. subst. exact Hin.
  - intros Hin. exists (v, c). split; [reflexivity|]. apply filter_In. split; [exact Hin|apply Nat.eqb_refl].
Qed.

Lemma In_lpreds' d v p : In p (lpreds d v) <-> Ed d p v.
Proof.
  unfold lpreds, Ed. rewrite In_dedup, in_map_iff. split.
  - intros [[a b] [E Hin]]. apply filter_In in Hin. cbn in *. destruct Hin as [Hin Ea]. apply Nat.eqb_eq in Ea. subst. exact Hin.
  - intros Hin. exists (p, v). split; [reflexivity|]. apply filter_In. split; [exact Hin|apply Nat.eqb_refl].
Qed.

Lemma LPath_target d x y : lwf d -> LPath d x y -> In y (lnodes d).
Proof. intros [Hw _] Hp. induction Hp as [u v He|u l v He Hl Hp IH]; [apply Hw in He; tauto|exact IH]. Qed.

Section Rule2.
  Variable d : lv.
  Variable L : nat.
  Hypothesis Hwf : lwf d.
  Hypothesis HL : latp d L.
  Hypothesis Hfresh : ~ In (prime L) (lnodes d).
  Hypothesis Hnoloop : ~ Ed d L L.
  Hypothesis Hps : lpreds d L <> [].
  Hypothesis Hcs : lsuccs d L <> [].

  Let d' := transform_one d L.
  Let L' := prime L.

  Lemma tf_unfold : d' = LV (diff (lnodes d) [L] ++ [L'])
                            (filter (fun e => negb (mem (fst e) [L]) && negb (mem (snd e) [L])) (ledges d)
                             ++ flat_map (fun p => map (fun c => (p, c)) (lsuccs d L)) (lpreds d L) ++ map (fun c => (L', c)) (lsuccs d L))
                            (diff (llat d) [L] ++ [L']).
  Proof.
    unfold d', transform_one. destruct (lpreds d L); [congruence|]. destruct (lsuccs d L); [congruence|]. reflexivity.
  Qed.

  Lemma E'_iff u v : Ed d' u v <-> (Ed d u v /\ u <> L /\ v <> L) \/ (Ed d u L /\ Ed d L v) \/ (u = L' /\ Ed d L v).
  Proof.
    unfold Ed at 1. rewrite tf_unfold. cbn [ledges]. rewrite !in_app_iff, filter_In, in_flat_map, in_map_iff. cbn [fst snd mem existsb].
    rewrite !orb_false_r, andb_true_iff, !negb_true_iff, !Nat.eqb_neq. split.
    - intros [[H1 [H2 H3]]|[[p [Hp Hc]]|[c [E Hc]]]].
      + left. auto.
      + right; left. apply in_map_iff in Hc. destruct Hc as [c [E Hc]]. injection E as <- <-. split; [apply In_lpreds'; exact Hp|apply In_lsuccs'; exact Hc].
      + right; right. injection E as <- <-. split; [reflexivity|apply In_lsuccs'; exact Hc].
    - intros [[H1 [H2 H3]]|[[H1 H2]|[-> H2]]].
      + left. auto.
      + right; left. exists u. split; [apply In_lpreds'; exact H1|]. apply in_map_iff. exists v. split; [reflexivity|apply In_lsuccs'; exact H2].
      + right; right. exists v. split; [reflexivity|apply In_lsuccs'; exact H2].
  Qed.

  Lemma lat'_iff x : latp d' x <-> (latp d x /\ x <> L) \/ x = L'.
  Proof.
    unfold latp at 1. rewrite tf_unfold. cbn [llat]. rewrite in_app_iff, In_diff. cbn [In]. split.
    - intros [[H1 H2]|[<-|[]]]; [left; split; [exact H1|intros ->; apply H2; left; reflexivity]|right; reflexivity].
    - intros [[H1 H2]| ->]; [left; split; [exact H1|intros [E|[]]; congruence]|right; left; reflexivity].
  Qed.

  Lemma nodes'_iff x : In x (lnodes d') <-> (In x (lnodes d) /\ x <> L) \/ x = L'.
  Proof.
    rewrite tf_unfold. cbn [lnodes]. rewrite in_app_iff, In_diff. cbn [In]. split.
    - intros [[H1 H2]|[<-|[]]]; [left; split; [exact H1|intros ->; apply H2; left; reflexivity]|right; reflexivity].
    - intros [[H1 H2]| ->]; [left; split; [exact H1|intros [E|[]]; congruence]|right; left; reflexivity].
  Qed.

  Lemma L'_not_node x : In x (lnodes d) -> x <> L'.
  Proof. intros Hx ->. exact (Hfresh Hx). Qed.

  Lemma no_edge_from_L' v : ~ Ed d L' v.
  Proof. intros He. destruct Hwf as [Hw _]. apply Hw in He. apply Hfresh. tauto. Qed.
  Lemma no_edge_into_L' u : ~ Ed d' u L'.
  Proof.
    intros He. apply E'_iff in He. destruct Hwf as [Hw _].
    destruct He as [[He _]|[[_ He]|[_ He]]]; apply Hw in He; apply Hfresh; tauto.
  Qed.

  (* old paths survive: around L through the bypass edges, from L through its exogenous copy *)
  Lemma path_fwd x y : LPath d x y -> y <> L ->
    (x <> L -> LPath d' x y) /\ (x = L -> (forall u, Ed d u L -> LPath d' u y) /\ LPath d' L' y).
  Proof.
    intros Hp. induction Hp as [x y He|x l y He Hl Hp IH]; intros Hy.
    - split.
      + intros Hx. apply lp_edge. apply E'_iff. left. repeat split; assumption.
      + intros ->. split; [intros u Hu|]; apply lp_edge; apply E'_iff; [right; left; split; assumption|right; right; split; [reflexivity|assumption]].
    - destruct (IH Hy) as [IH1 IH2]. split.
      + intros Hx. destruct (Nat.eq_dec l L) as [->|Hne].
        * apply (proj1 (IH2 eq_refl)). exact He.
        * apply (lp_step d' x l y); [apply E'_iff; left; repeat split; assumption|apply lat'_iff; left; split; assumption|apply IH1; exact Hne].
      + intros ->. assert (Hne : l <> L) by (intros ->; exact (Hnoloop He)). split; [intros u Hu|].
        * apply (lp_step d' u l y); [apply E'_iff; right; left; split; [exact Hu|exact He]|apply lat'_iff; left; split; assumption|apply IH1; exact Hne].
        * apply (lp_step d' L' l y); [apply E'_iff; right; right; split; [reflexivity|exact He]|apply lat'_iff; left; split; assumption|apply IH1; exact Hne].
  Qed.

  (* new paths come from old ones *)
  Lemma path_bwd x y : LPath d' x y -> (x <> L' -> LPath d x y) /\ (x = L' -> LPath d L y).
  Proof.
    intros Hp. induction Hp as [x y He|x l y He Hl Hp IH].
    - apply E'_iff in He. destruct He as [[He _]|[[H1 H2]|[-> H2]]].
      + split; [intros _; apply lp_edge; exact He|intros ->; exfalso; exact (no_edge_from_L' _ He)].
      + split; [intros _; eapply lp_step; [exact H1|exact HL|apply lp_edge; exact H2]|].
        intros ->. exfalso. exact (no_edge_from_L' _ H1).
      + split; [intros F; congruence|intros _; apply lp_edge; exact H2].
    - assert (Hl' : l <> L') by (intros ->; exact (no_edge_into_L' _ He)).
      destruct IH as [IH1 _]. specialize (IH1 Hl').
      assert (Hlat : latp d l) by (apply lat'_iff in Hl; destruct Hl as [[Hl _]|Hl]; [exact Hl|congruence]).
      apply E'_iff in He. destruct He as [[He _]|[[H1 H2]|[-> H2]]].
      + split; [intros _; eapply lp_step; eauto|intros ->; exfalso; exact (no_edge_from_L' _ He)].
      + split; [intros _; eapply lp_step; [exact H1|exact HL|eapply lp_step; eauto]|intros ->; exfalso; exact (no_edge_from_L' _ H1)].
      + split; [intros F; congruence|intros _; eapply lp_step; eauto].
  Qed.

  Lemma obs_same x : obsp d' x <-> obsp d x.
  Proof.
    unfold obsp. apply observed_transform_one; [exact HL|]. intros F. unfold observed in F. apply In_diff in F. apply Hfresh. tauto.
  Qed.

  Lemma obs_not_L x : obsp d x -> x <> L /\ x <> L'.
  Proof.
    unfold obsp, observed. rewrite In_diff. intros [Hn Hl]. split; [intros ->; exact (Hl HL)|apply L'_not_node; exact Hn].
  Qed.

  Theorem rule2_same_proj : same_proj d d'.
  Proof.
    split; [intros x; symmetry; apply obs_same|]. split.
    - intros u c. unfold DirP. rewrite !obs_same. split; intros [Hu [Hc Hp]]; (split; [exact Hu|split; [exact Hc|]]).
      + destruct (obs_not_L u Hu) as [HuL _]. destruct (obs_not_L c Hc) as [HcL _]. apply (proj1 (path_fwd u c Hp HcL) HuL).
      + destruct (obs_not_L u Hu) as [_ HuL']. apply (proj1 (path_bwd u c Hp) HuL').
    - intros a b. unfold BidP. rewrite !obs_same. split; intros [Ha [Hb [Hab [l [Hl [Hln [Hpa Hpb]]]]]]];
        (split; [exact Ha|split; [exact Hb|split; [exact Hab|]]]);
        destruct (obs_not_L a Ha) as [HaL _]; destruct (obs_not_L b Hb) as [HbL _].
      + destruct (Nat.eq_dec l L) as [->|Hne].
        * exists L'. split; [apply lat'_iff; right; reflexivity|]. split; [apply nodes'_iff; right; reflexivity|].
          split; [apply (proj2 (path_fwd L a Hpa HaL) eq_refl)|apply (proj2 (path_fwd L b Hpb HbL) eq_refl)].
        * exists l. split; [apply lat'_iff; left; split; assumption|]. split; [apply nodes'_iff; left; split; assumption|].
          split; [apply (proj1 (path_fwd l a Hpa HaL) Hne)|apply (proj1 (path_fwd l b Hpb HbL) Hne)].
      + destruct (Nat.eq_dec l L') as [->|Hne].
        * exists L. split; [exact HL|]. split; [apply (proj2 Hwf); exact HL|].
          split; [apply (proj2 (path_bwd L' a Hpa) eq_refl)|apply (proj2 (path_bwd L' b Hpb) eq_refl)].
        * exists l. apply lat'_iff in Hl. apply nodes'_iff in Hln.
          split; [destruct Hl as [[Hl _]|Hl]; [exact Hl|congruence]|]. split; [destruct Hln as [[Hln _]|Hln]; [exact Hln|congruence]|].
          split; [apply (proj1 (path_bwd l a Hpa) Hne)|apply (proj1 (path_bwd l b Hpb) Hne)].
  Qed.

  (* the result is again well formed *)
  Lemma rule2_lwf : lwf d'.
  Proof.
    destruct Hwf as [Hw Hll]. split.
    - intros u v He. apply E'_iff in He. rewrite !nodes'_iff. destruct He as [[He [Hu Hv]]|[[H1 H2]|[-> H2]]].
      + apply Hw in He. split; left; tauto.
      + pose proof (Hw _ _ H1) as [Hu _]. pose proof (Hw _ _ H2) as [_ Hv]. split; left; (split; [assumption|]).
        * intros ->. exact (Hnoloop H1).
        * intros ->. exact (Hnoloop H2).
      + pose proof (Hw _ _ H2) as [_ Hv]. split; [right; reflexivity|left; split; [exact Hv|intros ->; exact (Hnoloop H2)]].
    - intros x Hx. apply lat'_iff in Hx. apply nodes'_iff. destruct Hx as [[Hx Hne]| ->]; [left; split; [apply Hll; exact Hx|exact Hne]|right; reflexivity].
  Qed.
End Rule2.
