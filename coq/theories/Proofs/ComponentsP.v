(* C19: the connected components computed by CtfAnc.components (used twice by get_ancestral_components, Def. 4.2) are the classes of the
   reflexive-transitive closure of the link relation: a partition of the input, members of one component are chained by links inside it, and no
   link joins two different components. *)
From Coq Require Import List Bool Arith Lia Relations Permutation.
From Y0 Require Import Base.ListSet Alg.CtfAnc.
Import ListNotations.

Section Components.
  Context {T : Type}.
  Variable link : T -> T -> bool.

  Definition linked_to (comp : list T) (r : T) : bool := existsb (fun c => link c r) comp.

  (* chained inside a list: reflexive-transitive closure of link between members *)
  Definition chained (l : list T) : T -> T -> Prop := clos_refl_trans T (fun a b => In a l /\ In b l /\ link a b = true).

  Lemma chained_mono l l' x y : incl l l' -> chained l x y -> chained l' x y.
  Proof.
    intros Hi H. induction H as [a b [Ha [Hb Hl]]| |a b c _ IH1 _ IH2]; [apply rt_step; auto|apply rt_refl|eapply rt_trans; eassumption].
  Qed.

  Lemma filter_split (p : T -> bool) l : Permutation l (filter p l ++ filter (fun x => negb (p x)) l).
  Proof.
    induction l as [|a t IH]; [constructor|]. cbn [filter]. destruct (p a); cbn [negb app].
    - apply perm_skip. exact IH.
    - eapply perm_trans; [apply perm_skip; exact IH|]. apply Permutation_middle.
  Qed.

  (* grow: the component of the seed *)
  Lemma grow_spec fuel : forall comp rest comp' rest' (s : T),
    grow link fuel comp rest = (comp', rest') -> length rest <= fuel ->
    In s comp -> (forall x, In x comp -> chained comp s x) ->
    Permutation (comp ++ rest) (comp' ++ rest') /\
    incl comp comp' /\ (forall x, In x comp' -> chained comp' s x) /\
    (forall r, In r rest' -> linked_to comp' r = false) /\ incl rest' rest.
  Proof.
    induction fuel as [|f IH]; intros comp rest comp' rest' s Hg Hlen Hs Hch; cbn [grow] in Hg.
    - inversion Hg; subst. destruct rest' as [|? ?]; [|cbn [length] in Hlen; lia].
      repeat split; auto using Permutation_refl, incl_refl. intros r [].
    - set (add := filter (fun r => existsb (fun c => link c r) comp) rest) in *.
      set (keep := filter (fun r => negb (existsb (fun c => link c r) comp)) rest) in *.
      destruct add as [|a0 at_] eqn:Ea.
      + inversion Hg; subst. repeat split; auto using Permutation_refl, incl_refl.
        intros r Hr. unfold linked_to. destruct (existsb (fun c => link c r) comp') eqn:E; [|reflexivity]. exfalso.
        assert (Hin : In r add) by (unfold add; apply filter_In; auto). rewrite Ea in Hin. destruct Hin.
      + rewrite <- Ea in *. assert (Hne : add <> []) by (rewrite Ea; discriminate).
        assert (Hperm : Permutation rest (add ++ keep)) by apply filter_split.
        assert (Hlk : length keep <= f).
        { pose proof (Permutation_length Hperm) as Hl. rewrite app_length in Hl. destruct add; [congruence|]. cbn [length] in Hl. lia. }
        assert (Hch' : forall x, In x (comp ++ add) -> chained (comp ++ add) s x).
        { intros x Hx. apply in_app_or in Hx. destruct Hx as [Hx|Hx].
          - apply (chained_mono comp); [intros y Hy; apply in_or_app; left; exact Hy|apply Hch; exact Hx].
          - unfold add in Hx. apply filter_In in Hx. destruct Hx as [Hxr Hex]. apply existsb_exists in Hex. destruct Hex as [c [Hc Hl]].
            eapply rt_trans; [apply (chained_mono comp); [intros y Hy; apply in_or_app; left; exact Hy|apply Hch; exact Hc]|].
            apply rt_step. repeat split; [apply in_or_app; left; exact Hc|apply in_or_app; right; apply filter_In; split; [exact Hxr|apply existsb_exists; eauto]|exact Hl]. }
        destruct (IH (comp ++ add) keep comp' rest' s Hg Hlk (in_or_app _ _ _ (or_introl Hs)) Hch') as [P1 [P2 [P3 [P4 P5]]]].
        repeat split.
        * eapply perm_trans; [|exact P1]. rewrite <- app_assoc. apply Permutation_app_head. exact Hperm.
        * intros x Hx. apply P2. apply in_or_app. left. exact Hx.
        * exact P3.
        * exact P4.
        * intros r Hr. apply P5 in Hr. unfold keep in Hr. apply filter_In in Hr. apply Hr.
  Qed.

  (* the whole partition *)
  Inductive parts_ok : list T -> list (list T) -> Prop :=
  | po_nil : parts_ok [] []
  | po_cons sets comp rest' parts s :
      In s comp -> (forall x, In x comp -> chained comp s x) ->
      (forall r, In r rest' -> linked_to comp r = false) ->
      Permutation sets (comp ++ rest') -> parts_ok rest' parts -> parts_ok sets (comp :: parts).

  Lemma components_ok fuel : forall sets, length sets <= fuel -> parts_ok sets (components link fuel sets).
  Proof.
    induction fuel as [|f IH]; intros sets Hlen.
    - destruct sets; [constructor|cbn [length] in Hlen; lia].
    - cbn [components]. destruct sets as [|s rest]; [constructor|].
      destruct (grow link (length (s :: rest)) [s] rest) as [comp rest'] eqn:Eg.
      destruct (grow_spec _ [s] rest comp rest' s Eg) as [P1 [P2 [P3 [P4 P5]]]]; [cbn [length]; lia|left; reflexivity|intros x [<-|[]]; apply rt_refl|].
      apply (po_cons (s :: rest) comp rest' _ s); [apply P2; left; reflexivity|exact P3|exact P4|exact P1|].
      apply IH. pose proof (Permutation_length P1) as Hl. rewrite !app_length in Hl. cbn [length app] in Hl, Hlen.
      assert (1 <= length comp) by (destruct comp; [destruct (P2 s (or_introl eq_refl))|cbn; lia]). lia.
  Qed.

  (* consequences in the usual form *)
  Lemma parts_perm sets parts : parts_ok sets parts -> Permutation sets (concat parts).
  Proof.
    induction 1 as [|sets comp rest' parts s _ _ _ Hp _ IH]; [constructor|]. cbn [concat]. eapply perm_trans; [exact Hp|]. apply Permutation_app_head. exact IH.
  Qed.

  Lemma parts_chained sets parts comp : parts_ok sets parts -> In comp parts -> forall x y, In x comp -> In y comp ->
    clos_refl_sym_trans T (fun a b => In a comp /\ In b comp /\ link a b = true) x y.
  Proof.
    induction 1 as [|sets c rest' parts s Hs Hch _ _ _ IH]; intros Hin x y Hx Hy; [destruct Hin|]. destruct Hin as [<-|Hin]; [|apply IH; assumption].
    eapply rst_trans; [apply rst_sym|]; apply clos_rt_clos_rst; apply Hch; assumption.
  Qed.

  Lemma parts_separate sets parts : parts_ok sets parts ->
    forall i j ci cj, i < j -> nth_error parts i = Some ci -> nth_error parts j = Some cj -> forall x y, In x ci -> In y cj -> link x y = false.
  Proof.
    induction 1 as [|sets c rest' parts s _ _ Hno Hp Hrest IH]; intros i j ci cj Hij Hi Hj x y Hx Hy; [destruct i; discriminate|].
    destruct j as [|j]; [lia|]. cbn [nth_error] in Hj. destruct i as [|i].
    - cbn [nth_error] in Hi. inversion Hi; subst ci.
      assert (Hyr : In y rest').
      { apply (Permutation_in _ (Permutation_sym (parts_perm _ _ Hrest))). apply in_concat. exists cj. split; [eapply nth_error_In; exact Hj|exact Hy]. }
      pose proof (Hno y Hyr) as Hl. unfold linked_to in Hl. destruct (link x y) eqn:E; [|reflexivity]. exfalso.
      assert (Ht : existsb (fun c0 => link c0 y) c = true) by (apply existsb_exists; exists x; auto). congruence.
    - cbn [nth_error] in Hi. apply (IH i j ci cj); [lia|exact Hi|exact Hj|exact Hx|exact Hy].
  Qed.
  Lemma parts_seed sets parts comp : parts_ok sets parts -> In comp parts -> exists s, In s comp /\ forall x, In x comp -> chained comp s x.
  Proof.
    induction 1 as [|sets c rest' parts s Hs Hch _ _ _ IH]; intros Hin; [destruct Hin|]. destruct Hin as [<-|Hin]; [exists s; auto|apply IH; exact Hin].
  Qed.
End Components.
