(* C12: the expressions the public operators build from well-formed terms are well formed [wf_sem] - so the meaning clause applies to
   every expression obtained from terms by *, / and Sum[...], however nested. *)
From Coq Require Import List Bool Arith Lia Permutation QArith.
From Y0 Require Import Base.ListSet Dsl.Syntax Dsl.Text Dsl.Print Dsl.Build Dsl.Canon Dsl.Parse Dsl.Sem
  Proofs.SortP Proofs.ExprP Proofs.SurgeryP Proofs.CanonNfP Proofs.CanonNf3P Proofs.TokenizeP Proofs.ParseP Proofs.EvalP Proofs.EvalSemP.
Import ListNotations.
Close Scope Q_scope.
Open Scope list_scope.

Definition PW (e : expr) : bool := is_err e || wf_sem e.
Definition UW (e : expr) : bool := is_unit e && wf_sem e.

Lemma PW_of_wf e : wf_sem e = true -> PW e = true.
Proof. intros H. unfold PW. rewrite H. apply orb_true_r. Qed.

Lemma wf_of_PW e : PW e = true -> is_err e = false -> wf_sem e = true.
Proof. unfold PW. intros H He. rewrite He in H. exact H. Qed.

Lemma wf_prod_parts es : wf_sem (EProd es) = true -> forallb UW es = true.
Proof. cbn [wf_sem]. intros H. apply andb_true_iff in H. apply H. Qed.

Lemma wf_frac_parts n d : wf_sem (EFrac n d) = true -> wf_sem n = true /\ wf_sem d = true.
Proof. cbn [wf_sem]. intros H. apply andb_true_iff in H. exact H. Qed.

(* Product.safe of well-formed units *)
Lemma PW_prod_safe l : forallb UW l = true -> PW (prod_safe l) = true.
Proof.
  intros Hl. rewrite forallb_forall in Hl. unfold prod_safe, prod_safe_gen, first_err.
  rewrite find_none_all.
  2:{ intros x Hx. specialize (Hl x Hx). unfold UW in Hl. apply andb_true_iff in Hl. destruct Hl as [_ Hw]. destruct x; try reflexivity. discriminate. }
  remember (filter (fun e => negb (is_one e)) l) as es1 eqn:E1.
  destruct (existsb is_zero es1); [reflexivity|].
  assert (H1 : forall x, In x es1 -> UW x = true) by (intros x Hx; rewrite E1 in Hx; apply filter_In in Hx; apply Hl; apply Hx).
  destruct es1 as [|x [|y t]] eqn:E; [reflexivity| |].
  - specialize (H1 x (or_introl eq_refl)). unfold UW in H1. apply andb_true_iff in H1. apply PW_of_wf. apply H1.
  - rewrite <- E in *. apply PW_of_wf. cbn [wf_sem]. apply andb_true_iff. split.
    + pose proof (Permutation_length (stable_sort_perm expr_lt es1)) as Hlen. rewrite E in Hlen at 1. destruct (stable_sort expr_lt es1); [discriminate|reflexivity].
    + apply forallb_forall. intros z Hz. apply H1. eapply Permutation_in; [apply Permutation_sym; apply stable_sort_perm|exact Hz].
Qed.

Lemma PW_mk_frac n d : PW n = true -> PW d = true -> PW (mk_frac n d) = true.
Proof.
  intros Hn Hd. unfold mk_frac, first_err. cbn [find]. destruct (is_err n) eqn:En; [exact Hn|]. destruct (is_err d) eqn:Ed; [exact Hd|].
  destruct (is_zero d); [reflexivity|]. apply PW_of_wf. cbn [wf_sem]. rewrite (wf_of_PW n Hn En), (wf_of_PW d Hd Ed). reflexivity.
Qed.

Lemma UW_intro e : wf_sem e = true -> is_unit e = true -> UW e = true.
Proof. intros H1 H2. unfold UW. rewrite H1, H2. reflexivity. Qed.

Lemma forallb_app' {T} (p : T -> bool) l1 l2 : forallb p l1 = true -> forallb p l2 = true -> forallb p (l1 ++ l2) = true.
Proof. intros H1 H2. rewrite forallb_app, H1, H2. reflexivity. Qed.

Ltac fin Ha Hb := cbn [mul]; first
  [ reflexivity
  | apply PW_of_wf; assumption
  | apply PW_prod_safe; cbn [forallb app]; rewrite ?(UW_intro _ Ha eq_refl), ?(UW_intro _ Hb eq_refl); reflexivity
  | apply PW_prod_safe; cbn [forallb]; rewrite (UW_intro _ Ha eq_refl); apply wf_prod_parts; exact Hb
  | discriminate ].

Theorem wf_mul : forall a b, wf_sem a = true -> wf_sem b = true -> PW (mul a b) = true.
Proof.
  induction a as [pop ch pa|es IHes|e rs IHe|n d IHn IHd| | |dm cd|k] using expr_ind'; intros b Ha.
  - (* term * b *)
    induction b as [pop' ch' pa'|es' _|e' rs' _|n' d' IHn' _| | |dm' cd'|k'] using expr_ind'; intros Hb; try (fin Ha Hb).
    destruct (wf_frac_parts _ _ Hb) as [Hn' Hd']. cbn [mul]. apply PW_mk_frac; [apply IHn'; exact Hn'|apply PW_of_wf; exact Hd'].
  - (* product * b *)
    pose proof (wf_prod_parts _ Ha) as Hes.
    induction b as [pop' ch' pa'|es' _|e' rs' _|n' d' IHn' _| | |dm' cd'|k'] using expr_ind'; intros Hb; cbn [mul]; try reflexivity; try discriminate.
    + apply PW_prod_safe. apply forallb_app'; [exact Hes|]. cbn [forallb]. rewrite (UW_intro _ Hb eq_refl). reflexivity.
    + apply PW_prod_safe. apply forallb_app'; [exact Hes|apply wf_prod_parts; exact Hb].
    + apply PW_prod_safe. apply forallb_app'; [exact Hes|]. cbn [forallb]. rewrite (UW_intro _ Hb eq_refl). reflexivity.
    + destruct (wf_frac_parts _ _ Hb) as [Hn' Hd']. apply PW_mk_frac; [apply IHn'; exact Hn'|apply PW_of_wf; exact Hd'].
    + apply PW_prod_safe. apply forallb_app'; [exact Hes|]. reflexivity.
    + apply PW_prod_safe. apply forallb_app'; [exact Hes|]. cbn [forallb]. rewrite (UW_intro _ Hb eq_refl). reflexivity.
  - (* sum * b *)
    intros Hb. destruct b; fin Ha Hb.
  - (* fraction * b *)
    destruct (wf_frac_parts _ _ Ha) as [Hn Hd]. intros Hb. destruct b; cbn [mul]; try reflexivity; try discriminate;
      try (apply PW_mk_frac; [apply IHn; assumption|apply PW_of_wf; exact Hd]).
    destruct (wf_frac_parts _ _ Hb) as [Hn' Hd']. apply PW_mk_frac; [apply IHn; assumption|apply IHd; assumption].
  - intros Hb. destruct b; fin Ha Hb.
  - intros Hb. destruct b; fin Ha Hb.
  - (* Q factor * b *)
    induction b as [pop' ch' pa'|es' _|e' rs' _|n' d' IHn' _| | |dm' cd'|k'] using expr_ind'; intros Hb; try (fin Ha Hb).
    destruct (wf_frac_parts _ _ Hb) as [Hn' Hd']. cbn [mul]. apply PW_mk_frac; [apply IHn'; exact Hn'|apply PW_of_wf; exact Hd'].
  - discriminate.
Qed.

Lemma PW_mul a b : PW a = true -> PW b = true -> PW (mul a b) = true.
Proof.
  intros Ha Hb. destruct (is_err a) eqn:Ea.
  { destruct a; try discriminate. destruct b; reflexivity. }
  destruct (is_err b) eqn:Eb.
  { destruct b; try discriminate. destruct a; try reflexivity; discriminate. }
  apply wf_mul; apply wf_of_PW; assumption.
Qed.

Theorem PW_truediv : forall b a, PW a = true -> PW b = true -> PW (truediv a b) = true.
Proof.
  induction b as [pop ch pa|es _|e rs _|n d IHn _| | |dm cd|k] using expr_ind'; intros a Ha Hb;
    destruct a; cbn [truediv]; try exact Ha; try exact Hb; try reflexivity;
    try (apply PW_mk_frac; assumption);
    try (apply PW_mk_frac; [apply PW_of_wf; apply (wf_frac_parts _ _ (wf_of_PW _ Ha eq_refl))|apply PW_mul; [apply PW_of_wf; apply (wf_frac_parts _ _ (wf_of_PW _ Ha eq_refl))|exact Hb]]).
  all: pose proof (wf_frac_parts _ _ (wf_of_PW _ Hb eq_refl)) as [Hn' Hd'].
  all: try (apply IHn; [apply PW_mul; [exact Ha|apply PW_of_wf; exact Hd']|apply PW_of_wf; exact Hn']).
  all: pose proof (wf_frac_parts _ _ (wf_of_PW _ Ha eq_refl)) as [Hn1 Hd1].
  all: apply PW_mk_frac; apply PW_mul; apply PW_of_wf; assumption.
Qed.

Definition range_ok (v : var) : bool := plain_var v && name_ok (vn v).

Lemma PW_sum_safe e rs : PW e = true -> forallb range_ok rs = true -> PW (sum_safe e rs false) = true.
Proof.
  intros He Hrs. unfold sum_safe, sum_safe_gen. destruct (is_err e) eqn:Ee; [exact He|].
  destruct (upgrade_ordering rs) as [|r0 rt] eqn:Eu; [exact He|]. destruct (is_zero e); [exact He|]. rewrite <- Eu.
  destruct (existsb bad_range (upgrade_ordering rs)); [reflexivity|]. apply PW_of_wf. cbn [wf_sem].
  rewrite (wf_of_PW e He Ee). cbn [andb]. apply andb_true_iff. split.
  - apply forallb_forall. intros v Hv. apply (proj1 (In_upgrade rs v)) in Hv. rewrite forallb_forall in Hrs. exact (Hrs v Hv).
  - rewrite upgrade_idem. apply eqb_refl.
Qed.

(* expressions obtained from well-formed terms by the public operators *)
Inductive built : expr -> Prop :=
| b_term e : wf_sem e = true -> built e
| b_mul a b : built a -> built b -> built (mul a b)
| b_div a b : built a -> built b -> built (truediv a b)
| b_sum e rs : built e -> forallb range_ok rs = true -> built (sum_safe e rs false).

Theorem built_wf e : built e -> PW e = true.
Proof.
  induction 1 as [e H|a b _ IHa _ IHb|a b _ IHa _ IHb|e rs _ IHe Hrs].
  - apply PW_of_wf. exact H.
  - apply PW_mul; assumption.
  - apply PW_truediv; assumption.
  - apply PW_sum_safe; assumption.
Qed.

(* every expression the operators build without raising is read back, from its printed text, as an expression of the same meaning *)
Theorem built_parse_meaning e : built e -> is_err e = false ->
  parse_y0 (to_y0 e) = reparse e /\ forall m r, (Sem.eval m (parse_y0 (to_y0 e)) r == Sem.eval m e r)%Q.
Proof. intros Hb He. apply parse_meaning. apply wf_of_PW; [apply built_wf; exact Hb|exact He]. Qed.

(* the plain builder P(X1, ..., Xn) / PP[pop](X1, ..., Xn) on well-formed variables gives a well-formed term *)
Lemma wf_prob_joint pop pre : match pop with Some p => wfvar p = true | None => True end -> forallb wfvar pre = true -> pre <> [] ->
  wf_sem (prob_safe pop pre None [] None) = true.
Proof.
  intros Hpop Hpre Hne. unfold prob_safe, dist_safe. cbn [fst snd]. rewrite app_nil_r. unfold prob_raw.
  destruct (upgrade_ordering pre) as [|c0 ct] eqn:Eu.
  - exfalso. destruct pre as [|p0 pt]; [congruence|]. assert (Hin : In p0 (upgrade_ordering (p0 :: pt))) by (apply In_upgrade; left; reflexivity). rewrite Eu in Hin. destruct Hin.
  - rewrite <- Eu. cbn [wf_sem]. repeat (apply andb_true_iff; split).
    + destruct pop; [exact Hpop|reflexivity].
    + apply forallb_forall. intros v Hv. rewrite forallb_forall in Hpre. apply Hpre. apply In_upgrade. exact Hv.
    + reflexivity.
    + rewrite Eu. reflexivity.
    + rewrite upgrade_idem. apply eqb_refl.
    + reflexivity.
Qed.
