(* C14: get_nodes_in_directed_paths. On a graph the model's Kahn sort accepts (the acyclic branch) the result is the set of nodes lying on a directed
   walk with at least one edge from a source to a target (in a DAG every walk is a path); otherwise it is the set of nodes of the simple directed
   paths from a source to a target as networkx enumerates them (a source that is itself a target contributes the trivial path). *)
From Coq Require Import List Bool Arith Lia Relations.
From Y0 Require Import Base.ListSet Graph.Closure Graph.MixedGraph Graph.Paths Proofs.ClosureP Proofs.SurgeryP Proofs.MSepPathP Proofs.MSepShortP.
Import ListNotations.

Section PathsNodes.
  Variable g : mg nat.

  Definition tc : nat -> nat -> Prop := clos_trans nat (fun a b => In (a, b) (dir g)).

  Lemma clos_t_clos_rt (R : nat -> nat -> Prop) x y : clos_trans nat R x y -> clos_refl_trans nat R x y.
  Proof. induction 1 as [a b Hab|a b c _ IH1 _ IH2]; [apply rt_step; exact Hab|eapply rt_trans; eassumption]. Qed.

  Lemma rt_then_tc a b c : In (a, b) (dir g) -> clos_refl_trans nat (fun x y => In (x, y) (dir g)) b c -> tc a c.
  Proof.
    intros Hab H. apply clos_rt_rt1n in H. revert a Hab. induction H as [x|x y z Hxy _ IH]; intros a Hab; [apply t_step; exact Hab|].
    eapply t_trans; [apply t_step; exact Hab|apply IH; exact Hxy].
  Qed.

  Lemma strict_desc_spec v x : In x (strict_desc g v) <-> tc v x.
  Proof.
    unfold strict_desc. rewrite reach_spec. split.
    - intros [c [Hc Hr]]. apply In_children in Hc. apply (rt_then_tc v c x Hc). exact Hr.
    - intros H. apply clos_trans_t1n in H. destruct H as [y Hvy|y z Hvy Hyz].
      + exists y. split; [apply In_children; exact Hvy|apply rt_refl].
      + exists y. split; [apply In_children; exact Hvy|]. apply clos_t1n_trans in Hyz. apply clos_t_clos_rt. exact Hyz.
  Qed.

  Theorem dag_branch_spec srcs tgts n :
    In n (nodes_in_directed_paths_dag g srcs tgts) <->
    exists s t, In s srcs /\ In t tgts /\ ((In n (nodes g) /\ tc s n /\ tc n t) \/ (tc s t /\ (n = s \/ n = t))).
  Proof.
    unfold nodes_in_directed_paths_dag. rewrite In_dedup, in_app_iff, filter_In. split.
    - intros [[Hn H]|H].
      + apply existsb_exists in H. destruct H as [s [Hs H]]. apply existsb_exists in H. destruct H as [t [Ht H]]. apply andb_true_iff in H. destruct H as [H1 H2].
        apply mem_In in H1, H2. exists s, t. split; [exact Hs|split; [exact Ht|]]. left. split; [exact Hn|split; apply strict_desc_spec; assumption].
      + apply in_flat_map in H. destruct H as [s [Hs H]]. apply in_flat_map in H. destruct H as [t [Ht H]].
        destruct (mem t (strict_desc g s)) eqn:E; [|destruct H]. apply mem_In in E. apply strict_desc_spec in E. exists s, t. split; [exact Hs|split; [exact Ht|]].
        right. split; [exact E|]. destruct H as [<-|[<-|[]]]; auto.
    - intros [s [t [Hs [Ht [[Hn [H1 H2]]|[Hst Hn]]]]]].
      + left. split; [exact Hn|]. apply existsb_exists. exists s. split; [exact Hs|]. apply existsb_exists. exists t. split; [exact Ht|].
        apply andb_true_iff. split; apply mem_In; apply strict_desc_spec; assumption.
      + right. apply in_flat_map. exists s. split; [exact Hs|]. apply in_flat_map. exists t. split; [exact Ht|].
        replace (mem t (strict_desc g s)) with true by (symmetry; apply mem_In; apply strict_desc_spec; exact Hst). destruct Hn as [->| ->]; [left|right; left]; reflexivity.
  Qed.

  (* a simple directed path of the graph from s to t *)
  Definition simple_path (s t : nat) (p : list nat) : Prop :=
    (exists rest, p = s :: rest) /\ last_is t p /\ chainA (out_adj (dir g)) p /\ NoDup p.

  Theorem cyclic_branch_spec srcs tgts n : wf g -> NoDup (nodes g) ->
    In n (nodes_in_directed_paths_cyclic g srcs tgts) <->
    exists s t p, In s srcs /\ In t tgts /\ In p (all_simple_paths_dir (nodes g) (dir g) s t) /\ In n p.
  Proof.
    intros _ _. unfold nodes_in_directed_paths_cyclic. rewrite In_dedup, in_flat_map. split.
    - intros [s [Hs H]]. apply in_flat_map in H. destruct H as [t [Ht H]]. apply in_concat in H. destruct H as [p [Hp Hn]]. exists s, t, p. auto.
    - intros [s [t [p [Hs [Ht [Hp Hn]]]]]]. exists s. split; [exact Hs|]. apply in_flat_map. exists t. split; [exact Ht|]. apply in_concat. eauto.
  Qed.

  (* every enumerated path is a simple directed path, and every simple directed path inside the node list (whose target does not recur) is enumerated *)
  Theorem enumerated_paths_are_simple s t p : In p (all_simple_paths_dir (nodes g) (dir g) s t) ->
    (exists rest, p = s :: rest) /\ last_is t p /\ chainA (out_adj (dir g)) p.
  Proof.
    unfold all_simple_paths_dir. intros H. apply spaths_sound in H. destruct H as [suf [-> [Hc Hl]]]. cbn [rev app]. split; [eauto|split; assumption].
  Qed.

  Theorem simple_paths_are_enumerated s t p : simple_path s t p -> length p <= S (length (nodes g)) ->
    In p (all_simple_paths_dir (nodes g) (dir g) s t).
  Proof.
    intros [[rest ->] [Hl [Hc Hnd]]] Hlen. unfold all_simple_paths_dir.
    apply (spaths_complete (out_adj (dir g)) t rest (length (nodes g)) [] s Hc Hl Hnd). cbn [length] in Hlen. lia.
  Qed.
End PathsNodes.
