(* C11: the sort keys are strict orders. Python's tuple comparison of the expression keys (_get_key, then to_text, then
   to_y0), the canonicalizer's variable key (level, _variable_sort_key, to_y0) and _variable_sort_key itself are
   irreflexive and transitive - so sorting by them is idempotent. *)
From Coq Require Import List Bool Arith ZArith Lia String OrderedTypeEx.
From Y0 Require Import Base.ListSet Dsl.Syntax Dsl.Text Dsl.Print Dsl.Build Dsl.Canon.
Import ListNotations.
Open Scope list_scope.

(* ------------------------------------------------------------ well-behaved three-way comparisons *)
Record cmp_ok {A} (c : A -> A -> comparison) : Prop := {
  c_refl : forall a, c a a = Eq;
  c_anti : forall a b, c b a = CompOpp (c a b);
  c_trans : forall a b d, c a b = Lt -> c b d = Lt -> c a d = Lt;
  c_eq_l : forall a b x, c a b = Eq -> c a x = c b x }.

Lemma c_eq_r {A} (c : A -> A -> comparison) : cmp_ok c -> forall a b x, c a b = Eq -> c x a = c x b.
Proof. intros H a b x E. rewrite (c_anti c H a x), (c_anti c H b x), (c_eq_l c H a b x E). reflexivity. Qed.

Definition lexc (x y : comparison) : comparison := match x with Eq => y | _ => x end.
Definition is_lt (c : comparison) : bool := match c with Lt => true | _ => false end.

Lemma cmp_ok_lex {A} (c1 c2 : A -> A -> comparison) : cmp_ok c1 -> cmp_ok c2 -> cmp_ok (fun a b => lexc (c1 a b) (c2 a b)).
Proof.
  intros H1 H2. split.
  - intros a. rewrite (c_refl c1 H1). cbn. apply (c_refl c2 H2).
  - intros a b. rewrite (c_anti c1 H1 a b), (c_anti c2 H2 a b). destruct (c1 a b); reflexivity.
  - intros a b d E1 E2. destruct (c1 a b) eqn:Eab; cbn [lexc] in E1; try discriminate.
    + rewrite (c_eq_l c1 H1 a b d Eab). destruct (c1 b d) eqn:Ebd; cbn [lexc] in *; try discriminate; [|reflexivity].
      apply (c_trans c2 H2 a b d); assumption.
    + destruct (c1 b d) eqn:Ebd; cbn [lexc] in E2; try discriminate.
      * rewrite <- (c_eq_r c1 H1 b d a Ebd), Eab. reflexivity.
      * rewrite (c_trans c1 H1 a b d Eab Ebd). reflexivity.
  - intros a b x E. destruct (c1 a b) eqn:Eab; cbn [lexc] in E; try discriminate.
    rewrite (c_eq_l c1 H1 a b x Eab), (c_eq_l c2 H2 a b x E). reflexivity.
Qed.

Lemma cmp_ok_pre {A B} (f : A -> B) (c : B -> B -> comparison) : cmp_ok c -> cmp_ok (fun a b => c (f a) (f b)).
Proof.
  intros H. split; intros.
  - apply (c_refl c H).
  - apply (c_anti c H).
  - eapply (c_trans c H); eassumption.
  - apply (c_eq_l c H). assumption.
Qed.

Lemma lt_of_irrefl {A} (c : A -> A -> comparison) : cmp_ok c -> forall a, is_lt (c a a) = false.
Proof. intros H a. rewrite (c_refl c H). reflexivity. Qed.
Lemma lt_of_trans {A} (c : A -> A -> comparison) : cmp_ok c -> forall a b d, is_lt (c a b) = true -> is_lt (c b d) = true -> is_lt (c a d) = true.
Proof.
  intros H a b d E1 E2. destruct (c a b) eqn:Eab; try discriminate. destruct (c b d) eqn:Ebd; try discriminate.
  rewrite (c_trans c H a b d Eab Ebd). reflexivity.
Qed.

Lemma cmp_ok_nat : cmp_ok Nat.compare.
Proof.
  split.
  - apply Nat.compare_refl.
  - intros a b. apply Nat.compare_antisym.
  - intros a b d E1 E2. apply Nat.compare_lt_iff in E1, E2. apply Nat.compare_lt_iff. lia.
  - intros a b x E. apply Nat.compare_eq_iff in E. subst. reflexivity.
Qed.

Lemma cmp_ok_Z : cmp_ok Z.compare.
Proof.
  split.
  - apply Z.compare_refl.
  - intros a b. apply Z.compare_antisym.
  - intros a b d E1 E2. rewrite Z.compare_lt_iff in *. lia.
  - intros a b x E. apply Z.compare_eq_iff in E. subst. reflexivity.
Qed.

Lemma cmp_ok_string : cmp_ok String.compare.
Proof.
  split.
  - intros a. apply (proj2 (String_as_OT.cmp_eq a a)). reflexivity.
  - intros a b. apply (String_as_OT.cmp_antisym b a).
  - intros a b d E1 E2. apply String_as_OT.cmp_lt in E1, E2. apply String_as_OT.cmp_lt. eapply String_as_OT.lt_trans; eassumption.
  - intros a b x E. apply String_as_OT.cmp_eq in E. subst. reflexivity.
Qed.

Lemma cmp_ok_star : cmp_ok star_cmp.
Proof.
  split.
  - intros [[|]|]; reflexivity.
  - intros [[|]|] [[|]|]; reflexivity.
  - intros [[|]|] [[|]|] [[|]|]; cbn; congruence.
  - intros [[|]|] [[|]|] [[|]|]; cbn; congruence.
Qed.

(* ------------------------------------------------------------ lexicographic order of lists *)
Fixpoint lcmp {A} (c : A -> A -> comparison) (l1 l2 : list A) : comparison :=
  match l1, l2 with
  | [], [] => Eq
  | [], _ => Lt
  | _, [] => Gt
  | x :: t, y :: u => lexc (c x y) (lcmp c t u)
  end.

Section Lcmp.
  Context {A : Type}.
  Variable c : A -> A -> comparison.

  Lemma lcmp_refl l : (forall x, In x l -> c x x = Eq) -> lcmp c l l = Eq.
  Proof.
    induction l as [|x t IH]; intros H; [reflexivity|]. cbn [lcmp]. rewrite (H x (or_introl eq_refl)). cbn [lexc].
    apply IH. intros y Hy. apply H. right. exact Hy.
  Qed.

  Lemma lcmp_anti l1 : forall l2, (forall x y, In x l1 -> In y l2 -> c y x = CompOpp (c x y)) -> lcmp c l2 l1 = CompOpp (lcmp c l1 l2).
  Proof.
    induction l1 as [|x t IH]; intros [|y u] H; try reflexivity. cbn [lcmp].
    rewrite (H x y (or_introl eq_refl) (or_introl eq_refl)).
    rewrite (IH u); [|intros a b Ha Hb; apply H; right; assumption]. destruct (c x y); reflexivity.
  Qed.

  (* transitivity and the congruence of Eq, from the same facts about the members (in every role they can take) *)
  Definition tri (x y z : A) : Prop :=
    (c x y = Lt -> c y z = Lt -> c x z = Lt) /\ (c x y = Eq -> c x z = c y z) /\ (c y z = Eq -> c x z = c x y).

  Lemma lcmp_trans l1 : forall l2 l3,
    (forall x y z, In x l1 -> In y l2 -> In z l3 -> tri x y z) ->
    lcmp c l1 l2 = Lt -> lcmp c l2 l3 = Lt -> lcmp c l1 l3 = Lt.
  Proof.
    induction l1 as [|x t IH]; intros [|y u] [|z v] H E1 E2; cbn [lcmp] in *; try discriminate; try reflexivity.
    destruct (H x y z (or_introl eq_refl) (or_introl eq_refl) (or_introl eq_refl)) as [T [El Er]].
    assert (IH' : lcmp c t u = Lt -> lcmp c u v = Lt -> lcmp c t v = Lt).
    { apply IH. intros a b d Ha Hb Hd. apply H; right; assumption. }
    destruct (c x y) eqn:Exy; cbn [lexc] in E1; try discriminate.
    - rewrite (El eq_refl). destruct (c y z) eqn:Eyz; cbn [lexc] in *; try discriminate; [apply IH'; assumption|reflexivity].
    - destruct (c y z) eqn:Eyz; cbn [lexc] in E2; try discriminate.
      + rewrite (Er eq_refl). reflexivity.
      + rewrite (T eq_refl eq_refl). reflexivity.
  Qed.

  Lemma lcmp_eq_l l1 : forall l2 l3,
    (forall x y z, In x l1 -> In y l2 -> In z l3 -> tri x y z) ->
    lcmp c l1 l2 = Eq -> lcmp c l1 l3 = lcmp c l2 l3.
  Proof.
    induction l1 as [|x t IH]; intros [|y u] [|z v] H E; cbn [lcmp] in *; try discriminate; try reflexivity.
    destruct (H x y z (or_introl eq_refl) (or_introl eq_refl) (or_introl eq_refl)) as [T [El Er]].
    destruct (c x y) eqn:Exy; cbn [lexc] in E; try discriminate.
    rewrite (El eq_refl). rewrite (IH u v); [reflexivity| |exact E]. intros a b d Ha Hb Hd. apply H; right; assumption.
  Qed.
End Lcmp.

Lemma cmp_ok_lcmp {A} (c : A -> A -> comparison) : cmp_ok c -> cmp_ok (lcmp c).
Proof.
  intros H. split.
  - intros l. apply lcmp_refl. intros x _. apply (c_refl c H).
  - intros l1 l2. apply lcmp_anti. intros x y _ _. apply (c_anti c H).
  - intros l1 l2 l3. apply lcmp_trans. intros x y z _ _ _. split; [apply (c_trans c H)|]. split; [apply (c_eq_l c H)|intros E; symmetry; apply (c_eq_r c H); exact E].
  - intros l1 l2 l3. apply lcmp_eq_l. intros x y z _ _ _. split; [apply (c_trans c H)|]. split; [apply (c_eq_l c H)|intros E; symmetry; apply (c_eq_r c H); exact E].
Qed.

(* ------------------------------------------------------------ Python's comparison of the expression keys *)
Fixpoint ksize (k : key) : nat :=
  match k with
  | KT l => S ((fix go (l : list key) : nat := match l with [] => 0 | x :: t => ksize x + go t end) l)
  | _ => 1
  end.

Lemma ksize_pos k : 0 < ksize k.
Proof. destruct k; cbn; lia. Qed.

Lemma ksize_member x l : In x l -> ksize x < ksize (KT l).
Proof.
  cbn [ksize]. induction l as [|y t IH]; intros Hin; [destruct Hin|]. destruct Hin as [->|Hin]; [lia|]. specialize (IH Hin). lia.
Qed.

Lemma key_cmp_KT l1 : forall l2, key_cmp (KT l1) (KT l2) = lcmp key_cmp l1 l2.
Proof.
  induction l1 as [|x t IH]; intros [|y u]; try reflexivity. cbn [lcmp]. rewrite <- IH.
  change (key_cmp (KT (x :: t)) (KT (y :: u))) with (match key_cmp x y with Eq => key_cmp (KT t) (KT u) | c => c end).
  destruct (key_cmp x y); reflexivity.
Qed.

Lemma key_cmp_refl : forall n a, ksize a <= n -> key_cmp a a = Eq.
Proof.
  induction n as [|n IH]; intros a Hs; [pose proof (ksize_pos a); lia|].
  destruct a as [z|m|v|l].
  - apply Z.compare_refl.
  - apply Nat.compare_refl.
  - cbn [key_cmp]. rewrite Nat.compare_refl. apply (c_refl _ cmp_ok_star).
  - rewrite key_cmp_KT. apply lcmp_refl. intros x Hx. apply IH. pose proof (ksize_member x l Hx). lia.
Qed.

Lemma key_cmp_anti : forall n a b, ksize a + ksize b <= n -> key_cmp b a = CompOpp (key_cmp a b).
Proof.
  induction n as [|n IH]; intros a b Hs; [pose proof (ksize_pos a); lia|].
  destruct a as [z|m|v|l], b as [z'|m'|v'|l']; try reflexivity.
  - apply Z.compare_antisym.
  - apply Nat.compare_antisym.
  - cbn [key_cmp]. rewrite (Nat.compare_antisym (vn v) (vn v')), (c_anti _ cmp_ok_star (vs v) (vs v')). destruct (Nat.compare (vn v) (vn v')); reflexivity.
  - rewrite !key_cmp_KT. apply lcmp_anti. intros x y Hx Hy. apply IH.
    pose proof (ksize_member x l Hx). pose proof (ksize_member y l' Hy). lia.
Qed.

Definition kv_cmp (x y : var) : comparison := lexc (Nat.compare (vn x) (vn y)) (star_cmp (vs x) (vs y)).
Lemma cmp_ok_kv : cmp_ok kv_cmp.
Proof.
  apply (cmp_ok_lex (fun x y => Nat.compare (vn x) (vn y)) (fun x y => star_cmp (vs x) (vs y))).
  - apply (cmp_ok_pre vn). exact cmp_ok_nat.
  - apply (cmp_ok_pre vs). exact cmp_ok_star.
Qed.
Lemma key_cmp_KV x y : key_cmp (KV x) (KV y) = kv_cmp x y.
Proof. cbn [key_cmp]. unfold kv_cmp. destruct (Nat.compare (vn x) (vn y)); reflexivity. Qed.

Lemma key_cmp_tri : forall n a b d, ksize a + ksize b + ksize d <= n ->
  (key_cmp a b = Lt -> key_cmp b d = Lt -> key_cmp a d = Lt) /\ (key_cmp a b = Eq -> key_cmp a d = key_cmp b d).
Proof.
  induction n as [|n IH]; intros a b d Hs; [pose proof (ksize_pos a); lia|].
  destruct a as [z|m|v|l], b as [z'|m'|v'|l'], d as [z''|m''|v''|l''];
    try (split; cbn; intros; first [discriminate | reflexivity]).
  - split; [apply (c_trans _ cmp_ok_Z)|apply (c_eq_l _ cmp_ok_Z)].
  - split; [apply (c_trans _ cmp_ok_nat)|apply (c_eq_l _ cmp_ok_nat)].
  - rewrite !key_cmp_KV. split; [apply (c_trans _ cmp_ok_kv)|apply (c_eq_l _ cmp_ok_kv)].
  - rewrite !key_cmp_KT.
    assert (H : forall x y z, In x l -> In y l' -> In z l'' -> tri key_cmp x y z).
    { intros x y z Hx Hy Hz. pose proof (ksize_member x l Hx). pose proof (ksize_member y l' Hy). pose proof (ksize_member z l'' Hz).
      destruct (IH x y z ltac:(lia)) as [T El]. destruct (IH y z x ltac:(lia)) as [_ El'].
      split; [exact T|]. split; [exact El|]. intros E. specialize (El' E).
      rewrite (key_cmp_anti _ z x (le_n _)), (key_cmp_anti _ y x (le_n _)). rewrite El'. reflexivity. }
    split; [apply lcmp_trans; exact H|apply lcmp_eq_l; exact H].
Qed.

Theorem cmp_ok_key : cmp_ok key_cmp.
Proof.
  split.
  - intros a. apply (key_cmp_refl _ a (le_n _)).
  - intros a b. apply (key_cmp_anti _ a b (le_n _)).
  - intros a b d. apply (key_cmp_tri _ a b d (le_n _)).
  - intros a b d. apply (key_cmp_tri _ a b d (le_n _)).
Qed.

(* ------------------------------------------------------------ Product.safe's order of factors *)
Definition expr_cmp (a b : expr) : comparison :=
  lexc (key_cmp (get_key a) (get_key b)) (lexc (String.compare (to_text a) (to_text b)) (String.compare (to_y0 a) (to_y0 b))).

Lemma cmp_ok_expr : cmp_ok expr_cmp.
Proof.
  apply (cmp_ok_lex (fun a b => key_cmp (get_key a) (get_key b)) (fun a b => lexc (String.compare (to_text a) (to_text b)) (String.compare (to_y0 a) (to_y0 b)))).
  - apply (cmp_ok_pre get_key). exact cmp_ok_key.
  - apply (cmp_ok_lex (fun a b => String.compare (to_text a) (to_text b)) (fun a b => String.compare (to_y0 a) (to_y0 b))).
    + apply (cmp_ok_pre to_text). exact cmp_ok_string.
    + apply (cmp_ok_pre to_y0). exact cmp_ok_string.
Qed.

Lemma expr_lt_cmp a b : expr_lt a b = is_lt (expr_cmp a b).
Proof.
  unfold expr_lt, expr_cmp, String.ltb. destruct (key_cmp (get_key a) (get_key b)); cbn [lexc is_lt]; try reflexivity.
  destruct (String.compare (to_text a) (to_text b)); cbn [lexc is_lt]; reflexivity.
Qed.

Theorem expr_lt_irrefl a : expr_lt a a = false.
Proof. rewrite expr_lt_cmp. apply (lt_of_irrefl _ cmp_ok_expr). Qed.
Theorem expr_lt_trans a b d : expr_lt a b = true -> expr_lt b d = true -> expr_lt a d = true.
Proof. rewrite !expr_lt_cmp. apply (lt_of_trans _ cmp_ok_expr). Qed.

(* a tie in Product.safe's key is a tie of the printed forms: the two factors print alike in both syntaxes *)
Theorem expr_lt_tie a b : expr_lt a b = false -> expr_lt b a = false -> to_y0 a = to_y0 b /\ to_text a = to_text b.
Proof.
  rewrite !expr_lt_cmp. intros E1 E2.
  assert (E : expr_cmp a b = Eq).
  { pose proof (c_anti _ cmp_ok_expr a b) as Ha. destruct (expr_cmp a b); [reflexivity|discriminate|]. rewrite Ha in E2. discriminate. }
  unfold expr_cmp in E. destruct (key_cmp (get_key a) (get_key b)); cbn [lexc] in E; try discriminate.
  destruct (String.compare (to_text a) (to_text b)) eqn:Et; cbn [lexc] in E; try discriminate.
  split; [apply String_as_OT.cmp_eq; exact E|apply String_as_OT.cmp_eq; exact Et].
Qed.

(* ------------------------------------------------------------ _variable_sort_key *)
Definition ivstr_key (a : nat * bool) : nat * nat := ((if snd a then 0 else 1), fst a).
(* order of the strings "+X" / "-X": the sign first ('+' < '-'), then the name *)
Lemma ivstr_cmp_lex a b : ivstr_cmp a b = lexc (Nat.compare (fst (ivstr_key a)) (fst (ivstr_key b))) (Nat.compare (snd (ivstr_key a)) (snd (ivstr_key b))).
Proof. destruct a as [n [|]], b as [m [|]]; reflexivity. Qed.

Lemma cmp_ok_ivstr : cmp_ok ivstr_cmp.
Proof.
  assert (H : cmp_ok (fun a b => lexc (Nat.compare (fst (ivstr_key a)) (fst (ivstr_key b))) (Nat.compare (snd (ivstr_key a)) (snd (ivstr_key b))))).
  { apply (cmp_ok_lex (fun a b => Nat.compare (fst (ivstr_key a)) (fst (ivstr_key b))) (fun a b => Nat.compare (snd (ivstr_key a)) (snd (ivstr_key b)))).
    - apply (cmp_ok_pre (fun a => fst (ivstr_key a))). exact cmp_ok_nat.
    - apply (cmp_ok_pre (fun a => snd (ivstr_key a))). exact cmp_ok_nat. }
  split; intros; rewrite ?ivstr_cmp_lex in *.
  - apply (c_refl _ H).
  - apply (c_anti _ H).
  - eapply (c_trans _ H); eassumption.
  - apply (c_eq_l _ H). assumption.
Qed.

Lemma ivlist_cmp_lcmp l1 : forall l2, ivlist_cmp l1 l2 = lcmp ivstr_cmp l1 l2.
Proof. induction l1 as [|x t IH]; intros [|y u]; try reflexivity. cbn [ivlist_cmp lcmp]. rewrite IH. destruct (ivstr_cmp x y); reflexivity. Qed.

Definition var_sort_cmp (a b : var) : comparison := lexc (Nat.compare (vn a) (vn b)) (lcmp ivstr_cmp (vi a) (vi b)).

Lemma cmp_ok_var_sort : cmp_ok var_sort_cmp.
Proof.
  apply (cmp_ok_lex (fun a b => Nat.compare (vn a) (vn b)) (fun a b => lcmp ivstr_cmp (vi a) (vi b))).
  - apply (cmp_ok_pre vn). exact cmp_ok_nat.
  - apply (cmp_ok_pre vi). apply cmp_ok_lcmp. exact cmp_ok_ivstr.
Qed.

Lemma var_sort_lt_cmp a b : var_sort_lt a b = is_lt (var_sort_cmp a b).
Proof.
  unfold var_sort_lt, var_sort_cmp. rewrite ivlist_cmp_lcmp.
  destruct (Nat.compare_spec (vn a) (vn b)) as [E|E|E]; cbn [lexc is_lt].
  - rewrite E, Nat.ltb_irrefl, Nat.eqb_refl. reflexivity.
  - rewrite (proj2 (Nat.ltb_lt _ _) E). reflexivity.
  - rewrite (proj2 (Nat.ltb_ge _ _)) by lia. rewrite (proj2 (Nat.eqb_neq _ _)) by lia. reflexivity.
Qed.

Theorem var_sort_lt_irrefl a : var_sort_lt a a = false.
Proof. rewrite var_sort_lt_cmp. apply (lt_of_irrefl _ cmp_ok_var_sort). Qed.
Theorem var_sort_lt_trans a b d : var_sort_lt a b = true -> var_sort_lt b d = true -> var_sort_lt a d = true.
Proof. rewrite !var_sort_lt_cmp. apply (lt_of_trans _ cmp_ok_var_sort). Qed.

(* ------------------------------------------------------------ the canonicalizer's key (level, _variable_sort_key, to_y0) *)
Section CanonKey.
  Variable o : list var.

  Definition lvl (v : var) : nat := match level_of o (vn v) with Some k => k | None => 0 end.
  Definition canon_var_cmp (a b : var) : comparison :=
    lexc (Nat.compare (lvl a) (lvl b)) (lexc (var_sort_cmp a b) (String.compare (var_y0 a) (var_y0 b))).

  Lemma cmp_ok_canon_var : cmp_ok canon_var_cmp.
  Proof.
    apply (cmp_ok_lex (fun a b => Nat.compare (lvl a) (lvl b)) (fun a b => lexc (var_sort_cmp a b) (String.compare (var_y0 a) (var_y0 b)))).
    - apply (cmp_ok_pre lvl). exact cmp_ok_nat.
    - apply (cmp_ok_lex var_sort_cmp (fun a b => String.compare (var_y0 a) (var_y0 b))); [exact cmp_ok_var_sort|].
      apply (cmp_ok_pre var_y0). exact cmp_ok_string.
  Qed.

  Definition has_level (v : var) : bool := match level_of o (vn v) with Some _ => true | None => false end.

  Lemma canon_var_lt_cmp a b : has_level a = true -> has_level b = true -> canon_var_lt false o a b = is_lt (canon_var_cmp a b).
  Proof.
    unfold has_level, canon_var_lt, canon_var_cmp, lvl. destruct (level_of o (vn a)) as [x|]; [|discriminate]. destruct (level_of o (vn b)) as [y|]; [|discriminate].
    intros _ _. destruct (Nat.compare_spec x y) as [E|E|E]; cbn [lexc].
    - subst y. rewrite Nat.ltb_irrefl. rewrite !var_sort_lt_cmp. rewrite (c_anti _ cmp_ok_var_sort a b). unfold String.ltb.
      destruct (var_sort_cmp a b); cbn [lexc is_lt CompOpp negb orb andb]; try reflexivity.
    - rewrite (proj2 (Nat.ltb_lt _ _) E). reflexivity.
    - rewrite (proj2 (Nat.ltb_ge _ _)) by lia. rewrite (proj2 (Nat.ltb_lt _ _) E). reflexivity.
  Qed.
End CanonKey.
