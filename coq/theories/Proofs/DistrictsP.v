(* C14: districts() partitions the nodes into the classes of bidirected connectivity. *)
From Coq Require Import List Bool Arith Lia Relations.
From Y0 Require Import Base.ListSet Graph.Closure Graph.MixedGraph Proofs.ClosureP Proofs.SurgeryP.
Import ListNotations.

Section DistrictsP.
  Context {A : Type} `{EqB A}.
  Notation mg := (mg A).

  Definition bconn (g : mg) : A -> A -> Prop := reachable (sym (bid g)).

  Lemma In_sym (es : list (A * A)) u v : In (u, v) (sym es) <-> In (u, v) es \/ In (v, u) es.
  Proof. unfold sym. rewrite in_app_iff, In_map_swap. tauto. Qed.

  Lemma bconn_sym g u v : bconn g u v -> bconn g v u.
  Proof.
    unfold bconn, reachable. intros Hr.
    induction Hr as [x y Hxy| |x y z _ IH1 _ IH2]; [apply rt_step; apply In_sym; apply In_sym in Hxy; tauto|apply rt_refl|].
    eapply rt_trans; eauto.
  Qed.

  Lemma bconn_trans g u v w : bconn g u v -> bconn g v w -> bconn g u w.
  Proof. unfold bconn, reachable. intros; eapply rt_trans; eauto. Qed.

  Lemma bconn_refl g u : bconn g u u.
  Proof. apply rt_refl. Qed.

  Theorem district_of_spec g v w : In w (district_of g v) <-> bconn g v w.
  Proof.
    unfold district_of. rewrite reach_spec. split.
    - intros [x [[->|[]] Hr]]. exact Hr.
    - intros Hr. exists v. split; [left; reflexivity|exact Hr].
  Qed.

  Definition is_class (g : mg) (D : list A) : Prop :=
    exists r, In r (nodes g) /\ forall w, In w D <-> bconn g r w.
  Definition disjoint (D1 D2 : list A) : Prop := forall v, In v D1 -> ~ In v D2.

  Lemma existsb_mem v (acc : list (list A)) : existsb (mem v) acc = true <-> exists D, In D acc /\ In v D.
  Proof. rewrite existsb_exists. split; intros [D [HD Hv]]; exists D; (split; [exact HD|]); apply mem_In; exact Hv. Qed.

  Lemma FOP_snoc {T} (R : T -> T -> Prop) (l : list T) x :
    ForallOrdPairs R l -> (forall y, In y l -> R y x) -> ForallOrdPairs R (l ++ [x]).
  Proof.
    induction 1 as [|a t Ha Ht IH]; intros Hx; simpl.
    - constructor; constructor.
    - constructor.
      + apply Forall_app. split; [exact Ha|]. constructor; [apply Hx; left; reflexivity|constructor].
      + apply IH. intros y Hy. apply Hx. right. exact Hy.
  Qed.

  Lemma districts_aux_inv g todo : forall acc,
    incl todo (nodes g) ->
    Forall (is_class g) acc -> ForallOrdPairs disjoint acc ->
    Forall (is_class g) (districts_aux g todo acc) /\ ForallOrdPairs disjoint (districts_aux g todo acc) /\
    (forall D, In D acc -> In D (districts_aux g todo acc)) /\
    (forall v, In v todo -> exists D, In D (districts_aux g todo acc) /\ In v D).
  Proof.
    induction todo as [|v t IH]; intros acc Hin Hc Hd; simpl.
    - repeat split; auto. intros v [].
    - assert (Hin' : incl t (nodes g)) by (intros x Hx; apply Hin; right; exact Hx).
      destruct (existsb (mem v) acc) eqn:Ee.
      + destruct (IH acc Hin' Hc Hd) as [H1 [H2 [H3 H4]]]. repeat split; auto.
        intros w [->|Hw]; [|apply H4; exact Hw]. apply existsb_mem in Ee. destruct Ee as [D [HD Hv]].
        exists D. split; [apply H3; exact HD|exact Hv].
      + assert (Hnew : is_class g (district_of g v)).
        { exists v. split; [apply Hin; left; reflexivity|]. intros w. apply district_of_spec. }
        assert (Hdis : forall D, In D acc -> disjoint D (district_of g v)).
        { intros D HD w HwD HwN. apply district_of_spec in HwN.
          rewrite Forall_forall in Hc. destruct (Hc D HD) as [r [_ Hr]].
          assert (Hv : In v D). { apply Hr. eapply bconn_trans; [apply Hr; exact HwD|apply bconn_sym; exact HwN]. }
          assert (Hex : existsb (mem v) acc = true) by (apply existsb_mem; exists D; auto). congruence. }
        destruct (IH (acc ++ [district_of g v]) Hin') as [H1 [H2 [H3 H4]]].
        * apply Forall_app. split; [exact Hc|constructor; [exact Hnew|constructor]].
        * apply FOP_snoc; assumption.
        * repeat split; auto.
          -- intros D HD. apply H3. apply in_app_iff. left. exact HD.
          -- intros w [->|Hw]; [|apply H4; exact Hw]. exists (district_of g w). split.
             ++ apply H3. apply in_app_iff. right. left. reflexivity.
             ++ apply district_of_spec. apply bconn_refl.
  Qed.

  Theorem districts_classes g : Forall (is_class g) (districts g).
  Proof. unfold districts. apply districts_aux_inv; [apply incl_refl|constructor|constructor]. Qed.

  Theorem districts_disjoint g : ForallOrdPairs disjoint (districts g).
  Proof. unfold districts. apply districts_aux_inv; [apply incl_refl|constructor|constructor]. Qed.

  Theorem districts_cover g v : In v (nodes g) -> exists D, In D (districts g) /\ In v D.
  Proof. unfold districts. apply districts_aux_inv; [apply incl_refl|constructor|constructor]. Qed.

  (* the usable form: within a district, membership is exactly bidirected connectivity *)
  Theorem districts_spec g D u v : In D (districts g) -> In u D -> (In v D <-> bconn g u v).
  Proof.
    intros HD Hu. pose proof (districts_classes g) as Hc. rewrite Forall_forall in Hc.
    destruct (Hc D HD) as [r [_ Hr]]. split.
    - intros Hv. eapply bconn_trans; [apply bconn_sym; apply Hr; exact Hu|apply Hr; exact Hv].
    - intros Huv. apply Hr. eapply bconn_trans; [apply Hr; exact Hu|exact Huv].
  Qed.

  Lemma bconn_iff g u v :
    bconn g u v <-> clos_refl_trans A (fun a b => In (a, b) (bid g) \/ In (b, a) (bid g)) u v.
  Proof.
    unfold bconn, reachable. split; intros Hr.
    - induction Hr as [x y Hxy| |x y z _ IH1 _ IH2]; [apply rt_step; apply In_sym in Hxy; exact Hxy|apply rt_refl|].
      eapply rt_trans; eassumption.
    - induction Hr as [x y Hxy| |x y z _ IH1 _ IH2]; [apply rt_step; apply In_sym; exact Hxy|apply rt_refl|].
      eapply rt_trans; eassumption.
  Qed.

  Theorem districts_partition g :
    (forall v, In v (nodes g) -> exists D, In D (districts g) /\ In v D) /\
    ForallOrdPairs (fun D1 D2 => forall v, In v D1 -> ~ In v D2) (districts g) /\
    (forall D u v, In D (districts g) -> In u D ->
       (In v D <-> clos_refl_trans A (fun a b => In (a, b) (bid g) \/ In (b, a) (bid g)) u v)).
  Proof.
    refine (conj (districts_cover g) (conj (districts_disjoint g) _)).
    intros D u v HD Hu. rewrite (districts_spec g D u v HD Hu). apply bconn_iff.
  Qed.

  Lemma bconn_nodes g u v : wf g -> bconn g u v -> In u (nodes g) -> In v (nodes g).
  Proof.
    intros [_ Hb] Hp. induction Hp as [x y Hxy| |x y z _ IH1 _ IH2]; auto.
    intros _. apply In_sym in Hxy. destruct Hxy as [Hxy|Hxy]; apply Hb in Hxy; tauto.
  Qed.

  Theorem districts_within_nodes g D : wf g -> In D (districts g) -> incl D (nodes g).
  Proof.
    intros Hw HD v Hv. pose proof (districts_classes g) as Hc. rewrite Forall_forall in Hc.
    destruct (Hc D HD) as [r [Hrn Hr]]. eapply bconn_nodes; [exact Hw|apply Hr; exact Hv|exact Hrn].
  Qed.
End DistrictsP.
