(* C13/C10: Sum.simplify is sound - summing a joint probability over a set of plain variables gives the joint of the
   remaining children (1 if none remains), still summed over the ranges that are not children - for every lawful model. *)
From Coq Require Import List Bool Arith QArith Permutation Lia.
From Y0 Require Import Base.ListSet Graph.MixedGraph Dsl.Syntax Dsl.Text Dsl.Build Dsl.Sem Dsl.Laws
  Proofs.SortP Proofs.ExprP Proofs.SurgeryP Proofs.SemP Proofs.LawP Proofs.AtomsP.
Import ListNotations.
Open Scope Q_scope.

(* ---- the well-formedness the semantic theorems need ---- *)
Definition simple_var (v : var) : bool := eqb (vk v) KVar && is_nil (vi v).           (* no subscripts; a value mark is fine *)
Definition plain (v : var) : bool := eqb v (V (vn v)).                                 (* a bare variable *)
Definition Aok (pop : option var) (ch pa : list var) : bool :=
  negb (is_nil ch) && forallb simple_var ch && nodupb (names ch).

Lemma plain_eq v : plain v = true -> v = V (vn v).
Proof. unfold plain. intros H. apply eqb_true in H. exact H. Qed.

Lemma plain_not_bad v : plain v = true -> bad_range v = false.
Proof. intros H. rewrite (plain_eq v H). reflexivity. Qed.

Lemma inj_on_NoDup {S T} (f : S -> T) l : NoDup (map f l) -> forall a b, In a l -> In b l -> f a = f b -> a = b.
Proof.
  induction l as [|x t IH]; intros Hnd a b Ha Hb E; [destruct Ha|]. cbn [map] in Hnd. inversion Hnd as [|? ? Hx Ht]; subst.
  destruct Ha as [<-|Ha], Hb as [<-|Hb]; auto.
  - exfalso. apply Hx. rewrite E. apply in_map. exact Hb.
  - exfalso. apply Hx. rewrite <- E. apply in_map. exact Ha.
Qed.

Lemma NoDup_map_sub {S T} (f : S -> T) l l' : NoDup (map f l) -> incl l' l -> NoDup l' -> NoDup (map f l').
Proof.
  intros Hnd Hi Hl'. induction l' as [|a t IH]; [constructor|]. inversion Hl' as [|? ? Ha Ht]; subst. cbn [map]. constructor.
  - intros Hin. apply in_map_iff in Hin. destruct Hin as [b [E Hb]]. apply Ha.
    rewrite (inj_on_NoDup f l Hnd a b (Hi a (or_introl eq_refl)) (Hi b (or_intror Hb)) (eq_sym E)). exact Hb.
  - apply IH; [intros x Hx; apply Hi; right; exact Hx|exact Ht].
Qed.

Lemma NoDup_of_map {S T} (f : S -> T) l : NoDup (map f l) -> NoDup l.
Proof.
  induction l as [|x t IH]; intros H; [constructor|]. cbn [map] in H. inversion H as [|? ? Hx Ht]; subst.
  constructor; [intros Hin; apply Hx; apply in_map; exact Hin|apply IH; exact Ht].
Qed.

Lemma Aok_spec pop ch pa : Aok pop ch pa = true <-> ch <> [] /\ forallb simple_var ch = true /\ NoDup (names ch).
Proof.
  unfold Aok. rewrite !andb_true_iff, negb_true_iff, nodupb_NoDup. split.
  - intros [[H1 H2] H3]. repeat split; auto. intros ->. discriminate.
  - intros [H1 [H2 H3]]. repeat split; auto. destruct ch; [congruence|reflexivity].
Qed.

Lemma Aok_sub pop ch ch' : Aok pop ch [] = true -> incl ch' ch -> NoDup ch' -> ch' <> [] -> Aok pop ch' [] = true.
Proof.
  intros H Hi Hn Hne. apply Aok_spec in H. destruct H as [_ [Hs Hnd]]. apply Aok_spec. split; [exact Hne|]. split.
  - rewrite forallb_forall in *. intros x Hx. apply Hs. apply Hi. exact Hx.
  - unfold names. eapply NoDup_map_sub; eauto.
Qed.

Lemma Aok_perm pop ch ch' pa pa' : Permutation ch ch' -> Aok pop ch pa = true -> Aok pop ch' pa' = true.
Proof.
  intros Hp H. apply Aok_spec in H. destruct H as [Hne [Hs Hnd]]. apply Aok_spec. split; [|split].
  - intros ->. apply Permutation_sym, Permutation_nil in Hp. congruence.
  - eapply forallb_perm'; eauto.
  - eapply Permutation_NoDup; [apply Permutation_map; exact Hp|exact Hnd].
Qed.

Definition okp : expr -> bool := all_atoms Aok plain.
Definition PAk : expr -> bool := PA Aok plain.

Fixpoint nz (e : expr) : bool :=
  match e with
  | EZero => false
  | EProd es => forallb nz es
  | ESum e' _ => nz e'
  | EFrac n d => nz n && nz d
  | _ => true
  end.

Lemma filter_none {T} (p : T -> bool) l : (forall x, In x l -> p x = false) -> filter p l = [].
Proof.
  induction l as [|a t IH]; intros Hp; [reflexivity|]. cbn [filter]. rewrite (Hp a (or_introl eq_refl)). apply IH.
  intros x Hx. apply Hp. right. exact Hx.
Qed.

Lemma dedup_acc_NoDup {T} `{EqB T} (l : list T) : forall acc, NoDup (acc ++ l) -> dedup_acc acc l = acc ++ l.
Proof.
  induction l as [|x t IH]; intros acc Hnd; cbn [dedup_acc]; [rewrite app_nil_r; reflexivity|].
  assert (Hx : mem x acc = false).
  { apply mem_false. intros Hin. apply NoDup_remove_2 in Hnd. apply Hnd. apply in_or_app. left. exact Hin. }
  rewrite Hx. rewrite IH; [rewrite <- app_assoc; reflexivity|]. rewrite <- app_assoc. exact Hnd.
Qed.

Lemma dedup_NoDup_id {T} `{EqB T} (l : list T) : NoDup l -> dedup l = l.
Proof. intros Hnd. unfold dedup. apply (dedup_acc_NoDup l []). exact Hnd. Qed.

Section SumSimp.
  Variable m : model.
  Hypothesis Hlaw : lawful m.

  (* ---- every well-formed expression denotes a function of the environment's values only ---- *)
  Lemma eval_ext : forall e, okp e = true -> ext_fun (eval m e).
  Proof.
    induction e as [pop ch pa|es IH|e rs IH|n d IHn IHd| | |dm cd|k] using expr_ind'; intros Hok r r' Hr; cbn [eval okp all_atoms] in *; try discriminate; try reflexivity.
    - apply (law_ext m Hlaw). exact Hr.
    - unfold okp in Hok. cbn [all_atoms] in Hok. induction IH as [|x t Hx Ht IHt]; [reflexivity|].
      cbn [forallb] in Hok. apply andb_true_iff in Hok. destruct Hok as [H1 H2].
      rewrite (Hx H1 r r' Hr), (IHt H2). reflexivity.
    - unfold okp in Hok. cbn [all_atoms] in Hok. apply andb_true_iff in Hok. destruct Hok as [H1 _].
      apply (sum_over_env m); [apply IH; exact H1|exact Hr].
    - unfold okp in Hok. cbn [all_atoms] in Hok. apply andb_true_iff in Hok. destruct Hok as [H1 H2].
      rewrite (IHn H1 r r' Hr), (IHd H2 r r' Hr). reflexivity.
  Qed.

  (* ---- the syntactic side of Sum.simplify ---- *)
  Section Joint.
    Variables (pop : option var) (ch rs : list var).
    Hypothesis Hch : Aok pop ch [] = true.
    Hypothesis Hrs : forallb plain rs = true.
    Hypothesis Hnd : NoDup rs.

    Let bases := dedup (map get_base ch).
    Let child_of (b : var) := match find (fun c => eqb (get_base c) b) (rev ch) with Some c => c | None => b end.

    Lemma ch_facts : ch <> [] /\ forallb simple_var ch = true /\ NoDup (names ch).
    Proof. apply (Aok_spec pop ch []). exact Hch. Qed.

    Lemma In_bases b : In b bases <-> exists c, In c ch /\ b = V (vn c).
    Proof.
      unfold bases. rewrite In_dedup, in_map_iff. split; intros [c [H1 H2]]; exists c; unfold get_base in *; auto.
    Qed.

    Lemma V_in_rs n : In (V n) rs <-> In n (names rs).
    Proof.
      unfold names. rewrite in_map_iff. split.
      - intros H. exists (V n). split; [reflexivity|exact H].
      - intros [x [E Hx]]. rewrite forallb_forall in Hrs. rewrite (plain_eq x (Hrs x Hx)) in Hx. rewrite E in Hx. exact Hx.
    Qed.

    Lemma V_in_bases n : In (V n) bases <-> In n (names ch).
    Proof.
      rewrite In_bases. unfold names. rewrite in_map_iff. split.
      - intros [c [Hc E]]. exists c. split; [|exact Hc]. injection E as E. auto.
      - intros [c [E Hc]]. exists c. split; [exact Hc|rewrite E; reflexivity].
    Qed.

    Lemma child_of_base c : In c ch -> child_of (V (vn c)) = c.
    Proof.
      intros Hc. destruct ch_facts as [_ [_ Hn]]. unfold child_of.
      destruct (find (fun c0 => eqb (get_base c0) (V (vn c))) (rev ch)) as [c'|] eqn:Ef.
      - apply find_some in Ef. destruct Ef as [Hc' E]. apply eqb_true in E. unfold get_base in E. injection E as E.
        apply (inj_on_NoDup vn ch Hn); [apply in_rev; exact Hc'|exact Hc|exact E].
      - exfalso. eapply find_none in Ef; [|apply in_rev; rewrite rev_involutive; exact Hc]. cbv beta in Ef.
        unfold get_base in Ef. rewrite eqb_refl in Ef. discriminate.
    Qed.

    (* the children kept: those whose name is not summed *)
    Lemma kept_children X : (forall b, In b X <-> In b bases /\ ~ In b rs) ->
      Permutation (upgrade_ordering (map child_of X)) (keepc (names rs) ch).
    Proof.
      intros HX. destruct ch_facts as [_ [_ Hn]]. apply NoDup_Permutation.
      - unfold upgrade_ordering, sorted_variables. eapply Permutation_NoDup; [apply stable_sort_perm|apply NoDup_dedup].
      - unfold keepc. apply NoDup_filter. eapply NoDup_of_map; exact Hn.
      - intros c. unfold upgrade_ordering, sorted_variables. split.
        + intros Hc. apply (Permutation_in _ (Permutation_sym (stable_sort_perm _ _))) in Hc. apply (proj1 (In_dedup _ _)) in Hc.
          apply in_map_iff in Hc. destruct Hc as [b [<- Hb]]. apply HX in Hb. destruct Hb as [Hb Hnr].
          apply In_bases in Hb. destruct Hb as [c0 [Hc0 ->]]. rewrite (child_of_base c0 Hc0).
          unfold keepc. apply filter_In. split; [exact Hc0|]. apply negb_true_iff. apply mem_false. intros Hin. apply Hnr. apply V_in_rs. exact Hin.
        + intros Hc. unfold keepc in Hc. apply filter_In in Hc. destruct Hc as [Hc Hnm]. apply negb_true_iff, mem_false in Hnm.
          apply (Permutation_in _ (stable_sort_perm _ _)). apply In_dedup. apply in_map_iff. exists (V (vn c)). split; [apply child_of_base; exact Hc|].
          apply HX. split; [apply In_bases; exists c; auto|]. intros Hin. apply Hnm. apply V_in_rs. exact Hin.
    Qed.

    Lemma names_rs_NoDup : NoDup (names rs).
    Proof.
      unfold names. clear Hch. induction rs as [|x t IH]; [constructor|]. inversion Hnd as [|? ? Hx Ht]; subst. cbn [map]. constructor.
      - intros Hin. apply in_map_iff in Hin. destruct Hin as [y [E Hy]]. apply Hx.
        cbn [forallb] in Hrs. apply andb_true_iff in Hrs. destruct Hrs as [Hpx Hpt]. rewrite forallb_forall in Hpt.
        rewrite (plain_eq x Hpx), <- E, <- (plain_eq y (Hpt y Hy)). exact Hy.
      - cbn [forallb] in Hrs. apply andb_true_iff in Hrs. apply IH; tauto.
    Qed.

    (* the ranges kept: those that are not children *)
    Lemma kept_ranges Y : (forall x, In x (diff rs Y) <-> In x rs /\ ~ In x bases) ->
      Permutation (names (upgrade_ordering (diff rs Y))) (filter (fun n => negb (mem n (names ch))) (names rs)).
    Proof.
      intros HY. apply NoDup_Permutation.
      - unfold names. apply (NoDup_map_sub vn rs); [apply names_rs_NoDup| |].
        + intros x Hx. unfold upgrade_ordering, sorted_variables in Hx. apply (Permutation_in _ (Permutation_sym (stable_sort_perm _ _))) in Hx.
          apply (proj1 (In_dedup _ _)) in Hx. apply In_diff in Hx. tauto.
        + unfold upgrade_ordering, sorted_variables. eapply Permutation_NoDup; [apply stable_sort_perm|apply NoDup_dedup].
      - apply NoDup_filter. apply names_rs_NoDup.
      - intros n. rewrite filter_In, negb_true_iff, mem_false. unfold names at 1. rewrite in_map_iff. split.
        + intros [x [<- Hx]]. unfold upgrade_ordering, sorted_variables in Hx. apply (Permutation_in _ (Permutation_sym (stable_sort_perm _ _))) in Hx.
          apply (proj1 (In_dedup _ _)) in Hx. apply HY in Hx. destruct Hx as [Hx Hnb]. split; [apply in_map; exact Hx|].
          intros Hin. apply Hnb. rewrite forallb_forall in Hrs. rewrite (plain_eq x (Hrs x Hx)). apply V_in_bases. exact Hin.
        + intros [Hn Hnc]. apply V_in_rs in Hn. exists (V n). split; [reflexivity|].
          unfold upgrade_ordering, sorted_variables. apply (Permutation_in _ (stable_sort_perm _ _)). apply In_dedup. apply HY. split; [exact Hn|].
          intros Hb. apply Hnc. apply V_in_bases. exact Hb.
    Qed.

    Lemma guards_do_not_fire :
      negb false && (negb (Nat.eqb (List.length bases) (List.length ch)) || existsb (iv_in_ranges rs) ch) = false.
    Proof.
      destruct ch_facts as [_ [Hs Hn]]. cbn [negb andb]. apply orb_false_iff. split.
      - apply negb_false_iff. apply Nat.eqb_eq. unfold bases.
        assert (Hgb : NoDup (map get_base ch)).
        { unfold names in Hn. clear - Hn. induction ch as [|c t IH]; [constructor|]. cbn [map] in *. inversion Hn as [|? ? Hc Ht]; subst.
          constructor; [|apply IH; exact Ht]. intros Hin. apply Hc. apply in_map_iff in Hin. destruct Hin as [c' [E Hc']].
          unfold get_base in E. injection E as E. rewrite <- E. apply in_map. exact Hc'. }
        rewrite (dedup_NoDup_id _ Hgb). apply map_length.
      - destruct (existsb (iv_in_ranges rs) ch) eqn:Ee; [|reflexivity]. apply existsb_exists in Ee. destruct Ee as [c [Hc Hi]].
        rewrite forallb_forall in Hs. specialize (Hs c Hc). unfold simple_var in Hs. apply andb_true_iff in Hs. destruct Hs as [Hk _].
        apply eqb_true in Hk. unfold iv_in_ranges in Hi. rewrite Hk in Hi. discriminate.
    Qed.

    Lemma joint_eval r : eval m (EProb pop ch []) r == joint m pop ch r.
    Proof. destruct ch_facts as [Hne _]. destruct ch; [congruence|reflexivity]. Qed.

    (* the semantic content, before matching it with what the code builds *)
    Lemma sum_joint r :
      sum_over m (names rs) (eval m (EProb pop ch [])) r ==
      sum_over m (filter (fun n => negb (mem n (names ch))) (names rs)) (joint m pop (keepc (names rs) ch)) r.
    Proof.
      destruct ch_facts as [_ [_ Hn]].
      rewrite (sum_over_ext m (names rs) _ (joint m pop ch) r joint_eval).
      apply (marg_many m Hlaw pop (names rs) names_rs_NoDup ch r Hn).
    Qed.

    Theorem eval_sum_simplify_joint r :
      is_err (sum_simplify (EProb pop ch []) rs) = false ->
      eval m (sum_simplify (EProb pop ch []) rs) r == sum_over m (names rs) (eval m (EProb pop ch [])) r.
    Proof.
      intros Hne. rewrite sum_joint. unfold sum_simplify in *. cbn [sum_simplify_gen] in *. fold bases in Hne |- *. fold child_of in Hne |- *.
      rewrite guards_do_not_fire in *.
      destruct (set_eqb rs bases) eqn:E1.
      { (* every child is summed and nothing else *)
        apply set_eqb_equiv in E1.
        assert (Hk : keepc (names rs) ch = []).
        { apply filter_none. intros c Hc. apply negb_false_iff. apply mem_In. apply V_in_rs. apply E1. apply In_bases. exists c. auto. }
        rewrite Hk, filter_none; [reflexivity|].
        intros n Hn. apply negb_false_iff. apply mem_In. apply V_in_bases. apply E1. apply V_in_rs. exact Hn. }
      destruct (subset bases rs) eqn:E2.
      { (* every child is summed; the other ranges remain, over the constant 1 *)
        apply subset_incl in E2.
        assert (Hk : keepc (names rs) ch = []).
        { apply filter_none. intros c Hc. apply negb_false_iff. apply mem_In. apply V_in_rs. apply E2. apply In_bases. exists c. auto. }
        rewrite Hk. unfold sum_raw in *. cbn [is_err] in *.
        destruct (upgrade_ordering (diff rs bases)) as [|x t] eqn:Eu; [discriminate|]. rewrite <- Eu in *.
        destruct (existsb bad_range (upgrade_ordering (diff rs bases))); [discriminate|]. cbn [eval].
        apply (sum_over_perm m); [|intros ? ? _; reflexivity].
        apply kept_ranges. intros y. rewrite In_diff. tauto. }
      destruct (subset rs bases) eqn:E3.
      { (* only children are summed: the joint of the others *)
        apply subset_incl in E3. rewrite filter_none.
        2:{ intros n Hn. apply negb_false_iff. apply mem_In. apply V_in_bases. apply E3. apply V_in_rs. exact Hn. }
        cbn [sum_over].
        pose proof (kept_children (diff bases rs) (fun b => In_diff b bases rs)) as Hp.
        unfold prob_raw in *. destruct (upgrade_ordering (map child_of (diff bases rs))) as [|c0 t] eqn:Eu; [discriminate|].
        cbn [eval]. destruct (keepc (names rs) ch) as [|d u] eqn:Ek; [apply Permutation_sym, Permutation_nil in Hp; discriminate|].
        cbn [joint]. apply (law_perm m Hlaw); [exact Hp|apply Permutation_refl]. }
      (* partial overlap *)
      assert (HX : forall b, In b (diff bases (inter rs bases)) <-> In b bases /\ ~ In b rs).
      { intros b. rewrite In_diff, In_inter. tauto. }
      assert (HY : forall x, In x (diff rs (inter rs bases)) <-> In x rs /\ ~ In x bases).
      { intros x. rewrite In_diff, In_inter. tauto. }
      pose proof (kept_children _ HX) as Hp. pose proof (kept_ranges _ HY) as Hq.
      unfold prob_raw in *.
      destruct (upgrade_ordering (map child_of (diff bases (inter rs bases)))) as [|c0 t] eqn:Eu.
      { exfalso. destruct (upgrade_ordering (diff rs (inter rs bases))); cbn in Hne; discriminate. }
      destruct (keepc (names rs) ch) as [|d u] eqn:Ek; [apply Permutation_sym, Permutation_nil in Hp; discriminate|].
      assert (Hat : forall r', atom m pop (c0 :: t) [] r' == joint m pop (d :: u) r').
      { intros r'. cbn [joint]. apply (law_perm m Hlaw); [exact Hp|apply Permutation_refl]. }
      destruct (upgrade_ordering (diff rs (inter rs bases))) as [|x0 t0] eqn:Ev.
      { cbn [names map] in Hq. apply Permutation_nil in Hq. rewrite Hq. cbn [sum_over eval]. apply Hat. }
      cbn [is_zero] in *. unfold sum_raw in *. cbn [is_err] in *.
      destruct (existsb bad_range (x0 :: t0)); [discriminate|]. cbn [eval].
      rewrite (sum_over_perm m _ _ Hq); [|intros ? ? Hr; apply (law_ext m Hlaw); exact Hr].
      apply sum_over_ext. exact Hat.
    Qed.
  End Joint.
End SumSimp.
