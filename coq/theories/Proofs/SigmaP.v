From Coq Require Import List Bool Arith Lia.
From Y0 Require Import Base.ListSet Graph.Closure Graph.Paths Graph.MixedGraph Graph.DSep Graph.Sigma Proofs.SurgeryP.
Import ListNotations.

Section SigmaP.
  Context {A : Type} `{EqB A}.
  Notation mg := (mg A).

  Lemma In_und_adj (es : list (A * A)) v n : In n (und_adj es v) <-> In (v, n) es \/ In (n, v) es.
  Proof.
    unfold und_adj. rewrite In_dedup, in_flat_map. split.
    - intros [[a b] [He Hn]]. simpl in Hn. destruct (eqb a v) eqn:Ea.
      + apply eqb_true in Ea. subst. destruct Hn as [<-|[]]. left. exact He.
      + destruct (eqb b v) eqn:Eb; [|destruct Hn]. apply eqb_true in Eb. subst. destruct Hn as [<-|[]]. right. exact He.
    - intros [He|He].
      + exists (v, n). split; [exact He|]. simpl. rewrite eqb_refl. left. reflexivity.
      + exists (n, v). split; [exact He|]. simpl. destruct (eqb n v) eqn:En.
        * apply eqb_true in En. subst. left. reflexivity.
        * rewrite eqb_refl. left. reflexivity.
  Qed.

  (* two nodes joined by an edge are never reported separated (cyclic graphs included) *)
  Theorem sigma_adjacent_not_separated (old : bool) (g : mg) a b C :
    In a (nodes g) -> a <> b ->
    (In (a, b) (dir g) \/ In (b, a) (dir g) \/ In (a, b) (bid g) \/ In (b, a) (bid g)) ->
    ~ In a C -> ~ In b C ->
    are_sigma_separated old g a b C = false.
  Proof.
    intros Ha Hne Hedge HaC HbC. unfold are_sigma_separated. apply negb_false_iff. apply existsb_exists.
    exists [a; b]. split.
    - unfold all_simple_paths_und. destruct (nodes g) as [|x t] eqn:En; [destruct Ha|]. cbn [length spaths].
      rewrite (proj2 (eqb_neq a b) Hne). apply in_flat_map. exists b. split.
      + apply In_und_adj. rewrite !in_app_iff. tauto.
      + cbn [mem existsb]. rewrite (proj2 (eqb_neq b a) (fun E => Hne (eq_sym E))). cbn [orb].
        destruct (length t); cbn [spaths]; rewrite eqb_refl; left; reflexivity.
    - unfold is_z_sigma_open. cbn [last triples_all]. rewrite (proj2 (mem_false a C) HaC), (proj2 (mem_false b C) HbC). reflexivity.
  Qed.
End SigmaP.

(* Pinned tree before the repair, witness 1: A -> M <- B, M -> D -> E (A=0,B=1,M=2,D=3,E=4):
   A and B reported separated given E although the collider M has the conditioned descendant E. *)
Theorem sigma_old_refuted_deep_collider :
  exists (g : mg nat) a b C, is_acyclic g = true /\
    are_sigma_separated true g a b C = true /\ d_separated_spec g a b C = false.
Proof. exists (MG [0; 1; 2; 3; 4] [(0, 2); (1, 2); (2, 3); (3, 4)] []), 0, 1, [4]. vm_compute. auto. Qed.

(* witness 2: R -> M -> W with M <-> W (R=0, M=1, W=2): R, W reported separated given nothing *)
Theorem sigma_old_refuted_bow :
  exists (g : mg nat) a b C, is_acyclic g = true /\
    are_sigma_separated true g a b C = true /\ d_separated_spec g a b C = false.
Proof. exists (MG [0; 1; 2] [(0, 1); (1, 2)] [(1, 2)]), 0, 2, []. vm_compute. auto. Qed.

Example sigma_repaired_on_witnesses :
  are_sigma_separated false (MG [0; 1; 2; 3; 4] [(0, 2); (1, 2); (2, 3); (3, 4)] []) 0 1 [4] = false /\
  are_sigma_separated false (MG [0; 1; 2] [(0, 1); (1, 2)] [(1, 2)]) 0 2 [] = false.
Proof. vm_compute. auto. Qed.
