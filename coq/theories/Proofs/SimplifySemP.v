(* C19, second clause, the part that holds: when no variable of the minimised event is reflexive (Y_y), SIMPLIFY keeps the truth of the event at every
   exogenous state, and it answers 'impossible' only for events that are true at no state. (With a reflexive conjunct the clause is false of the
   code: Properties/C19.v, C19_simplify_preserves_probability_refuted.) *)
From Coq Require Import List Bool Arith Lia Permutation.
From Y0 Require Import Base.ListSet Graph.Closure Graph.MixedGraph Dsl.Syntax Dsl.Build Alg.Cg Alg.CtfAnc
  Proofs.ClosureP Proofs.SurgeryP Proofs.SumSimpP Sem.Scm Sem.CfSem Proofs.ScmP Proofs.MinimizeSemP Proofs.CgSemP Proofs.CgSem2P.
Import ListNotations.

Notation oval := (option (nat * bool)).

(* ------------------------------------------------------------ value_sets: the raw grouping *)
Definition vs_step (acc : list (var * list oval)) (p : var * oval) : list (var * list oval) :=
  if existsb (fun q => eqb (fst q) (fst p)) acc
  then map (fun q => if eqb (fst q) (fst p) then (fst q, if mem (snd p) (snd q) then snd q else snd q ++ [snd p]) else q) acc
  else acc ++ [(fst p, [snd p])].
Definition vs_raw (ev : cevent) : list (var * list oval) := fold_left vs_step ev [].
Definition vs_drop (q : var * list oval) : var * list oval :=
  (fst q, if Nat.ltb 1 (length (snd q)) then filter (fun x => match x with None => false | _ => true end) (snd q) else snd q).

Lemma value_sets_eq ev : value_sets ev = map vs_drop (vs_raw ev).
Proof. reflexivity. Qed.

(* invariant of the fold: keys are distinct; every listed value occurs in the event so far; every event entry so far is listed *)
Record VsInv (seen : cevent) (acc : list (var * list oval)) : Prop := {
  vs_keys : NoDup (map fst acc);
  vs_sound : forall v vals x, In (v, vals) acc -> In x vals -> In (v, x) seen;
  vs_complete : forall v x, In (v, x) seen -> exists vals, In (v, vals) acc /\ In x vals;
  vs_nonempty : forall v vals, In (v, vals) acc -> vals <> [];
  vs_distinct : forall v vals, In (v, vals) acc -> NoDup vals }.

Lemma vs_step_inv seen acc p : VsInv seen acc -> VsInv (seen ++ [p]) (vs_step acc p).
Proof.
  intros [Hk Hs Hc Hne Hnd]. destruct p as [pv px]. unfold vs_step. cbn [fst snd]. destruct (existsb (fun q => eqb (fst q) pv) acc) eqn:Ex.
  - (* the key is present *)
    set (upd := fun q : var * list oval => if eqb (fst q) pv then (fst q, if mem px (snd q) then snd q else snd q ++ [px]) else q).
    change (VsInv (seen ++ [(pv, px)]) (map upd acc)).
    assert (Hfst : map fst (map upd acc) = map fst acc).
    { rewrite map_map. apply map_ext. intros q. unfold upd. destruct (eqb (fst q) pv); reflexivity. }
    constructor.
    + rewrite Hfst. exact Hk.
    + intros v vals x Hin Hx. apply in_map_iff in Hin. destruct Hin as [[qv qvals] [E Hq]]. unfold upd in E. cbn [fst snd] in E.
      destruct (eqb qv pv) eqn:Eq.
      * apply eqb_true in Eq. subst qv. inversion E; subst. destruct (mem px qvals) eqn:Em.
        -- apply in_or_app. left. apply (Hs _ _ _ Hq Hx).
        -- apply in_app_or in Hx. apply in_or_app. destruct Hx as [Hx|[<-|[]]]; [left; apply (Hs _ _ _ Hq Hx)|right; left; reflexivity].
      * inversion E; subst. apply in_or_app. left. apply (Hs _ _ _ Hq Hx).
    + intros v x Hin. apply in_app_or in Hin. destruct Hin as [Hin|[E|[]]].
      * destruct (Hc v x Hin) as [vals [Hv Hx]]. destruct (eqb v pv) eqn:Eq.
        -- apply eqb_true in Eq. subst v. exists (if mem px vals then vals else vals ++ [px]). split.
           ++ apply in_map_iff. exists (pv, vals). split; [unfold upd; cbn [fst snd]; rewrite eqb_refl; reflexivity|exact Hv].
           ++ destruct (mem px vals); [exact Hx|apply in_or_app; left; exact Hx].
        -- exists vals. split; [|exact Hx]. apply in_map_iff. exists (v, vals). split; [unfold upd; cbn [fst]; rewrite Eq; reflexivity|exact Hv].
      * inversion E; subst. apply existsb_exists in Ex. destruct Ex as [[qv qvals] [Hq Eq]]. cbn [fst] in Eq. apply eqb_true in Eq. subst qv.
        exists (if mem x qvals then qvals else qvals ++ [x]). split.
        -- apply in_map_iff. exists (v, qvals). split; [unfold upd; cbn [fst snd]; rewrite eqb_refl; reflexivity|exact Hq].
        -- destruct (mem x qvals) eqn:Em; [apply mem_In; exact Em|apply in_or_app; right; left; reflexivity].
    + intros v vals Hin. apply in_map_iff in Hin. destruct Hin as [[qv qvals] [E Hq]]. unfold upd in E. cbn [fst snd] in E.
      destruct (eqb qv pv); inversion E; subst; [|apply (Hne _ _ Hq)]. destruct (mem px qvals); [apply (Hne _ _ Hq)|]. intros E'. apply app_eq_nil in E'. destruct E' as [_ E']. discriminate.
    + intros v vals Hin. apply in_map_iff in Hin. destruct Hin as [[qv qvals] [E Hq]]. unfold upd in E. cbn [fst snd] in E.
      destruct (eqb qv pv); inversion E; subst; [|apply (Hnd _ _ Hq)]. destruct (mem px qvals) eqn:Em; [apply (Hnd _ _ Hq)|].
      apply NoDup_app_single; [apply (Hnd _ _ Hq)|apply mem_false; exact Em].
  - (* a new key *)
    assert (Hnew : ~ In pv (map fst acc)).
    { intros Hin. apply in_map_iff in Hin. destruct Hin as [q [E Hq]]. assert (Ht : existsb (fun q => eqb (fst q) pv) acc = true) by (apply existsb_exists; exists q; split; [exact Hq|rewrite E; apply eqb_refl]). congruence. }
    constructor.
    + rewrite map_app. cbn [map fst]. apply NoDup_app_single; assumption.
    + intros v vals x Hin Hx. apply in_app_or in Hin. apply in_or_app. destruct Hin as [Hin|[E|[]]]; [left; apply (Hs _ _ _ Hin Hx)|].
      inversion E; subst. destruct Hx as [<-|[]]. right. left. reflexivity.
    + intros v x Hin. apply in_app_or in Hin. destruct Hin as [Hin|[E|[]]].
      * destruct (Hc v x Hin) as [vals [Hv Hx]]. exists vals. split; [apply in_or_app; left; exact Hv|exact Hx].
      * inversion E; subst. exists [x]. split; [apply in_or_app; right; left; reflexivity|left; reflexivity].
    + intros v vals Hin. apply in_app_or in Hin. destruct Hin as [Hin|[E|[]]]; [apply (Hne _ _ Hin)|inversion E; discriminate].
    + intros v vals Hin. apply in_app_or in Hin. destruct Hin as [Hin|[E|[]]]; [apply (Hnd _ _ Hin)|inversion E; repeat constructor; intros []].
Qed.

Lemma vs_raw_inv ev : VsInv ev (vs_raw ev).
Proof.
  unfold vs_raw. assert (H : forall l seen acc, VsInv seen acc -> VsInv (seen ++ l) (fold_left vs_step l acc)).
  { induction l as [|p t IH]; intros seen acc I; [rewrite app_nil_r; exact I|]. cbn [fold_left].
    replace (seen ++ p :: t) with ((seen ++ [p]) ++ t) by (rewrite <- app_assoc; reflexivity). apply IH. apply vs_step_inv. exact I. }
  apply (H ev [] []). constructor; [constructor|intros ? ? ? []|intros ? ? []|intros ? ? []|intros ? ? []].
Qed.

Definition nonnone (x : oval) : bool := match x with None => false | _ => true end.
Definition dropn (raw : list oval) : list oval := if Nat.ltb 1 (length raw) then filter nonnone raw else raw.

Lemma dropn_spec raw : raw <> [] -> NoDup raw ->
  dropn raw <> [] /\ NoDup (dropn raw) /\ (forall x, In x (dropn raw) -> In x raw) /\ (forall x, In (Some x) raw -> In (Some x) (dropn raw)).
Proof.
  intros Hne Hnd. unfold dropn. destruct (Nat.ltb 1 (length raw)) eqn:El.
  - split; [|split; [apply NoDup_filter; exact Hnd|split; [intros x Hx; apply filter_In in Hx; apply Hx|intros x Hx; apply filter_In; split; [exact Hx|reflexivity]]]].
    apply Nat.ltb_lt in El. destruct raw as [|a [|b t]]; cbn [length] in El; try lia. inversion Hnd as [|? ? Ha _]; subst.
    destruct a as [a|]; [cbn [filter nonnone]; discriminate|]. destruct b as [b|]; [cbn [filter nonnone]; discriminate|]. exfalso. apply Ha. left. reflexivity.
  - auto.
Qed.

Lemma dropn_some raw : 1 < length (dropn raw) -> forall x, In x (dropn raw) -> nonnone x = true.
Proof.
  unfold dropn. destruct (Nat.ltb 1 (length raw)) eqn:El; [intros _ x Hx; apply filter_In in Hx; apply Hx|]. apply Nat.ltb_ge in El. intros H. lia.
Qed.

Lemma value_sets_some ev v d : In (v, d) (value_sets ev) -> 1 < length d -> forall x, In x d -> nonnone x = true.
Proof.
  rewrite value_sets_eq. intros H. apply in_map_iff in H. destruct H as [[qv raw] [E Hq]]. unfold vs_drop in E. cbn [fst snd] in E. inversion E; subst. apply dropn_some.
Qed.

Lemma value_sets_spec ev :
  let S := value_sets ev in
  NoDup (map fst S) /\
  (forall v d x, In (v, d) S -> In x d -> In (v, x) ev) /\
  (forall v x, In (v, Some x) ev -> exists d, In (v, d) S /\ In (Some x) d) /\
  (forall v d, In (v, d) S -> d <> [] /\ NoDup d).
Proof.
  cbv zeta. rewrite value_sets_eq. destruct (vs_raw_inv ev) as [Hk Hs Hc Hne Hnd].
  assert (Hfst : map fst (map vs_drop (vs_raw ev)) = map fst (vs_raw ev)) by (rewrite map_map; apply map_ext; intros q; reflexivity).
  assert (Hin : forall v d, In (v, d) (map vs_drop (vs_raw ev)) -> exists raw, In (v, raw) (vs_raw ev) /\ d = dropn raw).
  { intros v d H. apply in_map_iff in H. destruct H as [[qv raw] [E Hq]]. unfold vs_drop in E. cbn [fst snd] in E. inversion E; subst. exists raw. split; [exact Hq|reflexivity]. }
  split; [change (NoDup (map fst (map vs_drop (vs_raw ev)))); rewrite Hfst; exact Hk|]. split; [|split].
  - intros v d x H Hx. destruct (Hin v d H) as [raw [Hr ->]]. destruct (dropn_spec raw (Hne _ _ Hr) (Hnd _ _ Hr)) as [_ [_ [Hsub _]]]. apply (Hs v raw x Hr). apply Hsub. exact Hx.
  - intros v x H. destruct (Hc v (Some x) H) as [raw [Hr Hx]]. exists (dropn raw). split.
    + apply in_map_iff. exists (v, raw). split; [reflexivity|exact Hr].
    + destruct (dropn_spec raw (Hne _ _ Hr) (Hnd _ _ Hr)) as [_ [_ [_ Hkeep]]]. apply Hkeep. exact Hx.
  - intros v d H. destruct (Hin v d H) as [raw [Hr ->]]. destruct (dropn_spec raw (Hne _ _ Hr) (Hnd _ _ Hr)) as [H1 [H2 _]]. auto.
Qed.

(* reduce_reflexive on factual keys only: nothing is merged *)
Lemma reduce_reflexive_plain refl :
  (forall q, In q refl -> is_cf (fst q) = false) -> NoDup (map fst refl) -> (forall q, In q refl -> NoDup (snd q)) ->
  reduce_reflexive refl = Some refl.
Proof.
  intros Hcf Hk Hnd. unfold reduce_reflexive.
  assert (H : forall (l d : list (var * list oval)), (forall q, In q l -> is_cf (fst q) = false) -> (forall q, In q l -> NoDup (snd q)) -> NoDup (map fst (d ++ l)) ->
    fold_left (fun acc q => match acc with
      | None => None
      | Some d0 =>
          let add (k : var) := if existsb (fun r => eqb (fst r) k) d0 then map (fun r => if eqb (fst r) k then (k, union (snd r) (snd q)) else r) d0 else d0 ++ [(k, dedup (snd q))] in
          if negb (is_cf (fst q)) then Some (add (fst q))
          else if negb (Nat.eqb (length (vi (fst q))) 1) then None
          else if existsb (fun i => negb (Nat.eqb (fst i) (vn (fst q)))) (vi (fst q)) then None
          else Some (add (base (fst q)))
      end) l (Some d) = Some (d ++ l)).
  { induction l as [|q t IH]; intros d Hc Hn Hkk; [rewrite app_nil_r; reflexivity|]. cbn [fold_left]. rewrite (Hc q (or_introl eq_refl)). cbn [negb].
    assert (Hex : existsb (fun r => eqb (fst r) (fst q)) d = false).
    { destruct (existsb (fun r => eqb (fst r) (fst q)) d) eqn:E; [|reflexivity]. exfalso. apply existsb_exists in E. destruct E as [r [Hr Er]]. apply eqb_true in Er.
      rewrite map_app in Hkk. cbn [map] in Hkk. apply NoDup_remove_2 in Hkk. apply Hkk. apply in_or_app. left. rewrite <- Er. apply in_map. exact Hr. }
    rewrite Hex. rewrite (dedup_NoDup_id _ (Hn q (or_introl eq_refl))). replace (fst q, snd q) with q by (destruct q; reflexivity).
    rewrite IH; [rewrite <- app_assoc; reflexivity|intros r Hr; apply Hc; right; exact Hr|intros r Hr; apply Hn; right; exact Hr|rewrite <- app_assoc; exact Hkk]. }
  apply (H refl [] Hcf Hnd). exact Hk.
Qed.

Lemma incons_false nonrefl refl : any_variables_with_inconsistent_values nonrefl refl = TFalse ->
  (forall q, In q nonrefl -> length (snd q) <= 1) /\ (forall q, In q refl -> is_cf (fst q) = false -> length (snd q) <= 1).
Proof.
  unfold any_variables_with_inconsistent_values. destruct (_ || _); [discriminate|].
  destruct (existsb (fun q => Nat.ltb 1 (length (snd q))) nonrefl) eqn:E2; [discriminate|].
  destruct (existsb (fun q => mem None (snd q) && is_cf (fst q)) refl); [discriminate|].
  match goal with |- context [existsb ?P refl] => destruct (existsb P refl) eqn:E4 end; [discriminate|]. intros _. split.
  - intros q Hq. destruct (Nat.ltb 1 (length (snd q))) eqn:E; [|apply Nat.ltb_ge in E; lia]. exfalso.
    assert (Ht : existsb (fun q => Nat.ltb 1 (length (snd q))) nonrefl = true) by (apply existsb_exists; exists q; auto). congruence.
  - intros q Hq Hc. destruct (Nat.ltb 1 (length (snd q))) eqn:E; [|apply Nat.ltb_ge in E; lia]. exfalso.
    match type of E4 with existsb ?P refl = false => assert (Ht : existsb P refl = true) by (apply existsb_exists; exists q; split; [exact Hq|cbn beta; rewrite Hc; exact E]) end. congruence.
Qed.

Lemma incons_true nonrefl refl : (forall q, In q refl -> is_cf (fst q) = false) -> any_variables_with_inconsistent_values nonrefl refl = TTrue ->
  exists q, (In q nonrefl \/ In q refl) /\ 1 < length (snd q).
Proof.
  intros Hplain. unfold any_variables_with_inconsistent_values. destruct (_ || _); [discriminate|].
  destruct (existsb (fun q => Nat.ltb 1 (length (snd q))) nonrefl) eqn:E2.
  - intros _. apply existsb_exists in E2. destruct E2 as [q [Hq E]]. apply Nat.ltb_lt in E. exists q. auto.
  - destruct (existsb (fun q => mem None (snd q) && is_cf (fst q)) refl); [discriminate|].
    match goal with |- context [existsb ?P refl] => destruct (existsb P refl) eqn:E4 end; [|discriminate]. intros _.
    apply existsb_exists in E4. destruct E4 as [q [Hq E]]. cbn beta in E. rewrite (Hplain q Hq) in E. apply Nat.ltb_lt in E. exists q. auto.
Qed.

Lemma bool_iff' (a b : bool) : (a = true <-> b = true) -> a = b.
Proof. destruct a, b; intros [H1 H2]; try reflexivity; [symmetry; apply H1; reflexivity|apply H2; reflexivity]. Qed.

Section SimplifySem.
  Variable g : mg nat.
  Context {D : Type} {eqD : EqB D}.
  Variable U : Type.
  Variable f : nat -> (nat -> D) -> U -> D.
  Variable rho : nat * bool -> D.
  Hypothesis rho_distinct : forall n, rho (n, false) <> rho (n, true).
  Hypothesis f_local : local g U f.
  Variable order : list nat.
  Hypothesis order_ok : is_topo g order = true.
  Variable u : U.

  Notation ctrue := (centry_true U f rho order u).

  Definition cnamed (ev : cevent) : Prop := forall v x, In (v, Some x) ev -> fst x = vn v.

  (* the event after minimisation, none of whose variables is reflexive *)
  Variable m : cevent.
  Hypothesis noreflex : forall p, In p m -> is_reflexive (fst p) = false.

  Let refl_ev := filter (fun p : var * oval => is_reflexive (fst p) || negb (is_cf (fst p))) m.
  Let nonrefl_ev := filter (fun p : var * oval => is_cf (fst p) && negb (is_reflexive (fst p))) m.
  Let nonrefl := value_sets nonrefl_ev.
  Let refl := value_sets refl_ev.

  Lemma in_part p : In p m -> if is_cf (fst p) then In p nonrefl_ev else In p refl_ev.
  Proof.
    intros Hp. pose proof (noreflex p Hp) as Hr. destruct (is_cf (fst p)) eqn:Ec; apply filter_In; (split; [exact Hp|cbn beta; rewrite Hr, Ec; reflexivity]).
  Qed.

  Lemma part_in p : In p nonrefl_ev \/ In p refl_ev -> In p m.
  Proof. intros [H|H]; apply filter_In in H; apply H. Qed.

  Lemma refl_plain q : In q refl -> is_cf (fst q) = false.
  Proof.
    intros Hq. destruct (value_sets_spec refl_ev) as [_ [Hs [_ Hne]]]. destruct q as [v d]. destruct (Hne v d Hq) as [Hd _]. destruct d as [|x t]; [congruence|].
    pose proof (Hs v (x :: t) x Hq (or_introl eq_refl)) as Hin. apply filter_In in Hin. destruct Hin as [Hm Hc]. pose proof (noreflex _ Hm) as Hr. cbn [fst] in *. rewrite Hr in Hc. cbn [orb] in Hc.
    apply negb_true_iff in Hc. exact Hc.
  Qed.

  Lemma entry_of q x : In q (nonrefl ++ refl) -> In x (snd q) -> In (fst q, x) m.
  Proof.
    intros Hq Hx. apply in_app_or in Hq. destruct q as [v d]. cbn [fst snd] in *. destruct Hq as [Hq|Hq].
    - destruct (value_sets_spec nonrefl_ev) as [_ [Hs _]]. apply part_in. left. apply (Hs v d x Hq Hx).
    - destruct (value_sets_spec refl_ev) as [_ [Hs _]]. apply part_in. right. apply (Hs v d x Hq Hx).
  Qed.

  Lemma set_of v x : In (v, Some x) m -> exists d, In (v, d) (nonrefl ++ refl) /\ In (Some x) d.
  Proof.
    intros Hp. pose proof (in_part _ Hp) as H. cbn [fst] in H. destruct (is_cf v).
    - destruct (value_sets_spec nonrefl_ev) as [_ [_ [Hc _]]]. destruct (Hc v x H) as [d [Hd Hx]]. exists d. split; [apply in_or_app; left; exact Hd|exact Hx].
    - destruct (value_sets_spec refl_ev) as [_ [_ [Hc _]]]. destruct (Hc v x H) as [d [Hd Hx]]. exists d. split; [apply in_or_app; right; exact Hd|exact Hx].
  Qed.

  Lemma nonempty q : In q (nonrefl ++ refl) -> snd q <> [].
  Proof.
    intros Hq. apply in_app_or in Hq. destruct q as [v d]. destruct Hq as [Hq|Hq].
    - destruct (value_sets_spec nonrefl_ev) as [_ [_ [_ Hne]]]. apply (Hne v d Hq).
    - destruct (value_sets_spec refl_ev) as [_ [_ [_ Hne]]]. apply (Hne v d Hq).
  Qed.

  (* when every variable has a single value, the collected event is true exactly when the minimised one is *)
  Lemma collected_same_truth :
    (forall q, In q (nonrefl ++ refl) -> length (snd q) <= 1) ->
    cevent_true U f rho order (map (fun q => (fst q, match snd q with x :: _ => x | [] => None end)) (nonrefl ++ refl)) u = cevent_true U f rho order m u.
  Proof.
    intros Hone. apply bool_iff'. unfold cevent_true. rewrite !forallb_forall. split; intros H p Hp.
    - destruct p as [v [x|]]; [|reflexivity]. destruct (set_of v x Hp) as [d [Hd Hx]]. pose proof (Hone _ Hd) as Hl. cbn [snd] in Hl.
      destruct d as [|y [|z t]]; [destruct Hx| |cbn [length] in Hl; lia]. destruct Hx as [->|[]].
      apply (H (v, Some x)). apply in_map_iff. exists (v, [Some x]). split; [reflexivity|exact Hd].
    - apply in_map_iff in Hp. destruct Hp as [q [<- Hq]]. pose proof (nonempty q Hq) as Hne. destruct (snd q) as [|x t] eqn:Es; [congruence|].
      apply H. apply (entry_of q x Hq). rewrite Es. left. reflexivity.
  Qed.

  (* a variable with two values: the minimised event is true at no state *)
  Lemma two_values_never q : cnamed m -> In q (nonrefl ++ refl) -> 1 < length (snd q) -> cevent_true U f rho order m u = false.
  Proof.
    intros Hn Hq Hl. destruct (cevent_true U f rho order m u) eqn:Et; [|reflexivity]. exfalso. unfold cevent_true in Et. rewrite forallb_forall in Et.
    assert (Hsome : forall x, In x (snd q) -> nonnone x = true).
    { apply in_app_or in Hq. destruct q as [v d]. destruct Hq as [Hq|Hq]; [apply (value_sets_some nonrefl_ev v d Hq Hl)|apply (value_sets_some refl_ev v d Hq Hl)]. }
    assert (Hnd : NoDup (snd q)).
    { pose proof Hq as Hq'. apply in_app_or in Hq'. destruct q as [v d]. destruct Hq' as [Hq'|Hq'].
      - destruct (value_sets_spec nonrefl_ev) as [_ [_ [_ Hne]]]. apply (Hne v d Hq').
      - destruct (value_sets_spec refl_ev) as [_ [_ [_ Hne]]]. apply (Hne v d Hq'). }
    destruct (snd q) as [|a [|b t]] eqn:Es; cbn [length] in Hl; try lia.
    pose proof (Hsome a (or_introl eq_refl)) as Ha. pose proof (Hsome b (or_intror (or_introl eq_refl))) as Hb.
    destruct a as [a|]; [|discriminate]. destruct b as [b|]; [|discriminate].
    assert (Hia : In (fst q, Some a) m) by (apply (entry_of q (Some a) Hq); rewrite Es; left; reflexivity).
    assert (Hib : In (fst q, Some b) m) by (apply (entry_of q (Some b) Hq); rewrite Es; right; left; reflexivity).
    pose proof (Et _ Hia) as Ta. pose proof (Et _ Hib) as Tb. unfold centry_true in Ta, Tb. cbn [fst snd] in Ta, Tb. apply eqb_true in Ta, Tb.
    pose proof (Hn _ _ Hia) as Na. pose proof (Hn _ _ Hib) as Nb. inversion Hnd as [|? ? Hnotin _]; subst. apply Hnotin. left.
    destruct a as [an as_], b as [bn bs]. cbn [fst] in Na, Nb. subst an bn. rewrite Ta in Tb. unfold lit in Tb.
    destruct as_, bs; try reflexivity; exfalso; [apply (rho_distinct (vn (fst q))); symmetry; exact Tb|apply (rho_distinct (vn (fst q))); exact Tb].
  Qed.
End SimplifySem.

Section SimplifyTop.
  Variable g : mg nat.
  Context {D : Type} {eqD : EqB D}.
  Variable U : Type.
  Variable f : nat -> (nat -> D) -> U -> D.
  Variable rho : nat * bool -> D.
  Hypothesis rho_distinct : forall n, rho (n, false) <> rho (n, true).
  Hypothesis f_local : local g U f.
  Variable order : list nat.
  Hypothesis order_ok : is_topo g order = true.
  Variable u : U.

  Definition minimized_of (ev : cevent) : option cevent :=
    map_opt (fun p => option_map (fun v => (v, snd p)) (minimize_counterfactual (fst p) g)) ev.

  Lemma minimized_named ev m : minimized_of ev = Some m -> cnamed ev -> cnamed m.
  Proof.
    unfold minimized_of. revert m. induction ev as [|p t IH]; intros m Hm Hn; cbn [map_opt] in Hm; [inversion Hm; intros ? ? []|].
    destruct (minimize_counterfactual (fst p) g) as [v'|] eqn:Ev; cbn [option_map] in Hm; [|discriminate]. destruct (map_opt _ t) as [t'|] eqn:Et; [|discriminate].
    inversion Hm; subst. intros v x Hin. destruct Hin as [E|Hin].
    - inversion E; subst. destruct (minimize_ivs g (fst p) v Ev) as [En _]. rewrite En. apply (Hn (fst p) x). left. destruct p as [pv px]. cbn [fst snd] in *. congruence.
    - apply (IH t' eq_refl); [intros w y Hw; apply (Hn w y); right; exact Hw|exact Hin].
  Qed.

  Section Cases.
    Variable ev m : cevent.
    Hypothesis Hmin : minimized_of ev = Some m.
    Hypothesis Hnodes : forall p, In p ev -> In (vn (fst p)) (nodes g).
    Hypothesis noreflex : forall p, In p m -> is_reflexive (fst p) = false.

    Let refl_ev := filter (fun p : var * oval => is_reflexive (fst p) || negb (is_cf (fst p))) m.
    Let nonrefl_ev := filter (fun p : var * oval => is_cf (fst p) && negb (is_reflexive (fst p))) m.

    Lemma reduce_is_identity : reduce_reflexive (value_sets refl_ev) = Some (value_sets refl_ev).
    Proof.
      destruct (value_sets_spec refl_ev) as [Hk [_ [_ Hne]]]. apply reduce_reflexive_plain.
      - intros q Hq. apply (refl_plain m noreflex q Hq).
      - exact Hk.
      - intros [v d] Hq. apply (Hne v d Hq).
    Qed.

    Theorem simplify_same_truth ev' : simplify ev g = SEvent ev' -> cevent_true U f rho order ev u = cevent_true U f rho order ev' u.
    Proof.
      unfold simplify, simplify_gen. destruct (existsb _ ev); [discriminate|]. pose proof Hmin as Hm. unfold minimized_of, minimize_counterfactual in Hm.
      rewrite Hm. fold refl_ev nonrefl_ev.
      destruct (any_variables_with_inconsistent_values (value_sets nonrefl_ev) (value_sets refl_ev)) eqn:E1; try discriminate.
      rewrite reduce_is_identity. rewrite E1. intros E. inversion E; subst. clear E.
      destruct (incons_false _ _ E1) as [H1 H2].
      rewrite (minimize_event_same_truth g U f rho f_local order order_ok ev m u Hmin Hnodes). symmetry.
      apply (collected_same_truth U f rho order u m noreflex). intros q Hq. apply in_app_or in Hq. destruct Hq as [Hq|Hq]; [apply H1; exact Hq|apply H2; [exact Hq|apply (refl_plain m noreflex q Hq)]].
    Qed.

    Theorem simplify_impossible_never : cnamed ev -> simplify ev g = SNone -> cevent_true U f rho order ev u = false.
    Proof.
      intros Hn. unfold simplify, simplify_gen. destruct (existsb _ ev); [discriminate|]. pose proof Hmin as Hm. unfold minimized_of, minimize_counterfactual in Hm. rewrite Hm. fold refl_ev nonrefl_ev.
      assert (Hfalse : any_variables_with_inconsistent_values (value_sets nonrefl_ev) (value_sets refl_ev) = TTrue -> cevent_true U f rho order ev u = false).
      { intros E1. destruct (incons_true _ _ (refl_plain m noreflex) E1) as [q [Hq Hl]].
        rewrite (minimize_event_same_truth g U f rho f_local order order_ok ev m u Hmin Hnodes).
        apply (two_values_never U f rho rho_distinct order u m q (minimized_named ev m Hmin Hn)); [apply in_or_app; exact Hq|exact Hl]. }
      destruct (any_variables_with_inconsistent_values (value_sets nonrefl_ev) (value_sets refl_ev)) eqn:E1; try discriminate.
      - intros _. apply Hfalse. reflexivity.
      - rewrite reduce_is_identity. rewrite E1. discriminate.
    Qed.
  End Cases.
End SimplifyTop.
