(* C18, semantic clause, part 4: the parallel-worlds graph satisfies the invariant; the loops of make-cg keep it; the theorem. *)
From Coq Require Import List Bool Arith Lia Permutation.
From Y0 Require Import Base.ListSet Graph.Closure Graph.MixedGraph Dsl.Syntax Dsl.Text Dsl.Build Alg.Cg Alg.IdStar
  Proofs.ClosureP Proofs.SurgeryP Proofs.SortP Sem.Scm Sem.CfSem Proofs.ScmP Proofs.CgAcyclicP Proofs.CgSemP Proofs.CgSem2P Proofs.CgSem3P.
Import ListNotations.

Lemma In_norm_ivs i w : In i (norm_ivs w) <-> In i w.
Proof.
  unfold norm_ivs. split; intros H.
  - apply (proj1 (In_dedup _ _)). eapply Permutation_in; [apply Permutation_sym; apply stable_sort_perm|exact H].
  - eapply Permutation_in; [apply stable_sort_perm|]. apply (proj2 (In_dedup _ _)). exact H.
Qed.

Lemma In_und_neighbors (g : cgraph) u v : In v (und_neighbors g u) -> (In (u, v) (bid g) \/ In (v, u) (bid g)).
Proof.
  unfold und_neighbors. intros H. apply (proj1 (In_dedup _ _)) in H. apply in_flat_map in H. destruct H as [[a b] [He H]]. cbn [fst snd] in H.
  destruct (eqb a u) eqn:E1; [apply eqb_true in E1; subst a; destruct H as [<-|[]]; left; exact He|].
  destruct (eqb b u) eqn:E2; [apply eqb_true in E2; subst b; destruct H as [<-|[]]; right; exact He|destruct H].
Qed.

Lemma unordered_pairs_distinct {T K} (h : T -> K) (l : list T) x y : NoDup (map h l) -> In (x, y) (unordered_pairs l) -> h x <> h y /\ In x l /\ In y l.
Proof.
  induction l as [|a t IH]; intros Hn Hin; [destruct Hin|]. cbn [unordered_pairs] in Hin. cbn [map] in Hn. inversion Hn as [|? ? Ha Ht]; subst.
  apply in_app_or in Hin. destruct Hin as [Hin|Hin].
  - apply in_map_iff in Hin. destruct Hin as [z [E Hz]]. inversion E; subst. split; [|split; [left; reflexivity|right; exact Hz]].
    intros Eh. apply Ha. rewrite Eh. apply in_map. exact Hz.
  - destruct (IH Ht Hin) as [H1 [H2 H3]]. split; [exact H1|split; right; assumption].
Qed.

Section CgSem4.
  Variable g0 : mg nat.
  Context {D : Type} {eqD : EqB D}.
  Variable U : Type.
  Variable f : nat -> (nat -> D) -> U -> D.
  Variable rho : nat * bool -> D.
  Hypothesis rho_distinct : forall n, rho (n, false) <> rho (n, true).
  Hypothesis f_local : local g0 U f.
  Variable order : list nat.
  Hypothesis order_ok : is_topo g0 order = true.
  Hypothesis g0_wf : wf g0.
  Hypothesis g0_noloop : forall x, ~ In (x, x) (bid g0).
  Variable u : U.
  Variable worlds : list world.
  Hypothesis worlds_clean : forall w, In w worlds -> NoDup (map fst (norm_ivs w)).
  Hypothesis worlds_distinct : NoDup (map norm_ivs worlds).

  Notation val := (val U f rho order u).
  Notation sol := (sol U f rho order u).
  Notation holds := (holds U f rho order u).
  Notation low := (low U f rho order u).
  Notation pos := (pos order).
  Notation Inv := (Inv g0 U f rho order u worlds).
  Notation InvG := (InvG g0 U f rho order u worlds).
  Notation evholds := (evholds U f rho order u).
  Notation good_node := (good_node g0 worlds).

  Let g : cgraph := gv g0.
  Let pw : cgraph := make_parallel_worlds_graph g worlds.
  Let G0 : cgraph := from_edges (nodes pw) (dir pw) (bid pw).

  Lemma good_V m : In m (nodes g0) -> good_node (V m).
  Proof. intros Hm. split; [exact Hm|]. split; [unfold clean, var_ivs; cbn; constructor|left; reflexivity]. Qed.

  Lemma good_at m w : In m (nodes g0) -> In w worlds -> good_node (at_world (V m) w).
  Proof.
    intros Hm Hw. split; [exact Hm|]. split; [unfold clean, var_ivs; cbn; apply worlds_clean; exact Hw|]. right. exists w. split; [exact Hw|reflexivity].
  Qed.

  Lemma g_nodes n : In n (nodes g) -> exists m, n = V m /\ In m (nodes g0).
  Proof. unfold g, gv. cbn [nodes]. intros H. apply in_map_iff in H. destruct H as [m [<- Hm]]. eauto. Qed.

  Lemma g_dir a b : In (a, b) (dir g) -> exists x y, a = V x /\ b = V y /\ In (x, y) (dir g0).
  Proof. unfold g, gv. cbn [dir]. intros H. apply in_map_iff in H. destruct H as [[x y] [E Hxy]]. cbn [fst snd] in E. inversion E; subst. eauto. Qed.

  Lemma g_bid a b : In (a, b) (bid g) -> exists x y, a = V x /\ b = V y /\ In (x, y) (bid g0).
  Proof. unfold g, gv. cbn [bid]. intros H. apply in_map_iff in H. destruct H as [[x y] [E Hxy]]. cbn [fst snd] in E. inversion E; subst. eauto. Qed.

  Lemma g_neighbor a v : In v (und_neighbors g a) -> exists m, v = V m /\ In m (nodes g0) /\ v <> a.
  Proof.
    intros H. destruct g0_wf as [_ Wb]. apply In_und_neighbors in H. destruct H as [H|H]; apply g_bid in H; destruct H as [x [y [E1 [E2 Hxy]]]]; subst; destruct (Wb _ _ Hxy) as [Nx Ny].
    - exists y. split; [reflexivity|split; [exact Ny|]]. intros E. inversion E; subst. apply (g0_noloop _ Hxy).
    - exists x. split; [reflexivity|split; [exact Nx|]]. intros E. inversion E; subst. apply (g0_noloop _ Hxy).
  Qed.

  (* the directed edges of the parallel-worlds graph *)
  Lemma pw_dir a b : In (a, b) (dir pw) <->
    (exists x y, a = V x /\ b = V y /\ In (x, y) (dir g0)) \/
    (exists x y w, In w worlds /\ In (x, y) (dir g0) /\ node_not_in_world w (V y) = true /\ a = at_world (V x) w /\ b = at_world (V y) w).
  Proof.
    unfold pw, make_parallel_worlds_graph, from_edges. cbn [dir]. rewrite in_app_iff. split.
    - intros [H|H]; [left; apply g_dir; exact H|]. right. apply in_flat_map in H. destruct H as [w [Hw H]]. apply in_flat_map in H. destruct H as [[p q] [Hpq H]].
      cbn [fst snd] in H. destruct (node_not_in_world w q) eqn:E; [|destruct H]. destruct H as [H|[]]. inversion H; subst.
      apply g_dir in Hpq. destruct Hpq as [x [y [-> [-> Hxy]]]]. exists x, y, w. auto.
    - intros [[x [y [-> [-> Hxy]]]]|[x [y [w [Hw [Hxy [Hn [-> ->]]]]]]]].
      + left. unfold g, gv. cbn [dir]. apply in_map_iff. exists (x, y). auto.
      + right. apply in_flat_map. exists w. split; [exact Hw|]. apply in_flat_map. exists (V x, V y). split; [unfold g, gv; cbn [dir]; apply in_map_iff; exists (x, y); auto|].
        cbn [fst snd]. rewrite Hn. left. reflexivity.
  Qed.

  Lemma at_world_neq_name a b w w' : vn a <> vn b -> at_world a w <> at_world b w'.
  Proof. intros H E. apply H. unfold at_world in E. inversion E. reflexivity. Qed.

  Lemma V_neq_at m v w : V m <> at_world v w.
  Proof. intros E. unfold V, at_world in E. inversion E. Qed.

  Lemma pw_bid a b : In (a, b) (bid pw) -> good_node a /\ good_node b /\ a <> b.
  Proof.
    destruct g0_wf as [_ Wb]. unfold pw, make_parallel_worlds_graph, from_edges. cbn [bid]. rewrite !in_app_iff.
    intros [H|[H|[H|[H|[H|H]]]]].
    - apply g_bid in H. destruct H as [x [y [-> [-> Hxy]]]]. destruct (Wb _ _ Hxy) as [Nx Ny]. split; [apply good_V; exact Nx|split; [apply good_V; exact Ny|]].
      intros E. inversion E; subst. apply (g0_noloop _ Hxy).
    - apply in_flat_map in H. destruct H as [w [Hw H]]. apply in_flat_map in H. destruct H as [n [Hn H]]. apply in_flat_map in H. destruct H as [v [Hv H]].
      destruct (node_not_in_world w n && node_not_in_world w v); [|destruct H]. destruct H as [H|[]]. inversion H; subst.
      apply g_nodes in Hn. destruct Hn as [m [-> Hm]]. apply g_neighbor in Hv. destruct Hv as [m' [-> [Hm' Hne]]].
      split; [apply good_at; assumption|split; [apply good_at; assumption|]]. apply at_world_neq_name. intros E. apply Hne. cbn in E. subst. reflexivity.
    - apply in_flat_map in H. destruct H as [w [Hw H]]. apply in_flat_map in H. destruct H as [n [Hn H]].
      destruct (node_not_in_world w n); [|destruct H]. destruct H as [H|[]]. inversion H; subst.
      apply g_nodes in Hn. destruct Hn as [m [-> Hm]]. split; [apply good_V; exact Hm|split; [apply good_at; assumption|apply V_neq_at]].
    - apply in_flat_map in H. destruct H as [w [Hw H]]. apply in_flat_map in H. destruct H as [n [Hn H]]. apply in_flat_map in H. destruct H as [v [Hv H]].
      destruct (node_not_in_world w v); [|destruct H]. destruct H as [H|[]]. inversion H; subst.
      apply g_nodes in Hn. destruct Hn as [m [-> Hm]]. apply g_neighbor in Hv. destruct Hv as [m' [-> [Hm' Hne]]].
      split; [apply good_V; exact Hm|split; [apply good_at; assumption|apply V_neq_at]].
    - destruct (Nat.ltb 1 (length worlds)); [|destruct H]. apply in_flat_map in H. destruct H as [[w1 w2] [Hww H]]. apply in_flat_map in H. destruct H as [n [Hn H]].
      cbn [fst snd] in H. destruct (node_not_in_world w1 n && node_not_in_world w2 n); [|destruct H]. destruct H as [H|[]]. inversion H; subst.
      destruct (unordered_pairs_distinct norm_ivs worlds w1 w2 worlds_distinct Hww) as [Hd [H1 H2]].
      apply g_nodes in Hn. destruct Hn as [m [-> Hm]]. split; [apply good_at; assumption|split; [apply good_at; assumption|]].
      intros E. unfold at_world in E. inversion E as [E']. apply Hd. symmetry. exact E'.
    - destruct (Nat.ltb 1 (length worlds)); [|destruct H]. apply in_flat_map in H. destruct H as [[w1 w2] [Hww H]]. apply in_flat_map in H. destruct H as [n [Hn H]].
      apply in_flat_map in H. destruct H as [v [Hv H]].
      cbn [fst snd] in H. destruct (node_not_in_world w1 n && node_not_in_world w2 v); [|destruct H]. destruct H as [H|[]]. inversion H; subst.
      destruct (unordered_pairs_distinct norm_ivs worlds w1 w2 worlds_distinct Hww) as [Hd [H1 H2]].
      apply g_nodes in Hn. destruct Hn as [m [-> Hm]]. apply g_neighbor in Hv. destruct Hv as [m' [-> [Hm' Hne]]].
      split; [apply good_at; assumption|split; [apply good_at; assumption|]]. apply at_world_neq_name. intros E. apply Hne. cbn in E. subst. reflexivity.
  Qed.

  Lemma dir_nodes x y : In (x, y) (dir g0) -> In x (nodes g0) /\ In y (nodes g0).
  Proof. destruct g0_wf as [Wd _]. apply Wd. Qed.

  Lemma pw_nodes n : In n (nodes pw) -> good_node n.
  Proof.
    intros H. assert (Hd := pw_dir). assert (Hb := pw_bid). unfold pw, make_parallel_worlds_graph in H, Hd, Hb.
    apply nodes_from_edges in H. destruct H as [H|[H|H]].
    - apply in_app_or in H. destruct H as [H|H]; [apply g_nodes in H; destruct H as [m [-> Hm]]; apply good_V; exact Hm|].
      apply in_flat_map in H. destruct H as [w [Hw H]]. apply in_map_iff in H. destruct H as [x [<- Hx]]. apply g_nodes in Hx. destruct Hx as [m [-> Hm]]. apply good_at; assumption.
    - apply In_endpoints in H. destruct H as [[a b] [He Hv]]. cbn [fst snd] in Hv. apply Hd in He.
      destruct He as [[x [y [-> [-> Hxy]]]]|[x [y [w [Hw [Hxy [_ [-> ->]]]]]]]]; destruct (dir_nodes _ _ Hxy) as [Nx Ny]; destruct Hv as [->| ->];
        try (apply good_V; assumption); apply good_at; assumption.
    - apply In_endpoints in H. destruct H as [[a b] [He Hv]]. cbn [fst snd] in Hv. destruct (Hb _ _ He) as [Ga [Gb _]]. destruct Hv as [->| ->]; assumption.
  Qed.

  Lemma free_at_world m w : is_not_self_intervened (at_world (V m) w) = node_not_in_world w (V m).
  Proof.
    unfold is_not_self_intervened, node_not_in_world, at_world, is_cf. cbn [vk vn vi negb orb].
    assert (Hm : forall i, mem i (norm_ivs w) = mem i w).
    { intros i. destruct (mem i w) eqn:E.
      - apply (proj2 (mem_In _ _)). apply (proj2 (In_norm_ivs _ _)). apply (proj1 (mem_In _ _)). exact E.
      - apply (proj2 (mem_false _ _)). intros H. apply (proj1 (In_norm_ivs _ _)) in H. apply (proj2 (mem_In _ _)) in H. congruence. }
    rewrite !Hm. reflexivity.
  Qed.

  Lemma initial_inv ev : wnamed ev -> NoDup (map fst ev) -> InvG G0 ev.
  Proof.
    intros Hnamed Hkeys.
    assert (Hnodes : forall n, In n (nodes G0) -> good_node n).
    { intros n Hn. unfold G0 in Hn. apply nodes_from_edges in Hn. apply pw_nodes. destruct Hn as [Hn|[Hn|Hn]]; [exact Hn| |].
      - apply In_endpoints in Hn. destruct Hn as [[a b] [He Hv]]. cbn [fst snd] in Hv.
        destruct (proj1 (wf_from_edges _ _ _ : wf pw) _ _ He) as [Na Nb]. destruct Hv as [->| ->]; assumption.
      - apply In_endpoints in Hn. destruct Hn as [[a b] [He Hv]]. cbn [fst snd] in Hv.
        destruct (proj2 (wf_from_edges _ _ _ : wf pw) _ _ He) as [Na Nb]. destruct Hv as [->| ->]; assumption. }
    constructor; [constructor| | |].
    - apply (proj1 (wf_from_edges (nodes pw) (dir pw) (bid pw))).
    - exact Hnodes.
    - intros q q' n Hq Hq' E. unfold G0, from_edges in Hq, Hq'. cbn [dir] in Hq, Hq'. apply pw_dir in Hq, Hq'.
      destruct Hq as [[x [y [-> [-> Hxy]]]]|[x [y [w [Hw [Hxy [Hn [-> ->]]]]]]]], Hq' as [[x' [y' [-> [Ey Hxy']]]]|[x' [y' [w' [Hw' [Hxy' [Hn' [-> Ey]]]]]]]].
      + cbn in E. subst. reflexivity.
      + exfalso. unfold V, at_world in Ey. inversion Ey.
      + exfalso. unfold V, at_world in Ey. inversion Ey.
      + unfold at_world in *. cbn in E. inversion Ey. subst. congruence.
    - intros n Hn Hfree p Hp Hlow. destruct (Hnodes n Hn) as [Hm [_ [En|[w [Hw En]]]]]; apply In_parents in Hp.
      + exists (V p). split; [unfold G0, from_edges; cbn [dir]; apply pw_dir; left; exists p, (vn n); auto|]. split; [reflexivity|]. rewrite En. reflexivity.
      + exists (at_world (V p) w). split; [|split; [reflexivity|rewrite En; reflexivity]]. unfold G0, from_edges. cbn [dir]. apply pw_dir. right.
        exists p, (vn n), w. split; [exact Hw|]. split; [exact Hp|]. split; [|split; [reflexivity|exact En]]. rewrite <- free_at_world, <- En. exact Hfree.
    - exact Hnamed.
    - exact Hkeys.
    - apply wf_from_edges.
    - intros a b Hab. unfold G0, from_edges in Hab. cbn [dir] in Hab. apply pw_dir in Hab.
      destruct Hab as [[x [y [-> [-> Hxy]]]]|[x [y [w [_ [Hxy [_ [-> ->]]]]]]]]; cbn [vn at_world V]; apply (pos_parent g0 order order_ok); apply In_parents; exact Hxy.
    - intros x Hx. unfold G0, from_edges in Hx. cbn [bid] in Hx. destruct (pw_bid _ _ Hx) as [_ [_ Hne]]. apply Hne. reflexivity.
  Qed.

  Notation StInv := (StInv g0 U f rho order u worlds).

  Lemma fold_inv {T} ev0 (step : cg_state -> T -> cg_state) l :
    (forall st x, In x l -> StInv ev0 st -> StInv ev0 (step st x)) -> forall st, StInv ev0 st -> StInv ev0 (fold_left step l st).
  Proof.
    induction l as [|x t IH]; intros Hstep st Hst; [exact Hst|]. cbn [fold_left]. apply IH.
    - intros st' y Hy. apply Hstep. right. exact Hy.
    - apply Hstep; [left; reflexivity|exact Hst].
  Qed.

  (* ------------------------------------------------------------ the axiom of effectiveness on the event's own subscripts *)
  Lemma lit_inj n a b : lit rho (n, a) = lit rho (n, b) -> a = b.
  Proof. unfold lit. intros E. destruct a, b; try reflexivity; exfalso; [apply (rho_distinct n); symmetry; exact E|apply (rho_distinct n); exact E]. Qed.

  Lemma own_value p i : clean (fst p) -> In (vn (fst p)) (nodes g0) -> In i (own_interventions p) -> val (fst p) = lit rho (vn (fst p), snd i).
  Proof.
    intros Hc Hn Hi. unfold own_interventions in Hi. destruct (is_cf (fst p)) eqn:Ec; [|destruct Hi]. apply filter_In in Hi. destruct Hi as [Hi En]. apply Nat.eqb_eq in En.
    apply (val_self g0 U f rho f_local order order_ok u (fst p) (snd i) Hc Hn). unfold var_ivs. rewrite Ec. rewrite <- En. destruct i; exact Hi.
  Qed.

  Section Effect.
    Variable ev0 : event.
    Hypothesis keys0 : NoDup (map fst ev0).
    Hypothesis named0 : wnamed ev0.
    Hypothesis vars0 : forall p, In p ev0 -> clean (fst p) /\ In (vn (fst p)) (nodes g0).

    Lemma holds_named p : In p ev0 -> (holds p <-> val (fst p) = lit rho (vn (fst p), snd (snd p))).
    Proof. intros Hp. unfold CgSemP.holds. pose proof (named0 p Hp) as E. destruct p as [n [xn xs]]. cbn [fst snd] in *. subst xn. reflexivity. Qed.

    Lemma violation_never : violates_effectiveness ev0 = true -> ~ evholds ev0.
    Proof.
      unfold violates_effectiveness. intros H Hall. apply existsb_exists in H. destruct H as [p [Hp H]]. apply existsb_exists in H. destruct H as [i [Hi Hne]].
      apply negb_true_iff in Hne. destruct (vars0 p Hp) as [Hc Hn]. pose proof (own_value p i Hc Hn Hi) as Hv.
      pose proof (proj1 (holds_named p Hp) (Hall p Hp)) as Hh. rewrite Hv in Hh. apply lit_inj in Hh. rewrite Hh in Hne. rewrite eqb_reflx in Hne. discriminate.
    Qed.

    Lemma effective_same : violates_effectiveness ev0 = false -> (evholds ev0 <-> evholds (effective_event ev0)).
    Proof.
      intros Hnv. unfold effective_event. split; intros H p Hp.
      - apply filter_In in Hp. apply H. apply Hp.
      - destruct (own_interventions p) as [|i t] eqn:Eo; [apply H; apply filter_In; split; [exact Hp|rewrite Eo; reflexivity]|].
        destruct (vars0 p Hp) as [Hc Hn]. assert (Hi : In i (own_interventions p)) by (rewrite Eo; left; reflexivity).
        apply (holds_named p Hp). rewrite (own_value p i Hc Hn Hi). f_equal. f_equal.
        unfold violates_effectiveness in Hnv. destruct (Bool.eqb (snd i) (snd (snd p))) eqn:E; [apply eqb_prop; exact E|]. exfalso.
        assert (Ht : existsb (fun p0 => existsb (fun i0 => negb (Bool.eqb (snd i0) (snd (snd p0)))) (own_interventions p0)) ev0 = true).
        { apply existsb_exists. exists p. split; [exact Hp|]. apply existsb_exists. exists i. split; [exact Hi|rewrite E; reflexivity]. }
        congruence.
    Qed.

    (* ------------------------------------------------------------ the theorem at one exogenous state *)
    Theorem cg_truth cf r :
      make_counterfactual_graph (gv g0) ev0 (map V order) worlds = (cf, r) ->
      match r with Some ev' => evholds ev0 <-> evholds ev' | None => ~ evholds ev0 end.
    Proof.
      unfold make_counterfactual_graph. fold g. fold pw. fold G0.
      destruct (violates_effectiveness ev0) eqn:Ev; [intros E; inversion E; subst; apply violation_never; exact Ev|].
      set (ev1 := effective_event ev0).
      set (step := fun (st : cg_state) (node : var) =>
        if Nat.ltb 1 (length worlds)
        then fold_left (fun s ww => try_merge s (at_world node (fst ww)) (at_world node (snd ww)) true) (unordered_pairs worlds)
               (fold_left (fun s w => try_merge s node (at_world node w) false) worlds st)
        else fold_left (fun s w => try_merge s node (at_world node w) false) worlds st).
      assert (Hfinal : StInv ev1 (fold_left step (map V order) (G0, ev1, false))).
      { apply fold_inv.
        - intros st node Hnode Hst. apply in_map_iff in Hnode. destruct Hnode as [m [<- _]].
          assert (H1 : StInv ev1 (fold_left (fun s w => try_merge s (V m) (at_world (V m) w) false) worlds st)).
          { apply fold_inv; [|exact Hst]. intros s w _ Hs. apply (try_merge_inv g0 U f rho rho_distinct f_local order order_ok u worlds); [apply V_neq_at|exact Hs]. }
          unfold step. destruct (Nat.ltb 1 (length worlds)); [|exact H1]. apply fold_inv; [|exact H1]. intros s [w1 w2] Hww Hs. cbn [fst snd].
          destruct (unordered_pairs_distinct norm_ivs worlds w1 w2 worlds_distinct Hww) as [Hd _].
          apply (try_merge_inv g0 U f rho rho_distinct f_local order order_ok u worlds); [|exact Hs]. intros E. unfold at_world in E. inversion E as [E']. apply Hd. exact E'.
        - split; cbn [fst snd]; [|tauto]. apply initial_inv.
          + intros p Hp. unfold ev1, effective_event in Hp. apply filter_In in Hp. apply named0. apply Hp.
          + unfold ev1, effective_event. apply NoDup_map_filter. exact keys0. }
      assert (Estep : forall st node, step st node =
        (let st1 := fold_left (fun s w => try_merge s node (at_world node w) false) worlds st in
         if Nat.ltb 1 (length worlds) then fold_left (fun s ww => try_merge s (at_world node (fst ww)) (at_world node (snd ww)) true) (unordered_pairs worlds) st1 else st1)).
      { intros st node. unfold step. destruct (Nat.ltb 1 (length worlds)); reflexivity. }
      match goal with |- context [fold_left ?s0 (map V order) ?st0] => replace (fold_left s0 (map V order) st0) with (fold_left step (map V order) (G0, ev1, false)) end.
      2:{ f_equal. }
      destruct (fold_left step (map V order) (G0, ev1, false)) as [[cf' ev'] stop]. destruct Hfinal as [_ Hev]. cbn [fst snd] in Hev.
      pose proof (effective_same Ev) as H01. destruct stop; intros E; inversion E; subst.
      - intros H. apply Hev. apply H01. exact H.
      - rewrite H01. exact Hev.
    Qed.
  End Effect.
End CgSem4.
