(* C11, part 4: idempotence also when the caller gives no ordering - the second call then derives its ordering from the
   canonical form, which may mention fewer variables; on name-sorted orderings the canonical shape does not depend on which
   further names the ordering lists. *)
From Coq Require Import List Bool Arith Lia Permutation Sorted String.
From Y0 Require Import Base.ListSet Dsl.Syntax Dsl.Text Dsl.Print Dsl.Build Dsl.Canon
  Proofs.SortP Proofs.ExprP Proofs.SurgeryP Proofs.OrderP Proofs.CanonNfP Proofs.CanonNf2P Proofs.CanonNf3P.
Import ListNotations.
Open Scope list_scope.

Lemma has_level_in o v : In v o -> has_level o v = true.
Proof.
  unfold has_level. induction o as [|w t IH]; intros Hin; [destruct Hin|]. cbn [level_of].
  destruct (level_of t (vn v)) eqn:E; [reflexivity|]. destruct Hin as [->|Hin]; [rewrite Nat.eqb_refl; reflexivity|].
  specialize (IH Hin). discriminate.
Qed.

Section Transfer.
  Variables o o2 : list var.
  Hypothesis Ho : StronglySorted (fun a b => vn a <= vn b) o.
  Hypothesis Ho2 : StronglySorted (fun a b => vn a <= vn b) o2.

  Lemma lvl_cmp l a b : StronglySorted (fun a b => vn a <= vn b) l -> has_level l a = true -> has_level l b = true ->
    Nat.compare (lvl l a) (lvl l b) = Nat.compare (vn a) (vn b).
  Proof.
    intros Hl. unfold has_level, lvl. destruct (level_of l (vn a)) as [x|] eqn:La; [|discriminate]. destruct (level_of l (vn b)) as [y|] eqn:Lb; [|discriminate].
    intros _ _. destruct (Nat.compare_spec (vn a) (vn b)) as [E|E|E].
    - rewrite E in La. rewrite La in Lb. injection Lb as <-. apply Nat.compare_refl.
    - apply Nat.compare_lt_iff. exact (level_mono_gen l Hl _ _ _ _ La Lb E).
    - apply Nat.compare_gt_iff. exact (level_mono_gen l Hl _ _ _ _ Lb La E).
  Qed.

  Lemma vlt_indep a b : has_level o a = true -> has_level o b = true -> has_level o2 a = true -> has_level o2 b = true ->
    vlt o a b = vlt o2 a b.
  Proof.
    intros A1 B1 A2 B2. unfold vlt. rewrite !canon_var_lt_cmp by assumption. unfold canon_var_cmp.
    rewrite (lvl_cmp o a b Ho A1 B1), (lvl_cmp o2 a b Ho2 A2 B2). reflexivity.
  Qed.

  Lemma sorted_transfer l : sorted (vlt o) l -> forallb (has_level o) l = true -> forallb (has_level o2) l = true -> sorted (vlt o2) l.
  Proof.
    induction 1 as [|a t Ht IH Hall]; intros L1 L2; [constructor|]. cbn [forallb] in L1, L2.
    apply andb_true_iff in L1, L2. destruct L1 as [A1 T1]. destruct L2 as [A2 T2].
    constructor; [apply IH; assumption|]. rewrite Forall_forall in *. rewrite forallb_forall in T1, T2. intros b Hb. specialize (Hall b Hb).
    unfold nafter in *. rewrite <- (vlt_indep b a); auto.
  Qed.

  Fixpoint atoms_leveled (e : expr) : bool :=
    match e with
    | EProb _ ch pa => forallb (has_level o2) ch && forallb (has_level o2) pa
    | EProd es => forallb atoms_leveled es
    | ESum e' _ => atoms_leveled e'
    | EFrac n d => atoms_leveled n && atoms_leveled d
    | _ => true
    end.

  Theorem NF_transfer : forall e, NF o e -> atoms_leveled e = true -> NF o2 e.
  Proof.
    induction e as [pop ch pa|es IH|e rs IH|n d IHn IHd| | |dm cd|k] using expr_ind'; intros H Hl.
    - inversion H as [pop' ch' pa' Hne Hlc Hlp Hsc Hsp| | | | |]; subst. cbn [atoms_leveled] in Hl. apply andb_true_iff in Hl. destruct Hl as [L1 L2].
      constructor; try assumption; apply sorted_transfer; assumption.
    - inversion H as [|fs Hlen Hall Hat Hs| | | |]; subst. cbn [atoms_leveled] in Hl. constructor; try assumption.
      rewrite Forall_forall in *. rewrite forallb_forall in Hl. intros x Hx. apply IH; auto.
    - inversion H as [| |c rs' Hc Hz Hne Hup Hbad Hsimp| | |]; subst. cbn [atoms_leveled] in Hl. constructor; try assumption. apply IH; assumption.
    - inversion H as [| | |n' d' Hn Hd Hfn Hfd H1 Hzd Hzn Hneq| |]; subst. cbn [atoms_leveled] in Hl. apply andb_true_iff in Hl. destruct Hl as [L1 L2].
      constructor; try assumption; [apply IHn|apply IHd]; assumption.
    - constructor.
    - constructor.
    - inversion H.
    - inversion H.
  Qed.
End Transfer.

Lemma In_sorted_variables l x : In x (sorted_variables l) <-> In x l.
Proof.
  unfold sorted_variables. split; intros H.
  - eapply Permutation_in; [apply Permutation_sym; apply stable_sort_perm|exact H].
  - eapply Permutation_in; [apply stable_sort_perm|exact H].
Qed.

Lemma var_iter_self v : In v (var_iter v).
Proof. left. reflexivity. Qed.

(* every variable of every probability term is listed by the default ordering *)
Lemma atoms_leveled_own : forall e S, incl (iter_variables e) S -> atoms_leveled (sorted_variables (dedup S)) e = true.
Proof.
  induction e as [pop ch pa|es IH|e rs IH|n d IHn IHd| | |dm cd|k] using expr_ind'; intros S HS; cbn [atoms_leveled]; try reflexivity.
  - assert (H : forall v, In v (ch ++ pa) -> has_level (sorted_variables (dedup S)) v = true).
    { intros v Hv. apply has_level_in. apply (proj2 (In_sorted_variables _ _)). apply (proj2 (In_dedup _ _)). apply HS.
      cbn [iter_variables]. apply in_flat_map. exists v. split; [exact Hv|apply var_iter_self]. }
    apply andb_true_iff. split; apply forallb_forall; intros v Hv; apply H; apply in_or_app; [left|right]; exact Hv.
  - apply forallb_forall. intros x Hx. rewrite Forall_forall in IH. apply IH; [exact Hx|].
    intros v Hv. apply HS. cbn [iter_variables]. apply in_flat_map. exists x. split; assumption.
  - apply IH. intros v Hv. apply HS. cbn [iter_variables]. apply in_or_app. left. exact Hv.
  - apply andb_true_iff. split; [apply IHn|apply IHd]; intros v Hv; apply HS; cbn [iter_variables]; apply in_or_app; [left|right]; exact Hv.
Qed.

(* canonicalize(canonicalize(e)) == canonicalize(e) with the default ordering *)
Theorem canonicalize_top_idempotent_default e :
  is_err (canonicalize_top false e None) = false ->
  canonicalize_top false (canonicalize_top false e None) None = canonicalize_top false e None.
Proof.
  intros Herr. unfold canonicalize_top in *. cbn [ensure_ordering] in *.
  set (o := sorted_variables (dedup (iter_variables e))) in *.
  set (c := canonicalize false o e) in *.
  set (o2 := sorted_variables (dedup (iter_variables c))).
  apply (nf_fixed o2). apply (NF_transfer o o2).
  - apply sorted_variables_by_name.
  - apply sorted_variables_by_name.
  - apply canonicalize_gives_nf; [apply sorted_variables_by_name|exact Herr].
  - apply atoms_leveled_own. intros v Hv. exact Hv.
Qed.
