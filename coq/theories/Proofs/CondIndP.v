From Coq Require Import List Bool Arith Lia.
From Y0 Require Import Base.ListSet Graph.MixedGraph Graph.DSep Graph.CondInd Proofs.SurgeryP.
Import ListNotations.

Section CondIndP.
  Context {A : Type} `{EqB A}.
  Notation mg := (mg A).

  Inductive sublist : list A -> list A -> Prop :=
  | sl_nil : forall l, sublist [] l
  | sl_cons : forall x s l, sublist s l -> sublist (x :: s) (x :: l)
  | sl_skip : forall x s l, sublist s l -> sublist s (x :: l).

  Lemma sublist_nil_r s : sublist s [] -> s = [].
  Proof. inversion 1; reflexivity. Qed.

  Lemma sublist_incl s l : sublist s l -> incl s l.
  Proof. induction 1; intros y Hy; simpl in *; [destruct Hy|destruct Hy; [left; auto|right; auto]|right; auto]. Qed.

  Lemma NoDup_incl_length_sublist (l s : list A) : sublist s l -> length s <= length l.
  Proof. induction 1; simpl; lia. Qed.

  Lemma combinations_spec (l : list A) : forall r c, In c (combinations l r) <-> sublist c l /\ length c = r.
  Proof.
    induction l as [|x t IH]; intros r c; simpl.
    - destruct r; simpl.
      + split; [intros [<-|[]]; split; [constructor|reflexivity]|].
        intros [Hs _]. apply sublist_nil_r in Hs. auto.
      + split; [intros []|]. intros [Hs Hl]. apply sublist_nil_r in Hs. subst. discriminate.
    - destruct r; simpl.
      + split; [intros [<-|[]]; split; [constructor|reflexivity]|].
        intros [_ Hl]. destruct c; [auto|discriminate].
      + rewrite in_app_iff, in_map_iff. split.
        * intros [[c' [<- Hc']]|Hc].
          -- apply IH in Hc'. destruct Hc' as [Hs Hl]. split; [constructor; exact Hs|simpl; lia].
          -- apply IH in Hc. destruct Hc as [Hs Hl]. split; [apply sl_skip; exact Hs|exact Hl].
        * intros [Hs Hl]. inversion Hs; subst.
          -- discriminate.
          -- left. exists s. split; [reflexivity|]. apply IH. simpl in Hl. split; [assumption|lia].
          -- right. apply IH. split; assumption.
  Qed.

  Lemma powerset_spec (l : list A) stop c : In c (powerset l stop) <-> sublist c l /\ length c < stop.
  Proof.
    unfold powerset. rewrite in_flat_map. split.
    - intros [r [Hr Hc]]. apply in_seq in Hr. apply combinations_spec in Hc. destruct Hc. split; [assumption|lia].
    - intros [Hs Hl]. exists (length c). split; [apply in_seq; lia|apply combinations_spec; auto].
  Qed.

  Lemma find_app {T} (p : T -> bool) l1 l2 :
    find p (l1 ++ l2) = match find p l1 with Some x => Some x | None => find p l2 end.
  Proof. induction l1 as [|a t IH]; simpl; [reflexivity|]. destruct (p a); [reflexivity|exact IH]. Qed.

  (* sizes are tried in ascending order: the first hit has minimum size *)
  Lemma find_powerset_min (p : list A -> bool) (l : list A) stop c :
    find p (powerset l stop) = Some c ->
    forall c', sublist c' l -> length c' < length c -> p c' = false.
  Proof.
    unfold powerset. induction stop as [|n IH]; intros Hf c' Hs Hl; [discriminate|].
    rewrite seq_S, flat_map_app, find_app in Hf. simpl in Hf. rewrite app_nil_r in Hf.
    destruct (find p (flat_map (combinations l) (seq 0 n))) eqn:E.
    - inversion Hf; subst. apply IH; auto.
    - apply find_some in Hf. destruct Hf as [Hin _]. apply combinations_spec in Hin. destruct Hin as [_ Hlen].
      eapply find_none in E; [exact E|]. apply in_flat_map. exists (length c'). split; [apply in_seq; lia|].
      apply combinations_spec. auto.
  Qed.

  Lemma In_rest_of vs a b x : In x (rest_of vs a b) <-> In x vs /\ x <> a /\ x <> b.
  Proof.
    unfold rest_of. rewrite filter_In, andb_true_iff, !negb_true_iff, !eqb_neq. tauto.
  Qed.

  Theorem first_separator_sound (g : mg) vs mc a b C :
    first_separator g vs mc a b = Some C ->
    sublist C (rest_of vs a b) /\ length C < stop_of mc (length (rest_of vs a b)) /\
    are_d_separated g a b C = DOk true /\
    (forall C', sublist C' (rest_of vs a b) -> length C' < length C -> are_d_separated g a b C' <> DOk true).
  Proof.
    unfold first_separator. intros Hf. pose proof (find_powerset_min _ _ _ _ Hf) as Hmin.
    apply find_some in Hf. destruct Hf as [Hin Hp]. apply powerset_spec in Hin. destruct Hin as [Hs Hl].
    split; [exact Hs|]. split; [exact Hl|]. split.
    - destruct (are_d_separated g a b C) as [[|]| |]; try discriminate; reflexivity.
    - intros C' Hs' Hl' F. specialize (Hmin C' Hs' Hl'). cbv beta in Hmin. rewrite F in Hmin. discriminate.
  Qed.

  Theorem first_separator_complete (g : mg) vs mc a b :
    (exists C', sublist C' (rest_of vs a b) /\ length C' < stop_of mc (length (rest_of vs a b)) /\
                are_d_separated g a b C' = DOk true) ->
    exists C, first_separator g vs mc a b = Some C.
  Proof.
    intros [C' [Hs [Hl Hd]]]. unfold first_separator.
    destruct (find _ _) eqn:E; [eexists; reflexivity|].
    eapply find_none in E; [|apply powerset_spec; split; eassumption]. rewrite Hd in E. discriminate.
  Qed.

  Theorem d_separations_spec (g : mg) vs mc a b C :
    In (a, b, C) (d_separations g vs mc) <-> In (a, b) (pairs vs) /\ first_separator g vs mc a b = Some C.
  Proof.
    unfold d_separations. rewrite in_flat_map. split.
    - intros [[a' b'] [Hp Hin]]. simpl in Hin. destruct (first_separator g vs mc a' b') eqn:E; [|destruct Hin].
      destruct Hin as [Heq|[]]. inversion Heq; subst. auto.
    - intros [Hp Hf]. exists (a, b). split; [exact Hp|]. simpl. rewrite Hf. left. reflexivity.
  Qed.

  (* every unordered pair of a duplicate-free vertex list is visited exactly once *)
  Lemma NoDup_app_intro {T} (l1 l2 : list T) :
    NoDup l1 -> NoDup l2 -> (forall x, In x l1 -> ~ In x l2) -> NoDup (l1 ++ l2).
  Proof.
    induction 1 as [|a t Ha Ht IH]; intros H2 Hd; simpl; [exact H2|]. constructor.
    - rewrite in_app_iff. intros [F|F]; [contradiction|]. apply (Hd a); [left; reflexivity|exact F].
    - apply IH; [exact H2|]. intros x Hx. apply Hd. right. exact Hx.
  Qed.

  Lemma NoDup_pairs (l : list A) : NoDup l -> NoDup (pairs l).
  Proof.
    induction 1 as [|x t Hx Ht IH]; simpl; [constructor|]. apply NoDup_app_intro; [|exact IH|].
    - clear -Ht. induction Ht as [|y t Hy Ht IH]; simpl; constructor; [|exact IH].
      rewrite in_map_iff. intros [z [E Hz]]. inversion E; subst. contradiction.
    - intros [a b] Hin Hin2. apply in_map_iff in Hin. destruct Hin as [z [E Hz]]. inversion E; subst.
      apply In_pairs in Hin2. tauto.
  Qed.

  Lemma pairs_unordered_unique (l : list A) a b : NoDup l -> In (a, b) (pairs l) -> ~ In (b, a) (pairs l).
  Proof.
    induction 1 as [|x t Hx Ht IH]; simpl; [tauto|]. rewrite !in_app_iff, !in_map_iff.
    intros [[z [E Hz]]|Hp] [[z' [E' Hz']]|Hp'].
    - inversion E; inversion E'; subst. contradiction.
    - inversion E; subst. apply In_pairs in Hp'. tauto.
    - inversion E'; subst. apply In_pairs in Hp. tauto.
    - apply IH; assumption.
  Qed.

  Lemma pairs_distinct (l : list A) a b : NoDup l -> In (a, b) (pairs l) -> a <> b.
  Proof.
    induction 1 as [|x t Hx Ht IH]; simpl; [tauto|]. rewrite in_app_iff, in_map_iff.
    intros [[z [E Hz]]|Hp]; [inversion E; subst; intros ->; contradiction|auto].
  Qed.

  (* at most one judgement per unordered pair *)
  Theorem d_separations_one_per_pair (g : mg) vs mc :
    NoDup vs ->
    NoDup (map fst (d_separations g vs mc)) /\
    (forall a b C C', In (a, b, C) (d_separations g vs mc) -> ~ In (b, a, C') (d_separations g vs mc)).
  Proof.
    intros Hn. split.
    - unfold d_separations. pose proof (NoDup_pairs vs Hn) as Hp. revert Hp. generalize (pairs vs) as ps.
      induction ps as [|p t IH]; intros Hp; simpl; [constructor|]. inversion Hp as [|? ? Hnp Ht]; subst.
      destruct (first_separator g vs mc (fst p) (snd p)); simpl; [|apply IH; exact Ht]. constructor; [|apply IH; exact Ht].
      rewrite in_map_iff. intros [[[a b] C] [E Hin]]. simpl in E. apply in_flat_map in Hin.
      destruct Hin as [q [Hq Hin]]. destruct (first_separator g vs mc (fst q) (snd q)); [|destruct Hin].
      destruct Hin as [E2|[]]. destruct q as [q1 q2], p as [p1 p2]; simpl in *. inversion E2; subst. inversion E; subst. contradiction.
    - intros a b C C' H1 H2. apply d_separations_spec in H1. apply d_separations_spec in H2.
      destruct H1 as [H1 _]. destruct H2 as [H2 _]. eapply pairs_unordered_unique; eassumption.
  Qed.
End CondIndP.
