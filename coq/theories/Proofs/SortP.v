(* Stable insertion sort: permutation, sortedness, idempotence, and uniqueness of the result under a
   strict total order (used by C11: Product.safe / canonical variable order). *)
From Coq Require Import List Bool Arith Lia Permutation Sorted.
From Y0 Require Import Base.ListSet.
Import ListNotations.

Section SortP.
  Context {A : Type}.
  Variable lt : A -> A -> bool.

  Lemma insert_sorted_perm x l : Permutation (x :: l) (insert_sorted lt x l).
  Proof.
    induction l as [|y t IH]; simpl; [apply Permutation_refl|].
    destruct (lt x y); [apply Permutation_refl|].
    eapply Permutation_trans; [apply perm_swap|]. apply perm_skip. exact IH.
  Qed.

  Lemma fold_insert_perm l : forall acc, Permutation (acc ++ l) (fold_left (fun a x => insert_sorted lt x a) l acc).
  Proof.
    induction l as [|x t IH]; intros acc; simpl; [rewrite app_nil_r; apply Permutation_refl|].
    eapply Permutation_trans; [|apply IH].
    eapply Permutation_trans; [apply Permutation_sym; apply Permutation_middle|].
    change (Permutation ((x :: acc) ++ t) (insert_sorted lt x acc ++ t)).
    apply Permutation_app_tail. apply insert_sorted_perm.
  Qed.

  Theorem stable_sort_perm l : Permutation l (stable_sort lt l).
  Proof. unfold stable_sort. apply (fold_insert_perm l []). Qed.

  (* y may stand before x *)
  Definition nafter (y x : A) : Prop := lt x y = false.
  Definition sorted (l : list A) : Prop := StronglySorted nafter l.

  (* inserting an element that no member precedes appends it *)
  Lemma insert_at_end x l : (forall y, In y l -> lt x y = false) -> insert_sorted lt x l = l ++ [x].
  Proof.
    induction l as [|y t IH]; intros Hall; simpl; [reflexivity|].
    rewrite (Hall y (or_introl eq_refl)). f_equal. apply IH. intros z Hz. apply Hall. right. exact Hz.
  Qed.

  Lemma fold_insert_sorted_id l : forall acc,
    sorted (acc ++ l) -> fold_left (fun a x => insert_sorted lt x a) l acc = acc ++ l.
  Proof.
    induction l as [|x t IH]; intros acc Hs; simpl; [rewrite app_nil_r; reflexivity|].
    rewrite insert_at_end.
    - rewrite IH; [rewrite <- app_assoc; reflexivity|]. rewrite <- app_assoc. exact Hs.
    - intros y Hy. clear IH. induction acc as [|a acc IHa]; [destruct Hy|].
      simpl in Hs. inversion Hs as [|? ? Hs' Hall]; subst. destruct Hy as [->|Hy].
      + rewrite Forall_forall in Hall. apply Hall. apply in_app_iff. right. left. reflexivity.
      + apply IHa; assumption.
  Qed.

  (* sorting an already sorted list returns it unchanged - no assumption on [lt] *)
  Theorem stable_sort_sorted_id l : sorted l -> stable_sort lt l = l.
  Proof. intros Hs. unfold stable_sort. apply (fold_insert_sorted_id l []). exact Hs. Qed.

  Hypothesis lt_irrefl : forall a, lt a a = false.
  Hypothesis lt_trans : forall a b c, lt a b = true -> lt b c = true -> lt a c = true.

  Lemma insert_sorted_sorted x l : sorted l -> sorted (insert_sorted lt x l).
  Proof.
    induction 1 as [|y t Ht IH Hall]; simpl; [constructor; constructor|].
    destruct (lt x y) eqn:E.
    - constructor; [constructor; assumption|]. constructor.
      + unfold nafter. destruct (lt y x) eqn:E2; [|reflexivity].
        pose proof (lt_trans _ _ _ E E2) as Hxx. rewrite lt_irrefl in Hxx. discriminate.
      + rewrite Forall_forall in *. intros w Hw. specialize (Hall w Hw). unfold nafter in *.
        destruct (lt w x) eqn:E3; [|reflexivity]. pose proof (lt_trans _ _ _ E3 E). congruence.
    - constructor; [exact IH|]. rewrite Forall_forall in *. intros w Hw.
      apply (Permutation_in _ (Permutation_sym (insert_sorted_perm x t))) in Hw. destruct Hw as [<-|Hw]; [exact E|auto].
  Qed.

  Lemma fold_insert_sorted l : forall acc, sorted acc -> sorted (fold_left (fun a x => insert_sorted lt x a) l acc).
  Proof. induction l as [|x t IH]; intros acc Hs; simpl; [exact Hs|]. apply IH. apply insert_sorted_sorted. exact Hs. Qed.

  Theorem stable_sort_sorted l : sorted (stable_sort lt l).
  Proof. unfold stable_sort. apply fold_insert_sorted. constructor. Qed.

  Theorem stable_sort_idempotent l : stable_sort lt (stable_sort lt l) = stable_sort lt l.
  Proof. apply stable_sort_sorted_id. apply stable_sort_sorted. Qed.

  (* when no two distinct members tie, the sorted arrangement of a multiset is unique *)
  Lemma sorted_perm_unique l1 : forall l2,
    (forall a b, In a l1 -> In b l1 -> lt a b = false -> lt b a = false -> a = b) ->
    sorted l1 -> sorted l2 -> Permutation l1 l2 -> l1 = l2.
  Proof.
    induction l1 as [|a t IH]; intros l2 Htot H1 H2 Hp.
    - apply Permutation_nil in Hp. subst. reflexivity.
    - destruct l2 as [|b u]; [apply Permutation_sym, Permutation_nil in Hp; discriminate|].
      inversion H1 as [|? ? Ht Hall1]; subst. inversion H2 as [|? ? Hu Hall2]; subst.
      rewrite Forall_forall in Hall1, Hall2.
      assert (Hab : a = b).
      { assert (Hb : In b (a :: t)) by (apply (Permutation_in _ (Permutation_sym Hp)); left; reflexivity).
        assert (Ha : In a (b :: u)) by (apply (Permutation_in _ Hp); left; reflexivity).
        destruct Hb as [E|Hb]; [exact E|]. destruct Ha as [E|Ha]; [symmetry; exact E|].
        apply Htot; [left; reflexivity|right; exact Hb| |].
        - apply Hall2 in Ha. exact Ha.
        - apply Hall1 in Hb. exact Hb. }
      subst b. f_equal. apply IH; [|exact Ht|exact Hu|eapply Permutation_cons_inv; exact Hp].
      intros x y Hx Hy. apply Htot; right; assumption.
  Qed.

  Theorem stable_sort_perm_invariant l l' :
    (forall a b, In a l -> In b l -> lt a b = false -> lt b a = false -> a = b) ->
    Permutation l l' -> stable_sort lt l = stable_sort lt l'.
  Proof.
    intros Htot Hp. apply sorted_perm_unique; try apply stable_sort_sorted.
    - intros a b Ha Hb. apply Htot; eapply Permutation_in; try (apply Permutation_sym; apply stable_sort_perm); assumption.
    - eapply Permutation_trans; [apply Permutation_sym; apply stable_sort_perm|].
      eapply Permutation_trans; [exact Hp|apply stable_sort_perm].
  Qed.
End SortP.
