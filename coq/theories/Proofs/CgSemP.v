(* C18, semantic clause: make-cg merges two copies of a variable only when they take the same value wherever the (lower part of the) event
   holds; the relabelled event is true at exactly the exogenous states at which the original is. Part 1: values of graph nodes, the invariant,
   and the merge-equality lemma (Lemma 24 of Shpitser & Pearl for the implemented predicates). *)
From Coq Require Import List Bool Arith Lia Permutation.
From Y0 Require Import Base.ListSet Graph.Closure Graph.MixedGraph Dsl.Syntax Dsl.Text Dsl.Build Alg.Cg
  Proofs.ClosureP Proofs.SurgeryP Proofs.SortP Sem.Scm Sem.CfSem Proofs.ScmP.
Import ListNotations.

Lemma unique_name {T} (l : list (nat * T)) i j : NoDup (map fst l) -> In i l -> In j l -> fst i = fst j -> i = j.
Proof.
  induction l as [|a t IH]; intros Hn Hi Hj E; [destruct Hi|]. cbn [map] in Hn. inversion Hn as [|? ? Ha Ht]; subst.
  destruct Hi as [<-|Hi], Hj as [<-|Hj]; [reflexivity| | |apply IH; assumption].
  - exfalso. apply Ha. rewrite E. apply in_map. exact Hj.
  - exfalso. apply Ha. rewrite <- E. apply in_map. exact Hi.
Qed.

Lemma zip_all_pair {T} (r : T -> T -> bool) : forall l1 l2, length l1 = length l2 -> zip_all r l1 l2 = true ->
  forall x, In x l1 -> exists y, In y l2 /\ r x y = true.
Proof.
  induction l1 as [|a t IH]; intros [|b t2] Hl Hz x Hx; try destruct Hx; cbn [length] in Hl; try discriminate.
  - cbn [zip_all] in Hz. apply andb_true_iff in Hz. destruct Hz as [Hab _]. subst. exists b. split; [left; reflexivity|exact Hab].
  - cbn [zip_all] in Hz. apply andb_true_iff in Hz. destruct Hz as [_ Hz]. destruct (IH t2 ltac:(lia) Hz x H) as [y [Hy Hr]]. exists y. split; [right; exact Hy|exact Hr].
Qed.

Definition clean (n : var) : Prop := NoDup (map fst (var_ivs n)).

Section CgSem.
  Variable g0 : mg nat.
  Context {D : Type} {eqD : EqB D}.
  Variable U : Type.
  Variable f : nat -> (nat -> D) -> U -> D.
  Variable rho : nat * bool -> D.
  Hypothesis f_local : local g0 U f.
  Variable order : list nat.
  Hypothesis order_ok : is_topo g0 order = true.
  Variable u : U.

  Definition sol (ivs : list (nat * bool)) : nat -> D := solve U f rho order ivs u.
  Definition val (n : var) : D := value U f rho order n u.
  Definition holds (p : var * (nat * bool)) : Prop := val (fst p) = lit rho (snd p).

  Lemma entry_true_holds p : entry_true U f rho order u p = true <-> holds p.
  Proof. unfold entry_true, holds, val. split; [apply eqb_true|intros ->; apply eqb_refl]. Qed.

  Lemma event_true_holds ev : event_true U f rho order ev u = true <-> forall p, In p ev -> holds p.
  Proof. unfold event_true. rewrite forallb_forall. split; intros H p Hp; apply entry_true_holds; apply H; exact Hp. Qed.

  Lemma sol_eq ivs v : In v (nodes g0) -> sol ivs v = match do_value rho ivs v with Some b => b | None => f v (sol ivs) u end.
  Proof. intros Hv. exact (solution_exists g0 U f rho f_local order order_ok ivs u v Hv). Qed.

  Definition pos (v : nat) : nat := match index_of v order with Some i => i | None => length order end.

  Lemma pos_parent p v : In p (parents g0 v) -> pos p < pos v.
  Proof.
    intros Hp. apply In_parents in Hp. destruct (proj1 (is_topo_spec g0 order) order_ok) as [_ [_ Hfw]].
    destruct (Hfw _ _ Hp) as [i [j [Ei [Ej Hlt]]]]. unfold pos. rewrite Ei, Ej. exact Hlt.
  Qed.

  Lemma parent_node p v : In p (parents g0 v) -> In p (nodes g0).
  Proof.
    intros Hp. apply In_parents in Hp. destruct (proj1 (is_topo_spec g0 order) order_ok) as [_ [Heq Hfw]].
    destruct (Hfw _ _ Hp) as [i [j [Ei _]]]. apply Heq. clear - Ei. revert i Ei. induction order as [|x t IH]; intros i Ei; [discriminate|].
    cbn [index_of] in Ei. destruct (eqb x p) eqn:E; [left; apply (proj1 (eqb_eq _ _)); exact E|]. right. destruct (index_of p t) as [k|]; [|discriminate]. apply (IH k). reflexivity.
  Qed.

  (* the part of an event that concerns variables standing before position k *)
  Definition low (k : nat) (ev : event) : Prop := forall p, In p ev -> pos (vn (fst p)) < k -> holds p.

  Lemma low_mono j k ev : j <= k -> low k ev -> low j ev.
  Proof. intros Hjk H p Hp Hlt. apply H; [exact Hp|lia]. Qed.

  (* ------------------------------------------------------------ values of self-intervened and of free nodes *)
  Lemma self_iv_entry n : is_not_self_intervened n = false -> exists s, In (vn n, s) (var_ivs n).
  Proof.
    unfold is_not_self_intervened, var_ivs. destruct (is_cf n); cbn [negb orb]; [|discriminate]. intros H.
    apply andb_false_iff in H. destruct H as [H|H]; apply negb_false_iff in H; apply mem_In in H; eauto.
  Qed.

  Lemma val_self n s : clean n -> In (vn n) (nodes g0) -> In (vn n, s) (var_ivs n) -> val n = lit rho (vn n, s).
  Proof.
    intros Hc Hv Hin. unfold val, value. fold (sol (var_ivs n)). rewrite (sol_eq _ _ Hv). unfold do_value.
    destruct (find (fun i => Nat.eqb (fst i) (vn n)) (var_ivs n)) as [i|] eqn:Ef.
    - apply find_some in Ef. destruct Ef as [Hi Ei]. apply Nat.eqb_eq in Ei. cbn [option_map]. f_equal.
      apply (unique_name (var_ivs n) i (vn n, s) Hc Hi Hin). exact Ei.
    - pose proof (find_none _ _ Ef _ Hin) as Hn. cbn in Hn. rewrite Nat.eqb_refl in Hn. discriminate.
  Qed.

  Lemma val_free n : is_not_self_intervened n = true -> In (vn n) (nodes g0) -> val n = f (vn n) (sol (var_ivs n)) u.
  Proof.
    intros Hf Hv. unfold val, value. fold (sol (var_ivs n)). rewrite (sol_eq _ _ Hv). unfold do_value.
    destruct (find (fun i => Nat.eqb (fst i) (vn n)) (var_ivs n)) as [i|] eqn:Ef; [|reflexivity]. exfalso.
    apply find_some in Ef. destruct Ef as [Hi Ei]. apply Nat.eqb_eq in Ei. unfold is_not_self_intervened, var_ivs in *.
    destruct (is_cf n); [|destruct Hi]. cbn [negb orb] in Hf. apply andb_true_iff in Hf. destruct Hf as [H1 H2].
    apply negb_true_iff in H1, H2. apply mem_false in H1, H2. destruct i as [a [|]]; cbn [fst] in Ei; subst a; contradiction.
  Qed.

  (* ------------------------------------------------------------ the invariant of the merging loop *)
  Variable worlds : list world.

  Definition good_node (n : var) : Prop :=
    In (vn n) (nodes g0) /\ clean n /\ (n = V (vn n) \/ exists w, In w worlds /\ n = at_world (V (vn n)) w).

  Definition uniq (g : cgraph) : Prop := forall q q' n, In (q, n) (dir g) -> In (q', n) (dir g) -> vn q = vn q' -> q = q'.

  Definition parent_ok (g : cgraph) (ev : event) : Prop :=
    forall n, In n (nodes g) -> is_not_self_intervened n = true -> forall p, In p (parents g0 (vn n)) -> low (pos (vn n)) ev ->
      exists q, In (q, n) (dir g) /\ vn q = p /\ val q = sol (var_ivs n) p.

  Definition wnamed (ev : event) : Prop := forall p, In p ev -> fst (snd p) = vn (fst p).

  Record Inv (g : cgraph) (ev : event) : Prop := {
    inv_wf : forall a b, In (a, b) (dir g) -> In a (nodes g) /\ In b (nodes g);
    inv_nodes : forall n, In n (nodes g) -> good_node n;
    inv_uniq : uniq g;
    inv_parents : parent_ok g ev;
    inv_named : wnamed ev;
    inv_keys : NoDup (map fst ev) }.

  Lemma ev_get_In ev n x : ev_get ev n = Some x -> In (n, x) ev.
  Proof.
    unfold ev_get. destruct (find (fun p => eqb (fst p) n) ev) as [[m y]|] eqn:Ef; cbn [option_map]; [|discriminate]. intros E. inversion E; subst.
    apply find_some in Ef. destruct Ef as [Hin Em]. cbn [fst] in Em. apply eqb_true in Em. subst. exact Hin.
  Qed.

  Lemma In_ev_get ev n x : NoDup (map fst ev) -> In (n, x) ev -> ev_get ev n = Some x.
  Proof.
    intros Hk Hin. unfold ev_get. destruct (find (fun p => eqb (fst p) n) ev) as [[m y]|] eqn:Ef; cbn [option_map].
    - apply find_some in Ef. destruct Ef as [Hin' Em]. cbn [fst] in Em. apply eqb_true in Em. subst m. f_equal.
      assert (Hmap : forall (l : list (var * (nat * bool))) a b c, NoDup (map fst l) -> In (a, b) l -> In (a, c) l -> b = c).
      { clear. induction l as [|h t IH]; intros a b c Hn Hb Hc; [destruct Hb|]. cbn [map] in Hn. inversion Hn as [|? ? Hh Ht]; subst.
        destruct Hb as [->|Hb], Hc as [Ec|Hc]; [inversion Ec; reflexivity| | |eapply IH; eassumption].
        - exfalso. apply Hh. cbn [fst]. change a with (fst (a, c)). apply in_map. exact Hc.
        - exfalso. apply Hh. subst h. cbn [fst]. change a with (fst (a, b)). apply in_map. exact Hb. }
      symmetry. apply (Hmap ev n x y Hk Hin Hin').
    - pose proof (find_none _ _ Ef _ Hin) as Hn. cbn [fst] in Hn. rewrite eqb_refl in Hn. discriminate.
  Qed.

  (* ------------------------------------------------------------ Lemma 24: nodes / parents attain the same values *)
  Lemma attain_same_value g ev qa qb k :
    Inv g ev -> In qa (nodes g) -> In qb (nodes g) -> pos (vn qa) < k -> low k ev ->
    nodes_attain_same_value g ev qa qb = true -> val qa = val qb.
  Proof.
    intros I Ha Hb Hk Hlow H. unfold nodes_attain_same_value in H. destruct (eqb qa qb) eqn:Eab; [apply eqb_true in Eab; subst; reflexivity|].
    destruct (has_same_confounders g qa qb); cbn [negb] in H; [|discriminate].
    destruct (eqb (base qa) (base qb)) eqn:Eb; cbn [negb] in H; [|discriminate]. apply eqb_true in Eb. unfold base in Eb. injection Eb as Eb.
    destruct (inv_nodes g ev I qa Ha) as [Hna [Hca _]]. destruct (inv_nodes g ev I qb Hb) as [Hnb [Hcb _]].
    destruct (ev_get ev qa) as [x|] eqn:Ea, (ev_get ev qb) as [y|] eqn:Ey.
    - apply eqb_true in H. subst y. apply ev_get_In in Ea, Ey. pose proof (Hlow _ Ea Hk) as H1. assert (Hk' : pos (vn (fst (qb, x))) < k) by (cbn [fst]; rewrite <- Eb; exact Hk).
      pose proof (Hlow _ Ey Hk') as H2. unfold holds in H1, H2. cbn [fst snd] in H1, H2. congruence.
    - apply andb_true_iff in H. destruct H as [Hcf Hx]. apply mem_In in Hx. apply ev_get_In in Ea. pose proof (Hlow _ Ea Hk) as H1. unfold holds in H1. cbn [fst snd] in H1.
      pose proof (inv_named g ev I _ Ea) as Hw. cbn [fst snd] in Hw. destruct x as [xn xs]. cbn [fst] in Hw. subst xn.
      rewrite H1. symmetry. rewrite Eb. apply val_self; [exact Hcb|exact Hnb|]. unfold var_ivs. rewrite Hcf. rewrite <- Eb. exact Hx.
    - apply andb_true_iff in H. destruct H as [Hcf Hx]. apply mem_In in Hx. apply ev_get_In in Ey. assert (Hk' : pos (vn (fst (qb, y))) < k) by (cbn [fst]; rewrite <- Eb; exact Hk).
      pose proof (Hlow _ Ey Hk') as H2. unfold holds in H2. cbn [fst snd] in H2.
      pose proof (inv_named g ev I _ Ey) as Hw. cbn [fst snd] in Hw. destruct y as [yn ys]. cbn [fst] in Hw. subst yn.
      rewrite H2. rewrite <- Eb. apply val_self; [exact Hca|exact Hna|]. unfold var_ivs. rewrite Hcf. rewrite Eb. exact Hx.
    - apply negb_true_iff in H. apply orb_false_iff in H. destruct H as [H1 H2]. unfold val, value, var_ivs. rewrite H1, H2, Eb. reflexivity.
  Qed.

  Lemma In_cparents g q n : In q (cparents g n) <-> In (q, n) (dir g).
  Proof. unfold cparents. rewrite In_dedup. apply In_parents. Qed.

  Lemma parents_same_values g ev a b :
    Inv g ev -> In a (nodes g) -> In b (nodes g) -> vn a = vn b ->
    is_not_self_intervened a = true -> is_not_self_intervened b = true ->
    low (pos (vn a)) ev -> parents_attain_same_values g ev a b = true ->
    forall p, In p (parents g0 (vn a)) -> sol (var_ivs a) p = sol (var_ivs b) p.
  Proof.
    intros I Ha Hb Eab Fa Fb Hlow H p Hp.
    destruct (inv_parents g ev I a Ha Fa p Hp Hlow) as [qa [Hqa [Eqa Vqa]]].
    assert (Hp' : In p (parents g0 (vn b))) by (rewrite <- Eab; exact Hp).
    assert (Hlow' : low (pos (vn b)) ev) by (rewrite <- Eab; exact Hlow).
    destruct (inv_parents g ev I b Hb Fb p Hp' Hlow') as [qb [Hqb [Eqb Vqb]]].
    rewrite <- Vqa, <- Vqb. unfold parents_attain_same_values in H. destruct (has_same_confounders g a b); cbn [negb] in H; [|discriminate].
    (* if the parent of a is also a parent of b it IS b's parent of that name *)
    assert (Hshared : In (qa, b) (dir g) -> val qa = val qb).
    { intros Hin. rewrite (inv_uniq g ev I qa qb b Hin Hqb); [reflexivity|congruence]. }
    destruct (set_eqb (cparents g a) (cparents g b)) eqn:Es.
    - apply set_eqb_equiv in Es. apply Hshared. apply In_cparents. apply Es. apply In_cparents. exact Hqa.
    - destruct (Nat.eqb (length (diff (cparents g a) (cparents g b))) (length (diff (cparents g b) (cparents g a)))) eqn:El; cbn [negb] in H; [|discriminate].
      apply Nat.eqb_eq in El. destruct (mem qa (cparents g b)) eqn:Em.
      + apply mem_In in Em. apply Hshared. apply In_cparents. exact Em.
      + apply mem_false in Em. set (ra := diff (cparents g a) (cparents g b)) in *. set (rb := diff (cparents g b) (cparents g a)) in *.
        assert (Hra : In qa (by_base ra)).
        { unfold by_base. eapply Permutation_in; [apply stable_sort_perm|]. apply In_diff. split; [apply In_cparents; exact Hqa|exact Em]. }
        assert (Hlen : length (by_base ra) = length (by_base rb)).
        { unfold by_base. rewrite <- (Permutation_length (stable_sort_perm _ ra)), <- (Permutation_length (stable_sort_perm _ rb)). exact El. }
        destruct (zip_all_pair _ _ _ Hlen H qa Hra) as [y [Hy Hr]].
        assert (Hy' : In y rb) by (unfold by_base in Hy; eapply Permutation_in; [apply Permutation_sym; apply stable_sort_perm|exact Hy]).
        apply In_diff in Hy'. destruct Hy' as [Hyb Hya]. apply In_cparents in Hyb.
        assert (Ey : y = qb).
        { apply (inv_uniq g ev I y qb b Hyb Hqb). unfold nodes_attain_same_value in Hr. destruct (eqb qa y) eqn:E1.
          - apply eqb_true in E1. subst y. exfalso. apply Em. apply In_cparents. exact Hyb.
          - destruct (has_same_confounders g qa y); cbn [negb] in Hr; [|discriminate]. destruct (eqb (base qa) (base y)) eqn:E2; cbn [negb] in Hr; [|discriminate].
            apply eqb_true in E2. unfold base in E2. injection E2 as E2. congruence. }
        subst y. apply (attain_same_value g ev qa qb (pos (vn a)) I).
        * apply (inv_wf g ev I _ _ Hqa).
        * apply (inv_wf g ev I _ _ Hqb).
        * rewrite Eqa. apply pos_parent. exact Hp.
        * exact Hlow.
        * exact Hr.
  Qed.

  Lemma self_value_spec n x : clean n -> value_of_self_intervention n = Some x -> In x (var_ivs n) /\ fst x = vn n.
  Proof.
    unfold value_of_self_intervention, var_ivs. destruct (is_cf n); cbn [negb]; [|discriminate]. intros _.
    destruct (mem (vn n, true) (vi n)) eqn:E1; [intros E; inversion E; subst; split; [apply mem_In; exact E1|reflexivity]|].
    destruct (mem (vn n, false) (vi n)) eqn:E2; [intros E; inversion E; subst; split; [apply mem_In; exact E2|reflexivity]|discriminate].
  Qed.

  Lemma self_value_some n : is_not_self_intervened n = false -> exists x, value_of_self_intervention n = Some x.
  Proof.
    unfold is_not_self_intervened, value_of_self_intervention. destruct (is_cf n); cbn [negb orb]; [|discriminate]. intros H.
    destruct (mem (vn n, true) (vi n)); [eauto|]. destruct (mem (vn n, false) (vi n)); [eauto|discriminate].
  Qed.

  (* two nodes that pass the Lemma-24 test take the same value wherever the event holds of the variables standing before them *)
  Theorem merge_equality g ev a b :
    Inv g ev -> lemma_24_holds g ev a b = true -> low (pos (vn a)) ev -> vn a = vn b /\ val a = val b.
  Proof.
    intros I H Hlow. unfold lemma_24_holds in H. rewrite !andb_true_iff in H. destruct H as [[Ha Hb] H]. apply mem_In in Ha, Hb.
    unfold is_pw_equivalent in H. rewrite !andb_true_iff in H. destruct H as [[Hf Hp] Hd].
    unfold has_same_function in Hf. apply andb_true_iff in Hf. destruct Hf as [Hbase Hsi]. apply eqb_true in Hbase. unfold base in Hbase. injection Hbase as Eab.
    apply eqb_prop in Hsi. split; [exact Eab|].
    destruct (inv_nodes g ev I a Ha) as [Hna [Hca _]]. destruct (inv_nodes g ev I b Hb) as [Hnb [Hcb _]].
    destruct (is_not_self_intervened a) eqn:Fa.
    - symmetry in Hsi. rewrite (val_free a Fa Hna), (val_free b Hsi Hnb), <- Eab. apply f_local. intros p Hp'.
      apply (parents_same_values g ev a b I Ha Hb Eab Fa Hsi Hlow Hp p Hp').
    - symmetry in Hsi. unfold nodes_have_same_domain_of_values in Hd. destruct (has_same_confounders g a b); cbn [negb] in Hd; [|discriminate].
      destruct (eqb (base a) (base b)); cbn [negb] in Hd; [|discriminate]. rewrite Fa, Hsi in Hd. cbn [andb orb] in Hd. apply eqb_true in Hd.
      destruct (self_value_some a Fa) as [x Hx]. rewrite Hx in Hd. symmetry in Hd.
      destruct (self_value_spec a x Hca Hx) as [Hia Ena]. destruct (self_value_spec b x Hcb Hd) as [Hib Enb]. destruct x as [xn xs]. cbn [fst] in Ena, Enb.
      rewrite (val_self a xs Hca Hna); [|rewrite <- Ena; exact Hia]. rewrite (val_self b xs Hcb Hnb); [|rewrite <- Enb; exact Hib]. rewrite Eab. reflexivity.
  Qed.
End CgSem.
