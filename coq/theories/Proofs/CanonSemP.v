(* C10: canonicalisation preserves the meaning. For every lawful model (Dsl/Laws.v), every ordering and every
   well-formed expression whose canonical form is not an error value, the canonical form evaluates to the same number
   as the original in every environment. Well-formed: probability terms over simple variables with distinct names,
   sums over distinct bare variables, no Zero, no Q factor (which canonicalize rejects). *)
From Coq Require Import List Bool Arith QArith Permutation Lia.
From Y0 Require Import Base.ListSet Graph.MixedGraph Dsl.Syntax Dsl.Text Dsl.Build Dsl.Canon Dsl.Sem Dsl.Laws
  Proofs.SortP Proofs.ExprP Proofs.SurgeryP Proofs.SemP Proofs.LawP Proofs.AtomsP Proofs.SumSimpP.
Import ListNotations.
Open Scope Q_scope.

(* sums range over distinct variables *)
Fixpoint sums_nodup (e : expr) : bool :=
  match e with
  | EProd es => forallb sums_nodup es
  | ESum e' rs => sums_nodup e' && nodupb rs
  | EFrac n d => sums_nodup n && sums_nodup d
  | _ => true
  end.

Definition wfe (e : expr) : bool := okp e && nz e && sums_nodup e.

Lemma qsum_pos {T} (f : T -> Q) l : l <> [] -> (forall x, In x l -> 0 < f x) -> 0 < qsum (map f l).
Proof.
  intros Hne Hp. destruct l as [|a t]; [congruence|]. clear Hne. revert a Hp. induction t as [|b t IH]; intros a Hp; cbn [map qsum fold_right].
  - rewrite Qplus_0_r. apply Hp. left. reflexivity.
  - apply (Qlt_le_trans _ (f a + 0)); [rewrite Qplus_0_r; apply Hp; left; reflexivity|].
    apply Qplus_le_r. apply Qlt_le_weak. apply (IH b). intros x Hx. apply Hp. right. exact Hx.
Qed.

Section CanonSem.
  Variable m : model.
  Hypothesis Hlaw : lawful m.

  Lemma sum_over_pos ns : forall f r, (forall r', 0 < f r') -> 0 < sum_over m ns f r.
  Proof.
    induction ns as [|n t IH]; intros f r Hf; cbn [sum_over]; [apply Hf|].
    apply qsum_pos; [apply (law_dom m Hlaw)|]. intros x _. apply IH. exact Hf.
  Qed.

  Lemma eval_pos : forall e, okp e = true -> nz e = true -> forall r, 0 < eval m e r.
  Proof.
    induction e as [pop ch pa|es IH|e rs IH|n d IHn IHd| | |dm cd|k] using expr_ind'; intros Hok Hnz r; unfold okp in *; cbn [eval all_atoms nz] in *; try discriminate.
    - apply (law_pos m Hlaw).
    - induction IH as [|x t Hx Ht IHt]; [reflexivity|]. cbn [forallb] in Hok, Hnz.
      apply andb_true_iff in Hok. apply andb_true_iff in Hnz. destruct Hok as [H1 H2]. destruct Hnz as [H3 H4].
      apply Qmult_lt_0_compat; [apply Hx; assumption|apply IHt; assumption].
    - apply andb_true_iff in Hok. destruct Hok as [H1 _]. apply sum_over_pos. intros r'. apply IH; assumption.
    - apply andb_true_iff in Hok. apply andb_true_iff in Hnz. destruct Hok as [H1 H2]. destruct Hnz as [H3 H4].
      unfold Qdiv. apply Qmult_lt_0_compat; [apply IHn; assumption|apply Qinv_lt_0_compat; apply IHd; assumption].
    - reflexivity.
  Qed.

  Lemma sum_raw_plain c rs' : is_err c = false -> rs' <> [] -> existsb bad_range rs' = false -> sum_raw c rs' = ESum c rs'.
  Proof. intros H1 H2 H3. unfold sum_raw. rewrite H1, H3. destruct rs'; [congruence|reflexivity]. Qed.

  (* Sum.safe with simplification *)
  Lemma eval_sum_safe_simplify c rs r :
    okp c = true -> forallb plain rs = true ->
    is_err (sum_safe_gen false c rs true) = false ->
    eval m (sum_safe_gen false c rs true) r == sum_over m (names (upgrade_ordering rs)) (eval m c) r.
  Proof.
    intros Hc Hrs Hne. unfold sum_safe_gen in *.
    assert (Hce : is_err c = false) by (destruct c; try reflexivity; discriminate). rewrite Hce in *.
    pose proof (forallb_upgrade' plain rs Hrs) as Hup.
    assert (Hndup : NoDup (upgrade_ordering rs)).
    { unfold upgrade_ordering, sorted_variables. eapply Permutation_NoDup; [apply stable_sort_perm|apply NoDup_dedup]. }
    pose proof (no_bad plain plain_not_bad _ Hup) as Hnb.
    destruct (upgrade_ordering rs) as [|x t] eqn:Eu; [reflexivity|].
    destruct (is_zero c) eqn:Ez.
    { rewrite (sum_over_ext _ _ (eval m c) (fun _ => 0)); [rewrite sum_over_zero; apply eval_zero; exact Ez|]. intros r'. apply eval_zero. exact Ez. }
    rewrite Hnb in *.
    assert (Hraw : sum_raw c (x :: t) = ESum c (x :: t)) by (apply sum_raw_plain; [exact Hce|discriminate|exact Hnb]).
    destruct c as [pop ch pa| | | | | | |]; try (cbn [sum_simplify_gen]; rewrite Hraw; reflexivity).
    destruct pa as [|p0 pt]; [|cbn [sum_simplify_gen]; rewrite Hraw; reflexivity].
    apply (eval_sum_simplify_joint m Hlaw pop ch (x :: t)); assumption.
  Qed.

  Lemma names_upgrade_perm rs : NoDup rs -> Permutation (names (upgrade_ordering rs)) (names rs).
  Proof.
    intros Hnd. unfold names. apply Permutation_map. unfold upgrade_ordering, sorted_variables.
    eapply perm_trans; [apply Permutation_sym; apply stable_sort_perm|].
    apply NoDup_Permutation; [apply NoDup_dedup|exact Hnd|]. intros x. apply In_dedup.
  Qed.

  (* the factors of a canonical form multiply to it *)
  Lemma factors_ok r : PAk r = true -> forallb PAk (factors_of false r) = true.
  Proof.
    intros H. unfold factors_of. destruct r; try (cbn [forallb]; rewrite H; reflexivity). apply PA_plain_prod. exact H.
  Qed.

  Lemma factors_atoms r : okp r = true -> forallb okp (factors_of false r) = true.
  Proof. intros H. unfold factors_of. destruct r; try (cbn [forallb]; rewrite H; reflexivity). exact H. Qed.

  Lemma factors_eval r env0 : qprod (eval_list m (factors_of false r) env0) == eval m r env0.
  Proof.
    unfold factors_of. destruct r; try (cbn [eval_list map qprod fold_right]; apply Qmult_1_r). symmetry. apply eval_prod.
  Qed.

  Lemma okp_not_err e : okp e = true -> is_err e = false.
  Proof. destruct e; try reflexivity. discriminate. Qed.

  Lemma PAk_split e : PAk e = true -> is_err e = false -> okp e = true.
  Proof. unfold PAk, PA. intros H Hn. rewrite Hn in H. exact H. Qed.

  Section Ord.
    Variable o : list var.

    Definition Inv (e : expr) : Prop :=
      PAk (fst (cz false o e)) = true /\
      forallb PAk (snd (cz false o e)) = true /\
      (is_err (fst (cz false o e)) = false -> forallb okp (snd (cz false o e)) = true) /\
      (is_err (fst (cz false o e)) = false -> forall r, eval m (fst (cz false o e)) r == eval m e r) /\
      (forallb okp (snd (cz false o e)) = true -> forall r, qprod (eval_list m (snd (cz false o e)) r) == eval m e r).

    (* the four cases whose canonical form r carries its own factors *)
    Lemma Inv_of_result e r :
      cz false o e = (r, factors_of false r) -> PAk r = true ->
      (is_err r = false -> forall env0, eval m r env0 == eval m e env0) -> Inv e.
    Proof.
      intros E Hr Hev. unfold Inv. rewrite E. cbn [fst snd]. split; [exact Hr|]. split; [apply factors_ok; exact Hr|].
      split; [intros Hn; apply factors_atoms; apply PAk_split; assumption|]. split; [exact Hev|].
      intros Hf env0. rewrite factors_eval. apply Hev.
      destruct r; try reflexivity. cbn [factors_of forallb] in Hf. discriminate.
    Qed.

    Lemma canon_sorted_perm l l' : canon_sorted false o l = Some l' -> Permutation l l'.
    Proof. unfold canon_sorted. destruct (forallb _ l); [|discriminate]. intros E. injection E as <-. apply stable_sort_perm. Qed.

    Fixpoint leaves_of (es : list expr) : list expr :=
      match es with [] => [] | x :: t => snd (cz false o x) ++ leaves_of t end.

    Lemma leaves_PA es : Forall Inv es -> forallb PAk (leaves_of es) = true.
    Proof.
      induction 1 as [|x t Hx _ IHt]; [reflexivity|]. cbn [leaves_of]. rewrite forallb_app. destruct Hx as [_ [Hb _]]. rewrite Hb. exact IHt.
    Qed.

    Lemma leaves_eval es : Forall Inv es -> forallb okp (leaves_of es) = true ->
      forall r, qprod (eval_list m (leaves_of es) r) == qprod (eval_list m es r).
    Proof.
      induction 1 as [|x t Hx _ IHt]; intros Hl r; [reflexivity|]. cbn [leaves_of] in *.
      rewrite forallb_app in Hl. apply andb_true_iff in Hl. destruct Hl as [H1 H2].
      rewrite eval_list_app, qprod_app. destruct Hx as [_ [_ [_ [_ He]]]]. rewrite (He H1 r), (IHt H2 r).
      cbn [eval_list map qprod fold_right]. reflexivity.
    Qed.

    Theorem cz_inv : forall e, wfe e = true -> Inv e.
    Proof.
      induction e as [pop ch pa|es IH|e rs IH|n d IHn IHd| | |dm cd|k] using expr_ind'; intros Hwf;
        unfold wfe in Hwf; rewrite !andb_true_iff in Hwf; destruct Hwf as [[Hok Hnz] Hsn]; unfold okp in Hok; cbn [all_atoms nz sums_nodup] in *; try discriminate.
      - (* probability *)
        eapply Inv_of_result; [reflexivity| |].
        + destruct (canon_sorted false o ch) as [c|] eqn:Ec; [|reflexivity]. destruct (canon_sorted false o pa) as [p|] eqn:Ep; [|reflexivity].
          pose proof (canon_sorted_perm _ _ Ec) as Hpc. pose proof (Aok_perm pop ch c pa p Hpc Hok) as Hc.
          unfold prob_raw. destruct c; [apply Aok_spec in Hc; tauto|]. apply PA_of_atoms. exact Hc.
        + destruct (canon_sorted false o ch) as [c|] eqn:Ec; [|discriminate]. destruct (canon_sorted false o pa) as [p|] eqn:Ep; [|discriminate].
          intros Hne env0. unfold prob_raw in *. destruct c as [|c0 ct] eqn:Ecc; [discriminate|]. rewrite <- Ecc in *. cbn [eval].
          apply (law_perm m Hlaw); apply Permutation_sym; eapply canon_sorted_perm; eassumption.
      - (* product *)
        assert (Hall : Forall Inv es).
        { rewrite Forall_forall in *. intros x Hx. apply IH; [exact Hx|]. unfold wfe, okp. rewrite forallb_forall in Hok, Hnz, Hsn.
          rewrite (Hok x Hx), (Hnz x Hx), (Hsn x Hx). reflexivity. }
        clear IH Hok Hnz Hsn. unfold Inv. cbn [cz fst snd].
        change ((fix go (es0 : list expr) : list expr := match es0 with [] => [] | x :: t => snd (cz false o x) ++ go t end) es) with (leaves_of es).
        set (leaves := leaves_of es).
        pose proof (leaves_PA es Hall) as HPA. fold leaves in HPA.
        assert (Hev : forallb okp leaves = true -> forall r, qprod (eval_list m leaves r) == eval m (EProd es) r).
        { intros Hl r. rewrite eval_prod. apply leaves_eval; assumption. }
        assert (Hok : is_err (prod_safe_gen false leaves) = false -> forallb okp leaves = true).
        { intros Hne. unfold prod_safe_gen in Hne. destruct (first_err leaves) as [e0|] eqn:Ef.
          - unfold first_err in Ef. apply find_some in Ef. destruct Ef as [_ Hf]. congruence.
          - unfold first_err in Ef. rewrite forallb_forall in *. intros x Hx. apply PAk_split; [apply HPA; exact Hx|].
            pose proof (find_none _ _ Ef x Hx) as Hn. exact Hn. }
        split; [apply PA_prod_safe_gen; exact HPA|]. split; [exact HPA|]. split; [exact Hok|]. split; [|exact Hev].
        intros Hne r. rewrite eval_prod_safe_gen. apply Hev. apply Hok. exact Hne.
      - (* sum *)
        apply andb_true_iff in Hok. destruct Hok as [Hoke Hrs]. apply andb_true_iff in Hsn. destruct Hsn as [Hsne Hnd]. apply nodupb_NoDup in Hnd.
        assert (Hwfe : wfe e = true) by (unfold wfe, okp; rewrite Hoke, Hnz, Hsne; reflexivity).
        destruct (IH Hwfe) as [Ha [_ [_ [Hd _]]]].
        remember (fst (cz false o e)) as c eqn:Ec.
        apply (Inv_of_result (ESum e rs) (sum_safe_gen false c rs true)); [cbn [cz]; rewrite <- Ec; reflexivity| |].
        + apply PA_sum_safe_gen; [exact plain_not_bad|exact Aok_sub|exact Ha|exact Hrs].
        + intros Hne env0.
          assert (Hce : is_err c = false).
          { destruct (is_err c) eqn:E; [|reflexivity]. unfold sum_safe_gen in Hne. rewrite E in Hne. congruence. }
          pose proof (PAk_split _ Ha Hce) as Hokc.
          rewrite (eval_sum_safe_simplify c rs env0 Hokc Hrs Hne). cbn [eval].
          rewrite (sum_over_perm m _ _ (names_upgrade_perm rs Hnd)); [|apply (eval_ext m Hlaw); exact Hokc].
          apply sum_over_ext. intros r'. apply Hd. exact Hce.
      - (* fraction *)
        apply andb_true_iff in Hok. apply andb_true_iff in Hnz. apply andb_true_iff in Hsn.
        destruct Hok as [Hokn Hokd]. destruct Hnz as [Hnzn Hnzd]. destruct Hsn as [Hsnn Hsnd].
        assert (Hwn : wfe n = true) by (unfold wfe, okp; rewrite Hokn, Hnzn, Hsnn; reflexivity).
        assert (Hwd : wfe d = true) by (unfold wfe, okp; rewrite Hokd, Hnzd, Hsnd; reflexivity).
        destruct (IHn Hwn) as [Han [_ [_ [Hdn _]]]]. destruct (IHd Hwd) as [Had [_ [_ [Hdd _]]]].
        remember (fst (cz false o n)) as n' eqn:En'. remember (fst (cz false o d)) as d' eqn:Ed'.
        apply (Inv_of_result (EFrac n d)
                 (if is_err n' then n' else if is_err d' then d' else if is_one d' then n'
                  else if expr_eqb n' d' then EOne else post_quotient (truediv n' d'))); [cbn [cz]; rewrite <- En', <- Ed'; reflexivity| |].
        + destruct (is_err n'); [exact Han|]. destruct (is_err d'); [exact Had|].
          destruct (is_one d'); [exact Han|]. destruct (expr_eqb n' d'); [reflexivity|]. apply PA_post_quotient. apply PA_truediv; assumption.
        + destruct (is_err n') eqn:En; [intros Hne; congruence|]. destruct (is_err d') eqn:Ed; [intros Hne; congruence|].
          specialize (Hdn eq_refl). specialize (Hdd eq_refl).
          destruct (is_one d') eqn:E1.
          { intros _ env0. cbn [eval]. rewrite <- (Hdd env0), (eval_one m env0 _ E1), (Hdn env0). unfold Qdiv. change (/ 1) with 1. ring. }
          destruct (expr_eqb n' d') eqn:E2.
          { intros _ env0. apply expr_eqb_true in E2. cbn [eval]. rewrite <- (Hdn env0), E2, (Hdd env0).
            pose proof (eval_pos d Hokd Hnzd env0) as Hp. unfold Qdiv. rewrite Qmult_inv_r; [reflexivity|]. intros F. rewrite F in Hp. discriminate. }
          intros _ env0.
          assert (Hq : eval m (truediv n' d') env0 == eval m (EFrac n d) env0).
          { rewrite eval_truediv. cbn [eval]. rewrite (Hdn env0), (Hdd env0). reflexivity. }
          rewrite <- Hq. destruct (truediv n' d') as [| | |a b| | | |] eqn:Eq; try reflexivity. cbn [post_quotient].
          destruct (expr_eqb a b) eqn:Eab; [|reflexivity]. apply expr_eqb_true in Eab. subst b.
          assert (Hp : 0 < eval m (EFrac a a) env0).
          { rewrite Hq. cbn [eval]. pose proof (eval_pos n Hokn Hnzn env0) as P1. pose proof (eval_pos d Hokd Hnzd env0) as P2.
            unfold Qdiv. apply Qmult_lt_0_compat; [exact P1|apply Qinv_lt_0_compat; exact P2]. }
          cbn [eval] in *. unfold Qdiv in *. rewrite Qmult_inv_r; [reflexivity|]. intros F. rewrite F in Hp. rewrite Qmult_0_l in Hp. discriminate.
      - (* One *)
        apply (Inv_of_result EOne EOne); [reflexivity|reflexivity|]. intros _ env0. reflexivity.
    Qed.

    Theorem canonicalize_sound e :
      wfe e = true -> is_err (canonicalize false o e) = false -> forall r, eval m (canonicalize false o e) r == eval m e r.
    Proof. intros Hwf Hne. destruct (cz_inv e Hwf) as [_ [_ [_ [Hd _]]]]. apply Hd. exact Hne. Qed.
  End Ord.

  (* two expressions the library declares canonically equal denote the same function *)
  Theorem canonical_expr_equal_sound a b :
    wfe a = true -> wfe b = true ->
    canonical_expr_equal a b = true ->
    is_err (canonicalize false (sorted_variables (dedup (iter_variables a ++ iter_variables b))) a) = false ->
    forall r, eval m a r == eval m b r.
  Proof.
    intros Ha Hb Heq Hne r. unfold canonical_expr_equal in Heq. cbv zeta in Heq. apply expr_eqb_true in Heq.
    rewrite <- (canonicalize_sound _ a Ha Hne r). rewrite Heq. apply canonicalize_sound; [exact Hb|]. rewrite <- Heq. exact Hne.
  Qed.
End CanonSem.
