(* C02, totality: on every valid query over a well-formed acyclic graph the ID model ends in an estimand or in the
   'unidentifiable' refusal - never in an error, and never out of fuel. Measure: lines 2 and 7 shrink the node set,
   lines 3 and 4 keep it and grow the treatment set. *)
From Coq Require Import List Bool Arith Lia Relations.
From Y0 Require Import Base.ListSet Graph.Closure Graph.MixedGraph Dsl.Syntax Dsl.Build Alg.Id
  Proofs.ClosureP Proofs.SurgeryP Proofs.DistrictsP Proofs.MSepP.
Import ListNotations.

(* ---- cardinality of a list read as a set ---- *)
Definition card (l : list nat) : nat := length (dedup l).

Lemma card_le l1 l2 : incl l1 l2 -> card l1 <= card l2.
Proof.
  intros Hi. unfold card. apply NoDup_incl_length; [apply NoDup_dedup|].
  intros x Hx. apply In_dedup. apply Hi. exact (proj1 (In_dedup _ _) Hx).
Qed.

Lemma card_lt l1 l2 w : incl l1 l2 -> In w l2 -> ~ In w l1 -> card l1 < card l2.
Proof.
  intros Hi Hw Hn. unfold card.
  assert (Hnd : NoDup (w :: dedup l1)) by (constructor; [rewrite In_dedup; exact Hn|apply NoDup_dedup]).
  assert (Hinc : incl (w :: dedup l1) (dedup l2)).
  { intros x [<-|Hx]; apply In_dedup; [exact Hw|apply Hi; exact (proj1 (In_dedup _ _) Hx)]. }
  pose proof (NoDup_incl_length Hnd Hinc) as Hl. cbn [length] in Hl. lia.
Qed.

Lemma card_length l : card l <= length l.
Proof.
  unfold card. apply NoDup_incl_length; [apply NoDup_dedup|]. intros x Hx. exact (proj1 (In_dedup _ _) Hx).
Qed.

Lemma is_nil_false {T} (l : list T) : is_nil l = false -> exists x, In x l.
Proof. destruct l as [|x t]; [discriminate|]. intros _. exists x. left. reflexivity. Qed.

(* ---- districts: with a number of districts other than one, every district misses some node of another one ---- *)
Lemma other_district (l : list (list nat)) D :
  In D l -> length l <> 1 -> ForallOrdPairs (@disjoint nat) l -> Forall (fun D' => exists r, In r D') l ->
  exists v D', In D' l /\ In v D' /\ ~ In v D.
Proof.
  intros HD Hlen Hdis Hne. destruct l as [|D0 [|D1 t]]; [destruct HD|cbn in Hlen; congruence|].
  inversion Hdis as [|? ? H0 _]; subst. inversion H0 as [|? ? H01 H0t]; subst.
  inversion Hne as [|? ? [r0 Hr0] Hne']; subst. inversion Hne' as [|? ? [r1 Hr1] _]; subst.
  destruct HD as [<-|HD].
  - exists r1, D1. split; [right; left; reflexivity|]. split; [exact Hr1|]. intros Hin. exact (H01 _ Hin Hr1).
  - exists r0, D0. split; [left; reflexivity|]. split; [exact Hr0|].
    rewrite Forall_forall in H0. apply (H0 D HD). exact Hr0.
Qed.

Lemma districts_nonempty (g : mg nat) : Forall (fun D' => exists r, In r D') (districts g).
Proof.
  pose proof (districts_classes g) as Hc. rewrite Forall_forall in *. intros D HD.
  destruct (Hc D HD) as [r [_ Hr]]. exists r. apply Hr. apply bconn_refl.
Qed.

Section IdTotal.
  Variable topo : mg nat -> option (list nat).

  Definition acyclicP (g : mg nat) : Prop := forall u, ~ clos_trans nat (fun x y => In (x, y) (dir g)) u u.

  (* the oracle: a valid topological order for every well-formed acyclic graph (nx.topological_sort) *)
  Hypothesis topo_ok : forall h, wf h -> acyclicP h -> exists o, topo h = Some o /\ is_topo h o = true.

  Record Inv (I : ident) : Prop := {
    inv_wf : wf (ig I);
    inv_acyc : acyclicP (ig I);
    inv_X : incl (itr I) (nodes (ig I));
    inv_Y : incl (iout I) (nodes (ig I));
    inv_Yne : iout I <> [];
    inv_disj : forall v, In v (itr I) -> ~ In v (iout I) }.

  Definition mu (I : ident) : nat :=
    let n := card (nodes (ig I)) in n * (n + 1) + (n - card (itr I)).

  Lemma mu_shrink n n' x x' : n' < n -> n' * (n' + 1) + (n' - x') < n * (n + 1) + (n - x).
  Proof. intros Hn. nia. Qed.

  Lemma mu_grow n x x' : x < x' -> x' <= n -> n * (n + 1) + (n - x') < n * (n + 1) + (n - x).
  Proof. intros. lia. Qed.

  Lemma ct_mono (R1 R2 : nat -> nat -> Prop) x y :
    (forall u v, R1 u v -> R2 u v) -> clos_trans nat R1 x y -> clos_trans nat R2 x y.
  Proof.
    intros Hi Hr. induction Hr as [x y Hxy|x y z _ IH1 _ IH2]; [apply t_step; auto|eapply t_trans; eauto].
  Qed.

  Lemma acyclic_sub (g h : mg nat) : (forall u v, In (u, v) (dir h) -> In (u, v) (dir g)) -> acyclicP g -> acyclicP h.
  Proof. intros Hsub Hg u Hu. apply (Hg u). eapply ct_mono; [|exact Hu]. exact Hsub. Qed.

  Lemma subgraph_inv (g : mg nat) S : wf g -> acyclicP g -> incl S (nodes g) ->
    wf (subgraph g S) /\ acyclicP (subgraph g S) /\ (forall v, In v (nodes (subgraph g S)) <-> In v S).
  Proof.
    intros Hw Ha HS. split; [apply wf_from_edges|]. split; [|intros v; apply subgraph_nodes].
    apply (acyclic_sub g); [|exact Ha]. intros u v Huv. apply subgraph_dir in Huv. tauto.
  Qed.

  Lemma Y_in_anc (g : mg nat) Y : incl Y (ancestors_inclusive g Y).
  Proof. intros y Hy. apply ancestors_inclusive_spec. exists y. split; [exact Hy|apply rt_refl]. Qed.

  (* ---- line 2 ---- *)
  Lemma line2_ok I : Inv I -> is_nil (diff (nodes (ig I)) (ancestors_inclusive (ig I) (iout I))) = false ->
    Inv (line_2 I) /\ mu (line_2 I) < mu I.
  Proof.
    intros [Hw Ha HX HY Hne Hd] Hnil. set (A := ancestors_inclusive (ig I) (iout I)).
    assert (HA : incl A (nodes (ig I))) by (apply ancestors_inclusive_nodes; assumption).
    destruct (subgraph_inv (ig I) A Hw Ha HA) as [Hw' [Ha' Hn']].
    split.
    - constructor; cbn [line_2 ig itr iout]; fold A; auto.
      + intros v Hv. apply Hn'. apply In_inter in Hv. tauto.
      + intros v Hv. apply Hn'. apply Y_in_anc. exact Hv.
      + intros v Hv. apply Hd. apply In_inter in Hv. tauto.
    - unfold mu. cbn [line_2 ig itr]. fold A. apply mu_shrink.
      apply is_nil_false in Hnil. destruct Hnil as [w Hw0]. apply In_diff in Hw0. destruct Hw0 as [Hwn Hwa].
      apply (card_lt _ _ w); [|exact Hwn|].
      + intros v Hv. apply HA. apply Hn'. exact Hv.
      + intros Hv. apply Hwa. apply Hn'. exact Hv.
  Qed.

  (* ---- line 3 ---- *)
  Lemma line3_ok I : Inv I -> is_nil (get_no_effect_on_outcomes (ig I) (itr I) (iout I)) = false ->
    Inv (line_3 I) /\ mu (line_3 I) < mu I.
  Proof.
    intros [Hw Ha HX HY Hne Hd] Hnil. set (W := get_no_effect_on_outcomes (ig I) (itr I) (iout I)) in *.
    assert (HW : forall v, In v W -> In v (nodes (ig I)) /\ ~ In v (itr I) /\ ~ In v (iout I)).
    { intros v Hv. unfold W, get_no_effect_on_outcomes in Hv. rewrite !In_diff in Hv. destruct Hv as [[Hn Hx] Hanc].
      repeat split; auto. intros Hy. apply Hanc. apply Y_in_anc. exact Hy. }
    assert (HX' : incl (union (itr I) W) (nodes (ig I))).
    { intros v Hv. unfold union in Hv. apply In_dedup_acc in Hv. destruct Hv as [Hv|Hv]; [apply HX; exact Hv|apply HW; exact Hv]. }
    split.
    - constructor; cbn [line_3 ig itr iout]; fold W; auto.
      intros v Hv. unfold union in Hv. apply In_dedup_acc in Hv. destruct Hv as [Hv|Hv]; [apply Hd; exact Hv|apply HW; exact Hv].
    - unfold mu. cbn [line_3 ig itr]. fold W. apply mu_grow; [|apply card_le; exact HX'].
      apply is_nil_false in Hnil. destruct Hnil as [w Hw0]. apply (card_lt _ _ w).
      + intros v Hv. unfold union. apply In_dedup_acc. left. exact Hv.
      + unfold union. apply In_dedup_acc. right. exact Hw0.
      + apply HW. exact Hw0.
  Qed.

  (* ---- the graph without the treatments ---- *)
  Lemma gwt_facts I : Inv I ->
    let gwt := remove_nodes_from (ig I) (itr I) in
    wf gwt /\ (forall v, In v (nodes gwt) <-> In v (nodes (ig I)) /\ ~ In v (itr I)) /\
    (forall D, In D (districts gwt) -> incl D (nodes gwt)) /\ districts gwt <> [].
  Proof.
    intros [Hw Ha HX HY Hne Hd] gwt.
    assert (Hwg : wf gwt) by apply wf_from_edges.
    assert (Hn : forall v, In v (nodes gwt) <-> In v (nodes (ig I)) /\ ~ In v (itr I)) by (intros v; apply remove_nodes_from_nodes; exact Hw).
    split; [exact Hwg|]. split; [exact Hn|]. split.
    - intros D HD. apply districts_within_nodes; assumption.
    - destruct (iout I) as [|y t] eqn:EY; [congruence|].
      assert (Hy : In y (nodes gwt)).
      { apply Hn. split; [apply HY; left; reflexivity|]. intros Hx. apply (Hd y Hx). left. reflexivity. }
      destruct (districts_cover gwt y Hy) as [D [HD _]]. intros E. rewrite E in HD. destruct HD.
  Qed.

  (* ---- line 4 ---- *)
  Lemma line4_ok I J : Inv I -> is_connected (remove_nodes_from (ig I) (itr I)) = false -> In J (line_4 I) ->
    Inv J /\ mu J < mu I.
  Proof.
    intros HI Hconn HJ. pose proof (gwt_facts I HI) as [Hwg [Hn [Hsub Hne']]]. destruct HI as [Hw Ha HX HY Hne Hd].
    unfold line_4 in HJ. apply in_map_iff in HJ. destruct HJ as [D [<- HD]].
    set (gwt := remove_nodes_from (ig I) (itr I)) in *.
    assert (HDn : forall v, In v D -> In v (nodes (ig I)) /\ ~ In v (itr I)) by (intros v Hv; apply Hn; apply (Hsub D HD); exact Hv).
    split.
    - constructor; cbn [ig itr iout]; auto.
      + intros v Hv. apply In_diff in Hv. tauto.
      + intros v Hv. apply HDn. exact Hv.
      + pose proof (districts_nonempty gwt) as Hnon. rewrite Forall_forall in Hnon. destruct (Hnon D HD) as [r Hr].
        intros E. rewrite E in Hr. destruct Hr.
      + intros v Hv. apply In_diff in Hv. tauto.
    - unfold mu. cbn [ig itr].
      assert (Hlen : length (districts gwt) <> 1).
      { unfold is_connected in Hconn. apply Nat.eqb_neq in Hconn. exact Hconn. }
      destruct (other_district (districts gwt) D HD Hlen (districts_disjoint gwt) (districts_nonempty gwt)) as [v [D' [HD' [Hv HvD]]]].
      assert (Hvn : In v (nodes (ig I)) /\ ~ In v (itr I)) by (apply Hn; apply (Hsub D' HD'); exact Hv).
      apply mu_grow.
      + apply (card_lt _ _ v).
        * intros x Hx. apply In_diff. split; [apply HX; exact Hx|]. intros HxD. apply (HDn x HxD). exact Hx.
        * apply In_diff. tauto.
        * tauto.
      + apply card_le. intros x Hx. apply In_diff in Hx. tauto.
  Qed.

  (* ---- line 7 ---- *)
  Lemma line7_find I S0 : Inv I ->
    districts (remove_nodes_from (ig I) (itr I)) = [S0] ->
    existsb (set_eqb S0) (districts (ig I)) = false ->
    exists D, find (fun D => subset S0 D && negb (subset D S0)) (districts (ig I)) = Some D.
  Proof.
    intros HI HS0 Hex. pose proof (gwt_facts I HI) as [Hwg [Hn [Hsub _]]]. destruct HI as [Hw Ha HX HY Hne Hd].
    set (gwt := remove_nodes_from (ig I) (itr I)) in *.
    assert (HS0in : In S0 (districts gwt)) by (rewrite HS0; left; reflexivity).
    pose proof (districts_classes gwt) as Hc. rewrite Forall_forall in Hc. destruct (Hc S0 HS0in) as [r [Hr Hcls]].
    assert (Hrg : In r (nodes (ig I))) by (apply Hn; exact Hr).
    destruct (districts_cover (ig I) r Hrg) as [D [HD HrD]].
    assert (Hsub0 : subset S0 D = true).
    { apply subset_incl. intros w Hw0. apply (districts_spec (ig I) D r w HD HrD).
      apply Hcls in Hw0. unfold bconn, reachable in *. eapply clos_rt_mono; [|exact Hw0].
      intros u v Huv. apply In_sym in Huv. apply In_sym. destruct Huv as [Huv|Huv]; apply remove_nodes_from_bid in Huv; tauto. }
    destruct (find _ (districts (ig I))) as [D'|] eqn:Ef; [exists D'; reflexivity|exfalso].
    pose proof (find_none _ _ Ef D HD) as Hf. cbv beta in Hf. rewrite Hsub0 in Hf. cbn [andb] in Hf. apply negb_false_iff in Hf.
    assert (Ht : existsb (set_eqb S0) (districts (ig I)) = true).
    { apply existsb_exists. exists D. split; [exact HD|]. unfold set_eqb. rewrite Hsub0, Hf. reflexivity. }
    congruence.
  Qed.

  Lemma line7_ok I S0 D est : Inv I ->
    districts (remove_nodes_from (ig I) (itr I)) = [S0] ->
    is_connected (ig I) = false ->
    find (fun D => subset S0 D && negb (subset D S0)) (districts (ig I)) = Some D ->
    Inv (mkIdent (subgraph (ig I) D) (inter (itr I) D) (iout I) est) /\
    mu (mkIdent (subgraph (ig I) D) (inter (itr I) D) (iout I) est) < mu I.
  Proof.
    intros HI HS0 Hconn Hf. pose proof (gwt_facts I HI) as [Hwg [Hn [Hsub _]]]. destruct HI as [Hw Ha HX HY Hne Hd].
    set (gwt := remove_nodes_from (ig I) (itr I)) in *.
    apply find_some in Hf. destruct Hf as [HD Hp]. apply andb_true_iff in Hp. destruct Hp as [Hs0D _].
    apply subset_incl in Hs0D.
    assert (HDn : incl D (nodes (ig I))) by (apply districts_within_nodes; assumption).
    destruct (subgraph_inv (ig I) D Hw Ha HDn) as [Hw' [Ha' Hn']].
    assert (HYD : incl (iout I) D).
    { intros y Hy. apply Hs0D.
      assert (Hyg : In y (nodes gwt)) by (apply Hn; split; [apply HY; exact Hy|intros Hx; exact (Hd y Hx Hy)]).
      destruct (districts_cover gwt y Hyg) as [D0 [HD0 HyD0]]. rewrite HS0 in HD0. destruct HD0 as [<-|[]]. exact HyD0. }
    split.
    - constructor; cbn [ig itr iout]; auto.
      + intros v Hv. apply Hn'. apply In_inter in Hv. tauto.
      + intros v Hv. apply Hn'. apply HYD. exact Hv.
      + intros v Hv. apply Hd. apply In_inter in Hv. tauto.
    - unfold mu. cbn [ig itr]. apply mu_shrink.
      assert (Hlen : length (districts (ig I)) <> 1).
      { unfold is_connected in Hconn. apply Nat.eqb_neq in Hconn. exact Hconn. }
      destruct (other_district (districts (ig I)) D HD Hlen (districts_disjoint (ig I)) (districts_nonempty (ig I))) as [v [D' [HD' [Hv HvD]]]].
      apply (card_lt _ _ v).
      + intros x Hx. apply HDn. apply Hn'. exact Hx.
      + apply (districts_within_nodes (ig I) D' Hw HD'). exact Hv.
      + intros Hx. apply HvD. apply Hn'. exact Hx.
  Qed.

  Definition no_crash (r : id_result) : Prop := match r with IdCrash _ => False | _ => True end.

  Theorem identify_total : forall fuel I, Inv I -> mu I < fuel -> no_crash (identify false topo fuel I).
  Proof.
    induction fuel as [|f IH]; intros I HI Hmu; [lia|]. cbn [identify].
    destruct (itr I) as [|x xs] eqn:EX; [exact Logic.I|]. rewrite <- EX.
    destruct (negb (is_nil (diff (nodes (ig I)) (ancestors_inclusive (ig I) (iout I))))) eqn:E2.
    { apply negb_true_iff in E2. destruct (line2_ok I HI E2) as [HI' Hmu']. apply IH; [exact HI'|lia]. }
    destruct (negb (is_nil (get_no_effect_on_outcomes (ig I) (itr I) (iout I)))) eqn:E3.
    { apply negb_true_iff in E3. destruct (line3_ok I HI E3) as [HI' Hmu']. apply IH; [exact HI'|lia]. }
    destruct (negb (is_connected (remove_nodes_from (ig I) (itr I)))) eqn:E4.
    { apply negb_true_iff in E4.
      destruct (find _ (map (identify false topo f) (line_4 I))) as [c|] eqn:Ef.
      - apply find_some in Ef. destruct Ef as [Hin Hc]. apply in_map_iff in Hin. destruct Hin as [J [<- HJ]].
        destruct (line4_ok I J HI E4 HJ) as [HJ' HmuJ]. assert (Hnc : no_crash (identify false topo f J)) by (apply IH; [exact HJ'|lia]).
        destruct (identify false topo f J); try discriminate. destruct Hnc.
      - destruct (existsb _ _); exact Logic.I. }
    apply negb_false_iff in E4.
    destruct (is_connected (ig I)) eqn:E5; [exact Logic.I|].
    pose proof (gwt_facts I HI) as [_ [_ [_ Hne']]].
    destruct (districts (remove_nodes_from (ig I) (itr I))) as [|S0 [|S1 t]] eqn:ED.
    { congruence. }
    2:{ unfold is_connected in E4. rewrite ED in E4. cbn in E4. discriminate. }
    destruct (topo_ok (ig I) (inv_wf I HI) (inv_acyc I HI)) as [o [Ho Hto]].
    destruct (existsb (set_eqb S0) (districts (ig I))) eqn:Eex.
    { unfold with_order. rewrite Ho, Hto. exact Logic.I. }
    destruct (line7_find I S0 HI ED Eex) as [D HfD]. rewrite HfD.
    unfold with_order. rewrite Ho, Hto.
    destruct (line7_ok I S0 D (prod_safe (map (fun v => p_parents false v o (iest I)) D)) HI ED E5 HfD) as [HI' Hmu'].
    apply IH; [exact HI'|lia].
  Qed.

  (* the public entry point *)
  Theorem identify_outcomes_total (g : mg nat) X Y :
    wf g -> acyclicP g -> incl X (nodes g) -> incl Y (nodes g) -> Y <> [] -> (forall v, In v X -> ~ In v Y) ->
    no_crash (identify_outcomes false topo g X Y).
  Proof.
    intros Hw Ha HX HY Hne Hd. unfold identify_outcomes. apply identify_total.
    - constructor; cbn [ig itr iout]; assumption.
    - unfold mu, fuel_for. cbn [ig itr]. pose proof (card_length (nodes g)) as Hc. cbv zeta. nia.
  Qed.
End IdTotal.

(* ---- IDC: every result, under every visiting order of the conditions, is an estimand or the refusal ---- *)
From Y0 Require Import Alg.Idc Proofs.IdcP.

Lemma fold_union_In moved : forall (X : list nat) v,
  In v (fold_left (fun acc z => union acc [z]) moved X) <-> In v X \/ In v moved.
Proof.
  induction moved as [|z t IH]; intros X v; cbn [fold_left]; [cbn; tauto|].
  rewrite IH. unfold union. rewrite In_dedup_acc. cbn [In]. tauto.
Qed.

Lemma fold_diff_In moved : forall (Z : list nat) v,
  In v (fold_left (fun acc z => diff acc [z]) moved Z) <-> In v Z /\ ~ In v moved.
Proof.
  induction moved as [|z t IH]; intros Z v; cbn [fold_left]; [cbn; tauto|].
  rewrite IH, In_diff. cbn [In]. split.
  - intros [[Hz Hn] Ht]. split; [exact Hz|]. intros [->|Hin]; [apply Hn; left; reflexivity|contradiction].
  - intros [Hz Hn]. repeat split; auto. intros [<-|[]]. apply Hn. left. reflexivity.
Qed.

Section IdcTotal.
  Variable topo : mg nat -> option (list nat).
  Hypothesis topo_ok : forall h, wf h -> acyclicP h -> exists o, topo h = Some o /\ is_topo h o = true.

  Theorem idc_total (g : mg nat) X Y Z r :
    wf g -> acyclicP g -> incl X (nodes g) -> incl Y (nodes g) -> incl Z (nodes g) -> Y <> [] ->
    (forall v, In v X -> ~ In v Y) -> (forall v, In v X -> ~ In v Z) -> (forall v, In v Y -> ~ In v Z) ->
    In r (idc false topo g X Y Z) -> no_crash r.
  Proof.
    intros Hw Ha HX HY HZ Hne Hxy Hxz Hyz Hr.
    apply idc_shape in Hr. destruct Hr as [moved [Hm ->]].
    set (X' := fold_left (fun acc z => union acc [z]) moved X). set (Z' := fold_left (fun acc z => diff acc [z]) moved Z).
    assert (Hnc : no_crash (identify_outcomes false topo g X' (union Y Z'))).
    { apply (identify_outcomes_total topo topo_ok); auto.
      - intros v Hv. apply fold_union_In in Hv. destruct Hv as [Hv|Hv]; [apply HX; exact Hv|apply HZ, Hm; exact Hv].
      - intros v Hv. unfold union in Hv. apply In_dedup_acc in Hv. destruct Hv as [Hv|Hv]; [apply HY; exact Hv|].
        apply fold_diff_In in Hv. apply HZ. tauto.
      - destruct Y as [|y t]; [congruence|]. intros E.
        assert (Hy : In y (union (y :: t) Z')) by (unfold union; apply In_dedup_acc; left; left; reflexivity).
        rewrite E in Hy. destruct Hy.
      - intros v Hv Hv'. apply fold_union_In in Hv. unfold union in Hv'. apply In_dedup_acc in Hv'.
        destruct Hv' as [Hy|Hz]; [|apply fold_diff_In in Hz].
        + destruct Hv as [Hv|Hv]; [exact (Hxy v Hv Hy)|exact (Hyz v Hy (Hm v Hv))].
        + destruct Hv as [Hv|Hv]; [exact (Hxz v Hv (proj1 Hz))|exact (proj2 Hz Hv)]. }
    unfold idc_final. unfold identify_outcomes in Hnc.
    destruct (identify false topo (fuel_for g) _); [exact Logic.I|exact Logic.I|exact Hnc].
  Qed.
End IdcTotal.

(* rule 2's separation test is never asked an ill-formed question on a valid query: the 'not separated' default that
   [is_sep] gives to an error verdict is never used (every state reached by IDC is again valid, see idc_total) *)
From Y0 Require Import Graph.DSep Graph.CondInd Proofs.DSepP.

Theorem rule2_test_is_defined (g : mg nat) X Y Z y z :
  wf g -> incl X (nodes g) -> incl Y (nodes g) -> incl Z (nodes g) ->
  (forall v, In v X -> ~ In v Y) -> (forall v, In v X -> ~ In v Z) -> (forall v, In v Y -> ~ In v Z) ->
  In y Y -> In z Z ->
  exists s, are_d_separated (remove_out_edges (remove_in_edges g X) [z]) y z (union X (diff Z [z])) = DOk s.
Proof.
  intros Hw HX HY HZ Hxy Hxz Hyz Hy Hz.
  assert (Hw1 : wf (remove_in_edges g X)) by apply wf_from_edges.
  assert (Hn : forall v, In v (nodes (remove_out_edges (remove_in_edges g X) [z])) <-> In v (nodes g)).
  { intros v. rewrite (remove_out_edges_nodes _ _ v Hw1). apply remove_in_edges_nodes. exact Hw. }
  apply dsep_total.
  - apply Hn, HY, Hy.
  - apply Hn, HZ, Hz.
  - intros v Hv. apply Hn. unfold union in Hv. apply In_dedup_acc in Hv. destruct Hv as [Hv|Hv]; [apply HX; exact Hv|].
    apply In_diff in Hv. apply HZ. tauto.
  - intros Hv. unfold union in Hv. apply In_dedup_acc in Hv. destruct Hv as [Hv|Hv]; [exact (Hxy y Hv Hy)|].
    apply In_diff in Hv. exact (Hyz y Hy (proj1 Hv)).
  - intros Hv. unfold union in Hv. apply In_dedup_acc in Hv. destruct Hv as [Hv|Hv]; [exact (Hxz z Hv Hz)|].
    apply In_diff in Hv. apply (proj2 Hv). left. reflexivity.
Qed.
