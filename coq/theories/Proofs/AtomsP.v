(* Generic preservation: if every probability term of the operands satisfies a predicate [A] (and every summation range
   a predicate [Rg]), so does every term of the result of the DSL constructors and operators - or the result is an error
   value. Instances: the vocabulary predicates of C06, the well-formedness needed by the semantic theorems of C10. *)
From Coq Require Import List Bool Arith Permutation.
From Y0 Require Import Base.ListSet Dsl.Syntax Dsl.Text Dsl.Build Dsl.Canon Proofs.SortP Proofs.ExprP Proofs.SurgeryP.
Import ListNotations.

Section AtomsP.
  Variable A : option var -> list var -> list var -> bool.
  Variable Rg : var -> bool.
  Hypothesis Rg_not_bad : forall v, Rg v = true -> bad_range v = false.

  Fixpoint all_atoms (e : expr) : bool :=
    match e with
    | EProb p c q => A p c q
    | EProd es => forallb all_atoms es
    | ESum e' rs => all_atoms e' && forallb Rg rs
    | EFrac n d => all_atoms n && all_atoms d
    | EOne | EZero => true
    | EQ _ _ => false
    | EErr _ => false
    end.

  Definition PA (e : expr) : bool := is_err e || all_atoms e.

  Lemma forallb_perm' {T} (p : T -> bool) l l' : Permutation l l' -> forallb p l = true -> forallb p l' = true.
  Proof.
    intros Hp H. rewrite forallb_forall in *. intros x Hx. apply H. eapply Permutation_in; [apply Permutation_sym; exact Hp|exact Hx].
  Qed.

  Lemma forallb_upgrade' p l : forallb p l = true -> forallb p (upgrade_ordering l) = true.
  Proof.
    intros Hl. unfold upgrade_ordering, sorted_variables. eapply forallb_perm'; [apply stable_sort_perm|].
    rewrite forallb_forall in *. intros x Hx. apply Hl. exact (proj1 (In_dedup l x) Hx).
  Qed.

  Lemma PA_cases e : PA e = true -> is_err e = true \/ (is_err e = false /\ all_atoms e = true).
  Proof. unfold PA. destruct (is_err e); simpl; auto. Qed.

  Lemma PA_of_atoms e : all_atoms e = true -> PA e = true.
  Proof. intros H. unfold PA. rewrite H. apply orb_true_r. Qed.

  Lemma no_bad rs : forallb Rg rs = true -> existsb bad_range rs = false.
  Proof.
    intros H. destruct (existsb bad_range rs) eqn:Eb; [|reflexivity]. apply existsb_exists in Eb. destruct Eb as [x [Hx Hbx]].
    rewrite forallb_forall in H. rewrite (Rg_not_bad x (H x Hx)) in Hbx. discriminate.
  Qed.

  Lemma PA_sum_raw e rs : PA e = true -> forallb Rg rs = true -> PA (sum_raw e rs) = true.
  Proof.
    intros He Hrs. unfold sum_raw. destruct (PA_cases e He) as [Herr|[Hne Hpl]]; [rewrite Herr; exact He|]. rewrite Hne.
    destruct rs as [|r t]; [reflexivity|]. rewrite (no_bad _ Hrs). unfold PA. cbn [is_err all_atoms orb]. rewrite Hpl, Hrs. reflexivity.
  Qed.

  Lemma PA_sum_safe_plain e rs : PA e = true -> forallb Rg rs = true -> PA (sum_safe e rs false) = true.
  Proof.
    intros He Hrs. unfold sum_safe, sum_safe_gen. destruct (PA_cases e He) as [Herr|[Hne Hpl]]; [rewrite Herr; exact He|].
    rewrite Hne. pose proof (forallb_upgrade' _ _ Hrs) as Hup. destruct (upgrade_ordering rs) as [|r t] eqn:Eu; [exact He|].
    destruct (is_zero e); [exact He|]. rewrite (no_bad _ Hup). unfold PA. cbn [is_err all_atoms orb]. rewrite Hpl, Hup. reflexivity.
  Qed.

  Lemma first_err_PA es : forallb PA es = true -> match first_err es with Some e => PA e = true | None => forallb all_atoms es = true end.
  Proof.
    unfold first_err. induction es as [|x t IH]; intros H; [reflexivity|]. cbn [forallb] in H. apply andb_true_iff in H. destruct H as [Hx Ht].
    cbn [find]. destruct (is_err x) eqn:Ex; [exact Hx|]. specialize (IH Ht). destruct (find is_err t); [exact IH|].
    cbn [forallb]. unfold PA in Hx. rewrite Ex in Hx. cbn in Hx. rewrite Hx. exact IH.
  Qed.

  Lemma PA_prod_safe_gen old es : forallb PA es = true -> PA (prod_safe_gen old es) = true.
  Proof.
    intros H. unfold prod_safe_gen. pose proof (first_err_PA es H) as Hf. destruct (first_err es); [exact Hf|].
    assert (Hfil : forallb all_atoms (filter (fun e => negb (is_one e)) es) = true).
    { rewrite forallb_forall in *. intros x Hx. apply filter_In in Hx. apply Hf. tauto. }
    destruct (existsb is_zero _); [reflexivity|].
    destruct (filter (fun e => negb (is_one e)) es) as [|x [|y t]] eqn:Ef; [reflexivity| |].
    - cbn [forallb] in Hfil. apply andb_true_iff in Hfil. apply PA_of_atoms. exact (proj1 Hfil).
    - unfold PA. cbn [is_err all_atoms orb]. eapply forallb_perm'; [apply stable_sort_perm|exact Hfil].
  Qed.

  Lemma PA_prod_safe es : forallb PA es = true -> PA (prod_safe es) = true.
  Proof. apply PA_prod_safe_gen. Qed.

  Lemma PA_mk_frac n d : PA n = true -> PA d = true -> PA (mk_frac n d) = true.
  Proof.
    intros Hn Hd. unfold mk_frac, first_err. cbn [find]. destruct (is_err n) eqn:En; [exact Hn|]. destruct (is_err d) eqn:Ed; [exact Hd|].
    destruct (is_zero d); [reflexivity|]. unfold PA in *. rewrite En in Hn. rewrite Ed in Hd. cbn in Hn, Hd. cbn [is_err all_atoms orb]. rewrite Hn, Hd. reflexivity.
  Qed.

  Lemma PA_plain_prod es : PA (EProd es) = true -> forallb PA es = true.
  Proof.
    unfold PA at 1. cbn [is_err all_atoms orb]. intros H. rewrite forallb_forall in *. intros x Hx. apply PA_of_atoms. exact (H x Hx).
  Qed.

  Lemma forallb_app_intro' {T} (p : T -> bool) l1 l2 : forallb p l1 = true -> forallb p l2 = true -> forallb p (l1 ++ l2) = true.
  Proof. intros H1 H2. rewrite forallb_app, H1, H2. reflexivity. Qed.

  Lemma PA_frac_parts n d : PA (EFrac n d) = true -> PA n = true /\ PA d = true.
  Proof.
    unfold PA at 1. cbn [is_err all_atoms orb]. intros H. apply andb_true_iff in H. destruct H as [Hn Hd]. split; apply PA_of_atoms; assumption.
  Qed.

  Lemma PA_mul : forall a b, PA a = true -> PA b = true -> PA (mul a b) = true.
  Proof.
    induction a as [pop ch pa|es IHes|e rs IHe|n d IHn IHd| | |dm cd|k] using expr_ind'; intros b Ha.
    - induction b as [pop' ch' pa'|es' _|e' rs' _|n' d' IHn' _| | |dm' cd'|k'] using expr_ind'; intros Hb; cbn [mul]; try exact Hb; try exact Ha;
        try reflexivity.
      + apply PA_prod_safe. cbn [forallb]. rewrite Ha, Hb. reflexivity.
      + apply PA_prod_safe. cbn [forallb]. rewrite Ha. apply PA_plain_prod. exact Hb.
      + apply PA_prod_safe. cbn [forallb]. rewrite Ha, Hb. reflexivity.
      + destruct (PA_frac_parts _ _ Hb) as [Hn' Hd']. apply PA_mk_frac; [apply IHn'; exact Hn'|exact Hd'].
      + apply PA_prod_safe. cbn [forallb]. rewrite Ha, Hb. reflexivity.
    - pose proof (PA_plain_prod _ Ha) as Hes.
      induction b as [pop' ch' pa'|es' _|e' rs' _|n' d' IHn' _| | |dm' cd'|k'] using expr_ind'; intros Hb; cbn [mul]; try exact Hb; try reflexivity.
      + apply PA_prod_safe. apply forallb_app_intro'; [exact Hes|]. cbn [forallb]. rewrite Hb. reflexivity.
      + apply PA_prod_safe. apply forallb_app_intro'; [exact Hes|apply PA_plain_prod; exact Hb].
      + apply PA_prod_safe. apply forallb_app_intro'; [exact Hes|]. cbn [forallb]. rewrite Hb. reflexivity.
      + destruct (PA_frac_parts _ _ Hb) as [Hn' Hd']. apply PA_mk_frac; [apply IHn'; exact Hn'|exact Hd'].
      + apply PA_prod_safe. apply forallb_app_intro'; [exact Hes|]. cbn [forallb]. rewrite Hb. reflexivity.
      + apply PA_prod_safe. apply forallb_app_intro'; [exact Hes|]. cbn [forallb]. rewrite Hb. reflexivity.
    - intros Hb. destruct b; cbn [mul]; try exact Hb; try reflexivity;
        try (apply PA_prod_safe; cbn [forallb]; rewrite Ha, Hb; reflexivity).
      apply PA_prod_safe. cbn [forallb]. rewrite Ha. apply PA_plain_prod. exact Hb.
    - destruct (PA_frac_parts _ _ Ha) as [Hn Hd]. intros Hb. destruct b; cbn [mul]; try exact Hb; try reflexivity;
        try (apply PA_mk_frac; [apply IHn; assumption|exact Hd]).
      destruct (PA_frac_parts _ _ Hb) as [Hn' Hd']. apply PA_mk_frac; [apply IHn; assumption|apply IHd; assumption].
    - intros Hb. destruct b; exact Hb.
    - intros Hb. destruct b; cbn [mul]; try reflexivity; exact Hb.
    - unfold PA in Ha. cbn in Ha. discriminate.
    - intros Hb. destruct b; reflexivity.
  Qed.

  Lemma PA_truediv : forall b a, PA a = true -> PA b = true -> PA (truediv a b) = true.
  Proof.
    induction b as [pop ch pa|es _|e rs _|n d IHn _| | |dm cd|k] using expr_ind'; intros a Ha Hb;
      destruct a; cbn [truediv]; try exact Ha; try exact Hb; try reflexivity;
      try (apply PA_mk_frac; assumption);
      try (destruct (PA_frac_parts _ _ Ha) as [Hn1 Hd1]; apply PA_mk_frac; [exact Hn1|apply PA_mul; assumption]);
      try (unfold PA in Hb; cbn in Hb; discriminate);
      try (unfold PA in Ha; cbn in Ha; discriminate).
    all: destruct (PA_frac_parts _ _ Hb) as [Hn' Hd'].
    all: try (apply IHn; [apply PA_mul; assumption|exact Hn']).
    all: try (destruct (PA_frac_parts _ _ Ha) as [Hn1 Hd1]; apply PA_mk_frac; apply PA_mul; assumption).
  Qed.

  (* ---- Sum.simplify: the children it keeps are a duplicate-free selection of the joint's children ---- *)
  Hypothesis A_sub : forall pop ch ch', A pop ch [] = true -> incl ch' ch -> NoDup ch' -> ch' <> [] -> A pop ch' [] = true.

  Lemma child_of_in (ch : list var) b : In b (map get_base ch) ->
    In (match find (fun c => eqb (get_base c) b) (rev ch) with Some c => c | None => b end) ch.
  Proof.
    intros Hb. apply in_map_iff in Hb. destruct Hb as [c [Ec Hc]].
    destruct (find (fun c0 => eqb (get_base c0) b) (rev ch)) as [c'|] eqn:Ef.
    - apply find_some in Ef. apply in_rev. tauto.
    - exfalso. eapply find_none in Ef; [|apply in_rev; rewrite rev_involutive; exact Hc]. cbv beta in Ef. rewrite Ec, eqb_refl in Ef. discriminate.
  Qed.

  Lemma PA_simplified_joint pop ch X :
    A pop ch [] = true -> incl X (dedup (map get_base ch)) ->
    PA (prob_raw pop (upgrade_ordering (map (fun b => match find (fun c => eqb (get_base c) b) (rev ch) with Some c => c | None => b end) X)) []) = true.
  Proof.
    intros HA HX. unfold prob_raw. destruct (upgrade_ordering _) as [|c0 t] eqn:Eu; [reflexivity|]. rewrite <- Eu.
    apply PA_of_atoms. cbn [all_atoms]. apply (A_sub pop ch); [exact HA| | |rewrite Eu; discriminate].
    - intros c Hc. unfold upgrade_ordering, sorted_variables in Hc.
      apply (Permutation_in _ (Permutation_sym (stable_sort_perm _ _))) in Hc. apply (proj1 (In_dedup _ _)) in Hc.
      apply in_map_iff in Hc. destruct Hc as [b [<- Hb]]. apply child_of_in. apply (proj1 (In_dedup _ _)). apply HX. exact Hb.
    - unfold upgrade_ordering, sorted_variables. eapply Permutation_NoDup; [apply stable_sort_perm|apply NoDup_dedup].
  Qed.

  Lemma PA_sum_simplify old e rs : PA e = true -> forallb Rg rs = true -> PA (sum_simplify_gen old e rs) = true.
  Proof.
    intros He Hrs. destruct e; try (apply PA_sum_raw; assumption). destruct pa; [|apply PA_sum_raw; assumption].
    assert (HA : A pop ch [] = true) by (unfold PA in He; cbn in He; exact He).
    assert (Hdiff : forall Y, forallb Rg (upgrade_ordering (diff rs Y)) = true).
    { intros Y. apply forallb_upgrade'. rewrite forallb_forall in *. intros x Hx. apply In_diff in Hx. apply Hrs. tauto. }
    cbn [sum_simplify_gen].
    match goal with |- PA (if ?g then _ else _) = true => destruct g; [apply PA_sum_raw; assumption|] end.
    destruct (set_eqb rs _); [reflexivity|].
    destruct (subset (dedup (map get_base ch)) rs).
    { destruct old; [reflexivity|]. apply PA_sum_raw; [reflexivity|apply Hdiff]. }
    destruct (subset rs (dedup (map get_base ch))).
    { apply PA_simplified_joint; [exact HA|]. intros x Hx. apply In_diff in Hx. tauto. }
    match goal with |- PA (match ?u with [] => ?p | _ => _ end) = true =>
      assert (Hp : PA p = true) by (apply PA_simplified_joint; [exact HA|intros x Hx; apply In_diff in Hx; tauto]);
      destruct u as [|r0 t0] eqn:Eu; [exact Hp|] end.
    match goal with |- PA (if is_zero ?p then _ else _) = true => destruct (is_zero p); [exact Hp|] end.
    apply PA_sum_raw; [exact Hp|]. rewrite <- Eu. apply Hdiff.
  Qed.

  Lemma PA_sum_safe_gen old e rs simplify : PA e = true -> forallb Rg rs = true -> PA (sum_safe_gen old e rs simplify) = true.
  Proof.
    intros He Hrs. unfold sum_safe_gen. destruct (PA_cases e He) as [Herr|[Hne Hpl]]; [rewrite Herr; exact He|].
    rewrite Hne. pose proof (forallb_upgrade' _ _ Hrs) as Hup. destruct (upgrade_ordering rs) as [|r t] eqn:Eu; [exact He|].
    destruct (is_zero e); [exact He|]. rewrite (no_bad _ Hup). destruct simplify.
    - apply PA_sum_simplify; assumption.
    - unfold PA. cbn [is_err all_atoms orb]. rewrite Hpl, Hup. reflexivity.
  Qed.

  (* ---- Fraction.simplify ---- *)
  Lemma cancel_one_incl x : forall den den', cancel_one x den = Some den' -> incl den' den.
  Proof.
    induction den as [|d t IH]; intros den' H; [discriminate|]. cbn [cancel_one] in H. destruct (expr_eqb x d).
    - injection H as <-. intros y Hy. right. exact Hy.
    - destruct (cancel_one x t) as [t'|] eqn:E; [|discriminate]. injection H as <-. intros y [<-|Hy]; [left; reflexivity|right; apply (IH t' eq_refl); exact Hy].
  Qed.

  Lemma helper_incl : forall num den, incl (fst (simplify_parts_helper num den)) num /\ incl (snd (simplify_parts_helper num den)) den.
  Proof.
    induction num as [|x t IH]; intros den; cbn [simplify_parts_helper]; [split; [apply incl_refl|apply incl_refl]|].
    destruct (cancel_one x den) as [den'|] eqn:E.
    - destruct (IH den') as [H1 H2]. split; [intros y Hy; right; apply H1; exact Hy|intros y Hy; eapply cancel_one_incl; [exact E|apply H2; exact Hy]].
    - destruct (IH den) as [H1 H2]. cbn [fst snd]. split; [intros y [<-|Hy]; [left; reflexivity|right; apply H1; exact Hy]|exact H2].
  Qed.

  Lemma forallb_incl {T} (p : T -> bool) l l' : incl l' l -> forallb p l = true -> forallb p l' = true.
  Proof. intros Hi H. rewrite forallb_forall in *. intros x Hx. apply H. apply Hi. exact Hx. Qed.

  Lemma PA_simplify_parts num den : forallb PA num = true -> forallb PA den = true -> PA (simplify_parts num den) = true.
  Proof.
    intros Hn Hd. unfold simplify_parts. destruct (helper_incl num den) as [H1 H2].
    pose proof (forallb_incl PA num _ H1 Hn) as Hn'. pose proof (forallb_incl PA den _ H2 Hd) as Hd'.
    destruct (fst (simplify_parts_helper num den)) as [|n0 nt]; destruct (snd (simplify_parts_helper num den)) as [|d0 dt].
    - reflexivity.
    - apply PA_truediv; [reflexivity|apply PA_prod_safe; exact Hd'].
    - apply PA_prod_safe. exact Hn'.
    - apply PA_mk_frac; apply PA_prod_safe; assumption.
  Qed.

  Lemma PA_factors e : PA e = true -> forallb PA (match e with EProd es => es | _ => [e] end) = true.
  Proof. intros H. destruct e; try (cbn [forallb]; rewrite H; reflexivity). apply PA_plain_prod. exact H. Qed.

  Lemma PA_frac_simplify_fuel fuel : forall e, PA e = true -> PA (frac_simplify_fuel fuel e) = true.
  Proof.
    induction fuel as [|f IH]; intros e He; destruct e as [| | |n d| | | |]; cbn [frac_simplify_fuel]; try exact He;
      destruct (PA_frac_parts _ _ He) as [Hn Hd].
    - destruct (is_one d); [exact Hn|]. destruct (is_zero n); [exact Hn|]. destruct (is_one n).
      + destruct d; exact He.
      + destruct (expr_eqb n d); [reflexivity|].
        destruct n, d; try exact He;
          try (apply PA_simplify_parts; try (apply PA_plain_prod; assumption); cbn [forallb]; rewrite ?Hn, ?Hd; reflexivity).
    - destruct (is_one d); [exact Hn|]. destruct (is_zero n); [exact Hn|]. destruct (is_one n).
      + destruct d as [| | |n' d'| | | |]; try exact He. apply IH. unfold frac_flip.
        destruct (PA_frac_parts _ _ Hd) as [Hn' Hd']. apply PA_mk_frac; assumption.
      + destruct (expr_eqb n d); [reflexivity|].
        destruct n, d; try exact He;
          try (apply PA_simplify_parts; try (apply PA_plain_prod; assumption); cbn [forallb]; rewrite ?Hn, ?Hd; reflexivity).
  Qed.

  Lemma PA_frac_simplify e : PA e = true -> PA (frac_simplify e) = true.
  Proof. apply PA_frac_simplify_fuel. Qed.

  (* ---- canonicalize: needs the predicate to be insensitive to the order of the variables ---- *)
  Hypothesis A_perm : forall pop ch ch' pa pa', Permutation ch ch' -> Permutation pa pa' -> A pop ch pa = true -> A pop ch' pa' = true.

  Lemma canon_sorted_perm' old o l l' : canon_sorted old o l = Some l' -> Permutation l l'.
  Proof. unfold canon_sorted. destruct (forallb _ l); [|discriminate]. intros E. injection E as <-. apply stable_sort_perm. Qed.

  Lemma PA_factors_of old r : PA r = true -> forallb PA (factors_of old r) = true.
  Proof. intros H. unfold factors_of. destruct old; [cbn [forallb]; rewrite H; reflexivity|]. apply PA_factors. exact H. Qed.

  Lemma PA_post_quotient q : PA q = true -> PA (post_quotient q) = true.
  Proof. intros H. destruct q; try exact H. cbn [post_quotient]. destruct (expr_eqb q1 q2); [reflexivity|exact H]. Qed.

  Theorem PA_cz old o : forall e, PA e = true -> PA (fst (cz old o e)) = true /\ forallb PA (snd (cz old o e)) = true.
  Proof.
    induction e as [pop ch pa|es IH|e rs IH|n d IHn IHd| | |dm cd|k] using expr_ind'; intros He.
    - assert (Hr : PA (match canon_sorted old o ch, canon_sorted old o pa with Some c, Some p => prob_raw pop c p | _, _ => EErr KeyError end) = true).
      { destruct (canon_sorted old o ch) as [c|] eqn:Ec; [|reflexivity]. destruct (canon_sorted old o pa) as [p|] eqn:Ep; [|reflexivity].
        unfold prob_raw. destruct c as [|c0 ct] eqn:Ecc; [reflexivity|]. rewrite <- Ecc in *. apply PA_of_atoms. cbn [all_atoms].
        unfold PA in He. cbn in He. eapply A_perm; [eapply canon_sorted_perm'; exact Ec|eapply canon_sorted_perm'; exact Ep|exact He]. }
      cbn [cz fst snd]. split; [exact Hr|apply PA_factors_of; exact Hr].
    - pose proof (PA_plain_prod _ He) as Hes. cbn [cz fst snd].
      assert (Hl : forallb PA ((fix go (es0 : list expr) : list expr := match es0 with [] => [] | x :: t => snd (cz old o x) ++ go t end) es) = true).
      { clear He. induction IH as [|x t Hx _ IHt]; [reflexivity|]. cbn [forallb] in Hes. apply andb_true_iff in Hes. destruct Hes as [H1 H2].
        rewrite forallb_app. rewrite (proj2 (Hx H1)). apply IHt. exact H2. }
      split; [apply PA_prod_safe_gen; exact Hl|exact Hl].
    - unfold PA in He. cbn [is_err all_atoms orb] in He. apply andb_true_iff in He. destruct He as [He Hrs].
      destruct (IH (PA_of_atoms _ He)) as [Hc _]. cbn [cz fst snd].
      assert (Hr : PA (sum_safe_gen old (fst (cz old o e)) rs true) = true) by (apply PA_sum_safe_gen; assumption).
      split; [exact Hr|apply PA_factors_of; exact Hr].
    - destruct (PA_frac_parts _ _ He) as [Hn Hd]. destruct (IHn Hn) as [Hn' _]. destruct (IHd Hd) as [Hd' _]. cbn [cz fst snd].
      set (n' := fst (cz old o n)) in *. set (d' := fst (cz old o d)) in *.
      assert (Hr : PA (if is_err n' then n' else if is_err d' then d' else if is_one d' then n' else if expr_eqb n' d' then EOne
                       else if old then truediv_old n' d' else post_quotient (truediv n' d')) = true).
      { destruct (is_err n'); [exact Hn'|]. destruct (is_err d'); [exact Hd'|]. destruct (is_one d'); [exact Hn'|].
        destruct (expr_eqb n' d'); [reflexivity|]. destruct old; [|apply PA_post_quotient; apply PA_truediv; assumption].
        (* the pre-repair division: same constructors *)
        unfold truediv_old. destruct n', d'; try exact Hn'; try exact Hd'; try reflexivity; try (apply PA_mk_frac; assumption);
          try (destruct (PA_frac_parts _ _ Hn') as [A1 A2]); try (destruct (PA_frac_parts _ _ Hd') as [B1 B2]);
          try (apply PA_mk_frac; try apply PA_mul; assumption). }
      split; [exact Hr|apply PA_factors_of; exact Hr].
    - cbn [cz fst snd forallb]. split; reflexivity.
    - cbn [cz fst snd forallb]. split; reflexivity.
    - cbn [cz fst snd forallb]. split; reflexivity.
    - cbn [cz fst snd forallb]. split; reflexivity.
  Qed.

  Lemma PA_canonicalize old o e : PA e = true -> PA (canonicalize old o e) = true.
  Proof. intros H. apply PA_cz. exact H. Qed.

  Lemma PA_canonicalize_top old e ordering : PA e = true -> PA (canonicalize_top old e ordering) = true.
  Proof. apply PA_canonicalize. Qed.
End AtomsP.
