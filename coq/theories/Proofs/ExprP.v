(* Induction principle for the nested inductive [expr]; soundness and reflexivity of [expr_eqb]. *)
From Coq Require Import List Bool Arith.
From Y0 Require Import Base.ListSet Dsl.Syntax.
Import ListNotations.

Section ExprInd.
  Variable P : expr -> Prop.
  Hypothesis Hprob : forall pop ch pa, P (EProb pop ch pa).
  Hypothesis Hprod : forall es, Forall P es -> P (EProd es).
  Hypothesis Hsum : forall e rs, P e -> P (ESum e rs).
  Hypothesis Hfrac : forall n d, P n -> P d -> P (EFrac n d).
  Hypothesis Hone : P EOne.
  Hypothesis Hzero : P EZero.
  Hypothesis Hq : forall d c, P (EQ d c).
  Hypothesis Herr : forall k, P (EErr k).

  Fixpoint expr_ind' (e : expr) : P e :=
    match e with
    | EProb pop ch pa => Hprob pop ch pa
    | EProd es => Hprod es ((fix go (es : list expr) : Forall P es :=
                               match es with
                               | [] => Forall_nil P
                               | x :: t => Forall_cons x (expr_ind' x) (go t)
                               end) es)
    | ESum e' rs => Hsum e' rs (expr_ind' e')
    | EFrac n d => Hfrac n d (expr_ind' n) (expr_ind' d)
    | EOne => Hone
    | EZero => Hzero
    | EQ d c => Hq d c
    | EErr k => Herr k
    end.
End ExprInd.

Lemma expr_eqb_true : forall a b, expr_eqb a b = true -> a = b.
Proof.
  induction a as [pop ch pa|es IH|e rs IH|n d IHn IHd| | |d c|k] using expr_ind'; intros b E; destruct b; cbn [expr_eqb] in E; try discriminate.
  - rewrite !andb_true_iff in E. destruct E as [[E1 E2] E3]. apply eqb_true in E1, E2, E3. subst. reflexivity.
  - f_equal. revert es0 E. induction IH as [|x t Hx Ht IHt]; intros [|y u] E; try discriminate; [reflexivity|].
    rewrite andb_true_iff in E. destruct E as [E1 E2]. f_equal; [apply Hx; exact E1|apply IHt; exact E2].
  - rewrite andb_true_iff in E. destruct E as [E1 E2]. apply eqb_true in E2. rewrite (IH _ E1). subst. reflexivity.
  - rewrite andb_true_iff in E. destruct E as [E1 E2]. rewrite (IHn _ E1), (IHd _ E2). reflexivity.
  - reflexivity.
  - reflexivity.
  - rewrite andb_true_iff in E. destruct E as [E1 E2]. apply eqb_true in E1, E2. subst. reflexivity.
  - apply Nat.eqb_eq in E. subst. reflexivity.
Qed.

Lemma expr_eqb_refl : forall a, expr_eqb a a = true.
Proof.
  induction a as [pop ch pa|es IH|e rs IH|n d IHn IHd| | |d c|k] using expr_ind'; cbn [expr_eqb].
  - rewrite !eqb_refl. reflexivity.
  - induction IH as [|x t Hx Ht IHt]; [reflexivity|]. rewrite Hx. exact IHt.
  - rewrite IH, eqb_refl. reflexivity.
  - rewrite IHn, IHd. reflexivity.
  - reflexivity.
  - reflexivity.
  - rewrite !eqb_refl. reflexivity.
  - apply Nat.eqb_refl.
Qed.

Theorem expr_eqb_eq a b : expr_eqb a b = true <-> a = b.
Proof. split; [apply expr_eqb_true|intros ->; apply expr_eqb_refl]. Qed.
