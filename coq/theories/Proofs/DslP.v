(* First theorems about the DSL layer: product order, chain expansion, printing. *)
From Coq Require Import List Bool Arith String Ascii Permutation Sorted.
From Y0 Require Import Base.ListSet Dsl.Syntax Dsl.Text Dsl.Tok Dsl.Build Dsl.Canon Dsl.Print Dsl.Parse Proofs.SortP Proofs.ExprP.
Import ListNotations.

(* ------------------------------------------------------------ Product.safe and presentation order *)

Lemma filter_perm {A} (p : A -> bool) l l' : Permutation l l' -> Permutation (filter p l) (filter p l').
Proof.
  induction 1 as [|x l l' Hp IH|x y l|l l' l'' H1 IH1 H2 IH2]; simpl.
  - constructor.
  - destruct (p x); [constructor|]; exact IH.
  - destruct (p x), (p y); try apply Permutation_refl. apply perm_swap.
  - eapply Permutation_trans; eassumption.
Qed.

Lemma existsb_perm {A} (p : A -> bool) l l' : Permutation l l' -> existsb p l = existsb p l'.
Proof.
  intros Hp. destruct (existsb p l) eqn:E; symmetry.
  - apply existsb_exists in E. destruct E as [x [Hx Hpx]]. apply existsb_exists. exists x. split; [eapply Permutation_in; eassumption|exact Hpx].
  - destruct (existsb p l') eqn:E'; [|reflexivity]. apply existsb_exists in E'. destruct E' as [x [Hx Hpx]].
    assert (existsb p l = true) by (apply existsb_exists; exists x; split; [eapply Permutation_in; [apply Permutation_sym; eassumption|exact Hx]|exact Hpx]).
    congruence.
Qed.

Section ProdPerm.
  (* Product.safe gives the same object for every presentation order of the factors, provided the order used
     for sorting is a strict order without ties among the factors at hand. *)
  Variable old : bool.
  Let lt := if old then expr_lt_old else expr_lt.
  Hypothesis lt_irrefl : forall a, lt a a = false.
  Hypothesis lt_trans : forall a b c, lt a b = true -> lt b c = true -> lt a c = true.

  Theorem prod_safe_perm es es' :
    forallb (fun e => negb (is_err e)) es = true ->
    (forall a b, In a es -> In b es -> lt a b = false -> lt b a = false -> a = b) ->
    Permutation es es' -> prod_safe_gen old es = prod_safe_gen old es'.
  Proof.
    intros Hne Htot Hp. unfold prod_safe_gen.
    assert (Hf : forall l, forallb (fun e => negb (is_err e)) l = true -> first_err l = None).
    { intros l Hl. unfold first_err. destruct (find is_err l) eqn:E; [|reflexivity]. apply find_some in E.
      destruct E as [Hin He]. rewrite forallb_forall in Hl. apply Hl in Hin. rewrite He in Hin. discriminate. }
    assert (Hne' : forallb (fun e => negb (is_err e)) es' = true).
    { rewrite forallb_forall in *. intros x Hx. apply Hne. eapply Permutation_in; [apply Permutation_sym; exact Hp|exact Hx]. }
    rewrite (Hf _ Hne), (Hf _ Hne').
    pose proof (filter_perm (fun e => negb (is_one e)) _ _ Hp) as Hp1.
    rewrite (existsb_perm is_zero _ _ Hp1).
    destruct (existsb is_zero (filter (fun e => negb (is_one e)) es')); [reflexivity|].
    assert (Hs : stable_sort lt (filter (fun e => negb (is_one e)) es) = stable_sort lt (filter (fun e => negb (is_one e)) es')).
    { apply stable_sort_perm_invariant; try assumption.
      intros a b Ha Hb. apply filter_In in Ha, Hb. apply Htot; tauto. }
    pose proof (Permutation_length Hp1) as Hlen.
    destruct (filter (fun e => negb (is_one e)) es) as [|x [|y t]] eqn:E1;
      destruct (filter (fun e => negb (is_one e)) es') as [|x' [|y' t']] eqn:E2; simpl in Hlen; try discriminate.
    - reflexivity.
    - apply Permutation_length_1 in Hp1. subst. reflexivity.
    - fold lt. rewrite Hs. reflexivity.
  Qed.
End ProdPerm.

(* the pinned tree before the repair: P(A|B)*P(A|C) and P(A|C)*P(A|B) give different objects *)
Theorem prod_safe_old_order_dependent :
  exists es es', Permutation es es' /\ prod_safe_gen true es <> prod_safe_gen true es'.
Proof.
  exists [EProb None [V 0] [V 1]; EProb None [V 0] [V 2]], [EProb None [V 0] [V 2]; EProb None [V 0] [V 1]].
  split; [apply perm_swap|]. vm_compute. discriminate.
Qed.

Example prod_safe_repaired_on_witness :
  prod_safe [EProb None [V 0] [V 1]; EProb None [V 0] [V 2]] = prod_safe [EProb None [V 0] [V 2]; EProb None [V 0] [V 1]].
Proof. vm_compute. reflexivity. Qed.

(* the pinned tree before the repairs: canonicalize is not idempotent on  Sum[D](P(B,C)) / (One / P(-C | A)) *)
Definition idem_witness : expr :=
  EFrac (ESum (EProb None [V 1; V 2] []) [V 3]) (EFrac EOne (EProb None [mkVar KIv 2 (Some false) []] [V 0])).
Definition idem_order : list var := [V 0; V 1; V 2; V 3].

Theorem canonicalize_old_not_idempotent :
  canonicalize true idem_order (canonicalize true idem_order idem_witness) <> canonicalize true idem_order idem_witness.
Proof. vm_compute. discriminate. Qed.

Example canonicalize_repaired_idempotent_on_witness :
  canonicalize false idem_order (canonicalize false idem_order idem_witness) = canonicalize false idem_order idem_witness.
Proof. vm_compute. reflexivity. Qed.

(* ------------------------------------------------------------ canonical equality *)

Theorem canonical_expr_equal_spec a b :
  canonical_expr_equal a b = true <->
  let o := sorted_variables (dedup (iter_variables a ++ iter_variables b)) in
  canonicalize false o a = canonicalize false o b.
Proof. unfold canonical_expr_equal. apply expr_eqb_eq. Qed.

(* the pinned tree before the repair: Sum[A,B,C](P(A,B)) lost its range C *)
Theorem sum_simplify_old_drops_ranges :
  sum_simplify_gen true (EProb None [V 0; V 1] []) [V 0; V 1; V 2] = EOne /\
  sum_simplify_gen false (EProb None [V 0; V 1] []) [V 0; V 1; V 2] = ESum EOne [V 2].
Proof. vm_compute. auto. Qed.

(* ------------------------------------------------------------ chain expansion yields single-child factors *)

Lemma markov_all_single (es : list expr) :
  Forall (fun e => exists pop c pa, e = EProb pop [c] pa) es ->
  has_markov_postcondition (EProd es) = Some true.
Proof.
  induction 1 as [|x t [pop [c [pa ->]]] Ht IH]; [reflexivity|]. simpl in *. exact IH.
Qed.

Lemma prod_safe_single_children (es : list expr) :
  es <> [] ->
  Forall (fun e => exists pop c pa, e = EProb pop [c] pa) es ->
  has_markov_postcondition (prod_safe es) = Some true.
Proof.
  intros Hne Hall. unfold prod_safe, prod_safe_gen.
  assert (Hf : first_err es = None).
  { unfold first_err. destruct (find is_err es) eqn:E; [|reflexivity]. apply find_some in E. destruct E as [Hin He].
    rewrite Forall_forall in Hall. destruct (Hall _ Hin) as [? [? [? ->]]]. discriminate. }
  rewrite Hf.
  assert (Hfil : filter (fun e => negb (is_one e)) es = es).
  { clear -Hall. induction Hall as [|x t [? [? [? ->]]] Ht IH]; simpl; [reflexivity|]. f_equal. exact IH. }
  rewrite Hfil.
  assert (Hz : existsb is_zero es = false).
  { clear -Hall. induction Hall as [|x t [? [? [? ->]]] Ht IH]; simpl; [reflexivity|exact IH]. }
  rewrite Hz. destruct es as [|x [|y t]]; [congruence| |].
  - inversion Hall as [|? ? [? [? [? ->]]] _]; subst. reflexivity.
  - apply markov_all_single. rewrite Forall_forall in *. intros e He.
    apply Hall. eapply Permutation_in; [apply Permutation_sym; apply stable_sort_perm|exact He].
Qed.

Theorem chain_expand_single_children pop ch pa reorder ordering :
  ch <> [] ->
  match chain_expand (EProb pop ch pa) reorder ordering with
  | EErr _ => True
  | r => has_markov_postcondition r = Some true
  end.
Proof.
  intros Hch. unfold chain_expand.
  set (ordered := if reorder then _ else _). destruct ordered as [oc|] eqn:Eo; [|exact I].
  destruct oc as [|c0 rest] eqn:Eoc.
  - (* no ordered child: only when the children are not covered, which returns ValueError above *)
    simpl. unfold prod_safe, prod_safe_gen. simpl.
    (* prod_safe [] = EOne: has no markov verdict; show this case is impossible *)
    exfalso. unfold ordered in Eo. destruct reorder.
    + destruct (forallb (fun v => mem v (ensure_ordering (EProb pop ch pa) ordering)) ch) eqn:Ef; [|discriminate].
      inversion Eo as [Hfil]. destruct ch as [|c t]; [congruence|]. simpl in Ef. rewrite andb_true_iff in Ef. destruct Ef as [Hc _].
      apply mem_In in Hc. assert (Hin : In c (filter (fun v => mem v (c :: t)) (ensure_ordering (EProb pop (c :: t) pa) ordering))).
      { apply filter_In. split; [exact Hc|]. apply mem_In. left. reflexivity. }
      rewrite Hfil in Hin. destruct Hin.
    + inversion Eo. congruence.
  - assert (Hall : Forall (fun e => exists pop' c pa', e = EProb pop' [c] pa')
                          (map (fun xt => prob_raw pop [fst xt] (upgrade_ordering (snd xt ++ pa))) (tails (c0 :: rest)))).
    { apply Forall_forall. intros e He. apply in_map_iff in He. destruct He as [[x t] [<- _]]. simpl. eauto. }
    assert (Hne2 : map (fun xt => prob_raw pop [fst xt] (upgrade_ordering (snd xt ++ pa))) (tails (c0 :: rest)) <> [])
      by (simpl; discriminate).
    pose proof (prod_safe_single_children _ Hne2 Hall) as Hm.
    revert Hm. generalize (prod_safe (map (fun xt => prob_raw pop [fst xt] (upgrade_ordering (snd xt ++ pa))) (tails (c0 :: rest)))).
    intros r Hm. destruct r; try exact Hm. discriminate.
Qed.

(* ------------------------------------------------------------ printing *)

Open Scope string_scope.

Theorem product_denominator_is_bracketed_toks n ds :
  toks (EFrac n (EProd ds)) =
  ([sym "("%char; sym "("%char] ++ toks n ++ [ssym "/"%char] ++ (ssym "("%char :: toks (EProd ds) ++ [sym ")"%char]) ++ [sym ")"%char; sym ")"%char])%list.
Proof. reflexivity. Qed.

Theorem product_denominator_is_bracketed n ds :
  to_y0 (EFrac n (EProd ds)) = "((" ++ to_y0 n ++ " / " ++ ("(" ++ to_y0 (EProd ds) ++ ")") ++ "))".
Proof.
  unfold to_y0, to_y0_gen. fold toks. rewrite product_denominator_is_bracketed_toks.
  change (ssym "("%char :: toks (EProd ds) ++ [sym ")"%char])%list with ([ssym "("%char] ++ toks (EProd ds) ++ [sym ")"%char])%list.
  rewrite !render_app. cbn [render tok_str sym ssym fst snd]. rewrite !sapp_assoc. reflexivity.
Qed.

Definition pA := EProb None [V 0] [].
Definition pB := EProb None [V 1] [].
Definition pC := EProb None [V 2] [].

(* the pinned tree before the repair: P(A) / (P(B) * P(C)) printed without brackets reads as P(A) * P(C) / P(B) *)
Theorem old_printer_ambiguous :
  parse_y0 (to_y0_old (EFrac pA (EProd [pB; pC]))) = EFrac (EProd [pA; pC]) pB.
Proof. vm_compute. reflexivity. Qed.

Example repaired_printer_round_trips_witness :
  parse_y0 (to_y0 (EFrac pA (EProd [pB; pC]))) = EFrac pA (EProd [pB; pC]).
Proof. vm_compute. reflexivity. Qed.

Example parse_one_zero : parse_y0 "One()" = EOne /\ parse_y0 "Zero()" = EZero /\ parse_y0 (to_y0 (ESum EOne [V 2])) = ESum EOne [V 2].
Proof. vm_compute. auto. Qed.
