(* C12, evaluation layer: applying y0's overloaded operators along the tree the parser builds from the printed text gives
   back the object itself, for every expression in operator normal form [wf_rt] (what the public operators build) whose
   divisions have division-free, non-constant operands and are not factors of a product; terms in the long form P(..) and in the
   short form P[interventions](..) alike. *)
From Coq Require Import List Bool Arith Lia String Ascii Permutation Sorted.
From Y0 Require Import Base.ListSet Dsl.Syntax Dsl.Text Dsl.Tok Dsl.Print Dsl.Build Dsl.Canon Dsl.Parse
  Proofs.SortP Proofs.ExprP Proofs.SurgeryP Proofs.SumSimpP Proofs.LawP Proofs.OrderP Proofs.CanonNfP Proofs.CanonNf3P Proofs.TokenizeP Proofs.ParseP.
Import ListNotations.
Open Scope list_scope.
Open Scope char_scope.

Definition is_none {T} (o : option T) : bool := match o with None => true | Some _ => false end.

(* variables the operators build: a plain variable, a value (+X / -X), or a counterfactual variable with a normalised, non-empty
   set of interventions *)
Definition wfvar (v : var) : bool :=
  name_ok (vn v) && forallb (fun i : nat * bool => name_ok (fst i)) (vi v) &&
  match vk v with
  | KVar => is_none (vs v) && is_nil (vi v)
  | KIv => negb (is_none (vs v)) && is_nil (vi v)
  | KCf => negb (is_nil (vi v)) && eqb (norm_ivs (vi v)) (vi v)
  end.

Lemma lookup_name n : name_ok n = true -> lookup (name_str n) = VVar (V n).
Proof.
  unfold name_ok. intros H. apply Nat.ltb_lt in H. do 24 (destruct n as [|n]; [reflexivity|]). lia.
Qed.

Definition signed_var (s : option bool) (n : nat) : var := match s with None => V n | Some b => mkVar KIv n (Some b) [] end.

Lemma eval_signed s n : name_ok n = true -> eval_ast (sign_ast s (AName (name_str n))) = VVar (signed_var s n).
Proof.
  intros H. destruct s as [[|]|]; cbn [sign_ast eval_ast signed_var]; rewrite (lookup_name n H); reflexivity.
Qed.

Lemma eval_iv i : name_ok (fst i) = true -> eval_ast (iv_ast i) = VVar (mkVar KIv (fst i) (Some (snd i)) []).
Proof. intros H. unfold iv_ast. rewrite (eval_signed (Some (snd i)) (fst i) H). reflexivity. Qed.

Lemma norm_ivs_single i : norm_ivs [i] = [i].
Proof. reflexivity. Qed.

Lemma as_vars_map l : as_vars (map VVar l) = Some l.
Proof. induction l as [|a t IH]; [reflexivity|]. unfold as_vars in *. cbn [map]. cbn [map_opt]. rewrite IH. reflexivity. Qed.

Lemma to_intervention_iv (ivs : list (nat * bool)) : map to_intervention (map (fun i : nat * bool => mkVar KIv (fst i) (Some (snd i)) []) ivs) = ivs.
Proof. induction ivs as [|[n b] t IH]; [reflexivity|]. cbn [map]. rewrite IH. reflexivity. Qed.

Theorem eval_var v : wfvar v = true -> eval_ast (var_ast v) = VVar v.
Proof.
  unfold wfvar. intros H. apply andb_true_iff in H. destruct H as [H Hk]. apply andb_true_iff in H. destruct H as [Hn Hi].
  destruct v as [k n s ivs]. cbn [vk vn vs vi] in *. unfold var_ast. cbn [vk vn vs vi].
  pose proof (eval_signed s n Hn) as Hs.
  destruct k.
  - apply andb_true_iff in Hk. destruct Hk as [H1 H2]. destruct s; [discriminate|]. destruct ivs; [|discriminate]. exact Hs.
  - apply andb_true_iff in Hk. destruct Hk as [H1 H2]. destruct s as [b|]; [|discriminate]. destruct ivs; [|discriminate]. exact Hs.
  - apply andb_true_iff in Hk. destruct Hk as [H1 H2]. apply eqb_true in H2. rewrite forallb_forall in Hi.
    assert (Hx : vk (signed_var s n) <> KCf /\ vn (signed_var s n) = n /\ vs (signed_var s n) = s) by (destruct s; cbn; repeat split; discriminate).
    destruct Hx as [Hk' [Hn' Hs']].
    assert (Hint : forall ys, norm_ivs (map to_intervention ys) = ivs -> var_intervene (signed_var s n) ys = Some (mkVar KCf n s ivs)).
    { intros ys E. unfold var_intervene. destruct (vk (signed_var s n)) eqn:Ek; try congruence; rewrite E, Hn', Hs'; destruct ivs; try discriminate; reflexivity. }
    destruct ivs as [|i [|j t]]; [discriminate| |].
    + cbn [eval_ast]. rewrite Hs, (eval_iv i (Hi i (or_introl eq_refl))). cbn [binop Ascii.eqb Bool.eqb].
      rewrite (Hint [mkVar KIv (fst i) (Some (snd i)) []]); [reflexivity|]. destruct i; reflexivity.
    + cbn [eval_ast]. rewrite Hs. rewrite map_map.
      rewrite (map_ext_in _ (fun i0 : nat * bool => VVar (mkVar KIv (fst i0) (Some (snd i0)) []))) by (intros i0 Hi0; apply eval_iv; apply Hi; exact Hi0).
      rewrite <- (map_map (fun i0 : nat * bool => mkVar KIv (fst i0) (Some (snd i0)) []) VVar).
      cbn [binop Ascii.eqb Bool.eqb]. rewrite as_vars_map. rewrite Hint; [reflexivity|]. rewrite to_intervention_iv. exact H2.
Qed.

(* ---------------------------------------------------------------- lists fixed by _upgrade_ordering *)
Definition fixed (l : list var) : Prop := upgrade_ordering l = l.

Lemma fixed_iff l : fixed l <-> sorted var_sort_lt l /\ NoDup l.
Proof.
  unfold fixed. split.
  - intros E. split; [rewrite <- E; apply upgrade_sorted|rewrite <- E; apply NoDup_upgrade].
  - intros [Hs Hn]. unfold upgrade_ordering. rewrite (dedup_NoDup_id _ Hn). unfold sorted_variables. apply stable_sort_sorted_id. exact Hs.
Qed.

Lemma sorted_app_l {T} (lt : T -> T -> bool) l1 l2 : sorted lt (l1 ++ l2) -> sorted lt l1.
Proof.
  unfold sorted. induction l1 as [|a t IH]; intros H; [constructor|]. cbn [app] in H. inversion H as [|? ? Ht Hall]; subst.
  constructor; [apply IH; exact Ht|]. rewrite Forall_forall in *. intros x Hx. apply Hall. apply in_or_app. left. exact Hx.
Qed.

Lemma sorted_app_r {T} (lt : T -> T -> bool) l1 l2 : sorted lt (l1 ++ l2) -> sorted lt l2.
Proof.
  unfold sorted. induction l1 as [|a t IH]; intros H; [exact H|]. cbn [app] in H. inversion H; subst. apply IH. assumption.
Qed.

Lemma NoDup_app_l {T} (l1 l2 : list T) : NoDup (l1 ++ l2) -> NoDup l1.
Proof.
  induction l1 as [|a t IH]; intros H; [constructor|]. cbn [app] in H. inversion H as [|? ? Hn Ht]; subst.
  constructor; [intros Hin; apply Hn; apply in_or_app; left; exact Hin|apply IH; exact Ht].
Qed.
Lemma NoDup_app_r {T} (l1 l2 : list T) : NoDup (l1 ++ l2) -> NoDup l2.
Proof. induction l1 as [|a t IH]; intros H; [exact H|]. cbn [app] in H. inversion H; subst. apply IH. assumption. Qed.

Lemma fixed_app l1 l2 : fixed (l1 ++ l2) -> fixed l1 /\ fixed l2.
Proof.
  intros H. apply fixed_iff in H. destruct H as [Hs Hn]. split; apply fixed_iff; split.
  - eapply sorted_app_l; exact Hs.
  - eapply NoDup_app_l; exact Hn.
  - eapply sorted_app_r; exact Hs.
  - eapply NoDup_app_r; exact Hn.
Qed.

Lemma fixed_sorted_variables l : fixed l -> sorted_variables l = l.
Proof. intros H. apply fixed_iff in H. unfold sorted_variables. apply stable_sort_sorted_id. apply H. Qed.

(* plain variables sorted by _variable_sort_key are sorted by name *)
Lemma by_name_fixed l : fixed l -> by_name_v l = l.
Proof.
  intros H. apply fixed_iff in H. destruct H as [Hs _]. unfold by_name_v. apply stable_sort_sorted_id.
  unfold sorted in *. induction Hs as [|a t Ht IH Hall]; constructor; [exact IH|]. rewrite Forall_forall in *. intros b Hb. specialize (Hall b Hb).
  unfold nafter in *. unfold var_sort_lt in Hall. apply orb_false_iff in Hall. apply Hall.
Qed.

(* ---------------------------------------------------------------- distributions and probability terms *)
Definition dist_vals (ch pa : list var) : list value :=
  match pa with
  | [] => map VVar ch
  | p1 :: ps => match rev ch with
                | [] => []
                | cl :: rci => map VVar (rev rci) ++ VDist [cl] [p1] :: map VVar ps
                end
  end.

Lemma eval_dist_items ch pa : forallb wfvar ch = true -> forallb wfvar pa = true ->
  map eval_ast (map snd (dist_items ch pa)) = dist_vals ch pa.
Proof.
  intros Hc Hp. rewrite forallb_forall in Hc, Hp.
  assert (Hv : forall l, (forall v, In v l -> wfvar v = true) -> map eval_ast (map snd (map vitem l)) = map VVar l).
  { intros l Hl. rewrite !map_map. apply map_ext_in. intros v Hv. cbn [snd vitem]. apply eval_var. apply Hl. exact Hv. }
  unfold dist_items, dist_vals. destruct pa as [|p1 ps]; [apply Hv; exact Hc|].
  destruct (rev ch) as [|cl rci] eqn:Er; [reflexivity|].
  assert (Ech : ch = rev rci ++ [cl]) by (rewrite <- (rev_involutive ch), Er; reflexivity).
  rewrite !map_app. rewrite Hv by (intros v Hv0; apply Hc; rewrite Ech; apply in_or_app; left; exact Hv0).
  rewrite Hv by (intros v Hv0; apply Hp; right; exact Hv0).
  cbn [map snd eval_ast]. rewrite (eval_var cl) by (apply Hc; rewrite Ech; apply in_or_app; right; left; reflexivity).
  rewrite (eval_var p1) by (apply Hp; left; reflexivity). reflexivity.
Qed.

Lemma find_err_none (l : list value) : (forall x, In x l -> match x with VErr _ => False | _ => True end) ->
  find (fun a => match a with VErr _ => true | _ => false end) l = None.
Proof.
  induction l as [|a t IH]; intros H; [reflexivity|]. cbn [find]. pose proof (H a (or_introl eq_refl)) as Ha. destruct a; try (apply IH; intros x Hx; apply H; right; exact Hx). destruct Ha.
Qed.

(* evaluating a list of variable trees *)
Lemma eval_vars l : forallb wfvar l = true -> map eval_ast (map var_ast l) = map VVar l.
Proof. intros H. rewrite forallb_forall in H. rewrite map_map. apply map_ext_in. intros v Hv. apply eval_var. apply H. exact Hv. Qed.

Lemma find_err_vars l : find (fun a => match a with VErr _ => true | _ => false end) (map VVar l) = None.
Proof. apply find_err_none. intros x Hx. apply in_map_iff in Hx. destruct Hx as [v [<- _]]. exact I. Qed.

Lemma flat_args_vars l : as_vars (flat_args (map VVar l)) = Some l.
Proof. destruct l as [|a [|b t]]; [reflexivity|reflexivity|]. change (flat_args (map VVar (a :: b :: t))) with (map VVar (a :: b :: t)). apply as_vars_map. Qed.

Lemma dist_vals_no_err ch pa x : In x (dist_vals ch pa) -> match x with VErr _ => False | _ => True end.
Proof.
  unfold dist_vals. intros Hin.
  assert (Hv : forall l, In x (map VVar l) -> match x with VErr _ => False | _ => True end) by (intros l H; apply in_map_iff in H; destruct H as [v [<- _]]; exact I).
  destruct pa as [|p1 ps]; [apply (Hv ch Hin)|]. destruct (rev ch) as [|cl rci]; [destruct Hin|].
  apply in_app_or in Hin. destruct Hin as [Hin|[<-|Hin]]; [apply (Hv _ Hin)|exact I|apply (Hv _ Hin)].
Qed.

Lemma call_P_vals pop ivs ch pa : ch <> [] ->
  call_P pop ivs (dist_vals ch pa) =
  VExpr (match pa with
         | [] => prob_safe pop ch None [] ivs
         | p1 :: ps => prob_safe pop (removelast ch) (Some ([last ch (V 0)], [p1])) ps ivs
         end).
Proof.
  intros Hne. unfold call_P.
  set (split := fix split (args : list value) (pre : list var) {struct args} : option (list var * option (list var * list var) * list var) :=
      match args with
      | [] => Some (pre, None, [])
      | VVar x :: t => split t (pre ++ [x])
      | VDist c p :: t => match as_vars t with Some post => Some (pre, Some (c, p), post) | None => None end
      | _ => None
      end).
  assert (Hsplit : forall l acc rest, split (map VVar l ++ rest) acc = split rest (acc ++ l)).
  { induction l as [|a t IH]; intros acc rest; [rewrite app_nil_r; reflexivity|]. cbn [map app]. cbn [split]. rewrite IH, <- app_assoc. reflexivity. }
  unfold dist_vals. destruct pa as [|p1 ps].
  - assert (E : split (map VVar ch) [] = Some (ch, None, [])).
    { pose proof (Hsplit ch [] []) as H. rewrite app_nil_r in H. rewrite H. reflexivity. }
    destruct ch as [|c0 [|c1 ct]]; [congruence| |]; cbn [map] in *; rewrite E; reflexivity.
  - destruct (rev ch) as [|cl rci] eqn:Er; [exfalso; apply Hne; rewrite <- (rev_involutive ch), Er; reflexivity|].
    assert (Ech : ch = rev rci ++ [cl]) by (rewrite <- (rev_involutive ch), Er; reflexivity).
    assert (E : split (map VVar (rev rci) ++ VDist [cl] [p1] :: map VVar ps) [] = Some (rev rci, Some ([cl], [p1]), ps)).
    { rewrite Hsplit. cbn [app split]. rewrite as_vars_map. reflexivity. }
    rewrite Ech, removelast_last, last_last.
    destruct (map VVar (rev rci) ++ VDist [cl] [p1] :: map VVar ps) as [|v0 [|v1 vt]] eqn:El.
    + destruct (map VVar (rev rci)); discriminate.
    + rewrite E. destruct (rev rci) as [|r0 rt]; [cbn in El; injection El as <-; reflexivity|]. cbn in El. destruct (map VVar rt); discriminate.
    + rewrite E. destruct v0; reflexivity.
Qed.

Lemma dist_vals_nonempty ch pa : ch <> [] -> dist_vals ch pa <> [].
Proof.
  intros Hne. unfold dist_vals. destruct pa as [|p1 ps]; [destruct ch; [congruence|discriminate]|].
  destruct (rev ch) as [|cl rci] eqn:Er; [exfalso; apply Hne; rewrite <- (rev_involutive ch), Er; reflexivity|].
  intros E. apply app_eq_nil in E. destruct E as [_ E]. discriminate.
Qed.

Lemma eval_head pop : match pop with Some p => wfvar p = true | None => True end -> eval_ast (head_ast pop) = VP pop None.
Proof.
  destruct pop as [p|]; intros H; [|reflexivity]. cbn [head_ast eval_ast map]. rewrite (eval_var p H). reflexivity.
Qed.

Theorem eval_prob pop ch pa :
  match pop with Some p => wfvar p = true | None => True end -> forallb wfvar ch = true -> forallb wfvar pa = true ->
  ch <> [] -> fixed ch -> fixed pa -> level2 ch pa = None ->
  eval_ast (prob_ast pop ch pa) = VExpr (EProb pop ch pa).
Proof.
  intros Hpop Hc Hp Hne Fc Fp Hl2. unfold prob_ast. rewrite Hl2. cbn [eval_ast]. rewrite (eval_head pop Hpop), (eval_dist_items ch pa Hc Hp).
  unfold call. rewrite (find_err_none _ (dist_vals_no_err ch pa)).
  pose proof (dist_vals_nonempty ch pa Hne) as Hvn. destruct (dist_vals ch pa) as [|v0 vt] eqn:Ev; [congruence|]. rewrite <- Ev.
  rewrite (call_P_vals pop None ch pa Hne). f_equal. unfold prob_safe, dist_safe. destruct pa as [|p1 ps].
  - cbn [fst snd]. rewrite app_nil_r, Fc. unfold prob_raw. destruct ch; [congruence|reflexivity].
  - cbn [fst snd].
    assert (Ech : ch = removelast ch ++ [last ch (V 0)]) by (apply app_removelast_last; exact Hne).
    assert (Fi : fixed (removelast ch)) by (rewrite Ech in Fc; apply (fixed_app _ _ Fc)).
    assert (Fps : fixed ps) by (change (p1 :: ps) with ([p1] ++ ps) in Fp; apply (fixed_app _ _ Fp)).
    rewrite Fi, Fps, <- Ech. rewrite (fixed_sorted_variables ch Fc). cbn [app]. rewrite (fixed_sorted_variables (p1 :: ps) Fp).
    unfold prob_raw. destruct ch; [congruence|reflexivity].
Qed.

(* ---------------------------------------------------------------- the short form P[interventions](stripped variables) *)
Definition sv (v : var) : var := signed_var (vs v) (vn v).
Definition l2var (i : nat * bool) : var := if snd i then mkVar KIv (fst i) (Some true) [] else V (fst i).

Lemma eval_strip v : name_ok (vn v) = true -> eval_ast (var_ast (strip v)) = VVar (sv v).
Proof. intros H. unfold var_ast, strip, sv. cbn [vk vn vs vi]. apply eval_signed. exact H. Qed.

Lemma eval_l2 i : name_ok (fst i) = true -> eval_ast (l2_ast i) = VVar (l2var i).
Proof. intros H. unfold l2_ast, l2var. destruct (snd i); cbn [eval_ast]; rewrite (lookup_name _ H); reflexivity. Qed.

Lemma eval_dist_items_gen (g : var -> var) ch pa : (forall v, In v (ch ++ pa) -> eval_ast (var_ast v) = VVar (g v)) ->
  map eval_ast (map snd (dist_items ch pa)) = dist_vals (map g ch) (map g pa).
Proof.
  intros H.
  assert (Hv : forall l, (forall v, In v l -> In v (ch ++ pa)) -> map eval_ast (map snd (map vitem l)) = map VVar (map g l)).
  { intros l Hl. rewrite !map_map. apply map_ext_in. intros v Hv. cbn [snd vitem]. apply H. apply Hl. exact Hv. }
  unfold dist_items, dist_vals. destruct pa as [|p1 ps]; [apply Hv; intros v Hv0; rewrite app_nil_r; exact Hv0|].
  cbn [map]. destruct (rev ch) as [|cl rci] eqn:Er.
  - rewrite <- map_rev, Er. reflexivity.
  - assert (Ech : ch = rev rci ++ [cl]) by (rewrite <- (rev_involutive ch), Er; reflexivity).
    replace (rev (map g ch)) with (g cl :: map g rci) by (rewrite <- map_rev, Er; reflexivity).
    rewrite !map_app. rewrite <- (map_rev g rci).
    rewrite (Hv (rev rci)) by (intros v Hv0; apply in_or_app; left; rewrite Ech; apply in_or_app; left; exact Hv0).
    rewrite (Hv ps) by (intros v Hv0; apply in_or_app; right; right; exact Hv0).
    cbn [map snd eval_ast]. rewrite (H cl) by (apply in_or_app; left; rewrite Ech; apply in_or_app; right; left; reflexivity).
    rewrite (H p1) by (apply in_or_app; right; left; reflexivity). reflexivity.
Qed.

Lemma level2_all ch pa ivs : level2 ch pa = Some ivs -> ivs <> [] /\ forall v, In v (ch ++ pa) -> vk v = KCf /\ vi v = ivs.
Proof.
  unfold level2. set (f := fun v : var => match vk v with KCf => vi v | _ => [] end).
  destruct (dedup (map f (ch ++ pa))) as [|x [|y t]] eqn:E; try discriminate. destruct x as [|i0 it] eqn:Ex; [discriminate|].
  intros H. injection H as <-. split; [discriminate|]. intros v Hv.
  assert (Hin : In (f v) (dedup (map f (ch ++ pa)))) by (apply (proj2 (In_dedup _ _)); apply in_map; exact Hv).
  rewrite E in Hin. destruct Hin as [Hin|[]]. unfold f in Hin. destruct (vk v); try discriminate. split; [reflexivity|symmetry; exact Hin].
Qed.

Lemma iv_lt_irrefl a : iv_lt a a = false.
Proof. unfold iv_lt. rewrite Nat.ltb_irrefl, Nat.eqb_refl. destruct (snd a); reflexivity. Qed.

Lemma iv_lt_trans a b c : iv_lt a b = true -> iv_lt b c = true -> iv_lt a c = true.
Proof.
  unfold iv_lt. destruct a as [n1 b1], b as [n2 b2], c as [n3 b3]. cbn [fst snd]. intros H1 H2.
  apply orb_true_iff in H1, H2. apply orb_true_iff.
  destruct H1 as [H1|H1], H2 as [H2|H2].
  - left. apply Nat.ltb_lt in H1, H2. apply Nat.ltb_lt. lia.
  - left. apply Nat.ltb_lt in H1. apply andb_true_iff in H2. destruct H2 as [H2 _]. apply andb_true_iff in H2. destruct H2 as [H2 _]. apply Nat.eqb_eq in H2. apply Nat.ltb_lt. lia.
  - left. apply Nat.ltb_lt in H2. apply andb_true_iff in H1. destruct H1 as [H1 _]. apply andb_true_iff in H1. destruct H1 as [H1 _]. apply Nat.eqb_eq in H1. apply Nat.ltb_lt. lia.
  - apply andb_true_iff in H1, H2. destruct H1 as [H1 B2]. destruct H2 as [H2 B3]. apply andb_true_iff in H1, H2. destruct H1 as [E1 B1]. destruct H2 as [E2 B2'].
    destruct b2; discriminate.
Qed.

Lemma iv_lt_total a b : iv_lt a b = false -> iv_lt b a = false -> a = b.
Proof.
  unfold iv_lt. destruct a as [n1 b1], b as [n2 b2]. cbn [fst snd]. intros H1 H2. apply orb_false_iff in H1, H2.
  destruct H1 as [L1 E1]. destruct H2 as [L2 E2]. apply Nat.ltb_ge in L1, L2. assert (n1 = n2) by lia. subst n2.
  rewrite Nat.eqb_refl in E1, E2. destruct b1, b2; try discriminate; reflexivity.
Qed.

Lemma norm_ivs_perm l l' : NoDup l -> Permutation l l' -> norm_ivs l' = norm_ivs l.
Proof.
  intros Hn Hp. unfold norm_ivs. rewrite (dedup_NoDup_id _ Hn). rewrite (dedup_NoDup_id l') by (eapply Permutation_NoDup; eassumption).
  symmetry. apply stable_sort_perm_invariant; [exact iv_lt_irrefl|exact iv_lt_trans| |exact Hp]. intros a b _ _. apply iv_lt_total.
Qed.

Lemma norm_ivs_NoDup l : NoDup (norm_ivs l).
Proof. unfold norm_ivs. eapply Permutation_NoDup; [apply stable_sort_perm|apply NoDup_dedup]. Qed.

Lemma to_intervention_l2 l : map to_intervention (map l2var l) = l.
Proof. induction l as [|[n b] t IH]; [reflexivity|]. cbn [map]. rewrite IH. destruct b; reflexivity. Qed.

Lemma l2var_inj a b : l2var a = l2var b -> a = b.
Proof. destruct a as [n1 [|]], b as [n2 [|]]; unfold l2var; cbn [fst snd]; intros H; inversion H; reflexivity. Qed.

Lemma l2_interventions ivs : norm_ivs ivs = ivs -> norm_ivs (map to_intervention (upgrade_ordering (map l2var ivs))) = ivs.
Proof.
  intros Hn. assert (Hnd : NoDup ivs) by (rewrite <- Hn; apply norm_ivs_NoDup).
  assert (Hnd2 : NoDup (map l2var ivs)) by (apply FinFun.Injective_map_NoDup; [intros a b; apply l2var_inj|exact Hnd]).
  rewrite <- Hn at 2. apply norm_ivs_perm; [exact Hnd|].
  rewrite <- (to_intervention_l2 ivs) at 1. apply Permutation_map.
  rewrite <- (dedup_NoDup_id _ Hnd2) at 1. apply upgrade_perm.
Qed.

Lemma NoDup_map_in {S T} (f : S -> T) l : (forall a b, In a l -> In b l -> f a = f b -> a = b) -> NoDup l -> NoDup (map f l).
Proof.
  induction l as [|x t IH]; intros Hinj Hn; [constructor|]. inversion Hn as [|? ? Hx Ht]; subst. cbn [map]. constructor.
  - intros Hin. apply in_map_iff in Hin. destruct Hin as [y [E Hy]]. apply Hx. rewrite <- (Hinj y x (or_intror Hy) (or_introl eq_refl) E). exact Hy.
  - apply IH; [|exact Ht]. intros a b Ha Hb. apply Hinj; right; assumption.
Qed.

Lemma map_opt_map {S T} (f : T -> option S) (g : S -> T) l : (forall v, In v l -> f (g v) = Some v) -> map_opt f (map g l) = Some l.
Proof.
  induction l as [|a t IH]; intros H; [reflexivity|]. cbn [map map_opt]. rewrite (H a (or_introl eq_refl)), IH; [reflexivity|].
  intros v Hv. apply H. right. exact Hv.
Qed.

Lemma fixed_sv l ivs : (forall v, In v l -> vk v = KCf /\ vi v = ivs) -> fixed l -> fixed (map sv l).
Proof.
  intros Hall Hf. apply fixed_iff in Hf. destruct Hf as [Hs Hn]. apply fixed_iff. split.
  - unfold sorted in *. clear Hn. induction Hs as [|a t Ht IH Hfa]; [constructor|]. cbn [map]. constructor.
    + apply IH. intros v Hv. apply Hall. right. exact Hv.
    + rewrite Forall_forall in *. intros b' Hb'. apply in_map_iff in Hb'. destruct Hb' as [b [<- Hb]]. specialize (Hfa b Hb).
      unfold nafter, var_sort_lt in *. apply orb_false_iff in Hfa. destruct Hfa as [Hlt _].
      assert (Hn1 : vn (sv a) = vn a) by (unfold sv; destruct (vs a); reflexivity).
      assert (Hn2 : vn (sv b) = vn b) by (unfold sv; destruct (vs b); reflexivity).
      assert (Hi1 : vi (sv a) = []) by (unfold sv; destruct (vs a); reflexivity).
      assert (Hi2 : vi (sv b) = []) by (unfold sv; destruct (vs b); reflexivity).
      rewrite Hn1, Hn2, Hi1, Hi2, Hlt. cbn [ivlist_cmp]. rewrite andb_false_r. reflexivity.
  - apply NoDup_map_in; [|exact Hn]. intros a b Ha Hb E. destruct (Hall a Ha) as [Ka Ia]. destruct (Hall b Hb) as [Kb Ib].
    destruct a as [ka na sa ia], b as [kb nb sb ib]. cbn [vk vi] in *. subst. unfold sv in E. cbn [vs vn] in E.
    destruct sa as [ba|], sb as [bb|]; cbn [signed_var] in E; inversion E; reflexivity.
Qed.

Theorem eval_prob_short pop ch pa ivs :
  match pop with Some p => wfvar p = true | None => True end -> forallb wfvar ch = true -> forallb wfvar pa = true ->
  ch <> [] -> fixed ch -> fixed pa -> level2 ch pa = Some ivs ->
  eval_ast (prob_ast pop ch pa) = VExpr (EProb pop ch pa).
Proof.
  intros Hpop Hc Hp Hne Fc Fp Hl2. destruct (level2_all ch pa ivs Hl2) as [Hine Hall].
  rewrite forallb_forall in Hc, Hp.
  assert (Hwf : forall v, In v (ch ++ pa) -> wfvar v = true) by (intros v Hv; apply in_app_or in Hv; destruct Hv; auto).
  (* the shared interventions are normalised and over the alphabet *)
  assert (Hiv : norm_ivs ivs = ivs /\ forall i, In i ivs -> name_ok (fst i) = true).
  { destruct ch as [|c0 ct]; [congruence|]. pose proof (Hall c0 (or_introl eq_refl)) as [Kc Ic]. pose proof (Hc c0 (or_introl eq_refl)) as Hw.
    unfold wfvar in Hw. rewrite Kc, Ic in Hw. apply andb_true_iff in Hw. destruct Hw as [Hw Hk]. apply andb_true_iff in Hw. destruct Hw as [_ Hn].
    apply andb_true_iff in Hk. destruct Hk as [_ Hk]. apply eqb_true in Hk. split; [exact Hk|]. rewrite forallb_forall in Hn. exact Hn. }
  destruct Hiv as [Hnorm Hivn].
  unfold prob_ast. rewrite Hl2. cbn [eval_ast]. rewrite (eval_head pop Hpop).
  (* the subscript *)
  rewrite map_map. rewrite (map_ext_in _ (fun i => VVar (l2var i))) by (intros i Hi; apply eval_l2; apply Hivn; exact Hi).
  rewrite <- (map_map l2var VVar). unfold index at 1. rewrite find_err_vars, flat_args_vars.
  (* the stripped children and parents *)
  rewrite (eval_dist_items_gen sv (map strip ch) (map strip pa)).
  2:{ intros v' Hv'. rewrite <- map_app in Hv'. apply in_map_iff in Hv'. destruct Hv' as [v [<- Hv]].
      specialize (Hwf v Hv). unfold wfvar in Hwf. apply andb_true_iff in Hwf. destruct Hwf as [Hwf _]. apply andb_true_iff in Hwf. destruct Hwf as [Hn _].
      rewrite (eval_strip v Hn). unfold sv, strip. reflexivity. }
  rewrite !map_map. change (fun x => sv (strip x)) with (fun x => sv x). change (map (fun x => sv x) ch) with (map sv ch). change (map (fun x => sv x) pa) with (map sv pa).
  assert (Hne' : map sv ch <> []) by (destruct ch; [congruence|discriminate]).
  unfold call. rewrite (find_err_none _ (dist_vals_no_err (map sv ch) (map sv pa))).
  pose proof (dist_vals_nonempty (map sv ch) (map sv pa) Hne') as Hvn. destruct (dist_vals (map sv ch) (map sv pa)) as [|v0 vt] eqn:Ev; [congruence|]. rewrite <- Ev.
  rewrite (call_P_vals pop (Some (map l2var ivs)) (map sv ch) (map sv pa) Hne'). f_equal.
  assert (Fsc : fixed (map sv ch)) by (apply (fixed_sv ch ivs); [intros v Hv; apply Hall; apply in_or_app; left; exact Hv|exact Fc]).
  assert (Fsp : fixed (map sv pa)) by (apply (fixed_sv pa ivs); [intros v Hv; apply Hall; apply in_or_app; right; exact Hv|exact Fp]).
  (* the distribution the call assembles, before the interventions are applied *)
  assert (Hcp : match map sv pa with
                | [] => dist_safe (map sv ch) None []
                | p1 :: ps => dist_safe (removelast (map sv ch)) (Some ([last (map sv ch) (V 0)], [p1])) ps
                end = (map sv ch, map sv pa)).
  { unfold dist_safe. destruct (map sv pa) as [|p1 ps] eqn:Epa.
    - rewrite app_nil_r, Fsc. reflexivity.
    - assert (Ech : map sv ch = removelast (map sv ch) ++ [last (map sv ch) (V 0)]) by (apply app_removelast_last; exact Hne').
      assert (Fi : fixed (removelast (map sv ch))) by (rewrite Ech in Fsc; apply (fixed_app _ _ Fsc)).
      assert (Fps : fixed ps) by (change (p1 :: ps) with ([p1] ++ ps) in Fsp; apply (fixed_app _ _ Fsp)).
      rewrite Fi, Fps, <- Ech. rewrite (fixed_sorted_variables _ Fsc). cbn [app]. rewrite (fixed_sorted_variables (p1 :: ps) Fsp). reflexivity. }
  assert (Hint : forall v, In v (ch ++ pa) -> var_intervene (sv v) (upgrade_ordering (map l2var ivs)) = Some v).
  { intros v Hv. destruct (Hall v Hv) as [Kv Iv]. unfold var_intervene.
    assert (Hk : vk (sv v) <> KCf) by (unfold sv; destruct (vs v); discriminate).
    assert (E : (let ivs0 := norm_ivs (map to_intervention (upgrade_ordering (map l2var ivs))) in
                 match ivs0 with [] => None | _ :: _ => Some (mkVar KCf (vn (sv v)) (vs (sv v)) ivs0) end) = Some v).
    { cbv zeta. rewrite (l2_interventions ivs Hnorm). destruct ivs as [|i0 it]; [congruence|].
      destruct v as [k n s0 i]. cbn [vk vi] in *. subst. unfold sv. cbn [vs vn]. destruct s0; reflexivity. }
    destruct (vk (sv v)); try exact E. congruence. }
  assert (Hdi : dist_intervene (map sv ch, map sv pa) (map l2var ivs) = Some (ch, pa)).
  { unfold dist_intervene. cbn [fst snd].
    rewrite (map_opt_map _ sv ch) by (intros v Hv; apply Hint; apply in_or_app; left; exact Hv).
    rewrite (map_opt_map _ sv pa) by (intros v Hv; apply Hint; apply in_or_app; right; exact Hv). reflexivity. }
  unfold prob_safe. destruct (map sv pa) as [|p1 ps] eqn:Epa; rewrite Hcp, Hdi; cbn [fst snd]; unfold prob_raw; destruct ch; try congruence; reflexivity.
Qed.

(* ---------------------------------------------------------------- expressions in operator normal form *)
Definition plain_var (v : var) : bool := match vk v with KVar => is_none (vs v) && is_nil (vi v) | _ => false end.
Definition factor_ok (e : expr) : bool := match e with EProb _ _ _ | ESum _ _ | EQ _ _ => true | _ => false end.
Definition const_free (e : expr) : bool := negb (is_one e) && negb (is_zero e).

Fixpoint wf_rt (e : expr) : bool :=
  match e with
  | EProb pop ch pa =>
      match pop with Some p => wfvar p | None => true end && forallb wfvar ch && forallb wfvar pa
      && negb (is_nil ch) && eqb (upgrade_ordering ch) ch && eqb (upgrade_ordering pa) pa
  | EProd es => Nat.leb 2 (List.length es) && forallb (fun x => factor_ok x && wf_rt x) es && expr_eqb (EProd (stable_sort expr_lt es)) (EProd es)
  | ESum e' rs => wf_rt e' && negb (is_zero e') && negb (is_nil rs) && forallb (fun v => plain_var v && name_ok (vn v)) rs && eqb (upgrade_ordering rs) rs
  | EFrac n d => wf_rt n && wf_rt d && nofrac n && nofrac d && const_free n && const_free d
  | EOne | EZero => true
  | EQ dom cod => negb (is_nil dom) && forallb wfvar dom && forallb wfvar cod && eqb (upgrade_ordering dom) dom && eqb (upgrade_ordering cod) cod
  | EErr _ => false
  end.

Lemma wf_rt_not_err e : wf_rt e = true -> is_err e = false.
Proof. destruct e; try reflexivity. discriminate. Qed.

Lemma plain_wfvar v : plain_var v = true -> name_ok (vn v) = true -> wfvar v = true.
Proof.
  unfold plain_var, wfvar. destruct (vk v); try discriminate. intros H Hn. apply andb_true_iff in H. destruct H as [H1 H2].
  rewrite Hn, H1, H2. destruct (vi v); [reflexivity|discriminate].
Qed.

Lemma plain_not_bad' v : plain_var v = true -> bad_range v = false.
Proof. unfold plain_var, bad_range. destruct (vk v); [reflexivity|discriminate|discriminate]. Qed.

(* products: multiplying the factors from the left rebuilds the sorted product *)
Lemma mul_factor a b : factor_ok a = true -> factor_ok b = true -> mul a b = prod_safe [a; b].
Proof. destruct a; try discriminate; destruct b; try discriminate; reflexivity. Qed.

Lemma mul_prod_factor es b : factor_ok b = true -> mul (EProd es) b = prod_safe (es ++ [b]).
Proof. destruct b; try discriminate; reflexivity. Qed.

Lemma prod_safe_sorted l : 2 <= List.length l -> forallb factor_ok l = true -> sorted expr_lt l -> prod_safe l = EProd l.
Proof.
  intros Hlen Hf Hs. rewrite forallb_forall in Hf. unfold prod_safe, prod_safe_gen, first_err.
  rewrite find_none_all; [|intros x Hx; specialize (Hf x Hx); destruct x; try discriminate; reflexivity].
  rewrite LawP.filter_all; [|intros x Hx; specialize (Hf x Hx); destruct x; try discriminate; reflexivity].
  rewrite existsb_none; [|intros x Hx; specialize (Hf x Hx); destruct x; try discriminate; reflexivity].
  destruct l as [|a [|b t]]; cbn [List.length] in Hlen; try lia. f_equal. apply stable_sort_sorted_id. exact Hs.
Qed.

Lemma fold_mul : forall rest l, 2 <= List.length l -> forallb factor_ok (l ++ rest) = true -> sorted expr_lt (l ++ rest) ->
  fold_left mul rest (EProd l) = EProd (l ++ rest).
Proof.
  induction rest as [|u t IH]; intros l Hlen Hf Hs; [rewrite app_nil_r; reflexivity|]. cbn [fold_left].
  assert (Hu : factor_ok u = true) by (rewrite forallb_forall in Hf; apply Hf; apply in_or_app; right; left; reflexivity).
  rewrite (mul_prod_factor l u Hu).
  replace (l ++ u :: t) with ((l ++ [u]) ++ t) in * by (rewrite <- app_assoc; reflexivity).
  rewrite prod_safe_sorted.
  - apply IH; [rewrite app_length; cbn; lia|exact Hf|exact Hs].
  - rewrite app_length. cbn. lia.
  - rewrite forallb_app in Hf. apply andb_true_iff in Hf. apply Hf.
  - eapply sorted_app_l. exact Hs.
Qed.

Lemma eval_chain : forall (rest : list expr) (a : ast) (e0 : expr),
  eval_ast a = VExpr e0 -> (forall x, In x rest -> eval_ast (ast_of x) = VExpr x) ->
  eval_ast (fold_left (fun acc x => ABin "*" acc x) (map ast_of rest) a) = VExpr (fold_left mul rest e0).
Proof.
  induction rest as [|u t IH]; intros a e0 Ha Hall; [exact Ha|]. cbn [map fold_left]. apply IH.
  - cbn [eval_ast]. rewrite Ha, (Hall u (or_introl eq_refl)). reflexivity.
  - intros x Hx. apply Hall. right. exact Hx.
Qed.

Theorem eval_ast_of : forall e, wf_rt e = true -> eval_ast (ast_of e) = VExpr e.
Proof.
  induction e as [pop ch pa|es IH|e rs IH|n d IHn IHd| | |dm cd|k] using expr_ind'; intros Hw; cbn [wf_rt] in Hw.
  - (* probability term *)
    repeat (apply andb_true_iff in Hw; destruct Hw as [Hw ?]).
    cbn [ast_of]. destruct (level2 ch pa) as [ivs|] eqn:El2.
    + apply (eval_prob_short pop ch pa ivs); try assumption.
      * destruct pop; [exact Hw|exact I].
      * destruct ch; [discriminate|discriminate].
      * apply eqb_true. assumption.
      * apply eqb_true. assumption.
    + apply eval_prob; try assumption.
      * destruct pop; [exact Hw|exact I].
      * destruct ch; [discriminate|discriminate].
      * apply eqb_true. assumption.
      * apply eqb_true. assumption.
  - (* product *)
    apply andb_true_iff in Hw. destruct Hw as [Hw Hsort]. apply andb_true_iff in Hw. destruct Hw as [Hlen Hall].
    apply Nat.leb_le in Hlen. apply expr_eqb_true in Hsort. injection Hsort as Hsort.
    assert (Hs : sorted expr_lt es) by (rewrite <- Hsort; apply stable_sort_sorted; [exact expr_lt_irrefl|exact expr_lt_trans]).
    rewrite forallb_forall in Hall. rewrite Forall_forall in IH.
    assert (Hf : forallb factor_ok es = true) by (apply forallb_forall; intros x Hx; specialize (Hall x Hx); apply andb_true_iff in Hall; apply Hall).
    assert (He : forall x, In x es -> eval_ast (ast_of x) = VExpr x) by (intros x Hx; apply IH; [exact Hx|]; specialize (Hall x Hx); apply andb_true_iff in Hall; apply Hall).
    destruct es as [|u1 [|u2 t]]; cbn [List.length] in Hlen; try lia.
    cbn [ast_of map chain fold_left].
    rewrite (eval_chain t (ABin "*" (ast_of u1) (ast_of u2)) (mul u1 u2)).
    + f_equal. cbn [forallb] in Hf. apply andb_true_iff in Hf. destruct Hf as [F1 Hf]. apply andb_true_iff in Hf. destruct Hf as [F2 Hf].
      rewrite (mul_factor u1 u2 F1 F2). rewrite (prod_safe_sorted [u1; u2]).
      * apply (fold_mul t [u1; u2]); [cbn; lia|cbn [app forallb]; rewrite F1, F2; exact Hf|exact Hs].
      * cbn. lia.
      * cbn [forallb]. rewrite F1, F2. reflexivity.
      * apply (sorted_app_l expr_lt [u1; u2] t). exact Hs.
    + cbn [eval_ast]. rewrite (He u1 (or_introl eq_refl)), (He u2 (or_intror (or_introl eq_refl))). reflexivity.
    + intros x Hx. apply He. right. right. exact Hx.
  - (* sum *)
    repeat (apply andb_true_iff in Hw; destruct Hw as [Hw ?]).
    match goal with H : eqb (upgrade_ordering rs) rs = true |- _ => apply eqb_true in H; rename H into Frs end.
    match goal with H : forallb _ rs = true |- _ => rename H into Hplain end. rewrite forallb_forall in Hplain.
    assert (Hwv : forallb wfvar rs = true).
    { apply forallb_forall. intros v Hv. specialize (Hplain v Hv). apply andb_true_iff in Hplain. apply plain_wfvar; apply Hplain. }
    cbn [ast_of eval_ast map]. rewrite (by_name_fixed rs Frs). rewrite (eval_vars rs Hwv). rewrite (IH Hw).
    change (lookup "Sum"%string) with (VSum None). unfold index. rewrite find_err_vars, flat_args_vars. unfold call. cbn [find].
    f_equal. unfold sum_safe, sum_safe_gen. rewrite (wf_rt_not_err e Hw), Frs.
    destruct rs as [|r0 rt]; [discriminate|].
    match goal with H : negb (is_zero e) = true |- _ => apply negb_true_iff in H; rewrite H end.
    rewrite existsb_none; [reflexivity|]. intros v Hv. specialize (Hplain v Hv). apply andb_true_iff in Hplain. apply plain_not_bad'. apply Hplain.
  - (* fraction *)
    repeat (apply andb_true_iff in Hw; destruct Hw as [Hw ?]).
    cbn [ast_of eval_ast]. rewrite (IHn Hw) by assumption. rewrite IHd by assumption. cbn [binop Ascii.eqb Bool.eqb]. f_equal.
    unfold const_free in *. repeat match goal with H : _ && _ = true |- _ => apply andb_true_iff in H; destruct H end.
    apply truediv_plain; try assumption; try (apply wf_rt_not_err; assumption); apply negb_true_iff; assumption.
  - reflexivity.
  - reflexivity.
  - (* Q factor *)
    repeat (apply andb_true_iff in Hw; destruct Hw as [Hw ?]).
    repeat match goal with H : eqb (upgrade_ordering _) _ = true |- _ => apply eqb_true in H end.
    cbn [ast_of eval_ast]. rewrite (by_name_fixed dm), (by_name_fixed cd) by assumption. rewrite !eval_vars by assumption.
    change (lookup "Q"%string) with (VQ None). unfold index. rewrite find_err_vars, flat_args_vars. unfold call. rewrite find_err_vars, flat_args_vars.
    destruct dm as [|d0 dt]; [discriminate|]. f_equal. f_equal; assumption.
  - discriminate.
Qed.

(* ---------------------------------------------------------------- the object-equality clause *)
Lemma wfvar_names v : wfvar v = true -> var_names_ok v = true.
Proof. unfold wfvar, var_names_ok. intros H. apply andb_true_iff in H. apply H. Qed.

Lemma wfvars_names l : forallb wfvar l = true -> forallb var_names_ok l = true.
Proof. intros H. rewrite forallb_forall in *. intros v Hv. apply wfvar_names. apply H. exact Hv. Qed.

Lemma wf_rt_names : forall e, wf_rt e = true -> names_ok e = true.
Proof.
  induction e as [pop ch pa|es IH|e rs IH|n d IHn IHd| | |dm cd|k] using expr_ind'; intros Hw; cbn [wf_rt] in Hw; cbn [names_ok]; try reflexivity.
  - repeat (apply andb_true_iff in Hw; destruct Hw as [Hw ?]).
    rewrite (wfvars_names ch), (wfvars_names pa) by assumption. destruct pop; [rewrite (wfvar_names _ Hw)|]; reflexivity.
  - apply andb_true_iff in Hw. destruct Hw as [Hw _]. apply andb_true_iff in Hw. destruct Hw as [_ Hall].
    rewrite forallb_forall in *. rewrite Forall_forall in IH. intros x Hx. apply IH; [exact Hx|]. specialize (Hall x Hx). apply andb_true_iff in Hall. apply Hall.
  - repeat (apply andb_true_iff in Hw; destruct Hw as [Hw ?]). rewrite (IH Hw). cbn [andb].
    match goal with H : forallb _ rs = true |- _ => rename H into Hplain end. rewrite forallb_forall in *. intros v Hv. specialize (Hplain v Hv).
    apply andb_true_iff in Hplain. apply wfvar_names. apply plain_wfvar; apply Hplain.
  - repeat (apply andb_true_iff in Hw; destruct Hw as [Hw ?]). rewrite (IHn Hw), IHd by assumption. reflexivity.
  - repeat (apply andb_true_iff in Hw; destruct Hw as [Hw ?]). rewrite (wfvars_names dm), (wfvars_names cd) by assumption. reflexivity.
Qed.

Lemma wf_rt_printable : forall e, wf_rt e = true -> printable e = true.
Proof.
  induction e as [pop ch pa|es IH|e rs IH|n d IHn IHd| | |dm cd|k] using expr_ind'; intros Hw; cbn [wf_rt] in Hw; cbn [printable]; try reflexivity.
  - repeat (apply andb_true_iff in Hw; destruct Hw as [Hw ?]). assumption.
  - apply andb_true_iff in Hw. destruct Hw as [Hw _]. apply andb_true_iff in Hw. destruct Hw as [Hlen Hall]. apply Nat.leb_le in Hlen.
    apply andb_true_iff. split; [destruct es; [cbn in Hlen; lia|reflexivity]|].
    rewrite forallb_forall in *. rewrite Forall_forall in IH. intros x Hx. specialize (Hall x Hx). apply andb_true_iff in Hall. destruct Hall as [Hf Hx'].
    rewrite (IH x Hx Hx'). destruct x; try discriminate; reflexivity.
  - repeat (apply andb_true_iff in Hw; destruct Hw as [Hw ?]). apply IH. exact Hw.
  - repeat (apply andb_true_iff in Hw; destruct Hw as [Hw ?]). rewrite (IHn Hw), IHd by assumption. reflexivity.
  - discriminate.
Qed.

(* parsing the printed form gives back the object, and it prints to the same text *)
Theorem round_trip e : wf_rt e = true -> parse_y0 (to_y0 e) = e /\ to_y0 (parse_y0 (to_y0 e)) = to_y0 e.
Proof.
  intros Hw. assert (E : parse_y0 (to_y0 e) = e).
  { unfold parse_y0. rewrite (parse_printed e (wf_rt_names e Hw) (wf_rt_printable e Hw)). rewrite (eval_ast_of e Hw). reflexivity. }
  split; [exact E|rewrite E; reflexivity].
Qed.
