(* C18, semantic clause, part 5: for every exogenous state and every visiting order of the worlds. *)
From Coq Require Import List Bool Arith Lia Permutation.
From Y0 Require Import Base.ListSet Graph.Closure Graph.MixedGraph Dsl.Syntax Dsl.Text Dsl.Build Alg.Cg Alg.IdStar
  Proofs.ClosureP Proofs.SurgeryP Proofs.SortP Sem.Scm Sem.CfSem Proofs.ScmP Proofs.CgSemP Proofs.CgSem2P Proofs.CgSem3P Proofs.CgSem4P.
Import ListNotations.

Lemma nth_error_split_perm {T} (l : list T) i x : nth_error l i = Some x -> Permutation l (x :: firstn i l ++ skipn (S i) l).
Proof.
  revert i. induction l as [|a t IH]; intros [|i] E; cbn in E; try discriminate.
  - inversion E; subst. cbn. apply Permutation_refl.
  - cbn [firstn skipn app]. eapply perm_trans; [apply perm_skip; apply (IH i E)|]. apply perm_swap.
Qed.

Lemma permutations_perm {T} fuel : forall (l p : list T), In p (permutations l fuel) -> Permutation l p.
Proof.
  induction fuel as [|f IH]; intros l p Hp; cbn [permutations] in Hp.
  - destruct Hp as [<-|[]]. apply Permutation_refl.
  - destruct l as [|a t]; [destruct Hp as [<-|[]]; apply Permutation_refl|].
    apply in_flat_map in Hp. destruct Hp as [i [_ Hp]]. destruct (nth_error (a :: t) i) as [x|] eqn:En; [|destruct Hp].
    apply in_map_iff in Hp. destruct Hp as [q [<- Hq]]. eapply perm_trans; [apply (nth_error_split_perm _ _ _ En)|]. apply perm_skip. apply IH. exact Hq.
Qed.

(* what the theorem asks of an event: a dict (distinct keys) over variables of the graph, every value named after its variable, every variable
   carrying at most one intervention per name, written in y0's normal form (sorted, duplicate-free: the form CounterfactualVariable always has) *)
Definition event_ok (g0 : mg nat) (ev : event) : Prop :=
  NoDup (map fst ev) /\ wnamed ev /\
  forall p, In p ev -> clean (fst p) /\ In (vn (fst p)) (nodes g0) /\ (is_cf (fst p) = true -> norm_ivs (vi (fst p)) = vi (fst p)).

Section CgSem5.
  Variable g0 : mg nat.
  Context {D : Type} {eqD : EqB D}.
  Variable U : Type.
  Variable f : nat -> (nat -> D) -> U -> D.
  Variable rho : nat * bool -> D.
  Hypothesis rho_distinct : forall n, rho (n, false) <> rho (n, true).
  Hypothesis f_local : local g0 U f.
  Variable order : list nat.
  Hypothesis order_ok : is_topo g0 order = true.
  Hypothesis g0_wf : wf g0.
  Hypothesis g0_noloop : forall x, ~ In (x, x) (bid g0).

  Lemma bool_iff (a b : bool) : (a = true <-> b = true) -> a = b.
  Proof. destruct a, b; intros [H1 H2]; try reflexivity; [symmetry; apply H1; reflexivity|apply H2; reflexivity]. Qed.

  (* for a given list of worlds *)
  Theorem cg_same_truth worlds ev0 cf r :
    (forall w, In w worlds -> NoDup (map fst (norm_ivs w))) -> NoDup (map norm_ivs worlds) ->
    NoDup (map fst ev0) -> wnamed ev0 -> (forall p, In p ev0 -> clean (fst p) /\ In (vn (fst p)) (nodes g0)) ->
    make_counterfactual_graph (gv g0) ev0 (map V order) worlds = (cf, r) ->
    forall u, match r with
              | Some ev' => event_true U f rho order ev0 u = event_true U f rho order ev' u
              | None => event_true U f rho order ev0 u = false
              end.
  Proof.
    intros Hc Hd Hk Hn Hv Hm u.
    pose proof (cg_truth g0 U f rho rho_distinct f_local order order_ok g0_wf g0_noloop u worlds Hc Hd ev0 Hk Hn Hv cf r Hm) as H.
    destruct r as [ev'|].
    - apply bool_iff. rewrite !(event_true_holds U f rho order u). exact H.
    - destruct (event_true U f rho order ev0 u) eqn:E; [|reflexivity]. exfalso. apply H. exact (proj1 (event_true_holds U f rho order u ev0) E).
  Qed.

  (* the worlds y0 extracts from the event itself, visited in any order *)
  Theorem cg_all_same_truth ev0 cf r :
    event_ok g0 ev0 -> In (cf, r) (make_counterfactual_graph_all (gv g0) ev0 (map V order)) ->
    forall u, match r with
              | Some ev' => event_true U f rho order ev0 u = event_true U f rho order ev' u
              | None => event_true U f rho order ev0 u = false
              end.
  Proof.
    intros [Hk [Hn Hv]] Hin. unfold make_counterfactual_graph_all in Hin. apply in_map_iff in Hin. destruct Hin as [ws [Hm Hws]].
    set (worlds := extract_interventions (ev_keys (effective_event ev0))) in *.
    pose proof (permutations_perm _ _ _ Hws) as Hperm.
    assert (Hw : forall w, In w worlds -> exists p, In p ev0 /\ is_cf (fst p) = true /\ w = vi (fst p)).
    { intros w Hw. unfold worlds, extract_interventions in Hw. apply (proj1 (In_dedup _ _)) in Hw. apply in_flat_map in Hw. destruct Hw as [v [Hv' Hw]].
      destruct (is_cf v) eqn:Ec; [|destruct Hw]. destruct Hw as [<-|[]]. unfold ev_keys in Hv'. apply in_map_iff in Hv'. destruct Hv' as [p [<- Hp]].
      unfold effective_event in Hp. apply filter_In in Hp. exists p. split; [apply Hp|auto]. }
    assert (Hnorm : forall w, In w worlds -> norm_ivs w = w).
    { intros w Hw'. destruct (Hw w Hw') as [p [Hp [Ec ->]]]. apply (Hv p Hp). exact Ec. }
    apply (cg_same_truth ws ev0 cf r).
    - intros w Hw'. apply (Permutation_in _ (Permutation_sym Hperm)) in Hw'. rewrite (Hnorm w Hw'). destruct (Hw w Hw') as [p [Hp [Ec ->]]].
      destruct (Hv p Hp) as [Hc _]. unfold clean, var_ivs in Hc. rewrite Ec in Hc. exact Hc.
    - apply (Permutation_NoDup (Permutation_map norm_ivs Hperm)). rewrite (map_ext_in norm_ivs (fun w => w) worlds Hnorm), map_id. unfold worlds, extract_interventions. apply NoDup_dedup.
    - exact Hk.
    - exact Hn.
    - intros p Hp. destruct (Hv p Hp) as [H1 [H2 _]]. auto.
    - exact Hm.
  Qed.
End CgSem5.
