(* C11, clause 2: expressions that differ only in presentation - the order of the variables on either side of the bar, the order of
   the factors of a product, the nesting of products - have the same canonical form, provided the sort keys do not tie on
   distinct members (the side conditions carried by [pres]). *)
From Coq Require Import List Bool Arith Lia Permutation Sorted String.
From Y0 Require Import Base.ListSet Dsl.Syntax Dsl.Text Dsl.Print Dsl.Build Dsl.Canon
  Proofs.SortP Proofs.ExprP Proofs.DslP Proofs.AtomsP Proofs.SumSimpP Proofs.OrderP Proofs.CanonNfP.
Import ListNotations.
Open Scope list_scope.

Fixpoint esize (e : expr) : nat :=
  match e with
  | EProd es => S ((fix go (es : list expr) : nat := match es with [] => 0 | x :: t => esize x + go t end) es)
  | ESum e' _ => S (esize e')
  | EFrac n d => S (esize n + esize d)
  | _ => 1
  end.

Lemma esize_member x es : In x es -> esize x < esize (EProd es).
Proof.
  cbn [esize]. induction es as [|y t IH]; intros Hin; [destruct Hin|]. destruct Hin as [->|Hin]; [lia|]. specialize (IH Hin). lia.
Qed.

Lemma flatten_prod es : flatten (EProd es) = flat_map flatten es.
Proof. cbn [flatten]. induction es as [|x t IH]; [reflexivity|]. cbn [flat_map]. rewrite <- IH. reflexivity. Qed.

Lemma flatten_size : forall n e, esize e <= n -> forall f, In f (flatten e) -> esize f <= esize e.
Proof.
  induction n as [|n IH]; intros e Hs f Hf; [destruct e; cbn in Hs; lia|].
  destruct e; try (cbn [flatten] in Hf; destruct Hf as [<-|[]]; lia).
  rewrite flatten_prod in Hf. apply in_flat_map in Hf. destruct Hf as [x [Hx Hf]].
  pose proof (esize_member x es Hx) as Hlt. specialize (IH x ltac:(lia) f Hf). lia.
Qed.

Lemma flatten_member_size es f : In f (flatten (EProd es)) -> esize f < esize (EProd es).
Proof.
  rewrite flatten_prod. intros Hf. apply in_flat_map in Hf. destruct Hf as [x [Hx Hf]].
  pose proof (esize_member x es Hx). pose proof (flatten_size _ x (le_n _) f Hf). lia.
Qed.

Section Pres.
  Variable o : list var.

  Definition vtie_free (l : list var) : Prop := forall a b, In a l -> In b l -> vlt o a b = false -> vlt o b a = false -> a = b.
  Definition etie_free (l : list expr) : Prop := forall a b, In a l -> In b l -> expr_lt a b = false -> expr_lt b a = false -> a = b.

  (* the canonical factors a product is assembled from *)
  Definition cleaves (e : expr) : list expr := flat_map (fun f => factors_of false (canonicalize false o f)) (flatten e).

  Lemma cz_leaves : forall n e, esize e <= n -> snd (cz false o e) = cleaves e.
  Proof.
    induction n as [|n IH]; intros e Hs; [destruct e; cbn in Hs; lia|].
    destruct e; try (unfold cleaves; cbn [flatten flat_map]; rewrite app_nil_r; apply cz_snd; reflexivity).
    unfold cleaves. rewrite flatten_prod. cbn [cz snd].
    assert (H : forall l, (forall x, In x l -> In x es) ->
              (fix go (es0 : list expr) : list expr := match es0 with [] => [] | x :: t => snd (cz false o x) ++ go t end) l
              = flat_map (fun f => factors_of false (canonicalize false o f)) (flat_map flatten l)).
    { induction l as [|x t IHt]; intros Hin; [reflexivity|]. cbn [flat_map]. rewrite flat_map_app. rewrite <- IHt by (intros y Hy; apply Hin; right; exact Hy).
      f_equal. pose proof (esize_member x es (Hin x (or_introl eq_refl))). apply (IH x). lia. }
    apply H. auto.
  Qed.

  Lemma canon_prod es : canonicalize false o (EProd es) = prod_safe (cleaves (EProd es)).
  Proof.
    unfold canonicalize. pose proof (cz_leaves _ (EProd es) (le_n _)) as H. cbn [cz fst snd] in *. rewrite H. reflexivity.
  Qed.

  Inductive pres : expr -> expr -> Prop :=
  | pres_refl e : pres e e
  | pres_prob pop ch ch' pa pa' : Permutation ch ch' -> Permutation pa pa' -> vtie_free ch -> vtie_free pa ->
                                  pres (EProb pop ch pa) (EProb pop ch' pa')
  | pres_sum e e' rs : pres e e' -> pres (ESum e rs) (ESum e' rs)
  | pres_frac n n' d d' : pres n n' -> pres d d' -> pres (EFrac n d) (EFrac n' d')
  | pres_prod es es' l : Forall2 pres (flatten (EProd es)) l -> Permutation l (flatten (EProd es')) ->
                         etie_free (cleaves (EProd es)) -> pres (EProd es) (EProd es').

  Lemma canon_sorted_perm_eq l l' : Permutation l l' -> vtie_free l -> canon_sorted false o l' = canon_sorted false o l.
  Proof.
    intros Hp Ht. unfold canon_sorted.
    assert (E : forallb (fun v => match level_of o (vn v) with Some _ => true | None => false end) l'
                = forallb (fun v => match level_of o (vn v) with Some _ => true | None => false end) l).
    { destruct (forallb _ l) eqn:E1.
      - apply (forallb_perm' _ _ _ Hp). exact E1.
      - destruct (forallb _ l') eqn:E2; [|reflexivity]. rewrite (forallb_perm' _ _ _ (Permutation_sym Hp) E2) in E1. discriminate. }
    rewrite E. destruct (forallb _ l); [|reflexivity]. f_equal. symmetry.
    apply stable_sort_perm_invariant; [exact (vlt_irrefl o)|exact (vlt_trans o)|exact Ht|exact Hp].
  Qed.

  Lemma prod_safe_not_err l : is_err (prod_safe l) = false -> forallb (fun e => negb (is_err e)) l = true.
  Proof.
    intros H. apply forallb_forall. intros x Hx. unfold prod_safe, prod_safe_gen in H. destruct (first_err l) as [e0|] eqn:Ef.
    - unfold first_err in Ef. apply find_some in Ef. destruct Ef as [_ Ef]. congruence.
    - unfold first_err in Ef. rewrite (find_none _ _ Ef x Hx). reflexivity.
  Qed.

  Lemma factors_not_err r : forallb (fun e => negb (is_err e)) (factors_of false r) = true -> is_err r = false.
  Proof. destruct r; cbn; intros H; try reflexivity. discriminate. Qed.

  Theorem pres_canon : forall n e, esize e <= n -> forall e', pres e e' ->
    is_err (canonicalize false o e) = false -> canonicalize false o e' = canonicalize false o e.
  Proof.
    induction n as [|n IH]; intros e Hs e' Hp Herr; [destruct e; cbn in Hs; lia|].
    destruct Hp as [e|pop ch ch' pa pa' Hc Hpa Tc Tp|e e' rs Hp|nn nn' d d' Hn Hd|es es' l HF HP HT].
    - reflexivity.
    - unfold canonicalize. cbn [cz fst]. rewrite (canon_sorted_perm_eq ch ch' Hc Tc), (canon_sorted_perm_eq pa pa' Hpa Tp). reflexivity.
    - unfold canonicalize in *. cbn [cz fst] in *. cbn [esize] in Hs.
      assert (He : is_err (fst (cz false o e)) = false).
      { destruct (is_err (fst (cz false o e))) eqn:E; [|reflexivity]. unfold sum_safe_gen in Herr. rewrite E in Herr. congruence. }
      rewrite (IH e ltac:(lia) e' Hp He). reflexivity.
    - unfold canonicalize in *. cbn [cz fst] in *. cbn [esize] in Hs.
      assert (Hen : is_err (fst (cz false o nn)) = false).
      { destruct (is_err (fst (cz false o nn))) eqn:E; [|reflexivity]. congruence. }
      rewrite Hen in Herr.
      assert (Hed : is_err (fst (cz false o d)) = false).
      { destruct (is_err (fst (cz false o d))) eqn:E; [|reflexivity]. congruence. }
      rewrite (IH nn ltac:(lia) nn' Hn Hen), (IH d ltac:(lia) d' Hd Hed). reflexivity.
    - rewrite !canon_prod in *.
      pose proof (prod_safe_not_err _ Herr) as Hne.
      assert (Hmap : map (fun f => factors_of false (canonicalize false o f)) l
                     = map (fun f => factors_of false (canonicalize false o f)) (flatten (EProd es))).
      { assert (Hsz : forall f, In f (flatten (EProd es)) -> esize f <= n) by (intros f Hf; pose proof (flatten_member_size es f Hf); lia).
        assert (Hok : forall f, In f (flatten (EProd es)) -> is_err (canonicalize false o f) = false).
        { intros f Hf. apply factors_not_err. rewrite forallb_forall in *. intros x Hx. apply Hne. unfold cleaves. apply in_flat_map. exists f. split; assumption. }
        clear HP HT Herr Hne Hs. induction HF as [|f f' t t' Hff _ IHt]; [reflexivity|]. cbn [map].
        rewrite (IH f (Hsz f (or_introl eq_refl)) f' Hff (Hok f (or_introl eq_refl))).
        f_equal. apply IHt; intros g Hg; [apply Hsz|apply Hok]; right; exact Hg. }
      symmetry. apply (prod_safe_perm false expr_lt_irrefl expr_lt_trans); [exact Hne|exact HT|].
      unfold cleaves.
      replace (flat_map (fun f => factors_of false (canonicalize false o f)) (flatten (EProd es)))
        with (flat_map (fun f => factors_of false (canonicalize false o f)) l) by (rewrite !flat_map_concat_map, Hmap; reflexivity).
      apply Permutation_flat_map. exact HP.
  Qed.

  (* the side condition on the variables of a term holds whenever the term mentions each variable name once *)
  Lemma vtie_free_distinct l : NoDup (map vn l) -> forallb (has_level o) l = true -> vtie_free l.
  Proof.
    intros Hnd Hl a b Ha Hb E1 E2. rewrite forallb_forall in Hl. unfold vlt in *.
    rewrite (canon_var_lt_cmp o a b (Hl a Ha) (Hl b Hb)) in E1. rewrite (canon_var_lt_cmp o b a (Hl b Hb) (Hl a Ha)) in E2.
    rewrite (c_anti _ (cmp_ok_canon_var o) a b) in E2.
    assert (E : canon_var_cmp o a b = Eq) by (destruct (canon_var_cmp o a b); [reflexivity|discriminate|discriminate]).
    unfold canon_var_cmp in E. destruct (Nat.compare (lvl o a) (lvl o b)); cbn [lexc] in E; try discriminate.
    unfold var_sort_cmp in E. destruct (Nat.compare (vn a) (vn b)) eqn:En; cbn [lexc] in E; try discriminate.
    apply Nat.compare_eq_iff in En. apply (SumSimpP.inj_on_NoDup vn l Hnd); assumption.
  Qed.

  (* presentation permutations of one expression canonicalise to identical objects *)
  Theorem presentation_invariance e e' : pres e e' -> is_err (canonicalize false o e) = false ->
    canonicalize false o e' = canonicalize false o e.
  Proof. apply (pres_canon (esize e) e (le_n _)). Qed.
End Pres.

