From Coq Require Import List Bool Arith.
From Y0 Require Import Base.ListSet Graph.Closure Graph.MixedGraph Dsl.Syntax Dsl.Build Alg.Id Alg.Cg Alg.CtfAnc.
Import ListNotations.

(* minimisation is total and well formed (repaired code): same name and value mark, a counterfactual variable only
   with a non-empty subscript set, and the subscripts kept are exactly those on ancestors of Y in the graph
   without the edges into the intervened variables *)
Theorem minimize_total_and_exact (v : var) (g : mg nat) :
  exists v', minimize_counterfactual v g = Some v' /\ vn v' = vn v /\ vs v' = vs v /\
             (is_cf v' = true -> vi v' <> []) /\
             (is_cf v = true ->
              forall i, In i (vi v') <->
                        In i (vi v) /\ In (fst i) (ancestors_inclusive (remove_in_edges g (iv_names v)) [vn v]) /\ In (fst i) (iv_names v)).
Proof.
  unfold minimize_counterfactual, minimize_counterfactual_gen. destruct (is_cf v) eqn:Ec; cbn [negb].
  - set (treat := inter _ _).
    assert (Hspec : forall i, In i (filter (fun i => mem (fst i) treat) (vi v)) <->
              In i (vi v) /\ In (fst i) (ancestors_inclusive (remove_in_edges g (iv_names v)) [vn v]) /\ In (fst i) (iv_names v)).
    { intros i. rewrite filter_In, mem_In. unfold treat. rewrite In_inter. tauto. }
    destruct (filter (fun i => mem (fst i) treat) (vi v)) as [|i0 l] eqn:Ef.
    + eexists. split; [reflexivity|]. cbn [vn vs vi is_cf vk].
      split; [reflexivity|]. split; [reflexivity|]. split; [discriminate|]. intros _ i. rewrite <- Hspec. reflexivity.
    + eexists. split; [reflexivity|]. cbn [vn vs vi is_cf vk].
      split; [reflexivity|]. split; [reflexivity|]. split; [intros _; discriminate|]. intros _ i. rewrite <- Hspec. reflexivity.
  - exists v. split; [reflexivity|]. split; [reflexivity|]. split; [reflexivity|]. split; [congruence|discriminate].
Qed.

(* the pinned tree before the repairs *)
Theorem minimize_old_raises :
  exists v g, minimize_counterfactual_gen true v g = None.
Proof. exists (mkVar KCf 1 None [(2, false)]), (MG [0; 1; 2; 3] [(0, 1); (2, 3)] []). vm_compute. reflexivity. Qed.

Theorem components_old_merges_through_outside_edges :
  let g := MG [0; 1; 2; 3] [] [(0, 2); (1, 3)] in
  get_ancestral_components_gen true [] [V 0; V 1] g = Some [[V 0; V 1]] /\
  get_ancestral_components_gen false [] [V 0; V 1] g = Some [[V 0]; [V 1]].
Proof. vm_compute. auto. Qed.
