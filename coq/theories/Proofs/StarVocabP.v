(* C06, third clause: every estimand of ID-star and IDC-star is built from single-world probability terms (all variables
   of a term carry the same intervention subscripts), sums over bare variables, products and fractions - or is an error
   value, which the implementation raises instead of returning. For every graph, event, order and fuel. *)
From Coq Require Import List Bool Arith Permutation.
From Y0 Require Import Base.ListSet Graph.Closure Graph.MixedGraph Graph.DSep Dsl.Syntax Dsl.Text Dsl.Build
  Alg.Id Alg.Cg Alg.IdStar Alg.Vocab Proofs.SortP Proofs.ExprP Proofs.SurgeryP Proofs.AtomsP.
Import ListNotations.

Definition A_sw (pop : option var) (ch pa : list var) : bool := single_world (EProb pop ch pa).
Definition Rg_ok (v : var) : bool := negb (bad_range v).

Lemma Rg_ok_not_bad v : Rg_ok v = true -> bad_range v = false.
Proof. unfold Rg_ok. apply negb_true_iff. Qed.

Definition sw_all (w : list (nat * bool)) (l : list var) : bool := forallb (fun v => eqb (vi v) w) l.

Lemma A_sw_intro pop ch pa w : ch <> [] -> sw_all w ch = true -> sw_all w pa = true -> A_sw pop ch pa = true.
Proof.
  intros Hne Hc Hp. unfold A_sw. cbn [single_world]. destruct ch as [|c t]; [congruence|]. cbn [atom_world].
  assert (Hw : vi c = w) by (cbn [sw_all forallb] in Hc; apply andb_true_iff in Hc; apply eqb_true; apply Hc).
  rewrite Hw. unfold sw_all in *. rewrite Hc, Hp. reflexivity.
Qed.

Lemma A_sw_sub pop ch ch' : A_sw pop ch [] = true -> incl ch' ch -> NoDup ch' -> ch' <> [] -> A_sw pop ch' [] = true.
Proof.
  intros H Hi _ Hne. unfold A_sw in H. cbn [single_world] in H. apply andb_true_iff in H. destruct H as [Hc _].
  apply (A_sw_intro pop ch' [] (atom_world ch [])); [exact Hne| |reflexivity].
  unfold sw_all. rewrite forallb_forall in *. intros x Hx. apply Hc. apply Hi. exact Hx.
Qed.

Definition swP : expr -> bool := PA A_sw Rg_ok.

Lemma swP_single e : all_atoms A_sw Rg_ok e = true -> single_world e = true.
Proof.
  induction e as [pop ch pa|es IH|e rs IH|n d IHn IHd| | |dm cd|k] using expr_ind'; intros H; cbn [all_atoms single_world] in *; try discriminate; try reflexivity.
  - exact H.
  - rewrite forallb_forall in *. rewrite Forall_forall in IH. intros x Hx. apply IH; [exact Hx|apply H; exact Hx].
  - apply andb_true_iff in H. apply IH. apply H.
  - apply andb_true_iff in H. destruct H as [H1 H2]. rewrite (IHn H1), (IHd H2). reflexivity.
Qed.

Lemma PA_split_local e : swP e = true -> is_err e = false -> all_atoms A_sw Rg_ok e = true.
Proof. unfold swP, PA. intros H Hn. rewrite Hn in H. exact H. Qed.

(* ---- the terms ID-star builds at line 9 ---- *)
Lemma sw_all_perm w l l' : Permutation l l' -> sw_all w l = true -> sw_all w l' = true.
Proof. unfold sw_all. apply forallb_perm'. Qed.

Lemma sw_all_upgrade w l : sw_all w l = true -> sw_all w (upgrade_ordering l) = true.
Proof. unfold sw_all. apply forallb_upgrade'. Qed.

Lemma map_opt_spec {S T} (f : S -> option T) l r : map_opt f l = Some r -> forall y, In y r -> exists x, In x l /\ f x = Some y.
Proof.
  revert r. induction l as [|a t IH]; intros r H y Hy; cbn [map_opt] in H.
  - injection H as <-. destruct Hy.
  - destruct (f a) as [b|] eqn:Ea; [|discriminate]. destruct (map_opt f t) as [u|] eqn:Et; [|discriminate]. injection H as <-.
    destruct Hy as [<-|Hy]; [exists a; split; [left; reflexivity|exact Ea]|].
    destruct (IH u eq_refl y Hy) as [x [Hx Hf]]. exists x. split; [right; exact Hx|exact Hf].
Qed.

Lemma map_opt_nonempty {S T} (f : S -> option T) l r : map_opt f l = Some r -> l <> [] -> r <> [].
Proof.
  destruct l as [|a t]; [congruence|]. cbn [map_opt]. destruct (f a); [|discriminate]. destruct (map_opt f t); [|discriminate].
  intros H _. injection H as <-. discriminate.
Qed.

Lemma line9_sw (cf : cgraph) : swP (id_star_line_9 cf) = true.
Proof.
  unfold id_star_line_9. set (bases := map base (nodes cf)).
  assert (Hplain : forall v, In v (upgrade_ordering (bases ++ [])) -> vk v = KVar /\ vi v = []).
  { intros v Hv. unfold upgrade_ordering, sorted_variables in Hv. apply (Permutation_in _ (Permutation_sym (stable_sort_perm _ _))) in Hv.
    apply (proj1 (In_dedup _ _)) in Hv. rewrite app_nil_r in Hv. unfold bases in Hv. apply in_map_iff in Hv. destruct Hv as [x [<- _]]. split; reflexivity. }
  destruct (get_cf_interventions (nodes cf)) as [|i0 it] eqn:Ei.
  - unfold prob_safe, dist_safe. cbn [fst snd]. unfold prob_raw. destruct (upgrade_ordering (bases ++ [])) as [|c l] eqn:Eu; [reflexivity|].
    apply PA_of_atoms. cbn [all_atoms]. apply (A_sw_intro None (c :: l) [] []); [discriminate| |reflexivity].
    unfold sw_all. apply forallb_forall. intros v Hv. destruct (Hplain v Hv) as [_ E]. rewrite E. reflexivity.
  - unfold prob_safe, dist_safe. cbn [fst snd]. set (ivs := map (fun i : nat * bool => mkVar KIv (fst i) (Some (snd i)) []) (i0 :: it)).
    unfold dist_intervene. cbn [fst snd map_opt].
    destruct (map_opt (fun v => var_intervene v (upgrade_ordering ivs)) (upgrade_ordering (bases ++ []))) as [c|] eqn:Em; [|reflexivity].
    cbn [fst snd]. unfold prob_raw. destruct c as [|c0 ct] eqn:Ec; [reflexivity|]. rewrite <- Ec in *.
    apply PA_of_atoms. cbn [all_atoms].
    apply (A_sw_intro None c [] (norm_ivs (map to_intervention (upgrade_ordering ivs)))); [rewrite Ec; discriminate| |reflexivity].
    unfold sw_all. apply forallb_forall. intros y Hy. destruct (map_opt_spec _ _ _ Em y Hy) as [x [Hx Hf]].
    destruct (Hplain x Hx) as [Hk _]. unfold var_intervene in Hf. rewrite Hk in Hf.
    destruct (norm_ivs (map to_intervention (upgrade_ordering ivs))); [discriminate|]. injection Hf as <-. cbn [vi]. apply eqb_refl.
Qed.

Lemma base_ok v : Rg_ok (base v) = true.
Proof. reflexivity. Qed.

Lemma combine_elems (alts : list (list id_result)) : forall rs, In rs (combine alts) -> forall r, In r rs -> exists a, In a alts /\ In r a.
Proof.
  induction alts as [|a t IH]; intros rs Hrs r Hr; cbn [combine] in Hrs.
  - destruct Hrs as [<-|[]]. destruct Hr.
  - apply in_flat_map in Hrs. destruct Hrs as [x [Hx Hrs]]. apply in_map_iff in Hrs. destruct Hrs as [rs' [<- Hrs']].
    destruct Hr as [<-|Hr]; [exists a; split; [left; reflexivity|exact Hx]|].
    destruct (IH rs' Hrs' r Hr) as [a' [Ha' Hr']]. exists a'. split; [right; exact Ha'|exact Hr'].
Qed.

Section StarVocab.
  Variable g : mg nat.
  Variable topo : list nat.

  Definition ok_result (r : id_result) : Prop := forall e, r = IdOk e -> swP e = true.

  Lemma line6_ok (f : nat) (cf : cgraph) (new_ev : event) (evs : list (option (list event))) rs :
    (forall ev r, In r (id_star g topo f ev) -> ok_result r) ->
    In rs (combine (map (fun e => match e with Some alts => flat_map (id_star g topo f) alts | None => [] end) evs)) ->
    ok_result (match find (fun r => match r with IdCrash _ => true | _ => false end) rs with
               | Some c => c
               | None =>
                   if existsb (fun r => match r with IdUnident => true | _ => false end) rs then IdUnident
                   else match sum_safe (prod_safe (flat_map (fun r => match r with IdOk e => [e] | _ => [] end) rs)) (get_free_variables cf new_ev) false with
                        | EErr k => IdCrash k
                        | e => IdOk e
                        end
               end).
  Proof.
    intros IH Hrs e He.
    destruct (find _ rs) as [c|] eqn:Ef; [apply find_some in Ef; destruct Ef as [_ Hc]; rewrite He in Hc; discriminate|].
    destruct (existsb _ rs); [discriminate|].
    assert (Hs : swP (sum_safe (prod_safe (flat_map (fun r => match r with IdOk e => [e] | _ => [] end) rs)) (get_free_variables cf new_ev) false) = true).
    { apply PA_sum_safe_plain; [exact Rg_ok_not_bad| |].
      - apply PA_prod_safe. apply forallb_forall. intros x Hx. apply in_flat_map in Hx. destruct Hx as [r [Hr Hx]].
        destruct r as [e'| |k]; [|destruct Hx|destruct Hx]. destruct Hx as [<-|[]].
        destruct (combine_elems _ rs Hrs _ Hr) as [a [Ha Hra]]. apply in_map_iff in Ha. destruct Ha as [oe [<- _]].
        destruct oe as [alts|]; [|destruct Hra]. apply in_flat_map in Hra. destruct Hra as [ev' [_ Hra]].
        exact (IH ev' _ Hra e' eq_refl).
      - apply forallb_forall. intros v Hv. unfold get_free_variables in Hv. apply In_diff in Hv. destruct Hv as [Hv _].
        apply (proj1 (In_dedup _ _)) in Hv. apply in_map_iff in Hv. destruct Hv as [x [<- _]]. apply base_ok. }
    destruct (sum_safe _ _ false); try discriminate; injection He as <-; exact Hs.
  Qed.

  Theorem id_star_single_world fuel : forall ev r, In r (id_star g topo fuel ev) -> ok_result r.
  Proof.
    induction fuel as [|f IH]; intros ev r Hr; cbn [id_star] in Hr; [destruct Hr as [<-|[]]; intros e F; discriminate|].
    destruct ev as [|p0 pt] eqn:Eev; [destruct Hr as [<-|[]]; intros e F; injection F as <-; reflexivity|]. rewrite <- Eev in *. clear Eev.
    destruct (violates_axiom_of_effectiveness ev); [destruct Hr as [<-|[]]; intros e F; injection F as <-; reflexivity|].
    destruct (negb (Nat.eqb (length (remove_event_tautologies ev)) (length ev))); [eapply IH; exact Hr|].
    apply in_flat_map in Hr. destruct Hr as [out [_ Hr]].
    destruct (snd out) as [new_ev|]; [|destruct Hr as [<-|[]]; intros e F; injection F as <-; reflexivity].
    destruct (nodes (subgraph (fst out) (filter is_not_self_intervened (nodes (fst out))))) as [|n0 nt]; [destruct Hr as [<-|[]]; intros e F; discriminate|].
    match type of Hr with In _ (if ?c then _ else _) => destruct c end.
    - match type of Hr with In _ (if ?c then _ else _) => destruct c; [destruct Hr as [<-|[]]; intros e F; discriminate|] end.
      match type of Hr with In _ (if ?c then _ else _) => destruct c; [destruct Hr as [<-|[]]; intros e F; discriminate|] end.
      apply in_map_iff in Hr. destruct Hr as [rs [<- Hrs]]. eapply line6_ok; [exact IH|exact Hrs].
    - match type of Hr with In _ (if ?c then _ else _) => destruct c; [destruct Hr as [<-|[]]; intros e F; discriminate|] end.
      destruct Hr as [<-|[]]. intros e He.
      pose proof (line9_sw (subgraph (fst out) (filter is_not_self_intervened (nodes (fst out))))) as H9.
      destruct (id_star_line_9 _); try discriminate; injection He as <-; exact H9.
  Qed.

  (* IDC-star: conditioning normalises by a sum over bare variables *)
  Lemma conditional_sw e conds : swP e = true -> swP (conditional_on e conds) = true.
  Proof.
    intros He. unfold conditional_on, conditional, normalize_marginalize, marginalize.
    apply PA_truediv; [exact He|]. apply PA_sum_safe_plain; [exact Rg_ok_not_bad|exact He|].
    apply forallb_forall. intros v Hv. apply in_map_iff in Hv. destruct Hv as [x [<- _]]. reflexivity.
  Qed.

  Theorem idc_star_single_world fuel : forall outcomes conditions r, In r (idc_star g topo fuel outcomes conditions) -> ok_result r.
  Proof.
    induction fuel as [|f IH]; intros outcomes conditions r Hr; cbn [idc_star] in Hr; [destruct Hr as [<-|[]]; intros e F; discriminate|].
    apply in_flat_map in Hr. destruct Hr as [r1 [_ Hr]].
    assert (Hbody : In r (flat_map (fun out => match snd out with
                | None => [IdOk EZero]
                | Some new_ev =>
                    let cf := fst out in
                    let '(no, nc) := get_new_outcomes_and_conditions new_ev outcomes conditions in
                    let scan := (fix scan (todo : event) : list id_result :=
                       match todo with
                       | [] => map (fun r => match r with
                                             | IdOk e => match conditions with
                                                         | [] => IdOk e
                                                         | _ => if is_zero e then IdOk e
                                                                else match conditional_on e conditions with EErr k => IdCrash k | e' => IdOk e' end
                                                         end
                                             | r' => r'
                                             end) (id_star g topo (S (4 * length (nodes g))) (dict_merge no nc))
                       | c :: rest =>
                           match cf_rule_2_of_do_calculus_applies cf (ev_keys no) (fst c) with
                           | None => [IdCrash KeyError]
                           | Some false => scan rest
                           | Some true =>
                               if negb (forallb (fun o => mem (fst o) (nodes cf)) no) then [IdCrash 12]
                               else match map_opt (fun o => if mem (fst c) (ancestors_inclusive cf [fst o])
                                                            then option_map (fun k => (k, snd o)) (var_intervene (fst o) [fst c])
                                                            else Some o) no with
                                    | None => [IdCrash ValueError]
                                    | Some no'' => idc_star g topo f (fold_left (fun acc p => dict_set acc (fst p) (snd p)) no'' [])
                                                            (filter (fun p => negb (eqb (fst p) (fst c))) nc)
                                    end
                           end
                       end) in
                    let kept := length (filter (fun p => ev_has new_ev (fst p)) conditions) in
                    flat_map (fun added => scan (firstn kept nc ++ added)) (permutations (skipn kept nc) (length (skipn kept nc)))
                end) (make_counterfactual_graph_all (gv g) (dict_merge outcomes conditions) (map V topo))) -> ok_result r).
    { clear Hr. intros Hr. apply in_flat_map in Hr. destruct Hr as [out [_ Hr]].
      destruct (snd out) as [new_ev|]; [|destruct Hr as [<-|[]]; intros e F; injection F as <-; reflexivity].
      cbv zeta in Hr. destruct (get_new_outcomes_and_conditions new_ev outcomes conditions) as [no nc].
      apply in_flat_map in Hr. destruct Hr as [added [_ Hr]].
      revert r Hr. generalize (firstn (length (filter (fun p => ev_has new_ev (fst p)) conditions)) nc ++ added). intros todo. induction todo as [|c rest IHt]; intros r Hr.
      - apply in_map_iff in Hr. destruct Hr as [r0 [<- Hr0]]. pose proof (id_star_single_world _ _ _ Hr0) as H0.
        destruct r0 as [e0| |k0]; try (intros e F; discriminate).
        destruct conditions as [|c0 ct]; [exact H0|].
        destruct (is_zero e0); [exact H0|]. intros e He.
        pose proof (conditional_sw e0 (c0 :: ct) (H0 e0 eq_refl)) as Hc.
        destruct (conditional_on e0 (c0 :: ct)); try discriminate; injection He as <-; exact Hc.
      - destruct (cf_rule_2_of_do_calculus_applies (fst out) (ev_keys no) (fst c)) as [[|]|].
        + destruct (negb (forallb (fun o => mem (fst o) (nodes (fst out))) no)); [destruct Hr as [<-|[]]; intros e F; discriminate|].
          destruct (map_opt _ no) as [no''|]; [|destruct Hr as [<-|[]]; intros e F; discriminate].
          eapply IH. exact Hr.
        + apply IHt. exact Hr.
        + destruct Hr as [<-|[]]. intros e F. discriminate. }
    destruct r1 as [e1| |k1].
    - destruct e1; try (apply Hbody; exact Hr). destruct Hr as [<-|[]]. intros e F. discriminate.
    - apply Hbody. exact Hr.
    - destruct Hr as [<-|[]]. intros e F. discriminate.
  Qed.
End StarVocab.
