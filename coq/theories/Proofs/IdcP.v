From Coq Require Import List Bool Arith Lia.
From Y0 Require Import Base.ListSet Graph.MixedGraph Dsl.Syntax Dsl.Build Alg.Id Alg.Idc.
Import ListNotations.

Lemma filter_length_le' {T} (p : T -> bool) l : List.length (filter p l) <= List.length l.
Proof. induction l as [|a t IH]; simpl; [lia|]. destruct (p a); simpl; lia. Qed.

Lemma length_diff_lt (Z : list nat) z : In z Z -> List.length (diff Z [z]) < List.length Z.
Proof.
  unfold diff. induction Z as [|a t IH]; intros Hin; [destruct Hin|]. cbn [filter].
  pose proof (filter_length_le' (fun x => negb (mem x [z])) t) as Hle.
  destruct (mem a [z]) eqn:Em; cbn [negb List.length].
  - lia.
  - destruct Hin as [->|Hin].
    + assert (mem z [z] = true) by (apply mem_In; left; reflexivity). congruence.
    + specialize (IH Hin). lia.
Qed.

Section IdcP.
  Variable old : bool.
  Variable topo : mg nat -> option (list nat).

  (* every result is the final step (ID on the unconditioned query, then normalisation) for some split of the
     conditions into moved-to-treatments and kept, and the fuel S |Z| is never exhausted *)
  Theorem idc_all_shape fuel : forall g X Y Z r,
    List.length Z < fuel ->
    In r (idc_all old topo fuel g X Y Z) ->
    exists moved, incl moved Z /\ r = idc_final old topo g (fold_left (fun acc z => union acc [z]) moved X) Y
                                        (fold_left (fun acc z => diff acc [z]) moved Z).
  Proof.
    induction fuel as [|f IH]; intros g X Y Z r Hlen Hin; [lia|]. cbn [idc_all] in Hin.
    destruct (filter (rule_2_of_do_calculus_applies g X Y Z) Z) as [|z0 zs] eqn:Ef.
    - destruct Hin as [<-|[]]. exists []. split; [intros x []|reflexivity].
    - apply in_flat_map in Hin. destruct Hin as [z [Hz Hr]].
      assert (HzZ : In z Z). { rewrite <- Ef in Hz. apply filter_In in Hz. tauto. }
      apply IH in Hr; [|pose proof (length_diff_lt Z z HzZ); lia].
      destruct Hr as [moved [Hinc ->]]. exists (z :: moved). split.
      + intros x [<-|Hx]; [exact HzZ|]. apply Hinc in Hx. apply In_diff in Hx. tauto.
      + reflexivity.
  Qed.

  Corollary idc_shape g X Y Z r :
    In r (idc old topo g X Y Z) ->
    exists moved, incl moved Z /\ r = idc_final old topo g (fold_left (fun acc z => union acc [z]) moved X) Y
                                        (fold_left (fun acc z => diff acc [z]) moved Z).
  Proof. unfold idc. apply idc_all_shape. lia. Qed.

  (* the final step has the form  e / sum_Y e  where e is the ID result *)
  Theorem idc_final_form g X Y Z e' :
    idc_final old topo g X Y Z = IdOk e' ->
    exists e, identify old topo (fuel_for g) (mkIdent g X (union Y Z) (prob_safe None (Vs (nodes g)) None [] None)) = IdOk e /\
              e' = truediv e (sum_safe e (map get_base (Vs Y)) false).
  Proof.
    unfold idc_final. destruct (identify _ _ _ _) as [e| |k]; try discriminate.
    intros E. inversion E. exists e. split; reflexivity.
  Qed.
End IdcP.
