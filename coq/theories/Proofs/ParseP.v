(* C12, syntactic layer: the precedence parser reads the printer's tokens back as the operator tree the printer meant. *)
From Coq Require Import List Bool Arith Lia String Ascii.
From Y0 Require Import Base.ListSet Dsl.Syntax Dsl.Text Dsl.Tok Dsl.Print Dsl.Parse Proofs.ExprP.
Import ListNotations.
Open Scope list_scope.
Open Scope char_scope.

(* ---------------------------------------------------------------- plain tokens of a phrase *)
Definition pt (l : list stok) : list token := map snd l.

Fixpoint pjoin (sep : token) (items : list (list token)) : list token :=
  match items with
  | [] => []
  | [x] => x
  | x :: t => x ++ sep :: pjoin sep t
  end.

Lemma pt_app l1 l2 : pt (l1 ++ l2) = pt l1 ++ pt l2.
Proof. apply map_app. Qed.

Lemma pt_spaced l : pt (spaced l) = pt l.
Proof. destruct l as [|[b t] r]; reflexivity. Qed.

Lemma pt_jointk sep after items : pt (jointk sep after items) = pjoin (snd sep) (map pt items).
Proof.
  destruct sep as [b t]. induction items as [|x r IH]; [reflexivity|]. destruct r as [|y r'].
  - reflexivity.
  - change (jointk (b, t) after (x :: y :: r')) with
      (x ++ [(b, t)] ++ (if after then spaced (jointk (b, t) after (y :: r')) else jointk (b, t) after (y :: r'))).
    rewrite !pt_app. cbn [pt map snd app]. destruct after; [rewrite pt_spaced|]; unfold pt in *; rewrite IH; reflexivity.
Qed.

Lemma length_spaced (l : list stok) : List.length (spaced l) = List.length l.
Proof. destruct l as [|[b t] r]; reflexivity. Qed.

Lemma length_jointk_ge sep after (items : list (list stok)) :
  (forall x, In x items -> 1 <= List.length x) -> List.length items <= List.length (jointk sep after items).
Proof.
  induction items as [|x r IH]; intros H; [cbn; lia|]. destruct r as [|y r'].
  - cbn [jointk List.length]. specialize (H x (or_introl eq_refl)). lia.
  - change (jointk sep after (x :: y :: r')) with
      (x ++ [sep] ++ (if after then spaced (jointk sep after (y :: r')) else jointk sep after (y :: r'))).
    rewrite !app_length. assert (IH' : List.length (y :: r') <= List.length (jointk sep after (y :: r'))) by (apply IH; intros z Hz; apply H; right; exact Hz).
    pose proof (H x (or_introl eq_refl)). destruct after; [rewrite length_spaced|]; cbn [List.length] in *; lia.
Qed.

(* ---------------------------------------------------------------- unfolding equations of the parser *)
Lemma p_or_S f ts : p_or (S f) ts = match p_mul f ts with Some (l, rest) => p_or_tail f l rest | None => None end.
Proof. reflexivity. Qed.
Lemma p_or_tail_S f l ts : p_or_tail (S f) l ts =
  match ts with
  | t :: rest => if is_sym t "|" then match p_mul f rest with Some (r, rest') => p_or_tail f (ABin "|" l r) rest' | None => None end
                 else Some (l, ts)
  | [] => Some (l, ts)
  end.
Proof. reflexivity. Qed.
Lemma p_mul_S f ts : p_mul (S f) ts = match p_unary f ts with Some (l, rest) => p_mul_tail f l rest | None => None end.
Proof. reflexivity. Qed.
Lemma p_mul_tail_S f l ts : p_mul_tail (S f) l ts =
  match ts with
  | TSym c :: rest =>
      if Ascii.eqb c "*" || Ascii.eqb c "/" || Ascii.eqb c "@" then
        match p_unary f rest with Some (r, rest') => p_mul_tail f (ABin c l r) rest' | None => None end
      else Some (l, ts)
  | _ => Some (l, ts)
  end.
Proof. reflexivity. Qed.
Lemma p_unary_S f ts : p_unary (S f) ts =
  match ts with
  | TSym c :: rest =>
      if Ascii.eqb c "+" || Ascii.eqb c "-" || Ascii.eqb c "~" then
        match p_unary f rest with Some (a, rest') => Some (AUn c a, rest') | None => None end
      else p_postfix f ts
  | _ => p_postfix f ts
  end.
Proof. reflexivity. Qed.
Lemma p_postfix_S f ts : p_postfix (S f) ts =
  match ts with
  | TName s :: rest => p_post_tail f (AName s) rest
  | TSym c :: rest =>
      if Ascii.eqb c "(" then
        match p_args f rest ")" with
        | Some (args, trailing, rest') => p_post_tail f (match args, trailing with [a], false => a | _, _ => ATuple args end) rest'
        | None => None
        end
      else None
  | [] => None
  end.
Proof. reflexivity. Qed.
Lemma p_post_tail_S f a ts : p_post_tail (S f) a ts =
  match ts with
  | TSym c :: rest =>
      if Ascii.eqb c "(" then
        match p_args f rest ")" with Some (args, _, rest') => p_post_tail f (ACall a args) rest' | None => None end
      else if Ascii.eqb c "[" then
        match p_args f rest "]" with Some (args, _, rest') => p_post_tail f (AIndex a args) rest' | None => None end
      else Some (a, ts)
  | _ => Some (a, ts)
  end.
Proof. reflexivity. Qed.
Lemma p_args_S f ts close : p_args (S f) ts close =
  match ts with
  | t :: rest =>
      if is_sym t close then Some ([], false, rest)
      else match p_or f ts with
           | Some (a, rest1) =>
               match rest1 with
               | t1 :: rest2 =>
                   if is_sym t1 "," then
                     match p_args f rest2 close with
                     | Some (more, tr, rest3) => Some (a :: more, match more with [] => true | _ => tr end, rest3)
                     | None => None
                     end
                   else if is_sym t1 close then Some ([a], false, rest2)
                   else None
               | [] => None
               end
           | None => None
           end
  | [] => None
  end.
Proof. reflexivity. Qed.

Global Opaque p_or p_or_tail p_mul p_mul_tail p_unary p_postfix p_post_tail p_args.

(* ---------------------------------------------------------------- what may follow a phrase *)
Definition hd_is (c : ascii) (ts : list token) : bool := match ts with TSym d :: _ => Ascii.eqb d c | _ => false end.
Definition no_post (ts : list token) : bool := negb (hd_is "(" ts) && negb (hd_is "[" ts).
Definition no_mul (ts : list token) : bool := negb (hd_is "*" ts) && negb (hd_is "/" ts) && negb (hd_is "@" ts).
Definition no_or (ts : list token) : bool := negb (hd_is "|" ts).
Definition stop (ts : list token) : bool := no_post ts && no_mul ts.

Lemma post_tail_stop f a ts : 1 <= f -> no_post ts = true -> p_post_tail f a ts = Some (a, ts).
Proof.
  intros Hf H. destruct f as [|f]; [lia|]. rewrite p_post_tail_S. destruct ts as [|[s|c] r]; try reflexivity.
  unfold no_post, hd_is in H. apply andb_true_iff in H. destruct H as [H1 H2]. apply negb_true_iff in H1, H2. rewrite H1, H2. reflexivity.
Qed.

Lemma mul_tail_stop f l ts : 1 <= f -> no_mul ts = true -> p_mul_tail f l ts = Some (l, ts).
Proof.
  intros Hf H. destruct f as [|f]; [lia|]. rewrite p_mul_tail_S. destruct ts as [|[s|c] r]; try reflexivity.
  unfold no_mul, hd_is in H. apply andb_true_iff in H. destruct H as [H H3]. apply andb_true_iff in H. destruct H as [H1 H2].
  apply negb_true_iff in H1, H2, H3. rewrite H1, H2, H3. reflexivity.
Qed.

Lemma or_tail_stop f l ts : 1 <= f -> no_or ts = true -> p_or_tail f l ts = Some (l, ts).
Proof.
  intros Hf H. destruct f as [|f]; [lia|]. rewrite p_or_tail_S. destruct ts as [|t r]; [reflexivity|].
  unfold no_or, hd_is in H. apply negb_true_iff in H. unfold is_sym. destruct t as [s|c]; [reflexivity|].
  rewrite Ascii.eqb_sym in H. rewrite H. reflexivity.
Qed.

(* lifting a parse one level up when nothing continues it *)
Lemma mul_of_unary f x a rest : p_unary f (x ++ rest) = Some (a, rest) -> 1 <= f -> no_mul rest = true -> p_mul (S f) (x ++ rest) = Some (a, rest).
Proof. intros H Hf Hs. rewrite p_mul_S, H. apply mul_tail_stop; assumption. Qed.

Lemma or_of_mul f x a rest : p_mul f (x ++ rest) = Some (a, rest) -> 1 <= f -> no_or rest = true -> p_or (S f) (x ++ rest) = Some (a, rest).
Proof. intros H Hf Hs. rewrite p_or_S, H. apply or_tail_stop; assumption. Qed.

(* ---------------------------------------------------------------- variables *)
Definition sign_ast (s : option bool) (a : ast) : ast :=
  match s with None => a | Some true => AUn "+" a | Some false => AUn "-" a end.
Definition iv_ast (i : nat * bool) : ast := sign_ast (Some (snd i)) (AName (name_str (fst i))).
Definition var_ast (v : var) : ast :=
  let signed := sign_ast (vs v) (AName (name_str (vn v))) in
  match vk v, vi v with
  | KCf, [i] => ABin "@" signed (iv_ast i)
  | KCf, ivs => ABin "@" signed (ATuple (map iv_ast ivs))
  | _, _ => signed
  end.

Lemma u_name f s rest : 3 <= f -> no_post rest = true -> p_unary f (TName s :: rest) = Some (AName s, rest).
Proof.
  intros Hf H. destruct f as [|[|f]]; try lia. rewrite p_unary_S, p_postfix_S. apply post_tail_stop; [lia|exact H].
Qed.

Lemma u_signed f s n rest : 4 <= f -> no_post rest = true ->
  p_unary f (pt (sign_toks s) ++ TName n :: rest) = Some (sign_ast s (AName n), rest).
Proof.
  intros Hf H. destruct s as [[|]|]; cbn [sign_toks pt map snd app sign_ast].
  - destruct f as [|f]; [lia|]. rewrite p_unary_S. cbn [Ascii.eqb Bool.eqb orb]. rewrite (u_name f n rest) by (assumption || lia). reflexivity.
  - destruct f as [|f]; [lia|]. rewrite p_unary_S. cbn [Ascii.eqb Bool.eqb orb]. rewrite (u_name f n rest) by (assumption || lia). reflexivity.
  - apply u_name; [lia|exact H].
Qed.

Lemma u_iv f i rest : 4 <= f -> no_post rest = true -> p_unary f (pt (iv_toks i) ++ rest) = Some (iv_ast i, rest).
Proof.
  intros Hf H. unfold iv_toks, iv_ast. rewrite pt_app, <- app_assoc. apply (u_signed f (Some (snd i)) (name_str (fst i)) rest Hf H).
Qed.

(* ---------------------------------------------------------------- argument lists *)
(* an argument: its tokens, the tree it denotes; [good n x a]: p_or reads it with fuel n before a comma or the closing symbol *)
Definition ends_arg (close : ascii) (r : list token) : bool := hd_is "," r || hd_is close r.
Definition good (close : ascii) (n : nat) (x : list token) (a : ast) : Prop :=
  forall g r, n <= g -> ends_arg close r = true -> p_or g (x ++ r) = Some (a, r).
Definition not_close (close : ascii) (x : list token) : Prop :=
  match x with t :: _ => is_sym t close = false | [] => False end.

Lemma is_sym_hd c r : hd_is c r = true -> exists r', r = TSym c :: r'.
Proof.
  destruct r as [|[s|d] r']; try discriminate. cbn [hd_is]. intros H. apply Ascii.eqb_eq in H. subst. exists r'. reflexivity.
Qed.

Theorem args_ok close (Hcc : Ascii.eqb close "," = false) n : forall (items : list (list token * ast)) f rest,
  items <> [] ->
  (forall x a, In (x, a) items -> good close n x a /\ not_close close x) ->
  List.length items + n <= f ->
  p_args f (pjoin (TSym ",") (map fst items) ++ TSym close :: rest) close = Some (map snd items, false, rest).
Proof.
  induction items as [|[x a] t IH]; intros f rest Hne Hall Hf; [congruence|].
  destruct (Hall x a (or_introl eq_refl)) as [Hg Hnc]. destruct f as [|f]; [cbn in Hf; lia|]. rewrite p_args_S.
  destruct t as [|[y b] t'].
  - cbn [map fst snd pjoin]. destruct x as [|t0 x']; [destruct Hnc|]. cbn [not_close] in Hnc. cbn [app]. rewrite Hnc.
    change (t0 :: x' ++ TSym close :: rest) with ((t0 :: x') ++ TSym close :: rest).
    rewrite (Hg f (TSym close :: rest)); [|cbn in Hf; lia|unfold ends_arg; cbn [hd_is]; rewrite Ascii.eqb_refl; apply orb_true_r].
    cbn [is_sym]. rewrite Ascii.eqb_sym, Hcc. rewrite Ascii.eqb_refl. reflexivity.
  - change (pjoin (TSym ",") (map fst ((x, a) :: (y, b) :: t'))) with (x ++ TSym "," :: pjoin (TSym ",") (map fst ((y, b) :: t'))).
    rewrite <- app_assoc. cbn [app]. destruct x as [|t0 x']; [destruct Hnc|]. cbn [not_close] in Hnc. cbn [app]. rewrite Hnc.
    change (t0 :: x' ++ TSym "," :: ?k) with ((t0 :: x') ++ TSym "," :: k).
    rewrite (Hg f _); [|cbn in Hf; lia|unfold ends_arg; cbn [hd_is]; reflexivity].
    cbn [is_sym]. rewrite Ascii.eqb_refl.
    rewrite (IH f rest); [reflexivity|discriminate| |cbn [List.length] in *; lia].
    intros x0 a0 Hin. apply Hall. right. exact Hin.
Qed.

Lemma args_empty f close rest : 1 <= f -> p_args f (TSym close :: rest) close = Some ([], false, rest).
Proof. intros Hf. destruct f as [|f]; [lia|]. rewrite p_args_S. cbn [is_sym]. rewrite Ascii.eqb_refl. reflexivity. Qed.

Lemma ends_arg_stop close r : close = ")" \/ close = "]" -> ends_arg close r = true -> stop r = true /\ no_or r = true.
Proof.
  intros Hc H. unfold ends_arg in H. apply orb_true_iff in H. destruct H as [H|H]; apply is_sym_hd in H; destruct H as [r' ->].
  - split; reflexivity.
  - destruct Hc as [-> | ->]; split; reflexivity.
Qed.

Lemma stop_parts r : stop r = true -> no_post r = true /\ no_mul r = true.
Proof. unfold stop. intros H. apply andb_true_iff in H. exact H. Qed.

Definition ptv (v : var) : list token := pt (var_toks v).

Lemma m_var f v rest : List.length (ptv v) + 10 <= f -> stop rest = true -> p_mul f (ptv v ++ rest) = Some (var_ast v, rest).
Proof.
  intros Hf Hs. destruct (stop_parts _ Hs) as [Hp Hm]. unfold ptv, var_toks, var_ast in *.
  assert (Hplain : forall f0, 5 <= f0 -> p_mul f0 (pt (sign_toks (vs v) ++ [name_tok (vn v)]) ++ rest) = Some (sign_ast (vs v) (AName (name_str (vn v))), rest)).
  { intros f0 Hf0. destruct f0 as [|f0]; [lia|]. rewrite pt_app, <- app_assoc. cbn [pt map snd name_tok nm app].
    rewrite p_mul_S. fold (pt (sign_toks (vs v))). rewrite (u_signed f0 (vs v) (name_str (vn v)) rest) by (assumption || lia).
    apply mul_tail_stop; [lia|exact Hm]. }
  destruct (vk v); try (apply Hplain; lia).
  destruct (vi v) as [|i [|j t]] eqn:Ei.
  - (* X @ () *)
    destruct f as [|[|[|[|f]]]]; try (cbn in Hf; lia).
    rewrite !pt_app, <- !app_assoc. cbn [pt map snd name_tok nm ssym sym app jointk]. fold (pt (sign_toks (vs v))).
    rewrite p_mul_S. rewrite (u_signed _ (vs v) (name_str (vn v)) _) by (reflexivity || lia).
    rewrite p_mul_tail_S. cbn [Ascii.eqb Bool.eqb orb]. rewrite p_unary_S. cbn [Ascii.eqb Bool.eqb orb]. rewrite p_postfix_S. cbn [Ascii.eqb Bool.eqb].
    rewrite (args_empty f ")" rest) by (cbn in Hf; lia). rewrite (post_tail_stop f _ rest) by (assumption || (cbn in Hf; lia)).
    apply mul_tail_stop; [lia|exact Hm].
  - (* X @ -Z *)
    destruct f as [|[|f]]; try (cbn in Hf; lia).
    rewrite !pt_app, <- !app_assoc. cbn [pt map snd name_tok nm ssym sym app]. fold (pt (sign_toks (vs v))). rewrite pt_spaced.
    rewrite p_mul_S. rewrite (u_signed _ (vs v) (name_str (vn v)) _) by (reflexivity || (cbn in Hf; lia)).
    rewrite p_mul_tail_S. cbn [Ascii.eqb Bool.eqb orb]. fold (pt (iv_toks i)). rewrite (u_iv f i rest) by (assumption || (cbn in Hf; lia)).
    apply mul_tail_stop; [cbn in Hf; lia|exact Hm].
  - (* X @ (-Z, +W, ...) *)
    destruct f as [|[|[|[|f]]]]; try (cbn in Hf; lia).
    rewrite !pt_app, <- !app_assoc. cbn [pt map snd name_tok nm ssym sym app]. fold (pt (sign_toks (vs v))).
    change (iv_toks i :: iv_toks j :: map iv_toks t) with (map iv_toks (i :: j :: t)).
    rewrite pt_jointk, map_map. cbn [snd sym].
    rewrite p_mul_S. rewrite (u_signed _ (vs v) (name_str (vn v)) _) by (reflexivity || lia).
    rewrite p_mul_tail_S. cbn [Ascii.eqb Bool.eqb orb]. rewrite p_unary_S. cbn [Ascii.eqb Bool.eqb orb]. rewrite p_postfix_S. cbn [Ascii.eqb Bool.eqb].
    set (items := map (fun i0 => (pt (iv_toks i0), iv_ast i0)) (i :: j :: t)).
    replace (map (fun x => pt (iv_toks x)) (i :: j :: t)) with (map fst items) by (unfold items; rewrite map_map; reflexivity).
    rewrite (args_ok ")" eq_refl 6 items f rest).
    + replace (map snd items) with (map iv_ast (i :: j :: t)) by (unfold items; rewrite map_map; reflexivity).
      cbn [map]. rewrite (post_tail_stop f _ rest) by (assumption || (cbn in Hf; lia)). apply mul_tail_stop; [lia|exact Hm].
    + discriminate.
    + intros x a Hin. unfold items in Hin. apply in_map_iff in Hin. destruct Hin as [i0 [E _]]. injection E as <- <-. split.
      * intros g r Hg Hr. destruct (ends_arg_stop ")" r (or_introl eq_refl) Hr) as [Hst Hno]. destruct (stop_parts _ Hst) as [Hp' Hm'].
        destruct g as [|[|g]]; try lia. apply or_of_mul; [|lia|exact Hno]. apply mul_of_unary; [|lia|exact Hm']. apply u_iv; [lia|exact Hp'].
      * unfold iv_toks. destruct (snd i0); reflexivity.
    + unfold items. rewrite map_length. unfold pt in Hf. rewrite map_length, !app_length in Hf. cbn [List.length] in Hf.
      assert (Hl : List.length (map iv_toks (i :: j :: t)) <= List.length (jointk (sym ",") true (map iv_toks (i :: j :: t)))).
      { apply length_jointk_ge. intros x Hx. apply in_map_iff in Hx. destruct Hx as [i0 [<- _]]. unfold iv_toks. rewrite app_length. cbn. lia. }
      rewrite map_length in Hl. cbn [List.length] in *. lia.
Qed.

(* a variable as an argument *)
Lemma good_var close v : close = ")" \/ close = "]" -> good close (List.length (ptv v) + 11) (ptv v) (var_ast v).
Proof.
  intros Hc g r Hg Hr. destruct (ends_arg_stop close r Hc Hr) as [Hst Hno]. destruct g as [|g]; [lia|].
  apply or_of_mul; [|lia|exact Hno]. apply m_var; [lia|exact Hst].
Qed.

Lemma ptv_nonempty v : 1 <= List.length (ptv v).
Proof.
  unfold ptv, var_toks, pt. destruct (vk v); try (rewrite map_length, app_length; cbn [List.length]; lia).
  destruct (vi v) as [|i [|j t]]; rewrite map_length, !app_length; cbn [List.length]; lia.
Qed.

Lemma ptv_not_close close v : close = ")" \/ close = "]" -> not_close close (ptv v).
Proof.
  intros Hc. unfold ptv, var_toks.
  assert (H : forall l, not_close close (pt (sign_toks (vs v) ++ name_tok (vn v) :: l))).
  { intros l. destruct (vs v) as [[|]|]; destruct Hc as [-> | ->]; reflexivity. }
  destruct (vk v); try apply (H []). destruct (vi v) as [|i [|j t]]; apply H.
Qed.

(* ---------------------------------------------------------------- postfix applications *)
Lemma post_apply (opn close : ascii) n items f a rest :
  (opn = "(" /\ close = ")") \/ (opn = "[" /\ close = "]") ->
  (forall x b, In (x, b) items -> good close n x b /\ not_close close x) ->
  List.length items + n + 2 <= f ->
  p_post_tail f a (TSym opn :: pjoin (TSym ",") (map fst items) ++ TSym close :: rest) =
  p_post_tail (f - 1) (if Ascii.eqb opn "(" then ACall a (map snd items) else AIndex a (map snd items)) rest.
Proof.
  intros Hoc Hall Hf. destruct f as [|f]; [lia|]. replace (S f - 1) with f by lia. rewrite p_post_tail_S.
  assert (Hcc : Ascii.eqb close "," = false) by (destruct Hoc as [[_ ->]|[_ ->]]; reflexivity).
  destruct items as [|it items'].
  - cbn [map pjoin app]. destruct Hoc as [[-> ->]|[-> ->]]; cbn [Ascii.eqb Bool.eqb]; rewrite args_empty by lia; reflexivity.
  - destruct Hoc as [[-> ->]|[-> ->]]; cbn [Ascii.eqb Bool.eqb];
      rewrite (args_ok _ Hcc n (it :: items') f rest) by (try discriminate; try assumption; cbn [List.length] in *; lia); reflexivity.
Qed.

(* ---------------------------------------------------------------- distributions *)
Definition vitem (v : var) : list token * ast := (ptv v, var_ast v).

Definition dist_items (ch pa : list var) : list (list token * ast) :=
  match pa with
  | [] => map vitem ch
  | p1 :: ps => match rev ch with
                | [] => []
                | cl :: rci => map vitem (rev rci) ++ [(ptv cl ++ TSym "|" :: ptv p1, ABin "|" (var_ast cl) (var_ast p1))] ++ map vitem ps
                end
  end.

Lemma pjoin_merge s t (A : list (list token)) x y B :
  pjoin s (A ++ [x]) ++ t :: pjoin s (y :: B) = pjoin s (A ++ [x ++ t :: y] ++ B).
Proof.
  induction A as [|a A' IH].
  - cbn [app pjoin]. destruct B as [|b B']; [reflexivity|]. cbn [pjoin]. rewrite <- app_assoc. reflexivity.
  - destruct A' as [|a' A''].
    + change (([a] ++ [x])) with [a; x]. change (pjoin s [a; x]) with (a ++ s :: pjoin s ([] ++ [x])). rewrite <- app_assoc. rewrite <- app_comm_cons. rewrite IH.
      reflexivity.
    + change ((a :: a' :: A'') ++ [x]) with (a :: (a' :: A'') ++ [x]). change (pjoin s (a :: (a' :: A'') ++ [x])) with (a ++ s :: pjoin s ((a' :: A'') ++ [x])).
      rewrite <- app_assoc. rewrite <- app_comm_cons. rewrite IH. reflexivity.
Qed.

Lemma pt_vars l : pt (vars_toks l) = pjoin (TSym ",") (map ptv l).
Proof. unfold vars_toks. rewrite pt_jointk, map_map. reflexivity. Qed.

Lemma pt_dist ch pa : ch <> [] -> pt (dist_toks ch pa) = pjoin (TSym ",") (map fst (dist_items ch pa)).
Proof.
  intros Hne. unfold dist_toks, dist_items. destruct pa as [|p1 ps].
  - rewrite pt_vars, map_map. reflexivity.
  - rewrite !pt_app, pt_spaced, !pt_vars. cbn [pt map snd ssym app].
    destruct (rev ch) as [|cl rci] eqn:Er.
    + exfalso. apply Hne. rewrite <- (rev_involutive ch), Er. reflexivity.
    + assert (Ech : ch = rev rci ++ [cl]) by (rewrite <- (rev_involutive ch), Er; reflexivity).
      rewrite Ech, map_app. cbn [map]. rewrite pjoin_merge. rewrite !map_app. cbn [map fst]. rewrite !map_map. reflexivity.
Qed.

Lemma dist_items_nonempty ch pa : ch <> [] -> dist_items ch pa <> [].
Proof.
  intros Hne. unfold dist_items. destruct pa as [|p1 ps].
  - destruct ch; [congruence|discriminate].
  - destruct (rev ch) as [|cl rci] eqn:Er; [exfalso; apply Hne; rewrite <- (rev_involutive ch), Er; reflexivity|].
    intros E. apply app_eq_nil in E. destruct E as [_ E]. discriminate.
Qed.

Definition dist_need (ch pa : list var) : nat := List.length (pt (dist_toks ch pa)) + 12.

Lemma good_dist ch pa x a : ch <> [] -> In (x, a) (dist_items ch pa) -> good ")" (List.length x + 12) x a /\ not_close ")" x.
Proof.
  intros Hne Hin. unfold dist_items in Hin.
  assert (Hv : forall v, good ")" (List.length (ptv v) + 12) (ptv v) (var_ast v) /\ not_close ")" (ptv v)).
  { intros v. split; [|apply ptv_not_close; left; reflexivity]. intros g r Hg Hr. apply (good_var ")" v (or_introl eq_refl)); [lia|exact Hr]. }
  destruct pa as [|p1 ps].
  - apply in_map_iff in Hin. destruct Hin as [v [E _]]. injection E as <- <-. apply Hv.
  - destruct (rev ch) as [|cl rci]; [destruct Hin|]. apply in_app_or in Hin. destruct Hin as [Hin|Hin].
    { apply in_map_iff in Hin. destruct Hin as [v [E _]]. injection E as <- <-. apply Hv. }
    apply in_app_or in Hin. destruct Hin as [Hin|Hin].
    2:{ apply in_map_iff in Hin. destruct Hin as [v [E _]]. injection E as <- <-. apply Hv. }
    destruct Hin as [E|[]]. injection E as <- <-. split.
    + intros g r Hg Hr. destruct (ends_arg_stop ")" r (or_introl eq_refl) Hr) as [Hst Hno].
      rewrite app_length in Hg. cbn [List.length] in Hg. destruct g as [|[|g]]; try lia.
      rewrite <- app_assoc. cbn [app]. rewrite p_or_S.
      rewrite (m_var (S g) cl (TSym "|" :: ptv p1 ++ r)) by (reflexivity || lia).
      rewrite p_or_tail_S. cbn [is_sym Ascii.eqb Bool.eqb]. rewrite (m_var g p1 r) by (assumption || lia).
      apply or_tail_stop; [lia|exact Hno].
    + pose proof (ptv_not_close ")" cl (or_introl eq_refl)) as Hc. destruct (ptv cl); [destruct Hc|exact Hc].
Qed.

(* ---------------------------------------------------------------- the tree the printer means *)
Definition l2_ast (i : nat * bool) : ast := if snd i then AUn "+" (AName (name_str (fst i))) else AName (name_str (fst i)).
Definition l2_item (i : nat * bool) : list token * ast :=
  (pt (if snd i then [sym "+"; name_tok (fst i)] else [name_tok (fst i)]), l2_ast i).

Definition head_ast (pop : option var) : ast :=
  match pop with None => AName "P"%string | Some p => AIndex (AName "PP"%string) [var_ast p] end.

Definition prob_ast (pop : option var) (ch pa : list var) : ast :=
  match level2 ch pa with
  | Some ivs => ACall (AIndex (head_ast pop) (map l2_ast ivs)) (map snd (dist_items (map strip ch) (map strip pa)))
  | None => ACall (head_ast pop) (map snd (dist_items ch pa))
  end.

Definition chain (l : list ast) : ast :=
  match l with [] => ATuple [] | a :: r => fold_left (fun acc x => ABin "*" acc x) r a end.

Fixpoint ast_of (e : expr) : ast :=
  match e with
  | EProb pop ch pa => prob_ast pop ch pa
  | EProd es => chain (map ast_of es)
  | ESum e' rs => ACall (AIndex (AName "Sum"%string) (map var_ast (by_name_v rs))) [ast_of e']
  | EFrac n d => ABin "/" (ast_of n) (ast_of d)
  | EOne => ACall (AName "One"%string) []
  | EZero => ACall (AName "Zero"%string) []
  | EQ dom cod => ACall (AIndex (AName "Q"%string) (map var_ast (by_name_v cod))) (map var_ast (by_name_v dom))
  | EErr _ => AName "error"%string
  end.

Definition is_unit (e : expr) : bool := match e with EProd _ => false | _ => true end.

(* what the theorem covers: no error value, every term has a child, products are non-empty and flat *)
Fixpoint printable (e : expr) : bool :=
  match e with
  | EProb _ ch _ => negb (is_nil ch)
  | EProd es => negb (is_nil es) && forallb (fun x => is_unit x && printable x) es
  | ESum e' _ => printable e'
  | EFrac n d => printable n && printable d
  | EErr _ => false
  | _ => true
  end.

Definition pte (e : expr) : list token := pt (toks e).
Definition nunits (e : expr) : nat := match e with EProd es => List.length es | _ => 1 end.

Lemma good_mono close n n' x a : good close n x a -> n <= n' -> good close n' x a.
Proof. intros H Hn g r Hg Hr. apply H; [lia|exact Hr]. Qed.

(* a bracketed phrase is a unit *)
Lemma u_paren f n x a rest : good ")" n x a -> not_close ")" x -> n + 5 <= f -> no_post rest = true ->
  p_unary f (TSym "(" :: x ++ TSym ")" :: rest) = Some (a, rest).
Proof.
  intros Hg Hnc Hf Hp. destruct f as [|[|f]]; try lia. rewrite p_unary_S. cbn [Ascii.eqb Bool.eqb orb]. rewrite p_postfix_S. cbn [Ascii.eqb Bool.eqb].
  pose proof (args_ok ")" eq_refl n [(x, a)] f rest) as H. cbn [map fst snd pjoin List.length] in H. rewrite H.
  - apply post_tail_stop; [lia|exact Hp].
  - discriminate.
  - intros x0 a0 [E|[]]. injection E as <- <-. split; assumption.
  - lia.
Qed.

(* units joined by "*" after a first unit *)
Definition Uprop (u : expr) : Prop :=
  forall f rest, 4 * List.length (pte u) + 6 <= f -> no_post rest = true -> p_unary f (pte u ++ rest) = Some (ast_of u, rest).

Lemma chain_tail : forall (units : list expr) L f rest,
  (forall u, In u units -> Uprop u) ->
  4 * List.length (flat_map (fun u => TSym "*" :: pte u) units) + 3 <= f -> no_post rest = true ->
  p_mul_tail f L (flat_map (fun u => TSym "*" :: pte u) units ++ rest) =
  p_mul_tail (f - List.length units) (fold_left (fun acc x => ABin "*" acc x) (map ast_of units) L) rest.
Proof.
  induction units as [|u t IH]; intros L f rest HU Hf Hp.
  - cbn [flat_map app List.length map fold_left]. replace (f - 0) with f by lia. reflexivity.
  - cbn [flat_map List.length map fold_left] in *. rewrite app_length in Hf. cbn [List.length] in Hf.
    destruct f as [|f]; [lia|]. rewrite <- app_assoc. cbn [app]. rewrite p_mul_tail_S. cbn [Ascii.eqb Bool.eqb orb].
    rewrite (HU u (or_introl eq_refl) f); [|lia|destruct t; [cbn [flat_map app]; exact Hp|reflexivity]].
    rewrite (IH _ f rest); [reflexivity| |lia|exact Hp]. intros u0 Hu0. apply HU. right. exact Hu0.
Qed.

(* ---------------------------------------------------------------- token equations of the printer *)
Lemma pte_prod es : pte (EProd es) = pjoin (TSym "*") (map pte es).
Proof. unfold pte, toks. cbn [toks_gen]. rewrite pt_jointk, map_map. reflexivity. Qed.

Lemma pjoin_chain (u : list token) (t : list (list token)) : pjoin (TSym "*") (u :: t) = u ++ flat_map (fun x => TSym "*" :: x) t.
Proof.
  revert u. induction t as [|v t IH]; intros u; [cbn; rewrite app_nil_r; reflexivity|].
  change (pjoin (TSym "*") (u :: v :: t)) with (u ++ TSym "*" :: pjoin (TSym "*") (v :: t)). rewrite IH. reflexivity.
Qed.

Definition wrapped (d : expr) : list token := match d with EProd _ => TSym "(" :: pte d ++ [TSym ")"] | _ => pte d end.
Definition body (n d : expr) : list token := pte n ++ TSym "/" :: wrapped d.

Lemma pt_wrap d : pt (spaced (wrap_den false d (toks d))) = wrapped d.
Proof. rewrite pt_spaced. unfold wrap_den, wrapped, pte. destruct d; try reflexivity. rewrite !pt_app. reflexivity. Qed.

Lemma pt_cons a l : pt (a :: l) = snd a :: pt l.
Proof. reflexivity. Qed.

Lemma pt_body n d tail : pt (toks n ++ ssym "/" :: spaced (wrap_den false d (toks d)) ++ tail) = body n d ++ pt tail.
Proof. rewrite pt_app, pt_cons, pt_app, pt_wrap. unfold body, pte. cbn [snd ssym]. rewrite <- app_assoc. reflexivity. Qed.

Lemma pte_frac n d : pte (EFrac n d) = TSym "(" :: TSym "(" :: body n d ++ [TSym ")"; TSym ")"].
Proof.
  unfold pte at 1, toks. cbn [toks_gen app]. fold (toks n). fold (toks d). rewrite !pt_cons. cbn [snd sym]. rewrite pt_body. reflexivity.
Qed.

Definition sum_inner (e' : expr) : list token :=
  match e' with EFrac n d => TSym "(" :: body n d ++ [TSym ")"] | _ => pte e' end.

Lemma pte_sum e' rs : pte (ESum e' rs) =
  TName "Sum" :: TSym "[" :: pjoin (TSym ",") (map ptv (by_name_v rs)) ++ TSym "]" :: TSym "(" :: sum_inner e' ++ [TSym ")"].
Proof.
  unfold pte at 1, toks. cbn [toks_gen app]. rewrite !pt_cons. cbn [snd sym nm]. rewrite pt_app, pt_vars, !pt_cons. cbn [snd sym]. rewrite pt_app.
  f_equal. f_equal. f_equal. f_equal. f_equal. f_equal.
  unfold sum_inner. destruct e'; try reflexivity.
  fold (toks e'1). fold (toks e'2). cbn [app]. rewrite pt_cons. cbn [snd sym]. rewrite pt_body. reflexivity.
Qed.

Lemma pte_q dom cod : pte (EQ dom cod) =
  TName "Q" :: TSym "[" :: pjoin (TSym ",") (map ptv (by_name_v cod)) ++ TSym "]" :: TSym "(" :: pjoin (TSym ",") (map ptv (by_name_v dom)) ++ [TSym ")"].
Proof. unfold pte, toks. cbn [toks_gen]. rewrite !pt_app, !pt_vars. reflexivity. Qed.

Definition head_toks (pop : option var) : list token :=
  match pop with None => [TName "P"] | Some p => TName "PP" :: TSym "[" :: ptv p ++ [TSym "]"] end.

Lemma pte_prob pop ch pa : pte (EProb pop ch pa) =
  match level2 ch pa with
  | Some ivs => head_toks pop ++ TSym "[" :: pjoin (TSym ",") (map fst (map l2_item ivs)) ++ TSym "]" :: TSym "(" :: pt (dist_toks (map strip ch) (map strip pa)) ++ [TSym ")"]
  | None => head_toks pop ++ TSym "(" :: pt (dist_toks ch pa) ++ [TSym ")"]
  end.
Proof.
  unfold pte, toks. cbn [toks_gen].
  assert (Hh : pt (match pop with None => [nm "P"] | Some p => [nm "PP"; sym "["] ++ var_toks p ++ [sym "]"] end) = head_toks pop).
  { destruct pop as [p|]; [|reflexivity]. rewrite !pt_app. reflexivity. }
  destruct (level2 ch pa) as [ivs|].
  - rewrite !pt_app, Hh. unfold l2_toks. rewrite pt_jointk, !map_map. reflexivity.
  - rewrite !pt_app, Hh. reflexivity.
Qed.

(* ---------------------------------------------------------------- lengths *)
Lemma pjoin_item_le s (items : list (list token)) x : In x items -> List.length x <= List.length (pjoin s items).
Proof.
  induction items as [|y t IH]; intros Hin; [destruct Hin|]. destruct t as [|z t'].
  - destruct Hin as [->|[]]. cbn. lia.
  - change (pjoin s (y :: z :: t')) with (y ++ s :: pjoin s (z :: t')). rewrite app_length. cbn [List.length].
    destruct Hin as [->|Hin]; [lia|]. specialize (IH Hin). lia.
Qed.

Lemma pjoin_count_le s (items : list (list token)) : (forall x, In x items -> 1 <= List.length x) -> List.length items <= List.length (pjoin s items).
Proof.
  induction items as [|y t IH]; intros H; [cbn; lia|]. destruct t as [|z t'].
  - cbn [pjoin List.length]. specialize (H y (or_introl eq_refl)). lia.
  - change (pjoin s (y :: z :: t')) with (y ++ s :: pjoin s (z :: t')). rewrite app_length. cbn [List.length] in *.
    assert (IH' : S (List.length t') <= List.length (pjoin s (z :: t'))) by (apply IH; intros x Hx; apply H; right; exact Hx). lia.
Qed.

Lemma dist_item_nonempty ch pa x a : In (x, a) (dist_items ch pa) -> 1 <= List.length x.
Proof.
  unfold dist_items. intros Hin.
  assert (Hv : forall l : list var, In (x, a) (map vitem l) -> 1 <= List.length x).
  { intros l H. apply in_map_iff in H. destruct H as [v [E _]]. injection E as <- <-. apply ptv_nonempty. }
  destruct pa as [|p1 ps]; [apply (Hv ch Hin)|]. destruct (rev ch) as [|cl rci]; [destruct Hin|].
  apply in_app_or in Hin. destruct Hin as [Hin|Hin]; [apply (Hv _ Hin)|]. apply in_app_or in Hin. destruct Hin as [Hin|Hin]; [|apply (Hv _ Hin)].
  destruct Hin as [E|[]]. injection E as <- <-. rewrite app_length. pose proof (ptv_nonempty cl). lia.
Qed.

(* the "(" children | parents ")" part of a probability term *)
Lemma post_dist f a ch pa rest : ch <> [] -> 2 * List.length (pt (dist_toks ch pa)) + 14 <= f ->
  p_post_tail f a (TSym "(" :: pt (dist_toks ch pa) ++ TSym ")" :: rest) = p_post_tail (f - 1) (ACall a (map snd (dist_items ch pa))) rest.
Proof.
  intros Hne Hf. rewrite (pt_dist ch pa Hne) in *.
  rewrite (post_apply "(" ")" (List.length (pjoin (TSym ",") (map fst (dist_items ch pa))) + 12) (dist_items ch pa) f a rest); [reflexivity|left; auto| |].
  - intros x b Hin. destruct (good_dist ch pa x b Hne Hin) as [Hg Hnc]. split; [|exact Hnc]. eapply good_mono; [exact Hg|].
    pose proof (pjoin_item_le (TSym ",") (map fst (dist_items ch pa)) x) as Hl. specialize (Hl ltac:(apply in_map_iff; exists (x, b); auto)). lia.
  - pose proof (pjoin_count_le (TSym ",") (map fst (dist_items ch pa))) as Hc. rewrite map_length in Hc.
    assert (Hc' : List.length (dist_items ch pa) <= List.length (pjoin (TSym ",") (map fst (dist_items ch pa)))).
    { apply Hc. intros x Hx. apply in_map_iff in Hx. destruct Hx as [[x' b] [E Hin]]. cbn in E. subst x'. exact (dist_item_nonempty ch pa x b Hin). }
    lia.
Qed.

(* a "[" variables "]" subscript *)
Lemma post_vars f a l rest : 2 * List.length (pjoin (TSym ",") (map ptv l)) + 14 <= f ->
  p_post_tail f a (TSym "[" :: pjoin (TSym ",") (map ptv l) ++ TSym "]" :: rest) = p_post_tail (f - 1) (AIndex a (map var_ast l)) rest.
Proof.
  intros Hf.
  pose proof (post_apply "[" "]" (List.length (pjoin (TSym ",") (map ptv l)) + 11) (map vitem l) f a rest) as H.
  rewrite !map_map in H. cbn [fst snd vitem] in H. change (map (fun x => ptv x) l) with (map ptv l) in H. change (map (fun x => var_ast x) l) with (map var_ast l) in H.
  rewrite H; [reflexivity|right; auto| |].
  - intros x b Hin. apply in_map_iff in Hin. destruct Hin as [v [E Hv]]. injection E as <- <-. split; [|apply ptv_not_close; right; reflexivity].
    eapply good_mono; [apply (good_var "]" v); right; reflexivity|].
    pose proof (pjoin_item_le (TSym ",") (map ptv l) (ptv v) ltac:(apply in_map; exact Hv)). lia.
  - rewrite map_length. pose proof (pjoin_count_le (TSym ",") (map ptv l)) as Hc. rewrite map_length in Hc.
    specialize (Hc ltac:(intros x Hx; apply in_map_iff in Hx; destruct Hx as [v [<- _]]; apply ptv_nonempty)). lia.
Qed.

Lemma post_call_vars f a l rest : 2 * List.length (pjoin (TSym ",") (map ptv l)) + 14 <= f ->
  p_post_tail f a (TSym "(" :: pjoin (TSym ",") (map ptv l) ++ TSym ")" :: rest) = p_post_tail (f - 1) (ACall a (map var_ast l)) rest.
Proof.
  intros Hf.
  pose proof (post_apply "(" ")" (List.length (pjoin (TSym ",") (map ptv l)) + 11) (map vitem l) f a rest) as H.
  rewrite !map_map in H. cbn [fst snd vitem] in H. change (map (fun x => ptv x) l) with (map ptv l) in H. change (map (fun x => var_ast x) l) with (map var_ast l) in H.
  rewrite H; [reflexivity|left; auto| |].
  - intros x b Hin. apply in_map_iff in Hin. destruct Hin as [v [E Hv]]. injection E as <- <-. split; [|apply ptv_not_close; left; reflexivity].
    eapply good_mono; [apply (good_var ")" v); left; reflexivity|].
    pose proof (pjoin_item_le (TSym ",") (map ptv l) (ptv v) ltac:(apply in_map; exact Hv)). lia.
  - rewrite map_length. pose proof (pjoin_count_le (TSym ",") (map ptv l)) as Hc. rewrite map_length in Hc.
    specialize (Hc ltac:(intros x Hx; apply in_map_iff in Hx; destruct Hx as [v [<- _]]; apply ptv_nonempty)). lia.
Qed.

(* the P[...] subscript of the short form *)
Lemma post_l2 f a ivs rest : 2 * List.length (pjoin (TSym ",") (map fst (map l2_item ivs))) + 10 <= f ->
  p_post_tail f a (TSym "[" :: pjoin (TSym ",") (map fst (map l2_item ivs)) ++ TSym "]" :: rest) = p_post_tail (f - 1) (AIndex a (map l2_ast ivs)) rest.
Proof.
  intros Hf. rewrite (post_apply "[" "]" 6 (map l2_item ivs) f a rest); [rewrite map_map; reflexivity|right; auto| |].
  - intros x b Hin. apply in_map_iff in Hin. destruct Hin as [i [E _]]. unfold l2_item in E. injection E as <- <-. split.
    + intros g r Hg Hr. destruct (ends_arg_stop "]" r (or_intror eq_refl) Hr) as [Hst Hno]. destruct (stop_parts _ Hst) as [Hp Hm].
      destruct g as [|[|g]]; try lia. apply or_of_mul; [|lia|exact Hno]. apply mul_of_unary; [|lia|exact Hm]. unfold l2_ast.
      destruct (snd i).
      * apply (u_signed g (Some true) (name_str (fst i)) r); [lia|exact Hp].
      * apply (u_signed g None (name_str (fst i)) r); [lia|exact Hp].
    + destruct (snd i); reflexivity.
  - rewrite map_length. pose proof (pjoin_count_le (TSym ",") (map fst (map l2_item ivs))) as Hc. rewrite !map_length in Hc.
    specialize (Hc ltac:(intros x Hx; apply in_map_iff in Hx; destruct Hx as [[x' b] [E Hin]]; apply in_map_iff in Hin; destruct Hin as [i [Ei _]]; unfold l2_item in Ei; injection Ei as <- <-; cbn in E; subst x; destruct (snd i); cbn; lia)). lia.
Qed.

(* ---------------------------------------------------------------- the main induction *)
Definition Mprop (e : expr) : Prop :=
  forall f rest, 4 * List.length (pte e) + 7 <= f -> no_post rest = true ->
    p_mul f (pte e ++ rest) = p_mul_tail (f - nunits e) (ast_of e) rest.

Definition Fprop (e : expr) : Prop :=
  forall n d, e = EFrac n d ->
    good ")" (4 * List.length (body n d) + 9) (body n d) (ABin "/" (ast_of n) (ast_of d)) /\ not_close ")" (body n d).

Lemma M_of_U e : is_unit e = true -> Uprop e -> Mprop e.
Proof.
  intros Hu HU f rest Hf Hp. destruct f as [|f]; [lia|]. rewrite p_mul_S. rewrite (HU f rest) by (assumption || lia).
  replace (nunits e) with 1 by (destruct e; try reflexivity; discriminate). replace (S f - 1) with f by lia. reflexivity.
Qed.

Lemma head_first pop : exists s t, head_toks pop = TName s :: t.
Proof. destruct pop; cbn [head_toks]; eauto. Qed.

Lemma U_first_name f s t rest : p_unary (S (S f)) (TName s :: t ++ rest) = p_post_tail f (AName s) (t ++ rest).
Proof. rewrite p_unary_S, p_postfix_S. reflexivity. Qed.

Ltac norm := repeat (rewrite <- app_assoc || rewrite <- app_comm_cons).

Lemma U_prob pop ch pa : ch <> [] -> Uprop (EProb pop ch pa).
Proof.
  intros Hne f rest Hf Hp. cbn [ast_of]. unfold prob_ast. rewrite pte_prob in *.
  assert (Hhead : forall g tail, 2 * List.length (head_toks pop) + 16 <= g ->
            p_unary g (head_toks pop ++ tail) = p_post_tail (g - match pop with None => 2 | Some _ => 3 end) (head_ast pop) tail).
  { intros g tail Hg. destruct pop as [p|]; cbn [head_toks head_ast] in *.
    - destruct g as [|[|g]]; try lia. cbn [app]. rewrite p_unary_S, p_postfix_S.
      pose proof (post_vars g (AName "PP"%string) [p] tail) as H. cbn [map pjoin] in H. rewrite <- app_assoc. cbn [app]. rewrite H.
      + replace (S (S g) - 3) with (g - 1) by lia. reflexivity.
      + cbn [List.length] in Hg. rewrite app_length in Hg. cbn [List.length] in Hg. lia.
    - destruct g as [|[|g]]; try lia. cbn [app]. rewrite p_unary_S, p_postfix_S. replace (S (S g) - 2) with g by lia. reflexivity. }
  assert (Hstrip : map strip ch <> []) by (destruct ch; [congruence|discriminate]).
  assert (Hh1 : 1 <= List.length (head_toks pop)) by (destruct pop; cbn [head_toks List.length]; lia).
  destruct (level2 ch pa) as [ivs|].
  - repeat (rewrite app_length in Hf). cbn [List.length] in Hf. repeat (rewrite app_length in Hf). cbn [List.length] in Hf.
    repeat (rewrite app_length in Hf). cbn [List.length] in Hf.
    rewrite <- !app_assoc. rewrite Hhead by lia. norm.
    rewrite post_l2 by (destruct pop; lia). rewrite (post_dist _ _ _ _ rest Hstrip) by (destruct pop; lia).
    apply post_tail_stop; [destruct pop; lia|exact Hp].
  - repeat (rewrite app_length in Hf). cbn [List.length] in Hf. repeat (rewrite app_length in Hf). cbn [List.length] in Hf.
    rewrite <- !app_assoc. rewrite Hhead by lia. norm. rewrite (post_dist _ _ _ _ rest Hne) by (destruct pop; lia).
    apply post_tail_stop; [destruct pop; lia|exact Hp].
Qed.

Definition Nprop (e : expr) : Prop := not_close ")" (pte e) /\ 1 <= List.length (pte e) /\ nunits e <= List.length (pte e).

Lemma good_of_M e : Mprop e -> Nprop e -> good ")" (4 * List.length (pte e) + 8) (pte e) (ast_of e).
Proof.
  intros HM [_ [H1 Hk]] g r Hg Hr. destruct (ends_arg_stop ")" r (or_introl eq_refl) Hr) as [Hst Hno]. destruct (stop_parts _ Hst) as [Hp Hm].
  destruct g as [|g]; [lia|]. rewrite p_or_S. rewrite (HM g r) by (assumption || lia).
  rewrite mul_tail_stop by (assumption || lia). apply or_tail_stop; [lia|exact Hno].
Qed.

(* the operand after a division bar: a unit, or a bracketed product *)
Lemma U_wrapped d f rest : (is_unit d = true -> Uprop d) -> Mprop d -> Nprop d ->
  4 * List.length (wrapped d) + 6 <= f -> no_post rest = true -> p_unary f (wrapped d ++ rest) = Some (ast_of d, rest).
Proof.
  intros HU HM HN Hf Hp. unfold wrapped in *. destruct d; try (apply HU; [reflexivity|exact Hf|exact Hp]).
  cbn [List.length] in Hf. rewrite app_length in Hf. cbn [List.length] in Hf. norm.
  apply (u_paren f (4 * List.length (pte (EProd es)) + 8)); [apply good_of_M; assumption|apply HN|lia|exact Hp].
Qed.

Lemma F_frac n d : ((is_unit d = true -> Uprop d) /\ Mprop d /\ Nprop d) -> (Mprop n /\ Nprop n) -> Fprop (EFrac n d).
Proof.
  intros [HUd [HMd HNd]] [HMn HNn] n0 d0 E. injection E as <- <-. split.
  - intros g r Hg Hr. destruct (ends_arg_stop ")" r (or_introl eq_refl) Hr) as [Hst Hno]. destruct (stop_parts _ Hst) as [Hp Hm].
    unfold body in *. rewrite app_length in Hg. cbn [List.length] in Hg. destruct HNn as [_ [Hn1 Hnk]].
    destruct g as [|g]; [lia|]. rewrite p_or_S. norm. rewrite (HMn g) by (reflexivity || lia).
    destruct (g - nunits n) as [|g'] eqn:Eg; [lia|]. rewrite p_mul_tail_S. cbn [Ascii.eqb Bool.eqb orb].
    rewrite (U_wrapped d g' r HUd HMd HNd) by (assumption || lia).
    rewrite mul_tail_stop by (assumption || lia). apply or_tail_stop; [lia|exact Hno].
  - unfold body. destruct HNn as [Hc _]. destruct (pte n); [destruct Hc|exact Hc].
Qed.

Lemma good_inner n d : Fprop (EFrac n d) ->
  good ")" (4 * List.length (body n d) + 16) (TSym "(" :: body n d ++ [TSym ")"]) (ABin "/" (ast_of n) (ast_of d)).
Proof.
  intros HF g r Hg Hr. destruct (HF n d eq_refl) as [Hgood Hnc].
  destruct (ends_arg_stop ")" r (or_introl eq_refl) Hr) as [Hst Hno]. destruct (stop_parts _ Hst) as [Hp Hm].
  destruct g as [|[|g]]; try lia. rewrite p_or_S, p_mul_S. norm. cbn [app].
  rewrite (u_paren g (4 * List.length (body n d) + 9) (body n d) _ r Hgood Hnc) by (assumption || lia).
  rewrite mul_tail_stop by (assumption || lia). apply or_tail_stop; [lia|exact Hno].
Qed.

Theorem parse_ok : forall e, printable e = true -> (is_unit e = true -> Uprop e) /\ Mprop e /\ Fprop e /\ Nprop e.
Proof.
  induction e as [pop ch pa|es IH|e rs IH|n d IHn IHd| | |dm cd|k] using expr_ind'; intros Hpr.
  - (* probability *)
    cbn [printable] in Hpr. assert (Hne : ch <> []) by (destruct ch; [discriminate|discriminate]).
    pose proof (U_prob pop ch pa Hne) as HU. split; [intros _; exact HU|]. split; [apply M_of_U; [reflexivity|exact HU]|]. split; [intros n d E; discriminate|].
    unfold Nprop. rewrite pte_prob. destruct (head_first pop) as [s [t Eh]]. destruct (level2 ch pa); rewrite Eh; cbn [app not_close is_sym nunits List.length]; repeat split; lia.
  - (* product *)
    cbn [printable] in Hpr. apply andb_true_iff in Hpr. destruct Hpr as [Hne Hall]. rewrite forallb_forall in Hall. rewrite Forall_forall in IH.
    destruct es as [|u t]; [discriminate|].
    assert (HUall : forall x, In x (u :: t) -> Uprop x /\ Nprop x).
    { intros x Hx. specialize (Hall x Hx). apply andb_true_iff in Hall. destruct Hall as [Hu Hp]. destruct (IH x Hx Hp) as [HU [_ [_ HN]]]. split; [apply HU; exact Hu|exact HN]. }
    assert (Epte : pte (EProd (u :: t)) = pte u ++ flat_map (fun x => TSym "*" :: pte x) t).
    { rewrite pte_prod. cbn [map]. rewrite pjoin_chain. rewrite flat_map_concat_map, map_map, <- flat_map_concat_map. reflexivity. }
    assert (Hlen : List.length t <= List.length (flat_map (fun x => TSym "*" :: pte x) t)).
    { clear. induction t as [|a t IH]; [cbn; lia|]. cbn [flat_map List.length]. rewrite app_length. cbn [List.length]. lia. }
    split; [intros Hu; discriminate|]. split; [|split; [intros n d E; discriminate|]].
    + intros f rest Hf Hp. rewrite Epte in *. rewrite app_length in Hf. destruct f as [|f]; [lia|]. rewrite p_mul_S. norm.
      rewrite (proj1 (HUall u (or_introl eq_refl)) f); [|lia|destruct t; [exact Hp|reflexivity]].
      rewrite (chain_tail t _ f rest); [|intros x Hx; apply HUall; right; exact Hx|lia|exact Hp].
      cbn [nunits List.length ast_of map chain]. replace (S f - S (List.length t)) with (f - List.length t) by lia. reflexivity.
    + destruct (HUall u (or_introl eq_refl)) as [_ [Hc [H1 _]]]. unfold Nprop. rewrite Epte. rewrite app_length. cbn [nunits List.length].
      split; [destruct (pte u); [destruct Hc|exact Hc]|]. split; lia.
  - (* sum *)
    cbn [printable] in Hpr. destruct (IH Hpr) as [HUe [HMe [HFe HNe]]].
    assert (Hinner : good ")" (4 * List.length (sum_inner e) + 16) (sum_inner e) (ast_of e) /\ not_close ")" (sum_inner e)).
    { unfold sum_inner. destruct e; try (split; [eapply good_mono; [apply good_of_M; assumption|lia]|apply HNe]).
      split; [eapply good_mono; [apply (good_inner e1 e2 HFe)|cbn [List.length]; rewrite app_length; lia]|reflexivity]. }
    assert (HU : Uprop (ESum e rs)).
    { intros f rest Hf Hp. rewrite pte_sum in *. cbn [ast_of]. cbn [List.length] in Hf. repeat (rewrite app_length in Hf; cbn [List.length] in Hf).
      destruct f as [|[|f]]; try lia. norm. rewrite p_unary_S, p_postfix_S. rewrite post_vars by lia.
      pose proof (post_apply "(" ")" (4 * List.length (sum_inner e) + 16) [(sum_inner e, ast_of e)] (f - 1) (AIndex (AName "Sum"%string) (map var_ast (by_name_v rs))) rest) as H.
      change (map fst [(sum_inner e, ast_of e)]) with [sum_inner e] in H. change (map snd [(sum_inner e, ast_of e)]) with [ast_of e] in H.
      change (pjoin (TSym ",") [sum_inner e]) with (sum_inner e) in H. change (Ascii.eqb "(" "(") with true in H. cbv iota in H.
      cbn [app]. rewrite H.
      - apply post_tail_stop; [lia|exact Hp].
      - left; auto.
      - intros x b [E|[]]. injection E as <- <-. exact Hinner.
      - cbn [List.length]. lia. }
    split; [intros _; exact HU|]. split; [apply M_of_U; [reflexivity|exact HU]|]. split; [intros n d E; discriminate|].
    unfold Nprop. rewrite pte_sum. cbn [not_close is_sym nunits List.length]. repeat split; lia.
  - (* fraction *)
    cbn [printable] in Hpr. apply andb_true_iff in Hpr. destruct Hpr as [Hpn Hpd].
    destruct (IHn Hpn) as [_ [HMn [_ HNn]]]. destruct (IHd Hpd) as [HUd [HMd [_ HNd]]].
    pose proof (F_frac n d (conj HUd (conj HMd HNd)) (conj HMn HNn)) as HF.
    assert (HU : Uprop (EFrac n d)).
    { intros f rest Hf Hp. rewrite pte_frac in *. cbn [ast_of]. cbn [List.length] in Hf. rewrite app_length in Hf. cbn [List.length] in Hf.
      set (X := TSym "(" :: body n d ++ [TSym ")"]).
      replace ((TSym "(" :: TSym "(" :: body n d ++ [TSym ")"; TSym ")"]) ++ rest) with (TSym "(" :: X ++ TSym ")" :: rest)
        by (unfold X; norm; reflexivity).
      apply (u_paren f (4 * List.length (body n d) + 16) X); [apply good_inner; exact HF|reflexivity|lia|exact Hp]. }
    split; [intros _; exact HU|]. split; [apply M_of_U; [reflexivity|exact HU]|]. split; [exact HF|].
    unfold Nprop. rewrite pte_frac. cbn [not_close is_sym nunits List.length]. repeat split; lia.
  - (* One *)
    assert (HU : Uprop EOne).
    { intros f rest Hf Hp. change (pte EOne) with [TName "One"; TSym "("; TSym ")"] in *. cbn [List.length] in Hf. destruct f as [|[|f]]; try lia.
      cbn [app]. rewrite p_unary_S, p_postfix_S.
      pose proof (post_apply "(" ")" 1 [] f (AName "One"%string) rest) as H. cbn [map pjoin app List.length Ascii.eqb Bool.eqb] in H.
      rewrite H; [apply post_tail_stop; [lia|exact Hp]|left; auto|intros x b []|lia]. }
    split; [intros _; exact HU|]. split; [apply M_of_U; [reflexivity|exact HU]|]. split; [intros n d E; discriminate|]. unfold Nprop. cbn. repeat split; lia.
  - (* Zero *)
    assert (HU : Uprop EZero).
    { intros f rest Hf Hp. change (pte EZero) with [TName "Zero"; TSym "("; TSym ")"] in *. cbn [List.length] in Hf. destruct f as [|[|f]]; try lia.
      cbn [app]. rewrite p_unary_S, p_postfix_S.
      pose proof (post_apply "(" ")" 1 [] f (AName "Zero"%string) rest) as H. cbn [map pjoin app List.length Ascii.eqb Bool.eqb] in H.
      rewrite H; [apply post_tail_stop; [lia|exact Hp]|left; auto|intros x b []|lia]. }
    split; [intros _; exact HU|]. split; [apply M_of_U; [reflexivity|exact HU]|]. split; [intros n d E; discriminate|]. unfold Nprop. cbn. repeat split; lia.
  - (* Q factor *)
    assert (HU : Uprop (EQ dm cd)).
    { intros f rest Hf Hp. rewrite pte_q in *. cbn [ast_of]. cbn [List.length] in Hf. repeat (rewrite app_length in Hf; cbn [List.length] in Hf).
      destruct f as [|[|f]]; try lia. norm. rewrite p_unary_S, p_postfix_S. rewrite post_vars by lia. rewrite post_call_vars by lia.
      apply post_tail_stop; [lia|exact Hp]. }
    split; [intros _; exact HU|]. split; [apply M_of_U; [reflexivity|exact HU]|]. split; [intros n d E; discriminate|].
    unfold Nprop. rewrite pte_q. cbn [not_close is_sym nunits List.length]. repeat split; lia.
  - discriminate.
Qed.

(* ---------------------------------------------------------------- T2: the parser reads the printed text as the tree the printer means *)
From Y0 Require Import Proofs.TokenizeP.

Theorem parse_printed e : names_ok e = true -> printable e = true -> parse_ast (to_y0 e) = Some (ast_of e).
Proof.
  intros Hn Hp. unfold parse_ast. rewrite (tokenize_to_y0 e Hn). fold (pt (toks e)). fold (pte e).
  destruct (parse_ok e Hp) as [_ [HM [_ [_ [H1 Hk]]]]].
  replace (4 * List.length (pte e) + 8) with (S (4 * List.length (pte e) + 7)) by lia. rewrite p_or_S.
  pose proof (HM (4 * List.length (pte e) + 7) [] (le_n _) eq_refl) as H. rewrite app_nil_r in H. rewrite H.
  rewrite mul_tail_stop by (reflexivity || lia). rewrite or_tail_stop by (reflexivity || lia). reflexivity.
Qed.
