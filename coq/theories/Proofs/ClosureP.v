From Coq Require Import List Bool Arith Lia Relations.
From Y0 Require Import Base.ListSet Graph.Closure.
Import ListNotations.

Lemma filter_length_le {A} (p q : A -> bool) l :
  (forall x, In x l -> q x = true -> p x = true) -> length (filter q l) <= length (filter p l).
Proof.
  induction l as [|a t IH]; intros Hpq; simpl; [lia|].
  assert (IH' : length (filter q t) <= length (filter p t)) by (apply IH; intros; apply Hpq; simpl; auto).
  destruct (q a) eqn:Eq.
  - rewrite (Hpq a (or_introl eq_refl) Eq). simpl. lia.
  - destruct (p a); simpl; lia.
Qed.

Lemma filter_length_lt {A} (p q : A -> bool) l :
  (forall x, In x l -> q x = true -> p x = true) ->
  (exists x, In x l /\ p x = true /\ q x = false) ->
  length (filter q l) < length (filter p l).
Proof.
  induction l as [|a t IH]; intros Hpq [x [Hx [Hp Hq]]]; simpl; [destruct Hx|].
  assert (Hle : length (filter q t) <= length (filter p t)) by (apply filter_length_le; intros; apply Hpq; simpl; auto).
  destruct Hx as [->|Hx].
  - rewrite Hp, Hq. simpl. lia.
  - assert (IH' : length (filter q t) < length (filter p t)).
    { apply IH; [intros; apply Hpq; simpl; auto | exists x; auto]. }
    destruct (q a) eqn:Eq.
    + rewrite (Hpq a (or_introl eq_refl) Eq). simpl. lia.
    + destruct (p a); simpl; lia.
Qed.

Section ClosureP.
  Context {A : Type} `{EqB A}.
  Variable es : list (A * A).

  Lemma In_succs cur v : In v (succs es cur) <-> exists u, In u cur /\ In (u, v) es.
  Proof.
    unfold succs. rewrite in_map_iff. split.
    - intros [[u w] [E Hin]]. simpl in E. subst w. apply filter_In in Hin. destruct Hin as [Hin Hm].
      simpl in Hm. apply mem_In in Hm. exists u. auto.
    - intros [u [Hu He]]. exists (u, v). split; [reflexivity|]. apply filter_In. split; [exact He|].
      simpl. apply mem_In. exact Hu.
  Qed.

  Lemma In_step cur v : In v (step es cur) <-> In v cur \/ In v (succs es cur).
  Proof. unfold step, union. apply In_dedup_acc. Qed.

  Lemma stable_spec cur : stable es cur = true <-> (forall u v, In u cur -> In (u, v) es -> In v cur).
  Proof.
    unfold stable. rewrite subset_incl. unfold incl. split.
    - intros Hs u v Hu He. apply Hs. apply In_succs. exists u. auto.
    - intros Hs v Hv. apply In_succs in Hv. destruct Hv as [u [Hu He]]. eapply Hs; eauto.
  Qed.

  Definition meas (cur : list A) : nat := length (filter (fun x => negb (mem x cur)) (map snd es)).

  Lemma meas_step cur : stable es cur = false -> meas (step es cur) < meas cur.
  Proof.
    intros Hs. unfold meas. apply filter_length_lt.
    - intros x _ Hx. rewrite negb_true_iff in *. apply mem_false. apply mem_false in Hx.
      intros F. apply Hx. apply In_step. left. exact F.
    - unfold stable, subset in Hs.
      assert (Hex : exists v, In v (succs es cur) /\ mem v cur = false).
      { clear -Hs. induction (succs es cur) as [|a t IH]; simpl in Hs; [discriminate|].
        destruct (mem a cur) eqn:E.
        - simpl in Hs. destruct (IH Hs) as [v [Hv Hm]]. exists v. simpl. auto.
        - exists a. simpl. auto. }
      destruct Hex as [v [Hv Hm]]. exists v. split; [|split].
      + apply In_succs in Hv. destruct Hv as [u [_ He]]. apply in_map_iff. exists (u, v). auto.
      + rewrite Hm. reflexivity.
      + rewrite negb_false_iff. apply mem_In. apply In_step. right. exact Hv.
  Qed.

  Lemma iter_stable fuel : forall cur, meas cur <= fuel -> stable es (iter es fuel cur) = true.
  Proof.
    induction fuel as [|f IH]; intros cur Hm; simpl.
    - destruct (stable es cur) eqn:Hs; [reflexivity|]. apply meas_step in Hs. lia.
    - destruct (stable es cur) eqn:Hs; [exact Hs|]. apply IH. apply meas_step in Hs. lia.
  Qed.

  Lemma meas_le cur : meas cur <= length es.
  Proof.
    unfold meas. rewrite <- (map_length snd es). generalize (map snd es) as l.
    induction l as [|a t IH]; simpl; [lia|]. destruct (negb (mem a cur)); simpl; lia.
  Qed.

  Lemma iter_incl fuel : forall cur x, In x cur -> In x (iter es fuel cur).
  Proof.
    induction fuel as [|f IH]; intros cur x Hx; simpl; [exact Hx|].
    destruct (stable es cur); [exact Hx|]. apply IH. apply In_step. left. exact Hx.
  Qed.

  Lemma iter_sound fuel (srcs : list A) : forall cur,
    (forall y, In y cur -> exists x, In x srcs /\ reachable es x y) ->
    forall y, In y (iter es fuel cur) -> exists x, In x srcs /\ reachable es x y.
  Proof.
    induction fuel as [|f IH]; intros cur Hc y Hy; simpl in Hy; [auto|].
    destruct (stable es cur); [auto|]. eapply IH; [|exact Hy].
    intros z Hz. apply In_step in Hz. destruct Hz as [Hz|Hz]; [auto|].
    apply In_succs in Hz. destruct Hz as [u [Hu He]]. destruct (Hc u Hu) as [x [Hx Hr]].
    exists x. split; [exact Hx|]. eapply rt_trans; [exact Hr|]. apply rt_step. exact He.
  Qed.

  Lemma NoDup_iter fuel : forall cur, NoDup cur -> NoDup (iter es fuel cur).
  Proof.
    induction fuel as [|f IH]; intros cur Hn; simpl; [exact Hn|].
    destruct (stable es cur); [exact Hn|]. apply IH. unfold step, union. apply NoDup_dedup_acc. exact Hn.
  Qed.

  Theorem reach_spec (srcs : list A) y :
    In y (reach es srcs) <-> exists x, In x srcs /\ reachable es x y.
  Proof.
    unfold reach. split.
    - apply iter_sound. intros z Hz. exists z. split; [|apply rt_refl].
      unfold dedup in Hz. apply In_dedup_acc in Hz. destruct Hz as [[]|Hz]. exact Hz.
    - intros [x [Hx Hr]].
      assert (Hst : stable es (iter es (length es) (dedup srcs)) = true) by (apply iter_stable, meas_le).
      rewrite stable_spec in Hst.
      apply clos_rt_rt1n in Hr.
      assert (Hx' : In x (iter es (length es) (dedup srcs))).
      { apply iter_incl. unfold dedup. apply In_dedup_acc. right. exact Hx. }
      clear Hx. induction Hr as [x|x z y Hxz _ IH]; [exact Hx'|].
      apply IH. eapply Hst; eauto.
  Qed.

  Lemma NoDup_reach srcs : NoDup (reach es srcs).
  Proof. unfold reach. apply NoDup_iter. unfold dedup. apply NoDup_dedup_acc. constructor. Qed.

  Lemma reach_incl srcs x : In x srcs -> In x (reach es srcs).
  Proof. intros Hx. apply reach_spec. exists x. split; [exact Hx|apply rt_refl]. Qed.
End ClosureP.
