(* C05: without source domains the transport recursion and ID take the same decisions - on every valid query over a
   well-formed acyclic graph whose nodes are regular (no selection-node names), TRSO returns an estimand exactly when ID does,
   unless one of them raises. *)
From Coq Require Import List Bool Arith Lia.
From Y0 Require Import Base.ListSet Graph.Closure Graph.MixedGraph Dsl.Syntax Dsl.Build Dsl.Canon Alg.Id Alg.Trso
  Proofs.ClosureP Proofs.SurgeryP Proofs.DistrictsP Proofs.LawP Proofs.IdTotalP.
Import ListNotations.

Definition v_id (r : id_result) : option bool := match r with IdOk _ => Some true | IdUnident => Some false | IdCrash _ => None end.
Definition v_tr (r : trso_result) : option bool := match r with ROk (Some _) => Some true | ROk None => Some false | _ => None end.
(* the verdicts agree unless one side raised *)
Definition agree (a b : option bool) : Prop := a = None \/ b = None \/ a = b.

Section TrsoId.
  Variable topo : mg nat -> option (list nat).

  Record Rel (I : ident) (q : tq) : Prop := {
    r_inv : Inv I;
    r_graphs : tgraphs q = [(TARGET, ig I)];
    r_dom : tdom q = TARGET;
    r_X : tX q = itr I;
    r_Y : tY q = iout I;
    r_act : tact q = [];
    r_surr : tsurr q = [];
    r_reg : forall n, In n (nodes (ig I)) -> is_transport_node n = false }.

  Lemma v_c14n r : v_tr (c14n r) = v_tr r \/ v_tr (c14n r) = None.
  Proof. destruct r as [[e|]|k|]; cbn [c14n]; try (left; reflexivity). destruct (canon e); try (left; reflexivity). right. reflexivity. Qed.

  Lemma v_ok_expr e : v_tr (ok_expr e) = Some true \/ v_tr (ok_expr e) = None.
  Proof. destruct e; cbn; auto. Qed.

  Lemma agree_c14n r b : agree (v_tr r) b -> agree (v_tr (c14n r)) b.
  Proof. intros H. destruct (v_c14n r) as [E|E]; rewrite E; [exact H|left; reflexivity]. Qed.

  Lemma regular_all g : (forall n, In n (nodes g) -> is_transport_node n = false) -> get_regular_nodes g = nodes g.
  Proof. intros H. unfold get_regular_nodes. apply filter_all. intros n Hn. rewrite (H n Hn). reflexivity. Qed.

  Lemma districts_nonempty_inv I : Inv I -> districts (ig I) <> [].
  Proof.
    intros [Hw Ha HX HY Hne Hd]. destruct (iout I) as [|y t] eqn:EY; [congruence|].
    destruct (districts_cover (ig I) y (HY y (or_introl eq_refl))) as [D [HD _]]. intros E. rewrite E in HD. destruct HD.
  Qed.

  Lemma filter_find {T} (p : T -> bool) l x t : filter p l = x :: t -> find p l = Some x.
  Proof.
    induction l as [|a r IH]; intros E; [discriminate|]. cbn [filter find] in *. destruct (p a); [injection E as <- _; reflexivity|apply IH; exact E].
  Qed.

  Lemma find_ext {T} (p p' : T -> bool) l : (forall x, In x l -> p x = p' x) -> find p l = find p' l.
  Proof.
    induction l as [|a r IH]; intros H; [reflexivity|]. cbn [find]. rewrite (H a (or_introl eq_refl)). destruct (p' a); [reflexivity|].
    apply IH. intros x Hx. apply H. right. exact Hx.
  Qed.

  Theorem trso_id_agree : forall fuel I q, Rel I q -> agree (v_tr (trso topo fuel q)) (v_id (identify false topo fuel I)).
  Proof.
    induction fuel as [|f IH]; intros I q HR; [left; reflexivity|].
    destruct HR as [HI Hg Hd HX HY Hact Hsurr Hreg]. destruct q as [qX qY qe qact qdom qgraphs qsurr]. cbn [tX tY texpr tact tdom tgraphs tsurr] in *. subst.
    cbn [trso identify tX tY texpr tact tdom tgraphs tsurr]. unfold lookup. cbn [find fst snd option_map]. change (Nat.eqb TARGET TARGET) with true. cbv iota. cbn [option_map snd].
    set (g := ig I) in *. set (X := itr I) in *. set (Y := iout I) in *.
    destruct X as [|x0 xt] eqn:EX.
    { destruct (v_ok_expr (canon (sum_safe qe (Vs (diff (get_regular_nodes g) Y)) false))) as [E|E]; rewrite E; [right; right; reflexivity|left; reflexivity]. }
    rewrite <- EX in *. clear EX x0 xt.
    destruct (negb (ancestors_ok g Y)); [left; reflexivity|].
    rewrite (regular_all g Hreg).
    destruct (negb (is_nil (diff (nodes g) (ancestors_inclusive g Y)))) eqn:E2.
    { (* line 2 *)
      apply negb_true_iff in E2. destruct (line2_ok I HI E2) as [HI' _].
      unfold trso_line2. cbn [tgraphs tY tX texpr tact tdom tsurr forallb map fst snd].
      destruct (ancestors_ok g Y && true); [|left; reflexivity].
      match goal with |- agree (v_tr (if is_err ?e then _ else _)) _ => destruct (is_err e) eqn:Ee end.
      { match goal with |- agree (v_tr (ok_expr ?e)) _ => destruct e; try discriminate end. left. reflexivity. }
      apply agree_c14n. apply IH. constructor; cbn [tX tY texpr tact tdom tgraphs tsurr line_2 ig itr iout]; try reflexivity; [exact HI'|].
      intros n Hn. apply Hreg. destruct HI as [Hw Ha HXn HYn _ _]. apply subgraph_nodes in Hn. apply (ancestors_inclusive_nodes g Y Hw HYn). exact Hn. }
    destruct (negb (is_nil (get_no_effect_on_outcomes g X Y))) eqn:E3.
    { (* line 3 *)
      apply negb_true_iff in E3. destruct (line3_ok I HI E3) as [HI' _].
      apply agree_c14n. apply IH. constructor; cbn [tX tY texpr tact tdom tgraphs tsurr line_3 ig itr iout]; try reflexivity; [exact HI'|exact Hreg]. }
    pose proof (gwt_facts I HI) as [_ [_ [_ Hdwi]]]. fold g X in Hdwi.
    set (dwi := districts (remove_nodes_from g X)) in *.
    unfold is_connected. fold dwi.
    destruct (Nat.ltb 1 (List.length dwi)) eqn:E4.
    { (* line 4 *)
      apply Nat.ltb_lt in E4. assert (En : negb (Nat.eqb (List.length dwi) 1) = true) by (apply negb_true_iff; apply Nat.eqb_neq; lia). rewrite En.
      assert (Hconn : is_connected (remove_nodes_from (ig I) (itr I)) = false) by (unfold is_connected; fold g X dwi; apply Nat.eqb_neq; lia).
      set (rs_t := map (fun comp => trso topo f (mkTq (diff (nodes g) comp) comp qe [] TARGET [(TARGET, g)] [])) dwi).
      set (rs_i := map (identify false topo f) (line_4 I)).
      assert (Hpair : forall D, In D dwi -> agree (v_tr (trso topo f (mkTq (diff (nodes g) D) D qe [] TARGET [(TARGET, g)] [])))
                                              (v_id (identify false topo f (mkIdent g (diff (nodes g) D) D (iest I))))).
      { intros D HD. apply IH. assert (HJ : In (mkIdent g (diff (nodes g) D) D (iest I)) (line_4 I)) by (unfold line_4; fold g X dwi; apply in_map_iff; exists D; auto).
        destruct (line4_ok I _ HI Hconn HJ) as [HJ' _]. constructor; cbn [tX tY texpr tact tdom tgraphs tsurr ig itr iout]; try reflexivity; [exact HJ'|exact Hreg]. }
      assert (Hrs_i : rs_i = map (fun D => identify false topo f (mkIdent g (diff (nodes g) D) D (iest I))) dwi).
      { unfold rs_i, line_4. fold g X dwi. rewrite map_map. reflexivity. }
      set (crashed := existsb (fun r => match r with RCrash _ | RAmbiguous => true | _ => false end) rs_t).
      set (none := existsb (fun r => match r with ROk None => true | _ => false end) rs_t).
      destruct (crashed && none) eqn:Ecn; [left; reflexivity|].
      destruct crashed eqn:Ec.
      { destruct (find _ rs_t) as [c|] eqn:Ef; [|left; reflexivity]. apply find_some in Ef. destruct Ef as [_ Hc]. destruct c as [[e|]|k|]; try discriminate; left; reflexivity. }
      (* no sub-problem of TRSO raised *)
      assert (Hnc : forall D, In D dwi -> v_tr (trso topo f (mkTq (diff (nodes g) D) D qe [] TARGET [(TARGET, g)] [])) <> None).
      { intros D HD Hv. assert (Ht : crashed = true).
        { unfold crashed. apply existsb_exists. exists (trso topo f (mkTq (diff (nodes g) D) D qe [] TARGET [(TARGET, g)] [])). split; [unfold rs_t; apply in_map_iff; exists D; split; [reflexivity|exact HD]|].
          destruct (trso topo f _) as [[e|]|k|]; try discriminate; reflexivity. }
        congruence. }
      destruct (find (fun r => match r with IdCrash _ => true | _ => false end) rs_i) as [c|] eqn:Efi.
      { apply find_some in Efi. destruct Efi as [_ Hc]. destruct c; try discriminate. right. left. reflexivity. }
      (* no sub-problem of ID raised either: the verdicts of the sub-problems coincide *)
      assert (Heq : forall D, In D dwi -> v_tr (trso topo f (mkTq (diff (nodes g) D) D qe [] TARGET [(TARGET, g)] []))
                                          = v_id (identify false topo f (mkIdent g (diff (nodes g) D) D (iest I)))).
      { intros D HD. destruct (Hpair D HD) as [H|[H|H]]; [exfalso; exact (Hnc D HD H)| |exact H]. exfalso.
        pose proof (find_none _ _ Efi (identify false topo f (mkIdent g (diff (nodes g) D) D (iest I)))) as Hn.
        rewrite Hrs_i in Hn. specialize (Hn ltac:(apply in_map_iff; exists D; auto)). destruct (identify false topo f _); try discriminate. }
      cbn [andb] in Ecn.
      assert (Hnone : none = existsb (fun r => match r with IdUnident => true | _ => false end) rs_i).
      { unfold none, rs_t. rewrite Hrs_i. clear - Heq. induction dwi as [|D t IHt]; [reflexivity|]. cbn [map existsb].
        rewrite IHt by (intros D' HD'; apply Heq; right; exact HD'). f_equal. specialize (Heq D (or_introl eq_refl)).
        destruct (trso topo f _) as [[e|]|k|]; destruct (identify false topo f _); cbn in Heq; try discriminate; reflexivity. }
      rewrite <- Hnone. destruct none.
      - right. right. reflexivity.
      - match goal with |- agree (v_tr (ok_expr ?e)) _ => destruct (v_ok_expr e) as [E|E]; rewrite E end; [right; right; reflexivity|left; reflexivity]. }
    (* one district without the treatments *)
    apply Nat.ltb_ge in E4. assert (Hlen : List.length dwi = 1) by (destruct dwi as [|d0 [|d1 t]]; [congruence|reflexivity|cbn in E4; lia]).
    rewrite Hlen. cbn [Nat.eqb negb]. cbn [is_nil andb negb].
    pose proof (districts_nonempty_inv I HI) as Hds. fold g in Hds. set (ds := districts g) in *.
    destruct (Nat.leb (List.length ds) 1) eqn:E5.
    { apply Nat.leb_le in E5. assert (Hl1 : List.length ds = 1) by (destruct ds as [|a [|b t]]; [congruence|reflexivity|cbn in E5; lia]).
      rewrite Hl1. cbn [Nat.eqb]. right. right. reflexivity. }
    apply Nat.leb_gt in E5. assert (Hn1 : Nat.eqb (List.length ds) 1 = false) by (apply Nat.eqb_neq; lia). rewrite Hn1.
    destruct dwi as [|S0 [|S1 t]] eqn:Edwi; try (cbn in Hlen; lia).
    destruct (existsb (set_eqb S0) ds) eqn:Eex.
    { (* line 9 / line 6 *)
      unfold with_order, trso_line9, with_topo. cbn [texpr tY].
      destruct (is_zero qe); [apply agree_c14n; left; reflexivity|].
      destruct (topo g) as [o|]; [|apply agree_c14n; left; reflexivity].
      destruct (is_topo g o); [|apply agree_c14n; left; reflexivity].
      apply agree_c14n. match goal with |- agree (v_tr (ok_expr ?e)) _ => destruct (v_ok_expr e) as [E|E]; rewrite E end; [right; right; reflexivity|left; reflexivity]. }
    (* line 10 / line 7 *)
    assert (Hconn5 : is_connected (ig I) = false) by (unfold is_connected; fold g ds; exact Hn1).
    assert (HS0 : districts (remove_nodes_from (ig I) (itr I)) = [S0]) by (fold g X; exact Edwi).
    assert (Hpred : forall D, In D ds -> (subset S0 D && negb (subset D S0)) = subset S0 D).
    { intros D HD. destruct (subset S0 D) eqn:Es; [|reflexivity]. cbn [andb]. destruct (subset D S0) eqn:Es'; [|reflexivity].
      exfalso. assert (existsb (set_eqb S0) ds = true) by (apply existsb_exists; exists D; split; [exact HD|unfold set_eqb; rewrite Es, Es'; reflexivity]). congruence. }
    rewrite (find_ext _ (fun D => subset S0 D) ds Hpred).
    destruct (filter (fun d => subset S0 d) ds) as [|td [|td2 tt]] eqn:Ef; try (left; reflexivity).
    rewrite (filter_find _ _ _ _ Ef).
    unfold with_topo, with_order. destruct (topo g) as [o|]; [|left; reflexivity]. destruct (is_topo g o); [|left; reflexivity].
    apply agree_c14n. apply IH.
    assert (Hfind : find (fun D => subset S0 D && negb (subset D S0)) (districts (ig I)) = Some td).
    { fold g ds. rewrite (find_ext _ (fun D => subset S0 D) ds Hpred). exact (filter_find _ _ _ _ Ef). }
    destruct (line7_ok I S0 td (prod_safe (map (fun v => p_parents false v o (iest I)) td)) HI HS0 Hconn5 Hfind) as [HI' _].
    unfold trso_line10. constructor; cbn [tX tY texpr tact tdom tgraphs tsurr ig itr iout]; try reflexivity; [exact HI'|].
    intros n Hn. apply Hreg. apply subgraph_nodes in Hn. destruct HI as [Hw _ _ _ _ _].
    apply (districts_within_nodes g td Hw); [|exact Hn]. assert (Hin : In td (filter (fun d => subset S0 d) ds)) by (rewrite Ef; left; reflexivity). apply filter_In in Hin. apply Hin.
  Qed.
End TrsoId.

(* the public entry points, on a query without source domains *)
Section Entry.
  Variable topo : mg nat -> option (list nat).

  Theorem trso_agrees_with_id_without_domains (g : mg nat) X Y :
    wf g -> acyclicP g -> incl X (nodes g) -> incl Y (nodes g) -> Y <> [] -> (forall v, In v X -> ~ In v Y) ->
    (forall n, In n (nodes g) -> is_transport_node n = false) ->
    agree (v_tr (identify_target_outcomes topo g Y X [])) (v_id (identify_outcomes false topo g X Y)).
  Proof.
    intros Hw Ha HX HY Hne Hd Hreg. unfold identify_target_outcomes, identify_outcomes. cbn [flat_map fold_left].
    destruct (negb (subset Y (nodes g) && subset X (nodes g) && subset [] (nodes g))); [left; reflexivity|].
    destruct (negb (is_nil (inter Y X))); [left; reflexivity|].
    apply trso_id_agree. constructor; cbn [tX tY texpr tact tdom tgraphs tsurr ig itr iout]; try reflexivity; [|exact Hreg].
    constructor; cbn [ig itr iout]; assumption.
  Qed.

  (* with a valid topological-order oracle ID never raises: TRSO then raises or gives ID's verdict *)
  Hypothesis topo_ok : forall h, wf h -> acyclicP h -> exists o, topo h = Some o /\ is_topo h o = true.

  Theorem trso_verdict_is_ids_verdict (g : mg nat) X Y :
    wf g -> acyclicP g -> incl X (nodes g) -> incl Y (nodes g) -> Y <> [] -> (forall v, In v X -> ~ In v Y) ->
    (forall n, In n (nodes g) -> is_transport_node n = false) ->
    v_tr (identify_target_outcomes topo g Y X []) = None \/
    v_tr (identify_target_outcomes topo g Y X []) = v_id (identify_outcomes false topo g X Y).
  Proof.
    intros Hw Ha HX HY Hne Hd Hreg.
    pose proof (identify_outcomes_total topo topo_ok g X Y Hw Ha HX HY Hne Hd) as Hnc.
    destruct (trso_agrees_with_id_without_domains g X Y Hw Ha HX HY Hne Hd Hreg) as [H|[H|H]]; [left; exact H| |right; exact H].
    exfalso. destruct (identify_outcomes false topo g X Y); try discriminate. exact Hnc.
  Qed.
End Entry.
